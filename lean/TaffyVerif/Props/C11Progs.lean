/-
  C11 — absolutely positioned boxes satisfy the inset/margin/size equation — LIFTED TO THE WHOLE PROGRAMS.

  Props/C11.lean proves the equations about the three separately transliterated loop bodies `AbsPos.absBlock`,
  `AbsPos.absFlex`, `AbsPos.absGrid`.  Here they are proved about the layouts the three container PROGRAMS really hand to
  `set_unrounded_layout` (`BlockModel.computeBlockLayout`, `FlexModel.computeFlexboxLayout`, `GridModel.computeGridLayout`),
  in every PerformLayout run, i.e. against EVERY family of children `orc : child → query → answer`
  (`Lift.lays orc p` = the `(child, layout)` pairs the run sets, `Lift.res orc p` = the run's output; both are projections of
  `C04.runO`).

  For X ∈ {block, flex, grid}:
    X_program_abs_layout        every layout set for an absolutely positioned, box-generating child `i` is
                                `AbsPos.absX (XCallSite … (output size) …) st (fun _ => orc i q)` for some query `q`
                                (the query the program sends): C11's component IS what the program runs, at the call site
                                C11 assumes, and the child answer that enters is the child's real answer
    X_program_abs_equations     hence the start-inset / end-inset / stretch-size equations (block: also the auto-margin
                                ones) of Model/AbsPosSpec.lean w.r.t. the padding box of the container's reported layout
                                `C` (`C.size` = the run's output size): `Spec.failures … = []` on both axes
    X_program_{start,end}_inset_eq_{x,y}, X_program_stretch_size_eq_{x,y}   the same, written out

  Hypotheses: `inp.runMode = .performLayout`; `C.size` is the output size and `C`'s border/scrollbar are the container's
  (`BlockReported` / `ParentReported`, as in Props/C11.lean); no hypothesis on the oracle.
  Block: the static position the in-flow pass computed replaces `blockCallSite`'s (content-box corner); it enters the
  location only on an axis without insets, where C11 says nothing (`block_failures_static`).
  Grid: non-panicking runs (`computeGridLayoutE` returns `.ok out`; after a panic the Rust has no output at all), children
  with `grid-row`/`grid-column` `auto / auto` (`Lift.AutoPlaced`: their grid area is the padding box; a child with definite
  lines is positioned against those lines), and C11's known side condition (padding box of non-negative extent for the
  end-inset equation) stays: it is inside `Spec.endOk true`.
-/
import TaffyVerif.Lemmas.LiftBlockAbs
import TaffyVerif.Lemmas.LiftFlexAbs
import TaffyVerif.Lemmas.LiftGridAbs
import TaffyVerif.Lemmas.EvalGridSort
import TaffyVerif.Props.C11

set_option linter.unusedSectionVars false
set_option linter.unusedVariables false

namespace C11Progs
open Lift AbsPos C11

/-! ## block -/

section block
variable (orc : Orc) (style : Style Rat) (cs : List (Style Rat)) (inp : LayoutInput Rat)

/-- **block_program_abs_layout** -/
theorem block_program_abs_layout (h : inp.runMode = .performLayout)
    (x : Nat × Layout Rat) (hx : x ∈ lays orc (BlockModel.computeBlockLayout style cs inp))
    (st : Style Rat) (hst : cs[x.1]? = some st) (hvis : st.isHidden = false) (habs : st.position = .absolute) :
    ∃ (sp : Point Rat) (ord : Nat) (q : LayoutInput Rat),
      x.2 = absBlock
        { blockCallSite style (res orc (BlockModel.computeBlockLayout style cs inp)).size ord with staticPosition := sp }
        st (fun _ => orc x.1 q) :=
  blockRun_abs orc style cs inp h x hx st hst hvis habs

/-- the static position enters the location only on an axis without insets, where none of the C11 predicates looks -/
theorem block_failures_static_x (C : Layout Rat) (a : BlockArgs Rat) (sp : Point Rat) (st : Style Rat) (o : Oracle Rat) :
    Spec.failures true false 0 (Spec.blockFactsX C (blockResolve a st) st.aspectRatio)
        (Spec.obsX (absBlock { a with staticPosition := sp } st o)) =
      Spec.failures true false 0 (Spec.blockFactsX C (blockResolve a st) st.aspectRatio) (Spec.obsX (absBlock a st o)) := by
  cases hl : (blockResolve a st).left with
  | some l =>
    have e : Spec.obsX (absBlock { a with staticPosition := sp } st o) = Spec.obsX (absBlock a st o) := by
      simp only [Spec.obsX, absBlock, blockLocation]
      rw [show (blockResolve { a with staticPosition := sp } st) = blockResolve a st from rfl, hl]
      rfl
    rw [e]
  | none =>
    cases hr : (blockResolve a st).right with
    | some r =>
      have e : Spec.obsX (absBlock { a with staticPosition := sp } st o) = Spec.obsX (absBlock a st o) := by
        simp only [Spec.obsX, absBlock, blockLocation]
        rw [show (blockResolve { a with staticPosition := sp } st) = blockResolve a st from rfl, hl, hr]
        rfl
      rw [e]
    | none =>
      simp only [Spec.failures, Spec.startOk, Spec.endOk, Spec.stretchOk, Spec.autoMarginOk, Spec.splitPartialOk,
        Spec.blockFactsX, hl, hr]

theorem block_failures_static_y (C : Layout Rat) (a : BlockArgs Rat) (sp : Point Rat) (st : Style Rat) (o : Oracle Rat) :
    Spec.failures true false 0 (Spec.blockFactsY C (blockResolve a st) st.aspectRatio)
        (Spec.obsY (absBlock { a with staticPosition := sp } st o)) =
      Spec.failures true false 0 (Spec.blockFactsY C (blockResolve a st) st.aspectRatio) (Spec.obsY (absBlock a st o)) := by
  cases hl : (blockResolve a st).top with
  | some l =>
    have e : Spec.obsY (absBlock { a with staticPosition := sp } st o) = Spec.obsY (absBlock a st o) := by
      simp only [Spec.obsY, absBlock, blockLocation]
      rw [show (blockResolve { a with staticPosition := sp } st) = blockResolve a st from rfl, hl]
      rfl
    rw [e]
  | none =>
    cases hr : (blockResolve a st).bottom with
    | some r =>
      have e : Spec.obsY (absBlock { a with staticPosition := sp } st o) = Spec.obsY (absBlock a st o) := by
        simp only [Spec.obsY, absBlock, blockLocation]
        rw [show (blockResolve { a with staticPosition := sp } st) = blockResolve a st from rfl, hl, hr]
        rfl
      rw [e]
    | none =>
      simp only [Spec.failures, Spec.startOk, Spec.endOk, Spec.stretchOk, Spec.autoMarginOk, Spec.splitPartialOk,
        Spec.blockFactsY, hl, hr]

/-- **block_program_abs_equations**: in a PerformLayout run of the block program, the layout set for every absolutely
positioned child satisfies all the C11 predicates (start inset, end inset, stretch size, single auto margin, two auto
margins) w.r.t. the padding box of the container's reported layout `C` -/
theorem block_program_abs_equations (h : inp.runMode = .performLayout) (C : Layout Rat)
    (hsz : C.size = (res orc (BlockModel.computeBlockLayout style cs inp)).size) (hC : BlockReported style C)
    (x : Nat × Layout Rat) (hx : x ∈ lays orc (BlockModel.computeBlockLayout style cs inp))
    (st : Style Rat) (hst : cs[x.1]? = some st) (hvis : st.isHidden = false) (habs : st.position = .absolute) :
    Spec.failures true false 0 (Spec.blockFactsX C (blockResolve (blockCallSite style C.size 0) st) st.aspectRatio)
        (Spec.obsX x.2) = [] ∧
    Spec.failures true false 0 (Spec.blockFactsY C (blockResolve (blockCallSite style C.size 0) st) st.aspectRatio)
        (Spec.obsY x.2) = [] := by
  obtain ⟨sp, ord, q, hL⟩ := block_program_abs_layout orc style cs inp h x hx st hst hvis habs
  rw [← hsz] at hL
  obtain ⟨h1, h2⟩ := block_monitor_sound style st C ord (fun _ => orc x.1 q) hC
  rw [hL]
  exact ⟨(block_failures_static_x C (blockCallSite style C.size ord) sp st _).trans h1,
    (block_failures_static_y C (blockCallSite style C.size ord) sp st _).trans h2⟩

/-- the observed main quantities of an axis do not depend on the static position when an inset is set on it -/
theorem block_obsX_static (a : BlockArgs Rat) (sp : Point Rat) (st : Style Rat) (o : Oracle Rat)
    (h : (blockResolve a st).left ≠ none ∨ (blockResolve a st).right ≠ none) :
    Spec.obsX (absBlock { a with staticPosition := sp } st o) = Spec.obsX (absBlock a st o) := by
  cases hl : (blockResolve a st).left with
  | some l =>
    simp only [Spec.obsX, absBlock, blockLocation]
    rw [show (blockResolve { a with staticPosition := sp } st) = blockResolve a st from rfl, hl]
    rfl
  | none =>
    cases hr : (blockResolve a st).right with
    | some r =>
      simp only [Spec.obsX, absBlock, blockLocation]
      rw [show (blockResolve { a with staticPosition := sp } st) = blockResolve a st from rfl, hl, hr]
      rfl
    | none => rcases h with h | h <;> contradiction

theorem block_obsY_static (a : BlockArgs Rat) (sp : Point Rat) (st : Style Rat) (o : Oracle Rat)
    (h : (blockResolve a st).top ≠ none ∨ (blockResolve a st).bottom ≠ none) :
    Spec.obsY (absBlock { a with staticPosition := sp } st o) = Spec.obsY (absBlock a st o) := by
  cases hl : (blockResolve a st).top with
  | some l =>
    simp only [Spec.obsY, absBlock, blockLocation]
    rw [show (blockResolve { a with staticPosition := sp } st) = blockResolve a st from rfl, hl]
    rfl
  | none =>
    cases hr : (blockResolve a st).bottom with
    | some r =>
      simp only [Spec.obsY, absBlock, blockLocation]
      rw [show (blockResolve { a with staticPosition := sp } st) = blockResolve a st from rfl, hl, hr]
      rfl
    | none => rcases h with h | h <;> contradiction

/-- **start_inset_eq** for the block program (x) -/
theorem block_program_start_inset_eq_x (h : inp.runMode = .performLayout) (C : Layout Rat)
    (hsz : C.size = (res orc (BlockModel.computeBlockLayout style cs inp)).size) (hC : BlockReported style C)
    (x : Nat × Layout Rat) (hx : x ∈ lays orc (BlockModel.computeBlockLayout style cs inp))
    (st : Style Rat) (hst : cs[x.1]? = some st) (hvis : st.isHidden = false) (habs : st.position = .absolute)
    {l : Rat} (hl : st.inset.left.maybeResolve (some (Reported.padW C)) = some l) :
    x.2.location.x - x.2.margin.left = Reported.padStartX C + l := by
  obtain ⟨sp, ord, q, hL⟩ := block_program_abs_layout orc style cs inp h x hx st hst hvis habs
  rw [← hsz] at hL
  have hr : (blockResolve (blockCallSite style C.size ord) st).left = some l := by
    show st.inset.left.maybeResolve (some (blockCallSite style C.size ord).areaSize.width) = some l
    rw [(blockCallSite_area hC ord).1]; exact hl
  have e := block_obsX_static (blockCallSite style C.size ord) sp st (fun _ => orc x.1 q) (Or.inl (by rw [hr]; simp))
  have := block_start_inset_eq_x style st C ord (fun _ => orc x.1 q) hC hl
  have e1 := congrArg Spec.AxisObs.loc e
  have e2 := congrArg Spec.AxisObs.mStart e
  simp only [Spec.obsX] at e1 e2
  rw [hL, e1, e2]
  exact this

/-- **end_inset_eq** for the block program (x) -/
theorem block_program_end_inset_eq_x (h : inp.runMode = .performLayout) (C : Layout Rat)
    (hsz : C.size = (res orc (BlockModel.computeBlockLayout style cs inp)).size) (hC : BlockReported style C)
    (x : Nat × Layout Rat) (hx : x ∈ lays orc (BlockModel.computeBlockLayout style cs inp))
    (st : Style Rat) (hst : cs[x.1]? = some st) (hvis : st.isHidden = false) (habs : st.position = .absolute)
    {e : Rat} (hl : st.inset.left = .auto) (he : st.inset.right.maybeResolve (some (Reported.padW C)) = some e) :
    Reported.padEndX C - e = x.2.location.x + x.2.size.width + x.2.margin.right := by
  obtain ⟨sp, ord, q, hL⟩ := block_program_abs_layout orc style cs inp h x hx st hst hvis habs
  rw [← hsz] at hL
  have hr : (blockResolve (blockCallSite style C.size ord) st).right = some e := by
    show st.inset.right.maybeResolve (some (blockCallSite style C.size ord).areaSize.width) = some e
    rw [(blockCallSite_area hC ord).1]; exact he
  have e' := block_obsX_static (blockCallSite style C.size ord) sp st (fun _ => orc x.1 q) (Or.inr (by rw [hr]; simp))
  have := block_end_inset_eq_x style st C ord (fun _ => orc x.1 q) hC hl he
  have e1 := congrArg Spec.AxisObs.loc e'
  have e2 := congrArg Spec.AxisObs.size e'
  have e3 := congrArg Spec.AxisObs.mEnd e'
  simp only [Spec.obsX] at e1 e2 e3
  rw [hL, e1, e2, e3]
  exact this

/-- **start_inset_eq** / **end_inset_eq** for the block program (y) -/
theorem block_program_start_inset_eq_y (h : inp.runMode = .performLayout) (C : Layout Rat)
    (hsz : C.size = (res orc (BlockModel.computeBlockLayout style cs inp)).size) (hC : BlockReported style C)
    (x : Nat × Layout Rat) (hx : x ∈ lays orc (BlockModel.computeBlockLayout style cs inp))
    (st : Style Rat) (hst : cs[x.1]? = some st) (hvis : st.isHidden = false) (habs : st.position = .absolute)
    {t : Rat} (ht : st.inset.top.maybeResolve (some (Reported.padH C)) = some t) :
    x.2.location.y - x.2.margin.top = Reported.padStartY C + t := by
  obtain ⟨sp, ord, q, hL⟩ := block_program_abs_layout orc style cs inp h x hx st hst hvis habs
  rw [← hsz] at hL
  have hr : (blockResolve (blockCallSite style C.size ord) st).top = some t := by
    show st.inset.top.maybeResolve (some (blockCallSite style C.size ord).areaSize.height) = some t
    rw [(blockCallSite_area hC ord).2.1]; exact ht
  have e := block_obsY_static (blockCallSite style C.size ord) sp st (fun _ => orc x.1 q) (Or.inl (by rw [hr]; simp))
  have := block_start_inset_eq_y style st C ord (fun _ => orc x.1 q) hC ht
  have e1 := congrArg Spec.AxisObs.loc e
  have e2 := congrArg Spec.AxisObs.mStart e
  simp only [Spec.obsY] at e1 e2
  rw [hL, e1, e2]
  exact this

theorem block_program_end_inset_eq_y (h : inp.runMode = .performLayout) (C : Layout Rat)
    (hsz : C.size = (res orc (BlockModel.computeBlockLayout style cs inp)).size) (hC : BlockReported style C)
    (x : Nat × Layout Rat) (hx : x ∈ lays orc (BlockModel.computeBlockLayout style cs inp))
    (st : Style Rat) (hst : cs[x.1]? = some st) (hvis : st.isHidden = false) (habs : st.position = .absolute)
    {e : Rat} (ht : st.inset.top = .auto) (he : st.inset.bottom.maybeResolve (some (Reported.padH C)) = some e) :
    Reported.padEndY C - e = x.2.location.y + x.2.size.height + x.2.margin.bottom := by
  obtain ⟨sp, ord, q, hL⟩ := block_program_abs_layout orc style cs inp h x hx st hst hvis habs
  rw [← hsz] at hL
  have hr : (blockResolve (blockCallSite style C.size ord) st).bottom = some e := by
    show st.inset.bottom.maybeResolve (some (blockCallSite style C.size ord).areaSize.height) = some e
    rw [(blockCallSite_area hC ord).2.1]; exact he
  have e' := block_obsY_static (blockCallSite style C.size ord) sp st (fun _ => orc x.1 q) (Or.inr (by rw [hr]; simp))
  have := block_end_inset_eq_y style st C ord (fun _ => orc x.1 q) hC ht he
  have e1 := congrArg Spec.AxisObs.loc e'
  have e2 := congrArg Spec.AxisObs.size e'
  have e3 := congrArg Spec.AxisObs.mEnd e'
  simp only [Spec.obsY] at e1 e2 e3
  rw [hL, e1, e2, e3]
  exact this

/-- **stretch_size_eq** for the block program (x): no child answer enters -/
theorem block_program_stretch_size_eq_x (h : inp.runMode = .performLayout) (C : Layout Rat)
    (hsz : C.size = (res orc (BlockModel.computeBlockLayout style cs inp)).size) (hC : BlockReported style C)
    (x : Nat × Layout Rat) (hx : x ∈ lays orc (BlockModel.computeBlockLayout style cs inp))
    (st : Style Rat) (hst : cs[x.1]? = some st) (hvis : st.isHidden = false) (habs : st.position = .absolute)
    {l e ml mr : Rat}
    (hl : st.inset.left.maybeResolve (some (Reported.padW C)) = some l)
    (he : st.inset.right.maybeResolve (some (Reported.padW C)) = some e)
    (hml : st.margin.left.resolveToOption (Reported.padW C) = some ml)
    (hmr : st.margin.right.resolveToOption (Reported.padW C) = some mr)
    (hsize : st.size.width = .auto) (har : st.aspectRatio = none) :
    x.2.size.width =
      MaybeMath.fo_clamp (max (Reported.padW C - ml - mr - l - e) 0)
        (blockResolve (blockCallSite style C.size 0) st).minSize.width
        (blockResolve (blockCallSite style C.size 0) st).maxSize.width := by
  obtain ⟨sp, ord, q, hL⟩ := block_program_abs_layout orc style cs inp h x hx st hst hvis habs
  rw [← hsz] at hL
  rw [hL]
  exact block_stretch_size_eq_x style st C ord (fun _ => orc x.1 q) hC hl he hml hmr hsize har

theorem block_program_stretch_size_eq_y (h : inp.runMode = .performLayout) (C : Layout Rat)
    (hsz : C.size = (res orc (BlockModel.computeBlockLayout style cs inp)).size) (hC : BlockReported style C)
    (x : Nat × Layout Rat) (hx : x ∈ lays orc (BlockModel.computeBlockLayout style cs inp))
    (st : Style Rat) (hst : cs[x.1]? = some st) (hvis : st.isHidden = false) (habs : st.position = .absolute)
    {t b mt mb : Rat}
    (ht : st.inset.top.maybeResolve (some (Reported.padH C)) = some t)
    (hb : st.inset.bottom.maybeResolve (some (Reported.padH C)) = some b)
    (hmt : st.margin.top.resolveToOption (Reported.padW C) = some mt)
    (hmb : st.margin.bottom.resolveToOption (Reported.padW C) = some mb)
    (hsize : st.size.height = .auto) (har : st.aspectRatio = none) :
    x.2.size.height =
      MaybeMath.fo_clamp (max (Reported.padH C - mt - mb - t - b) 0)
        (blockResolve (blockCallSite style C.size 0) st).minSize.height
        (blockResolve (blockCallSite style C.size 0) st).maxSize.height := by
  obtain ⟨sp, ord, q, hL⟩ := block_program_abs_layout orc style cs inp h x hx st hst hvis habs
  rw [← hsz] at hL
  rw [hL]
  exact block_stretch_size_eq_y style st C ord (fun _ => orc x.1 q) hC ht hb hmt hmb hsize har

end block

/-! ## flex -/

section flex
variable (orc : Orc) (style : Style Rat) (cs : List (Style Rat)) (inp : LayoutInput Rat)

/-- **flex_program_abs_layout** (`kd`: the known dimensions of the call site; `absFlex` does not depend on them beyond the
child query, which is the program's own here) -/
theorem flex_program_abs_layout (h : inp.runMode = .performLayout)
    (x : Nat × Layout Rat) (hx : x ∈ lays orc (FlexModel.computeFlexboxLayout style cs inp))
    (st : Style Rat) (hst : cs[x.1]? = some st) (hvis : st.isHidden = false) (habs : st.position = .absolute)
    (kd : Size (Option Rat)) :
    ∃ q : LayoutInput Rat,
      x.2 = absFlex (flexCallSite style inp.parentSize kd (res orc (FlexModel.computeFlexboxLayout style cs inp)).size x.1)
        st (fun _ => orc x.1 q) :=
  flexRun_abs orc style cs inp h x hx st hst hvis habs kd

/-- **flex_program_abs_equations** -/
theorem flex_program_abs_equations (h : inp.runMode = .performLayout) (C : Layout Rat)
    (hsz : C.size = (res orc (FlexModel.computeFlexboxLayout style cs inp)).size)
    (hC : ParentReported style inp.parentSize C)
    (x : Nat × Layout Rat) (hx : x ∈ lays orc (FlexModel.computeFlexboxLayout style cs inp))
    (st : Style Rat) (hst : cs[x.1]? = some st) (hvis : st.isHidden = false) (habs : st.position = .absolute)
    (kd : Size (Option Rat)) :
    Spec.failures false false 0
        (Spec.flexFactsX C (flexResolve (flexCallSite style inp.parentSize kd C.size x.1) st) st.aspectRatio)
        (Spec.obsX x.2) = [] ∧
    Spec.failures false false 0
        (Spec.flexFactsY C (flexResolve (flexCallSite style inp.parentSize kd C.size x.1) st) st.aspectRatio)
        (Spec.obsY x.2) = [] := by
  obtain ⟨q, hL⟩ := flex_program_abs_layout orc style cs inp h x hx st hst hvis habs kd
  rw [← hsz] at hL
  rw [hL]
  exact flex_monitor_sound style st inp.parentSize kd C x.1 (fun _ => orc x.1 q) hC

/-- **start_inset_eq** for the flex program (x) -/
theorem flex_program_start_inset_eq_x (h : inp.runMode = .performLayout) (C : Layout Rat)
    (hsz : C.size = (res orc (FlexModel.computeFlexboxLayout style cs inp)).size)
    (hC : ParentReported style inp.parentSize C)
    (x : Nat × Layout Rat) (hx : x ∈ lays orc (FlexModel.computeFlexboxLayout style cs inp))
    (st : Style Rat) (hst : cs[x.1]? = some st) (hvis : st.isHidden = false) (habs : st.position = .absolute)
    {l : Rat} (hl : st.inset.left.maybeResolve (some (Reported.padW C)) = some l) :
    x.2.location.x - x.2.margin.left = Reported.padStartX C + l := by
  obtain ⟨q, hL⟩ := flex_program_abs_layout orc style cs inp h x hx st hst hvis habs Size.none
  rw [← hsz] at hL
  rw [hL]
  exact flex_start_inset_eq_x style st inp.parentSize Size.none C x.1 _ hC hl

theorem flex_program_start_inset_eq_y (h : inp.runMode = .performLayout) (C : Layout Rat)
    (hsz : C.size = (res orc (FlexModel.computeFlexboxLayout style cs inp)).size)
    (hC : ParentReported style inp.parentSize C)
    (x : Nat × Layout Rat) (hx : x ∈ lays orc (FlexModel.computeFlexboxLayout style cs inp))
    (st : Style Rat) (hst : cs[x.1]? = some st) (hvis : st.isHidden = false) (habs : st.position = .absolute)
    {t : Rat} (ht : st.inset.top.maybeResolve (some (Reported.padH C)) = some t) :
    x.2.location.y - x.2.margin.top = Reported.padStartY C + t := by
  obtain ⟨q, hL⟩ := flex_program_abs_layout orc style cs inp h x hx st hst hvis habs Size.none
  rw [← hsz] at hL
  rw [hL]
  exact flex_start_inset_eq_y style st inp.parentSize Size.none C x.1 _ hC ht

/-- **end_inset_eq** for the flex program (x) -/
theorem flex_program_end_inset_eq_x (h : inp.runMode = .performLayout) (C : Layout Rat)
    (hsz : C.size = (res orc (FlexModel.computeFlexboxLayout style cs inp)).size)
    (hC : ParentReported style inp.parentSize C)
    (x : Nat × Layout Rat) (hx : x ∈ lays orc (FlexModel.computeFlexboxLayout style cs inp))
    (st : Style Rat) (hst : cs[x.1]? = some st) (hvis : st.isHidden = false) (habs : st.position = .absolute)
    {e : Rat} (hl : st.inset.left = .auto) (he : st.inset.right.maybeResolve (some (Reported.padW C)) = some e) :
    Reported.padEndX C - e = x.2.location.x + x.2.size.width + x.2.margin.right := by
  obtain ⟨q, hL⟩ := flex_program_abs_layout orc style cs inp h x hx st hst hvis habs Size.none
  rw [← hsz] at hL
  rw [hL]
  exact flex_end_inset_eq_x style st inp.parentSize Size.none C x.1 _ hC hl he

theorem flex_program_end_inset_eq_y (h : inp.runMode = .performLayout) (C : Layout Rat)
    (hsz : C.size = (res orc (FlexModel.computeFlexboxLayout style cs inp)).size)
    (hC : ParentReported style inp.parentSize C)
    (x : Nat × Layout Rat) (hx : x ∈ lays orc (FlexModel.computeFlexboxLayout style cs inp))
    (st : Style Rat) (hst : cs[x.1]? = some st) (hvis : st.isHidden = false) (habs : st.position = .absolute)
    {e : Rat} (ht : st.inset.top = .auto) (he : st.inset.bottom.maybeResolve (some (Reported.padH C)) = some e) :
    Reported.padEndY C - e = x.2.location.y + x.2.size.height + x.2.margin.bottom := by
  obtain ⟨q, hL⟩ := flex_program_abs_layout orc style cs inp h x hx st hst hvis habs Size.none
  rw [← hsz] at hL
  rw [hL]
  exact flex_end_inset_eq_y style st inp.parentSize Size.none C x.1 _ hC ht he

/-- **stretch_size_eq** for the flex program (x): the size is the padding-box width minus insets and margins, floored at 0,
clamped by the child's resolved min/max width — no child answer enters -/
theorem flex_program_stretch_size_eq_x (h : inp.runMode = .performLayout) (C : Layout Rat)
    (hsz : C.size = (res orc (FlexModel.computeFlexboxLayout style cs inp)).size)
    (hC : ParentReported style inp.parentSize C)
    (x : Nat × Layout Rat) (hx : x ∈ lays orc (FlexModel.computeFlexboxLayout style cs inp))
    (st : Style Rat) (hst : cs[x.1]? = some st) (hvis : st.isHidden = false) (habs : st.position = .absolute)
    {l e ml mr : Rat}
    (hl : st.inset.left.maybeResolve (some (Reported.padW C)) = some l)
    (he : st.inset.right.maybeResolve (some (Reported.padW C)) = some e)
    (hml : st.margin.left.resolveToOption (Reported.padW C) = some ml)
    (hmr : st.margin.right.resolveToOption (Reported.padW C) = some mr)
    (hsize : st.size.width = .auto) (har : st.aspectRatio = none) :
    x.2.size.width =
      MaybeMath.fo_clamp (max (Reported.padW C - ml - mr - l - e) 0)
        (flexResolve (flexCallSite style inp.parentSize Size.none C.size x.1) st).minSize.width
        (flexResolve (flexCallSite style inp.parentSize Size.none C.size x.1) st).maxSize.width := by
  obtain ⟨q, hL⟩ := flex_program_abs_layout orc style cs inp h x hx st hst hvis habs Size.none
  rw [← hsz] at hL
  rw [hL]
  exact flex_stretch_size_eq_x style st inp.parentSize Size.none C x.1 _ hC hl he hml hmr hsize har

theorem flex_program_stretch_size_eq_y (h : inp.runMode = .performLayout) (C : Layout Rat)
    (hsz : C.size = (res orc (FlexModel.computeFlexboxLayout style cs inp)).size)
    (hC : ParentReported style inp.parentSize C)
    (x : Nat × Layout Rat) (hx : x ∈ lays orc (FlexModel.computeFlexboxLayout style cs inp))
    (st : Style Rat) (hst : cs[x.1]? = some st) (hvis : st.isHidden = false) (habs : st.position = .absolute)
    {t b mt mb : Rat}
    (ht : st.inset.top.maybeResolve (some (Reported.padH C)) = some t)
    (hb : st.inset.bottom.maybeResolve (some (Reported.padH C)) = some b)
    (hmt : st.margin.top.resolveToOption (Reported.padW C) = some mt)
    (hmb : st.margin.bottom.resolveToOption (Reported.padW C) = some mb)
    (hsize : st.size.height = .auto) (har : st.aspectRatio = none) :
    x.2.size.height =
      MaybeMath.fo_clamp (max (Reported.padH C - mt - mb - t - b) 0)
        (flexResolve (flexCallSite style inp.parentSize Size.none C.size x.1) st).minSize.height
        (flexResolve (flexCallSite style inp.parentSize Size.none C.size x.1) st).maxSize.height := by
  obtain ⟨q, hL⟩ := flex_program_abs_layout orc style cs inp h x hx st hst hvis habs Size.none
  rw [← hsz] at hL
  rw [hL]
  exact flex_stretch_size_eq_y style st inp.parentSize Size.none C x.1 _ hC ht hb hmt hmb hsize har

end flex

/-! ## grid -/

section grid
open GridModel EvalGrid
variable (orc : Orc) (style : GridStyle Rat) (cs : List (GridChildStyle Rat)) (inp : LayoutInput Rat)

/-- **grid_program_abs_layout** (non-panicking runs; `auto / auto` children) -/
theorem grid_program_abs_layout (h : inp.runMode = .performLayout) (out : LayoutOutput Rat)
    (hok : res orc (run (computeGridLayoutE style cs inp)) = .ok out)
    (x : Nat × Layout Rat) (hx : x ∈ lays orc (computeGridLayout style cs inp))
    (st : GridChildStyle Rat) (hst : cs[x.1]? = some st) (hvis : st.base.isHidden = false)
    (habs : st.base.position = .absolute) (ha : AutoPlaced st) :
    res orc (computeGridLayout style cs inp) = out ∧
    ∃ (ord : Nat) (q : LayoutInput Rat),
      x.2 = absGrid (gridCallSite style.base inp.parentSize out.size ord) st.base (fun _ => orc x.1 q) :=
  gridRun_abs orc style cs inp h out hok x hx st hst hvis habs ha

/-- **grid_program_abs_equations**: the known finding stays — the end-inset predicate is `Spec.endOk true`, which asks
nothing when the padding box has negative extent (`C11.grid_end_inset_eq_needs_nonneg_extent`) -/
theorem grid_program_abs_equations (h : inp.runMode = .performLayout) (out : LayoutOutput Rat)
    (hok : res orc (run (computeGridLayoutE style cs inp)) = .ok out) (C : Layout Rat)
    (hsz : C.size = out.size) (hC : ParentReported style.base inp.parentSize C)
    (x : Nat × Layout Rat) (hx : x ∈ lays orc (computeGridLayout style cs inp))
    (st : GridChildStyle Rat) (hst : cs[x.1]? = some st) (hvis : st.base.isHidden = false)
    (habs : st.base.position = .absolute) (ha : AutoPlaced st) :
    Spec.failures false true 0
        (Spec.gridFactsX C (gridResolve (gridCallSite style.base inp.parentSize C.size 0) st.base) st.base.aspectRatio)
        (Spec.obsX x.2) = [] ∧
    Spec.failures false true 0
        (Spec.gridFactsY C (gridResolve (gridCallSite style.base inp.parentSize C.size 0) st.base) st.base.aspectRatio)
        (Spec.obsY x.2) = [] := by
  obtain ⟨-, ord, q, hL⟩ := grid_program_abs_layout orc style cs inp h out hok x hx st hst hvis habs ha
  rw [← hsz] at hL
  rw [hL]
  exact grid_monitor_sound style.base st.base inp.parentSize C ord (fun _ => orc x.1 q) hC habs

/-- **end_inset_eq** for the grid program (x), with the side condition `hext` of C11 -/
theorem grid_program_end_inset_eq_x (h : inp.runMode = .performLayout) (out : LayoutOutput Rat)
    (hok : res orc (run (computeGridLayoutE style cs inp)) = .ok out) (C : Layout Rat)
    (hsz : C.size = out.size) (hC : ParentReported style.base inp.parentSize C)
    (x : Nat × Layout Rat) (hx : x ∈ lays orc (computeGridLayout style cs inp))
    (st : GridChildStyle Rat) (hst : cs[x.1]? = some st) (hvis : st.base.isHidden = false)
    (habs : st.base.position = .absolute) (ha : AutoPlaced st)
    (hext : Reported.padStartX C ≤ Reported.padEndX C) {e ml mr : Rat}
    (hl : st.base.inset.left = .auto)
    (he : st.base.inset.right.resolveToOption (Reported.padW C) = some e)
    (hml : st.base.margin.left.resolveToOption (Reported.padW C) = some ml)
    (hmr : st.base.margin.right.resolveToOption (Reported.padW C) = some mr) :
    Reported.padEndX C - e = x.2.location.x + x.2.size.width + x.2.margin.right := by
  obtain ⟨-, ord, q, hL⟩ := grid_program_abs_layout orc style cs inp h out hok x hx st hst hvis habs ha
  rw [← hsz] at hL
  rw [hL]
  exact grid_end_inset_eq_x style.base st.base inp.parentSize C ord _ hC habs hext hl he hml hmr

/-- **start_inset_eq** for the grid program (x) -/
theorem grid_program_start_inset_eq_x (h : inp.runMode = .performLayout) (out : LayoutOutput Rat)
    (hok : res orc (run (computeGridLayoutE style cs inp)) = .ok out) (C : Layout Rat)
    (hsz : C.size = out.size) (hC : ParentReported style.base inp.parentSize C)
    (x : Nat × Layout Rat) (hx : x ∈ lays orc (computeGridLayout style cs inp))
    (st : GridChildStyle Rat) (hst : cs[x.1]? = some st) (hvis : st.base.isHidden = false)
    (habs : st.base.position = .absolute) (ha : AutoPlaced st) {l ml mr : Rat}
    (hl : st.base.inset.left.resolveToOption (Reported.padW C) = some l)
    (hml : st.base.margin.left.resolveToOption (Reported.padW C) = some ml)
    (hmr : st.base.margin.right.resolveToOption (Reported.padW C) = some mr) :
    x.2.location.x - x.2.margin.left = Reported.padStartX C + l := by
  obtain ⟨-, ord, q, hL⟩ := grid_program_abs_layout orc style cs inp h out hok x hx st hst hvis habs ha
  rw [← hsz] at hL
  rw [hL]
  exact grid_start_inset_eq_x style.base st.base inp.parentSize C ord _ hC habs hl hml hmr

end grid

/-! ## concrete runs (at `Rat`): a container with four children, two of them absolutely positioned -/

namespace Ex
open C11.Ex GridModel EvalGrid

/-- children that answer the known dimensions they are given, and 20×10 otherwise -/
def orc : Orc := fun _ inp =>
  LayoutOutput.fromOuterSize ⟨inp.knownDimensions.width.getD 20, inp.knownDimensions.height.getD 10⟩

def inp : LayoutInput Rat :=
  { runMode := .performLayout, sizingMode := .inherentSize, axis := .both, knownDimensions := ⟨none, none⟩,
    parentSize := ps, availableSpace := ⟨.definite 400, .definite 300⟩,
    verticalMarginsAreCollapsible := ⟨false, false⟩ }

/-- an in-flow 50×20 child -/
def flowKid : Style Rat := { sd with display := .block, size := ⟨.length 50, .length 20⟩, flexGrow := 1 }

/-- `C11.Ex.cont d` (200×100, borders 3/5/2/4, both scrollbars 15: padding box x 3…180, y 2…81) with the children
[in-flow, `childA` (absolute: left 10, right 25 %, bottom 20), in-flow, `childB` (absolute: right 8, top −4, bottom 50 %)] -/
def kids : List (Style Rat) := [flowKid, childA, flowKid, childB]

def view (x : Nat × Layout Rat) : Nat × Point Rat × Size Rat × Rect Rat := (x.1, x.2.location, x.2.size, x.2.margin)

/-- the block program: in-flow pass (0, 2), absolute pass (1, 3) -/
example : (lays orc (BlockModel.computeBlockLayout (cont .block) kids inp)).map view =
    [(0, ⟨4, 27⟩, ⟨50, 20⟩, ⟨0, 0, 0, 0⟩), (2, ⟨4, 47⟩, ⟨50, 20⟩, ⟨0, 0, 0, 0⟩),
     (1, ⟨20, 26⟩, ⟨100, 30⟩, ⟨7, -3, 177/8, 5⟩), (3, ⟨125, 4⟩, ⟨50, 45⟩, ⟨7, -3, 6, 5⟩)] ∧
    (res orc (BlockModel.computeBlockLayout (cont .block) kids inp)).size = contL.size := by
  decide +kernel

/-- the third layout the block run sets (child 1) -/
def blockX : Nat × Layout Rat :=
  (lays orc (BlockModel.computeBlockLayout (cont .block) kids inp))[2]?.getD (0, Layout.new)
/-- the fourth layout the flex run sets (child 3) -/
def flexX : Nat × Layout Rat :=
  (lays orc (FlexModel.computeFlexboxLayout (cont .flex) kids inp))[3]?.getD (0, Layout.new)

/-- the hypotheses of `block_program_abs_equations` are met by this run and `childA`, and what it yields: the margin box
starts 10 right of the padding box (20 − 7 = 3 + 10) and ends 20 above its bottom edge (81 − 20 = 26 + 30 + 5) -/
example : ∃ x ∈ lays orc (BlockModel.computeBlockLayout (cont .block) kids inp), x.1 = 1 ∧
    (Spec.failures true false 0
        (Spec.blockFactsX contL (blockResolve (blockCallSite (cont .block) contL.size 0) childA) childA.aspectRatio)
        (Spec.obsX x.2) = [] ∧
     Spec.failures true false 0
        (Spec.blockFactsY contL (blockResolve (blockCallSite (cont .block) contL.size 0) childA) childA.aspectRatio)
        (Spec.obsY x.2) = []) ∧
    x.2.location.x - x.2.margin.left = Reported.padStartX contL + 10 ∧
    Reported.padEndY contL - 20 = x.2.location.y + x.2.size.height + x.2.margin.bottom := by
  have hm : blockX ∈ lays orc (BlockModel.computeBlockLayout (cont .block) kids inp) :=
    List.mem_of_getElem? (i := 2) (by decide +kernel)
  have h1 : blockX.1 = 1 := by decide +kernel
  refine ⟨_, hm, h1, ?_, by decide +kernel, by decide +kernel⟩
  exact block_program_abs_equations orc (cont .block) kids inp rfl contL (by decide +kernel) blockRep _ hm childA
    (by rw [h1]; rfl) rfl rfl

/-- the flex program (`column-reverse`, `wrap-reverse`): final layout pass (2, 0), absolute pass (1, 3) -/
example : (lays orc (FlexModel.computeFlexboxLayout (cont .flex) kids inp)).map view =
    [(2, ⟨83/2, 52⟩, ⟨50, 28⟩, ⟨0, 0, 0, 0⟩), (0, ⟨129, 52⟩, ⟨50, 28⟩, ⟨0, 0, 0, 0⟩),
     (1, ⟨20, 26⟩, ⟨100, 30⟩, ⟨7, -3, 177/8, 5⟩), (3, ⟨125, 4⟩, ⟨50, 45⟩, ⟨7, -3, 6, 5⟩)] ∧
    (res orc (FlexModel.computeFlexboxLayout (cont .flex) kids inp)).size = contL.size := by
  decide +kernel

/-- `flex_program_abs_equations` / `flex_program_end_inset_eq_x` applied to `childB` (right inset 8: 180 − 8 = 125 + 50 − 3) -/
example : ∃ x ∈ lays orc (FlexModel.computeFlexboxLayout (cont .flex) kids inp), x.1 = 3 ∧
    Reported.padEndX contL - 8 = x.2.location.x + x.2.size.width + x.2.margin.right ∧
    x.2.size.height = 45 := by
  have hm : flexX ∈ lays orc (FlexModel.computeFlexboxLayout (cont .flex) kids inp) :=
    List.mem_of_getElem? (i := 3) (by decide +kernel)
  have h1 : flexX.1 = 3 := by decide +kernel
  refine ⟨_, hm, h1, ?_, by decide +kernel⟩
  exact flex_program_end_inset_eq_x orc (cont .flex) kids inp rfl contL (by decide +kernel) (parentRep .flex) _ hm
    childB (by rw [h1]; rfl) rfl rfl rfl (by decide +kernel)

def gstyle : GridStyle Rat := GridStyle.ofStyle (cont .grid)
def gkids : List (GridChildStyle Rat) := kids.map GridChildStyle.ofStyle

/-- the run of the grid program does not panic; its output is 200×100 (evaluated on the kernel-evaluable form
`computeGridLayoutEK`, Lemmas/EvalGridSort.lean) -/
theorem grid_run_ok : ∃ out, res orc (run (computeGridLayoutE gstyle gkids inp)) = .ok out ∧ out.size = contL.size := by
  rw [computeGridLayoutE_eq]
  have h : (match res orc (run (computeGridLayoutEK gstyle gkids inp)) with
      | .ok out => decide (out.size = contL.size) | .error _ => false) = true := by decide +kernel
  cases hr : res orc (run (computeGridLayoutEK gstyle gkids inp)) with
  | ok out => rw [hr] at h; exact ⟨out, rfl, by simpa using h⟩
  | error e => rw [hr] at h; cases h

/-- the grid program: positioning loop (0, 2), hidden/absolute loop (1, 3) -/
example : (lays orc (computeGridLayout gstyle gkids inp)).map view =
    [(0, ⟨4, 52⟩, ⟨50, 20⟩, ⟨0, 0, 0, 0⟩), (2, ⟨4, 72⟩, ⟨50, 20⟩, ⟨0, 0, 0, 0⟩),
     (1, ⟨20, 26⟩, ⟨100, 30⟩, ⟨7, -3, 177/8, 5⟩), (3, ⟨125, 4⟩, ⟨50, 45⟩, ⟨7, -3, 6, 5⟩)] := by
  unfold computeGridLayout
  rw [computeGridLayoutE_eq]
  decide +kernel

/-- `grid_program_abs_equations` applied to this run: every layout set for child 1 (`childA`, `auto / auto`) passes the
C11 predicates -/
example : ∀ x ∈ lays orc (computeGridLayout gstyle gkids inp), x.1 = 1 →
    Spec.failures false true 0
        (Spec.gridFactsX contL (gridResolve (gridCallSite gstyle.base inp.parentSize contL.size 0) childA) childA.aspectRatio)
        (Spec.obsX x.2) = [] ∧
    Spec.failures false true 0
        (Spec.gridFactsY contL (gridResolve (gridCallSite gstyle.base inp.parentSize contL.size 0) childA) childA.aspectRatio)
        (Spec.obsY x.2) = [] := by
  intro x hx h1
  obtain ⟨out, hok, hsz⟩ := grid_run_ok
  have hst : gkids[x.1]? = some (GridChildStyle.ofStyle childA) := by rw [h1]; rfl
  exact grid_program_abs_equations orc gstyle gkids inp rfl out hok contL hsz.symm (parentRep .grid) x hx
    (GridChildStyle.ofStyle childA) hst rfl rfl ⟨rfl, rfl⟩

end Ex

end C11Progs
