/-
  C15 / C01 — the MUTATORS on the evaluator's state: `TaffyTree::mark_dirty` with its early exit, linked to the caches the
  evaluator (Model/Eval.lean, tied to the code by the EVAL correspondence) really holds.

    * `realDObs`, `memoDObs`   the two cache observers of `Props/C15Refine.lean`, with the strict invariant
                               "`is_empty` field set ⇔ no entry" and the emptiness test `mark_dirty` branches on;
    * `markDirty_rose`         `mark_dirty(node at path p)` on `NS α (Cache α)`: clear the node's cache; if `Cache::clear`
                               said `AlreadyEmpty` stop, else go on with the parent (`Model/Dirty.lean`'s recursion, on a path);
    * `markDirty_rose_abs`     read through `absFT` it is `markDirtyFT` on the flags (item 1);
    * `markDirty_rose_eq_clear_path_of_K`   under the invariant and when no proper ancestor is `display:none`, it ends in
                               the SAME state as `EvalMemo.Edit`'s "clear every cache on the path" (item 2);
      `markDirty_rose_clear_path_partial`, `markDirty_not_clear_path_under_hidden`: without the side condition the
                               caches of a `display:none` ancestor and above may survive (known finding 13), witness;
    * `history_refines`        after every history of style edits, subtree replacements and root passes: `KTns`, `OK`,
                               shape; edited nodes and their ancestors up to the first `display:none` one are dirty until the
                               next pass; a pass cleans everything reachable (item 3);
    * `markDirty_establishes_Edit`   C01's `Edit` steps are what mutator + `mark_dirty` do (item 4).
-/
import TaffyVerif.Lemmas.EvalDirtyEditMut
import TaffyVerif.Lemmas.EvalDirtyEditFlat
import TaffyVerif.Props.C15Refine
import TaffyVerif.Props.C15Link

set_option autoImplicit false
set_option linter.unusedSectionVars false
set_option linter.unusedVariables false

namespace C15Mut
open Eval EvalDirty EvalDirtyEdit DirtyPass CacheModel Gen.Facts C15Refine

/-! ## 0. the observers with the emptiness test -/
section observers
variable {α : Type} [Num α]

/-- the invariant of a real cache value: `RealOK`, and the `is_empty` field is set whenever there is no entry (`new`
sets it, `clear` sets it, only `store` resets it — and it adds an entry) -/
def RealOKS (c : Cache α) : Prop :=
  RealOK c ∧ (c.isEmptyFlag = false → c.finalLayoutEntry.isSome = true ∨ c.measureEntries.any Option.isSome = true)

/-- **realDObs**: the real nine-slot cache; the test is the `is_empty` field, i.e. `Cache::clear` returns `AlreadyEmpty` -/
def realDObs : DirtyObs (realCache : CacheImpl α (Cache α)) where
  fin := (realObs (α := α)).fin
  meas := (realObs (α := α)).meas
  ok := RealOKS
  ok_empty := ⟨(realObs (α := α)).ok_empty, fun h => by simp [realCache, Cache.new] at h⟩
  empty_flags := (realObs (α := α)).empty_flags
  ok_store := by
    intro c i o h
    refine ⟨(realObs (α := α)).ok_store c i o h.1, ?_⟩
    simp only [realCache, Cache.store]
    cases hm : i.runMode with
    | performLayout => intro _; exact Or.inl rfl
    | computeSize =>
      intro _
      refine Or.inr (any_set_some _ _ _ ?_)
      rw [h.1.1]
      exact C02.slot_lt _ _
    | performHiddenLayout => exact h.2
  ok_clear := by
    intro c h
    refine ⟨(realObs (α := α)).ok_clear c h.1, ?_⟩
    simp only [realCache, Cache.clear]
    split
    · exact h.2
    · intro hf; cases hf
  get_L c i o h := (realObs (α := α)).get_L c i o h.1
  get_S c i o h := (realObs (α := α)).get_S c i o h.1
  store_L c i o h := (realObs (α := α)).store_L c i o h.1
  store_S c i o h := (realObs (α := α)).store_S c i o h.1
  clear_flags c h := (realObs (α := α)).clear_flags c h.1
  emp c := c.isEmptyFlag
  emp_flags := by
    intro c h
    show c.isEmptyFlag = (!c.finalLayoutEntry.isSome && !c.measureEntries.any Option.isSome)
    cases hf : c.isEmptyFlag with
    | true =>
      obtain ⟨e1, e2⟩ := h.1.2 hf
      rw [e1, e2]; rfl
    | false =>
      rcases h.2 hf with e | e <;> rw [e] <;> simp
  clear_emp := by
    intro c _ he
    simp only [realCache, Cache.clear, he, if_true]

/-- the emptiness test of `realDObs` is exactly "`Cache::clear` reports `AlreadyEmpty`" -/
theorem real_emp_is_alreadyEmpty (c : Cache α) :
    (realDObs (α := α)).emp c = true ↔ c.clear.2 = ClearState.alreadyEmpty := by
  show c.isEmptyFlag = true ↔ _
  unfold Cache.clear
  cases c.isEmptyFlag <;> simp

/-- … and, on well-formed caches, `Cache::is_empty()` (what `TaffyTree::dirty` reports) -/
theorem real_emp_is_isEmpty (c : Cache α) (h : RealOKS c) : (realDObs (α := α)).emp c = c.isEmpty := by
  rw [(realDObs (α := α)).emp_flags c h]
  show (!c.finalLayoutEntry.isSome && !c.measureEntries.any Option.isSome) =
    (c.finalLayoutEntry.isNone && !(c.measureEntries.any Option.isSome))
  cases c.finalLayoutEntry <;> rfl

/-- **memoDObs**: the exact memo; invariant: no entry of the hidden run mode (`store` drops those); test: the list is empty -/
def memoDObs [DecidableEq α] : DirtyObs (exactMemo : CacheImpl α (List (LayoutInput α × LayoutOutput α))) where
  fin := (memoObs (α := α)).fin
  meas := (memoObs (α := α)).meas
  ok c := ∀ e ∈ c, e.1.runMode ≠ .performHiddenLayout
  ok_empty := by intro e he; simp [exactMemo] at he
  empty_flags := (memoObs (α := α)).empty_flags
  ok_store := by
    intro c i o h
    simp only [exactMemo]
    split
    · exact h
    · rename_i hm
      intro e he
      rcases List.mem_cons.1 he with e1 | e1
      · rw [e1]; exact hm
      · exact h e e1
  ok_clear := by intro c _ e he; simp [exactMemo] at he
  get_L c i o _ := (memoObs (α := α)).get_L c i o trivial
  get_S c i o _ := (memoObs (α := α)).get_S c i o trivial
  store_L c i o _ := (memoObs (α := α)).store_L c i o trivial
  store_S c i o _ := (memoObs (α := α)).store_S c i o trivial
  clear_flags c _ := (memoObs (α := α)).clear_flags c trivial
  emp c := c.isEmpty
  emp_flags := by
    intro c h
    cases c with
    | nil => rfl
    | cons e es =>
      show false = (!((e :: es).any fun e => e.1.runMode == .performLayout) &&
        !((e :: es).any fun e => e.1.runMode == .computeSize))
      have := h e List.mem_cons_self
      simp only [List.any_cons]
      cases hm : e.1.runMode with
      | performLayout =>
        have e1 : (e.1.runMode == RunMode.performLayout) = true := by rw [hm]; decide
        rw [hm] at e1
        rw [e1]; simp
      | computeSize =>
        have e1 : (e.1.runMode == RunMode.computeSize) = true := by rw [hm]; decide
        rw [hm] at e1
        rw [e1]; simp
      | performHiddenLayout => exact absurd hm this
  clear_emp := by
    intro c _ he
    cases c with
    | nil => rfl
    | cons e es => cases he

mutual
/-- the strict observer sees the flags of `C15Refine.realObs` -/
theorem absFT_realDObs : ∀ (t : STree α) (ns : NS α (Cache α)),
    absFT (realDObs (α := α)).toCacheObs t ns = absFT realObs t ns
  | .node s c kids, .mk cc l nk => by
    simp only [absFT]
    rw [absList_realDObs kids nk]
    rfl
theorem absList_realDObs : ∀ (ts : List (STree α)) (ks : List (NS α (Cache α))),
    absList (realDObs (α := α)).toCacheObs ts ks = absList realObs ts ks
  | [], _ => by simp [absList]
  | _ :: _, [] => by simp [absList]
  | t :: ts, k :: ks => by
    simp only [absList]
    rw [absFT_realDObs t k, absList_realDObs ts ks]
end

mutual
/-- … and its invariant implies the one of `C15Refine.realObs` -/
theorem OK_realDObs : ∀ (ns : NS α (Cache α)), OK (realDObs (α := α)).toCacheObs ns → OK realObs ns
  | .mk c l nk, h => by
    simp only [OK] at h ⊢
    exact ⟨h.1.1, OKList_realDObs nk h.2⟩
theorem OKList_realDObs : ∀ (ks : List (NS α (Cache α))), OKList (realDObs (α := α)).toCacheObs ks → OKList realObs ks
  | [], _ => trivial
  | k :: ks, h => by
    simp only [OKList] at h ⊢
    exact ⟨OK_realDObs k h.1, OKList_realDObs ks h.2⟩
end

end observers

/-! ## 1. `mark_dirty` on the evaluator's state, read through `absFT` -/
section item1
variable {α : Type} [Num α]

/-- the strict observer of the real cache, as a `CacheObs` -/
abbrev robs : CacheObs (realCache : CacheImpl α (Cache α)) := (realDObs (α := α)).toCacheObs

/-- **`TaffyTree::mark_dirty(node at path p)`** on the evaluator's state with the real caches: clear the cache of the
node (`Cache::clear`); if it reported `AlreadyEmpty` (the `is_empty` field was set) stop, otherwise do the same to the
parent — `Model/Dirty.lean`'s `markDirty`, with the parent pointer replaced by the path from the root -/
def markDirty_rose (p : List Nat) (ns : NS α (Cache α)) : NS α (Cache α) :=
  markDirtyRose realCache (fun c => c.isEmptyFlag) p ns

/-- **markDirty_abs** (any cache implementation with observers and an emptiness test): `absFT` commutes with `mark_dirty` -/
theorem markDirty_abs {C : Type} {ci : CacheImpl α C} (D : DirtyObs ci) (p : List Nat) (t : STree α) (ns : NS α C)
    (hsh : C16.Shape t ns) (hok : OK D.toCacheObs ns) :
    absFT D.toCacheObs t (markDirtyRose ci D.emp p ns) = markDirtyFT p (absFT D.toCacheObs t ns) :=
  (abs_markDirtyGo D p t ns hsh hok).1

/-- **markDirty_rose_abs** (item 1): the flags of the real caches after `mark_dirty` at `p` are `markDirtyFT p` of the
flags before — for every style tree, every state of its shape with well-formed caches, every path -/
theorem markDirty_rose_abs (p : List Nat) (t : STree α) (ns : NS α (Cache α)) (hsh : C16.Shape t ns)
    (hok : OK robs ns) :
    absFT realObs t (markDirty_rose p ns) = markDirtyFT p (absFT realObs t ns) := by
  rw [← absFT_realDObs, ← absFT_realDObs]
  exact markDirty_abs realDObs p t ns hsh hok

/-- `mark_dirty` keeps the caches well-formed and the shape -/
theorem markDirty_rose_OK_shape (p : List Nat) (t : STree α) (ns : NS α (Cache α)) (hsh : C16.Shape t ns)
    (hok : OK robs ns) : OK robs (markDirty_rose p ns) ∧ C16.Shape t (markDirty_rose p ns) :=
  go_OK_shape realDObs p t ns hsh hok

/-- **markDirtyFT_restores_KT** (`Dirty.markDirty_spec` / `C15.step_preserves_K` on rose trees): if clause (a) holds
everywhere and clause (b) everywhere except at the node at `p` (which an edit may just have broken), `mark_dirty(p)`
re-establishes the whole invariant -/
theorem markDirtyFT_restores_KT (p : List Nat) (t : FT) (ha : C15Pass.A t) (hb : Bx p t) :
    C15Pass.KT (markDirtyFT p t) :=
  ⟨(go_restores p t ha hb).1, (go_restores p t ha hb).2.1⟩

/-- in particular `mark_dirty` anywhere preserves the invariant -/
theorem markDirtyFT_preserves_KT (p : List Nat) (t : FT) (hk : C15Pass.KT t) : C15Pass.KT (markDirtyFT p t) :=
  markDirtyFT_restores_KT p t hk.1 (Bx_of_B p t hk.2)

theorem markDirty_rose_preserves_K (p : List Nat) (t : STree α) (ns : NS α (Cache α)) (hsh : C16.Shape t ns)
    (hok : OK robs ns) (hk : KTns realObs t ns) : KTns realObs t (markDirty_rose p ns) := by
  unfold KTns
  rw [markDirty_rose_abs p t ns hsh hok]
  exact markDirtyFT_preserves_KT p _ hk

end item1

/-! ## 2. the early exit loses nothing — unless a `display:none` ancestor is in the way -/
section item2
variable {α : Type} [Num α]

/-- **markDirty_eq_clear_path_of_K** (any cache with observers): under the invariant, when the path exists and no
proper ancestor of its end is `display:none`, `mark_dirty` with the early exit = clearing every cache on the path -/
theorem markDirty_eq_clear_path_of_K {C : Type} {ci : CacheImpl α C} (D : DirtyObs ci) (p : List Nat) (t : STree α)
    (ns : NS α C) (hsh : C16.Shape t ns) (hok : OK D.toCacheObs ns) (hk : KTns D.toCacheObs t ns)
    (hv : C05.VisibleTo t p) (ht : ∃ t', treeAt t p = some t') :
    markDirtyRose ci D.emp p ns = clearPath ci p ns :=
  (go_eq_clearPath D p t ns hsh hok (PathK_of_AB p _ hk.1 hk.2) hv ht).1

/-- **markDirty_rose_eq_clear_path_of_K** (item 2): on the real caches, under `KTns` (a dirty node's parent is dirty or
`display:none`) and when no proper ancestor of the node at `p` is `display:none`, `TaffyTree::mark_dirty` with its early
exit and `EvalMemo.Edit`'s "clear the cache of the node and of EVERY ancestor" (`EvalMemo.stateModifyAt`) end in the SAME
state: every cache the walk does not reach is already empty, and `Cache::clear` on an empty cache changes nothing -/
theorem markDirty_rose_eq_clear_path_of_K (p : List Nat) (t : STree α) (ns : NS α (Cache α)) (hsh : C16.Shape t ns)
    (hok : OK robs ns) (hk : KTns realObs t ns) (hv : C05.VisibleTo t p) (ht : ∃ t', treeAt t p = some t') :
    markDirty_rose p ns = clearPath realCache p ns :=
  markDirty_eq_clear_path_of_K realDObs p t ns hsh hok (by unfold KTns; rw [absFT_realDObs]; exact hk) hv ht

/-- `clearPath` is literally the state part of `EvalMemo.Edit.setStyle` -/
theorem clearPath_is_Edit_setStyle {C : Type} (ci : CacheImpl α C) (p : List Nat) (s : Style α)
    (ctx : Option (MeasureSpec α)) (ns : NS α C) :
    (EvalMemo.Edit.setStyle p s ctx).applyState ci ns = clearPath ci p ns := by
  unfold EvalMemo.Edit.applyState clearPath
  congr 1
  funext k
  cases k; rfl

/-- **markDirty_rose_clear_path_partial** (item 2 without the side condition — the precise difference): under `KTns`
alone, either the two states are equal, or the path splits as `q ++ r` with `q` ending in a child of a `display:none` node
and `mark_dirty` cleared exactly the caches along `r` (from that child down to the target): the caches of the
`display:none` node and of all its ancestors SURVIVE (known finding 13, `c01-attach-under-clean-hidden`) -/
theorem markDirty_rose_clear_path_partial (p : List Nat) (t : STree α) (ns : NS α (Cache α)) (hsh : C16.Shape t ns)
    (hok : OK robs ns) (hk : KTns realObs t ns) (ht : ∃ t', treeAt t p = some t') :
    markDirty_rose p ns = clearPath realCache p ns ∨
    ∃ q r, p = q ++ r ∧ HiddenParent t q ∧ markDirty_rose p ns = modifyAt (clearPath realCache r) q ns := by
  have hk' : C15Pass.KT (absFT robs t ns) := by rw [absFT_realDObs]; exact hk
  rcases go_partial realDObs p t ns hsh hok (PathK_of_AB p _ hk'.1 hk'.2) ht with h | ⟨_, q, r, h1, h2, h3⟩
  · exact Or.inl h.1
  · exact Or.inr ⟨q, r, h1, h2, h3⟩

end item2

/-! ## 2b. root passes with the strict observer; the witness for finding 13 -/
section concrete
variable {α : Type} [Num α] [FlexLine.NumX α] [GridTracks.NumCast α]
open EvalGrid EvalBlock EvalFlex

/-- the real root pass (`compute_root_layout`, real cache, extracted dispatch, concrete algorithms) -/
noncomputable def rootPass (t : STree α) (av : Size (AvailableSpace α)) (ns : NS α (Cache α)) : NS α (Cache α) :=
  (computeRootLayout realCache (Dispatch.select dispatchArms) allAlgs (STree.depth t) t av ns).2

/-- `C15Refine.eval_root_pass_refines_all_trees` for the strict cache invariant -/
theorem rootPass_refines (t : STree α) (av : Size (AvailableSpace α)) (ns : NS α (Cache α)) (hb : GridCalm t)
    (hsh : C16.Shape t ns) (hok : OK robs ns) :
    (∃ cs, absFT realObs t (rootPass t av ns) = pass (absFT realObs t ns) cs) ∧
    OK robs (rootPass t av ns) ∧ C16.Shape t (rootPass t av ns) := by
  unfold rootPass
  rw [computeRootLayout_agree _ t av ns hb, ← absFT_realDObs, ← absFT_realDObs]
  exact eval_root_pass_refines robs _ algsCovG selHidden_real C01.selOK_real algsCovG_PLCovers algsCovG_Calm _ t av
    ns (Nat.le_refl _) hsh hok

theorem rootPass_K (t : STree α) (av : Size (AvailableSpace α)) (ns : NS α (Cache α)) (hb : GridCalm t)
    (hsh : C16.Shape t ns) (hok : OK robs ns) (hk : KTns realObs t ns) :
    KTns realObs t (rootPass t av ns) ∧ C15Pass.Clean (absFT realObs t (rootPass t av ns)) := by
  obtain ⟨⟨cs, h⟩, _, _⟩ := rootPass_refines t av ns hb hsh hok
  unfold KTns
  rw [h]
  exact ⟨(C15Pass.pass_cleans _ cs hk).1, (C15Pass.pass_cleans _ cs hk).2.1⟩

end concrete

section witness
open EvalGrid

/-- block root > `display:none` block > measured leaf -/
def exHid : STree Rat :=
  .node C05.blockStyle none [.node C05.hiddenStyle none [.node C05.blockStyle (some (.fixed 30 30)) []]]

theorem exHid_calm : GridCalm exHid := gridCalm_of_gridCalmB exHid (by decide +kernel)

/-- the state after one root pass over the freshly built `exHid` -/
noncomputable def nsHid : NS Rat (Cache Rat) :=
  rootPass exHid ⟨.definite 100, .maxContent⟩ (NS.init realCache exHid)

theorem nsHid_inv : C16.Shape exHid nsHid ∧ OK robs nsHid ∧ KTns realObs exHid nsHid := by
  have h := rootPass_refines exHid ⟨.definite 100, .maxContent⟩ (NS.init realCache exHid) exHid_calm
    (C16.Shape_init realCache exHid) (OK_init robs exHid)
  exact ⟨h.2.2, h.2.1, (rootPass_K exHid _ _ exHid_calm (C16.Shape_init realCache exHid) (OK_init robs exHid)
    (KTns_init realObs exHid)).1⟩

/-- **markDirty_not_clear_path_under_hidden** (item 2, the side condition is needed; known finding 13): after a root
pass over `exHid` the root and the `display:none` node hold a final entry and the leaf below the hidden node is empty
(`compute_hidden_layout` cleared it).  The state satisfies the invariant, the path `[0, 0]` exists — but its proper
ancestor `[0]` is `display:none`: `mark_dirty(leaf)` stops at once (`AlreadyEmpty`) and leaves BOTH ancestors clean,
whereas clearing the whole path empties them.  The two states differ. -/
theorem markDirty_not_clear_path_under_hidden :
    C16.Shape exHid nsHid ∧ OK robs nsHid ∧ KTns realObs exHid nsHid ∧ (∃ t', treeAt exHid [0, 0] = some t') ∧
    ¬ C05.VisibleTo exHid [0, 0] ∧
    absFT realObs exHid (markDirty_rose [0, 0] nsHid) =
      .node false true false [.node true true false [.node false false false []]] ∧
    absFT realObs exHid (clearPath realCache [0, 0] nsHid) =
      .node false false false [.node true false false [.node false false false []]] ∧
    markDirty_rose [0, 0] nsHid ≠ clearPath realCache [0, 0] nsHid := by
  have e1 : absFT realObs exHid (markDirty_rose [0, 0] nsHid) =
      .node false true false [.node true true false [.node false false false []]] := by
    unfold nsHid rootPass
    rw [allAlgs_eq_K]
    exact ftEq_sound _ _ (by decide +kernel)
  have e2 : absFT realObs exHid (clearPath realCache [0, 0] nsHid) =
      .node false false false [.node true false false [.node false false false []]] := by
    unfold nsHid rootPass
    rw [allAlgs_eq_K]
    exact ftEq_sound _ _ (by decide +kernel)
  refine ⟨nsHid_inv.1, nsHid_inv.2.1, nsHid_inv.2.2, ⟨_, rfl⟩, ?_, e1, e2, ?_⟩
  · simp [exHid, C05.VisibleTo, C05.blockStyle, C05.hiddenStyle]
  · intro h
    rw [h, e2] at e1
    exact absurd (congrArg FT.fin e1) (by decide)

/-- the side condition of `markDirty_rose_eq_clear_path_of_K` is satisfiable on the same state: for the `display:none`
node itself (path `[0]`, proper ancestor: the block root) the two states are equal, and both ancestors end up dirty -/
example : markDirty_rose [0] nsHid = clearPath realCache [0] nsHid :=
  markDirty_rose_eq_clear_path_of_K [0] exHid nsHid nsHid_inv.1 nsHid_inv.2.1 nsHid_inv.2.2
    (by simp [exHid, C05.VisibleTo, C05.blockStyle]) ⟨_, rfl⟩

example : absFT realObs exHid (markDirty_rose [0] nsHid) =
    .node false false false [.node true false false [.node false false false []]] := by
  unfold nsHid rootPass
  rw [allAlgs_eq_K]
  exact ftEq_sound _ _ (by decide +kernel)

end witness

/-! ## 3. histories of mutators and passes on the evaluator's state -/
section history
variable {α : Type} [Num α] [FlexLine.NumX α] [GridTracks.NumCast α]
open EvalGrid EvalMemo

/-- one operation of a history -/
inductive HOp (α : Type) where
  /-- `set_style` / `set_node_context` on the node at `p`, then `mark_dirty(that node)` (`Gen.Facts.dirty_set_style = .node`) -/
  | style (p : List Nat) (s : Style α) (ctx : Option (MeasureSpec α))
  /-- `replace_child_at_index(node at q, i, root of a freshly built subtree)`, then `mark_dirty(node at q)`
  (`Gen.Facts.dirty_replace_child_at_index = .parent`); an index that does not exist: the operation is refused -/
  | replace (q : List Nat) (i : Nat) (sub : STree α)
  /-- the public `TaffyTree::mark_dirty(node at p)` -/
  | markDirty (p : List Nat)
  /-- `compute_root_layout` with the given available space -/
  | pass (av : Size (AvailableSpace α))

/-- style tree and evaluator state (real caches) -/
abbrev HState (α : Type) := STree α × NS α (Cache α)

/-- one operation on the evaluator's state: the structural change, then **`mark_dirty` with its early exit** -/
noncomputable def hstep (s : HState α) : HOp α → HState α
  | .style p st ctx => (treeModifyAt (setStyleOf st ctx) p s.1, markDirty_rose p s.2)
  | .replace q i sub =>
    match treeAt s.1 (q ++ [i]) with
    | none => s
    | some _ => (treeModifyAt (fun _ => sub) (q ++ [i]) s.1,
        markDirty_rose q (modifyAt (fun _ => NS.init realCache sub) (q ++ [i]) s.2))
  | .markDirty p => (s.1, markDirty_rose p s.2)
  | .pass av => (s.1, rootPass s.1 av s.2)

noncomputable def hrun (s : HState α) (h : List (HOp α)) : HState α := h.foldl hstep s

/-- every tree that is laid out in the history is `GridCalm` (no grid container can panic) -/
def HCalm : HState α → List (HOp α) → Prop
  | _, [] => True
  | s, op :: ops => (∀ av, op = .pass av → GridCalm s.1) ∧ HCalm (hstep s op) ops

/-- shape, well-formed caches (strict: `is_empty` field ⇔ no entry), and the dirtiness invariant read on the real caches -/
def Inv (s : HState α) : Prop := C16.Shape s.1 s.2 ∧ OK robs s.2 ∧ KTns realObs s.1 s.2

theorem Inv_init (t : STree α) : Inv (t, NS.init realCache t) :=
  ⟨C16.Shape_init realCache t, OK_init robs t, KTns_init realObs t⟩

theorem OK_modifyAt {C : Type} {ci : CacheImpl α C} (ob : CacheObs ci) (g : NS α C → NS α C) (hg : ∀ k, OK ob (g k)) :
    ∀ (pth : List Nat) (ns : NS α C), OK ob ns → OK ob (modifyAt g pth ns)
  | [], ns, _ => by simp only [modifyAt]; exact hg ns
  | i :: pth, .mk c l nk, h => by
    simp only [OK] at h
    simp only [modifyAt, OK]
    refine ⟨h.1, ?_⟩
    cases hk : nk[i]? with
    | none => exact h.2
    | some k => exact OKList_set ob nk i _ h.2 (OK_modifyAt ob g hg pth k (OKList_get ob nk i k h.2 hk))

/-- the state after the structural part of an edit and the path its `mark_dirty` starts at -/
theorem style_raw (s : HState α) (p : List Nat) (st : Style α) (ctx : Option (MeasureSpec α)) (hi : Inv s) :
    C16.Shape (treeModifyAt (setStyleOf st ctx) p s.1) s.2 ∧
    C15Pass.A (absFT robs (treeModifyAt (setStyleOf st ctx) p s.1) s.2) ∧
    Bx p (absFT robs (treeModifyAt (setStyleOf st ctx) p s.1) s.2) := by
  obtain ⟨hsh, hok, hk⟩ := hi
  have hk' : C15Pass.KT (absFT robs s.1 s.2) := by rw [absFT_realDObs]; exact hk
  obtain ⟨a1, a2, _⟩ := abs_style_ABx robs st ctx p s.1 s.2 hsh hk'.1 hk'.2
  exact ⟨Shape_style st ctx p s.1 s.2 hsh, a1, a2⟩

theorem replace_raw (s : HState α) (q : List Nat) (i : Nat) (sub : STree α) (hi : Inv s) :
    C16.Shape (treeModifyAt (fun _ => sub) (q ++ [i]) s.1) (modifyAt (fun _ => NS.init realCache sub) (q ++ [i]) s.2) ∧
    OK robs (modifyAt (fun _ => NS.init realCache sub) (q ++ [i]) s.2) ∧
    C15Pass.A (absFT robs (treeModifyAt (fun _ => sub) (q ++ [i]) s.1)
      (modifyAt (fun _ => NS.init realCache sub) (q ++ [i]) s.2)) ∧
    Bx q (absFT robs (treeModifyAt (fun _ => sub) (q ++ [i]) s.1)
      (modifyAt (fun _ => NS.init realCache sub) (q ++ [i]) s.2)) := by
  obtain ⟨hsh, hok, hk⟩ := hi
  have hk' : C15Pass.KT (absFT robs s.1 s.2) := by rw [absFT_realDObs]; exact hk
  obtain ⟨a1, a2, _⟩ := abs_replace_ABx robs sub i q s.1 s.2 hsh hk'.1 hk'.2
  exact ⟨Shape_replace sub (q ++ [i]) s.1 s.2 hsh, OK_modifyAt robs _ (fun _ => OK_init robs sub) _ _ hok, a1, a2⟩

/-- `mark_dirty` after the structural part re-establishes the invariant -/
theorem markDirty_restores_Inv (t : STree α) (ns : NS α (Cache α)) (p : List Nat) (hsh : C16.Shape t ns)
    (hok : OK robs ns) (ha : C15Pass.A (absFT robs t ns)) (hb : Bx p (absFT robs t ns)) :
    Inv (t, markDirty_rose p ns) := by
  obtain ⟨o1, o2⟩ := go_OK_shape realDObs p t ns hsh hok
  refine ⟨o2, o1, ?_⟩
  show C15Pass.KT (absFT realObs t (markDirty_rose p ns))
  rw [← absFT_realDObs]
  have := markDirty_abs realDObs p t ns hsh hok
  show C15Pass.KT (absFT robs t (markDirtyRose realCache (realDObs (α := α)).emp p ns))
  rw [this]
  exact markDirtyFT_restores_KT p _ ha hb

/-- **hstep_inv**: every operation — mutator with `mark_dirty`'s early exit, or root pass over a `GridCalm` tree —
preserves shape, cache well-formedness and the dirtiness invariant on the evaluator's state -/
theorem hstep_inv (s : HState α) (op : HOp α) (hi : Inv s) (hc : ∀ av, op = .pass av → GridCalm s.1) :
    Inv (hstep s op) := by
  cases op with
  | style p st ctx =>
    obtain ⟨h1, h2, h3⟩ := style_raw s p st ctx hi
    exact markDirty_restores_Inv _ _ p h1 hi.2.1 h2 h3
  | replace q i sub =>
    simp only [hstep]
    split
    · exact hi
    · obtain ⟨h1, h2, h3, h4⟩ := replace_raw s q i sub hi
      exact markDirty_restores_Inv _ _ q h1 h2 h3 h4
  | markDirty p =>
    obtain ⟨o1, o2⟩ := markDirty_rose_OK_shape p s.1 s.2 hi.1 hi.2.1
    exact ⟨o2, o1, markDirty_rose_preserves_K p s.1 s.2 hi.1 hi.2.1 hi.2.2⟩
  | pass av =>
    have hb := hc av rfl
    obtain ⟨_, g2, g1⟩ := rootPass_refines s.1 av s.2 hb hi.1 hi.2.1
    exact ⟨g1, g2, (rootPass_K s.1 av s.2 hb hi.1 hi.2.1 hi.2.2).1⟩

theorem hrun_inv : ∀ (h : List (HOp α)) (s : HState α), Inv s → HCalm s h → Inv (hrun s h)
  | [], s, hi, _ => hi
  | op :: ops, s, hi, hc => hrun_inv ops (hstep s op) (hstep_inv s op hi hc.1) hc.2

theorem HCalm_append : ∀ (h h' : List (HOp α)) (s : HState α), HCalm s (h ++ h') → HCalm s h ∧ HCalm (hrun s h) h'
  | [], h', s, hc => ⟨trivial, hc⟩
  | op :: ops, h', s, hc => by
    obtain ⟨c1, c2⟩ := HCalm_append ops h' (hstep s op) hc.2
    exact ⟨⟨hc.1, c1⟩, c2⟩

theorem hrun_append (h h' : List (HOp α)) (s : HState α) : hrun s (h ++ h') = hrun (hrun s h) h' := by
  unfold hrun
  rw [List.foldl_append]

/-- **history_refines** (item 3, invariants): after EVERY history of style edits, subtree replacements (each followed by
`TaffyTree::mark_dirty` with its early exit) and root passes with any available space, from a freshly built tree — all
laid-out trees `GridCalm` — the evaluator's state (real nine-slot caches, extracted dispatch, concrete algorithms) has
the shape of the current style tree, well-formed caches, and satisfies the dirtiness invariant `KTns`: read through
`absFT`, a dirty node's parent is dirty or `display:none`, and a measure entry implies a final entry. -/
theorem history_refines (t0 : STree α) (h : List (HOp α)) (hc : HCalm (t0, NS.init realCache t0) h) :
    let s := hrun (t0, NS.init realCache t0) h
    C16.Shape s.1 s.2 ∧ OK robs s.2 ∧ OK realObs s.2 ∧ KTns realObs s.1 s.2 := by
  intro s
  obtain ⟨h1, h2, h3⟩ := hrun_inv h _ (Inv_init t0) hc
  exact ⟨h1, h2, OK_realDObs _ h2, h3⟩

/-- **history_pass_cleans** (item 3, after a pass): when the history ends with a root pass, every node reachable from the
root without crossing a `display:none` node strictly above it is clean: its real cache holds a final-layout entry -/
theorem history_pass_cleans (t0 : STree α) (h : List (HOp α)) (av : Size (AvailableSpace α))
    (hc : HCalm (t0, NS.init realCache t0) (h ++ [.pass av])) :
    let s := hrun (t0, NS.init realCache t0) (h ++ [.pass av])
    ∀ (p : List Nat) (k : NS α (Cache α)), C05.VisibleTo s.1 p → (∃ t', treeAt s.1 p = some t') →
      C05.nsAt s.2 p = some k → k.cache.finalLayoutEntry.isSome = true ∧ k.cache.isEmpty = false := by
  intro s p k hv ht hat
  obtain ⟨c1, c2⟩ := HCalm_append h [.pass av] _ hc
  have hi := hrun_inv h _ (Inv_init t0) c1
  have hb : GridCalm (hrun (t0, NS.init realCache t0) h).1 := c2.1 av rfl
  have hcl := (rootPass_K _ av _ hb hi.1 hi.2.1 hi.2.2).2
  have es : s = ((hrun (t0, NS.init realCache t0) h).1,
      rootPass (hrun (t0, NS.init realCache t0) h).1 av (hrun (t0, NS.init realCache t0) h).2) := by
    show hrun _ (h ++ [.pass av]) = _
    rw [hrun_append]; rfl
  rw [es] at hv ht hat
  have hf := Clean_at realObs p _ _ k hcl hv ht hat
  exact ⟨hf, fin_not_empty _ hf⟩

/-- the node an operation hands to `mark_dirty` -/
def editTarget (s : HState α) : HOp α → Option (List Nat)
  | .style p _ _ => some p
  | .replace q i _ => if (treeAt s.1 (q ++ [i])).isSome then some q else none
  | .markDirty p => some p
  | .pass _ => none

/-- **edit_dirties**: right after an edit whose `mark_dirty` target `p` exists and has no `display:none` proper
ancestor (in the tree after the edit), the target and EVERY ancestor are dirty — although the walk may have stopped
early -/
theorem edit_dirties (s : HState α) (op : HOp α) (p : List Nat) (hi : Inv s) (ht : editTarget s op = some p)
    (hex : ∃ t', treeAt (hstep s op).1 p = some t') (hv : C05.VisibleTo (hstep s op).1 p)
    (p' r : List Nat) (hp : p = p' ++ r) : DirtyAt robs (hstep s op).2 p' := by
  cases op with
  | style p0 st ctx =>
    simp only [editTarget, Option.some.injEq] at ht
    subst ht
    obtain ⟨h1, h2, h3⟩ := style_raw s p0 st ctx hi
    simp only [hstep] at hex hv ⊢
    have e : markDirty_rose p0 s.2 = clearPath realCache p0 s.2 :=
      (go_eq_clearPath realDObs p0 _ s.2 h1 hi.2.1 (PathK_of_ABx p0 _ h2 h3) hv hex).1
    rw [e, hp]
    exact DirtyAt_clearPath robs p' r s.2 hi.2.1
  | replace q i sub =>
    simp only [editTarget] at ht
    cases hta : treeAt s.1 (q ++ [i]) with
    | none => rw [hta] at ht; simp at ht
    | some tc =>
      rw [hta] at ht
      simp only [Option.isSome_some, if_true, Option.some.injEq] at ht
      subst ht
      subst hp
      obtain ⟨h1, h2, h3, h4⟩ := replace_raw s (p' ++ r) i sub hi
      simp only [hstep, hta] at hex hv ⊢
      have e : markDirty_rose (p' ++ r) (modifyAt (fun _ => NS.init realCache sub) (p' ++ r ++ [i]) s.2) =
          clearPath realCache (p' ++ r) (modifyAt (fun _ => NS.init realCache sub) (p' ++ r ++ [i]) s.2) :=
        (go_eq_clearPath realDObs (p' ++ r) _ _ h1 h2 (PathK_of_ABx (p' ++ r) _ h3 h4) hv hex).1
      rw [e]
      exact DirtyAt_clearPath robs p' r _ h2
  | markDirty p0 =>
    simp only [editTarget, Option.some.injEq] at ht
    subst ht
    simp only [hstep] at hex hv ⊢
    rw [markDirty_rose_eq_clear_path_of_K p0 s.1 s.2 hi.1 hi.2.1 hi.2.2 hv hex, hp]
    exact DirtyAt_clearPath robs p' r s.2 hi.2.1
  | pass av => simp [editTarget] at ht

/-- **dirty_persists**: operations other than passes never make a dirty node clean -/
theorem dirty_persists (p' : List Nat) : ∀ (ops : List (HOp α)) (s : HState α), (∀ o ∈ ops, ∀ av, o ≠ .pass av) →
    Inv s → DirtyAt robs s.2 p' → DirtyAt robs (hrun s ops).2 p'
  | [], s, _, _, hd => hd
  | op :: ops, s, hnp, hi, hd => by
    have hnp' : ∀ o ∈ ops, ∀ av, o ≠ .pass av := fun o ho => hnp o (List.mem_cons_of_mem _ ho)
    have hi' : Inv (hstep s op) := hstep_inv s op hi (fun av e => absurd e (hnp op List.mem_cons_self av))
    refine dirty_persists p' ops (hstep s op) hnp' hi' ?_
    cases op with
    | style p st ctx => exact DirtyAt_go robs _ p s.2 p' hi.2.1 hd
    | replace q i sub =>
      simp only [hstep]
      split
      · exact hd
      · exact DirtyAt_go robs _ q _ p' (replace_raw s q i sub hi).2.1
          (DirtyAt_modifyAt robs _ (fun _ p'' => DirtyAt_init robs p'' sub) _ s.2 p' hd)
    | markDirty p => exact DirtyAt_go robs _ p s.2 p' hi.2.1 hd
    | pass av => exact absurd rfl (hnp _ List.mem_cons_self av)

/-- a real cache without final entry and without measure entry is empty (`Cache::is_empty()`, i.e. `TaffyTree::dirty`) -/
theorem dirty_flags_isEmpty (c : Cache α) (h : (robs (α := α)).fin c = false ∧ (robs (α := α)).meas c = false) :
    c.finalLayoutEntry = none ∧ c.measureEntries.any Option.isSome = false ∧ c.isEmpty = true := by
  obtain ⟨h1, h2⟩ := h
  have h1' : c.finalLayoutEntry.isSome = false := h1
  have h2' : c.measureEntries.any Option.isSome = false := h2
  have e : c.finalLayoutEntry = none := by
    cases hf : c.finalLayoutEntry with
    | none => rfl
    | some e => rw [hf] at h1'; cases h1'
  refine ⟨e, h2', ?_⟩
  unfold Cache.isEmpty
  rw [e, h2']; rfl

/-- **history_refines_dirty** (item 3, between passes): in a history `pre ++ op :: post` from a freshly built tree in
which `post` contains no pass, if `op` is an edit whose `mark_dirty` target `p` exists and has no `display:none` proper
ancestor in the tree right after the edit, then at the END of the history the node at `p` and each of its ancestors
(every prefix `p'` of `p`) — if still there — is dirty: no final entry, no measure entry, `Cache::is_empty()`.
(`post` may contain further edits anywhere, including `display` toggles and replacements of subtrees around `p`.) -/
theorem history_refines_dirty (t0 : STree α) (pre post : List (HOp α)) (op : HOp α) (p : List Nat)
    (hc : HCalm (t0, NS.init realCache t0) pre) (hnp : ∀ o ∈ post, ∀ av, o ≠ .pass av)
    (ht : editTarget (hrun (t0, NS.init realCache t0) pre) op = some p)
    (hex : ∃ t', treeAt (hstep (hrun (t0, NS.init realCache t0) pre) op).1 p = some t')
    (hv : C05.VisibleTo (hstep (hrun (t0, NS.init realCache t0) pre) op).1 p)
    (p' r : List Nat) (hp : p = p' ++ r) (k : NS α (Cache α))
    (hk : C05.nsAt (hrun (t0, NS.init realCache t0) (pre ++ op :: post)).2 p' = some k) :
    k.cache.finalLayoutEntry = none ∧ k.cache.measureEntries.any Option.isSome = false ∧ k.cache.isEmpty = true := by
  have hi := hrun_inv pre _ (Inv_init t0) hc
  have hnop : ∀ av, op ≠ .pass av := by
    intro av e
    rw [e] at ht
    simp [editTarget] at ht
  have hi1 := hstep_inv _ op hi (fun av e => absurd e (hnop av))
  have hd := edit_dirties _ op p hi ht hex hv p' r hp
  have hd2 := dirty_persists p' post _ hnp hi1 hd
  have e : hrun (t0, NS.init realCache t0) (pre ++ op :: post) =
      hrun (hstep (hrun (t0, NS.init realCache t0) pre) op) post := by
    rw [hrun_append]; rfl
  rw [e] at hk
  exact dirty_flags_isEmpty _ (DirtyAt_nsAt robs p' _ k hd2 hk)

end history

/-! ## 4. C01's `Edit` steps are what the mutators + `mark_dirty` do -/
section item4
variable {α : Type} [Num α] {C : Type}
open EvalMemo

/-- the structural part of a mutator on the state of the node it acts on: NO cache is touched -/
def rawLocal (ci : CacheImpl α C) : Edit α → NS α C → NS α C
  | .setStyle _ _ _ => fun k => k
  | .insertChild _ i sub => insertState ci i sub
  | .removeChild _ i => removeState i
  | .replace _ sub => fun _ => NS.init ci sub

/-- the node the mutator hands to `mark_dirty` (the extracted table `Gen.Facts`: `set_style`, `set_node_context` → the
node; `add_child`, `insert_child_at_index`, `remove_child_at_index`, `replace_child_at_index` → the parent); replacing the
root builds a new tree: nothing to mark -/
def markTarget : Edit α → Option (List Nat)
  | .setStyle p _ _ => some p
  | .insertChild p _ _ => some p
  | .removeChild p _ => some p
  | .replace p _ => if p = [] then none else some p.dropLast

/-- the table above agrees with the table extracted from `src/tree/taffy_tree.rs` -/
theorem markTarget_facts :
    dirty_set_style = .node ∧ dirty_set_node_context = .node ∧ dirty_add_child = .parent ∧
    dirty_insert_child_at_index = .parent ∧ dirty_remove_child_at_index = .parent ∧
    dirty_replace_child_at_index = .parent := by decide

/-- **what `TaffyTree` does for an `Edit`**: the structural change (no cache touched), then `mark_dirty` with its early
exit on the target -/
def mutApply (ci : CacheImpl α C) (emp : C → Bool) (e : Edit α) (ns : NS α C) : NS α C :=
  match markTarget e with
  | some d => markDirtyRose ci emp d (modifyAt (rawLocal ci e) e.path ns)
  | none => modifyAt (rawLocal ci e) e.path ns

variable {ci : CacheImpl α C} (D : DirtyObs ci)

theorem onTree_setStyle (p : List Nat) (s : Style α) (ctx : Option (MeasureSpec α)) :
    (Edit.setStyle p s ctx).onTree = setStyleOf s ctx := by
  funext t; cases t; rfl

theorem onTree_insert (p : List Nat) (i : Nat) (sub : STree α) :
    (Edit.insertChild p i sub).onTree = insertTree i sub := by
  funext t; cases t; rfl

theorem onTree_remove (p : List Nat) (i : Nat) : (Edit.removeChild (α := α) p i).onTree = removeTree i := by
  funext t; cases t; rfl

/-- after the structural part of an edit at a path `d` by a local modification: everything `go_eq_clearPath` and
`markDirtyFT_restores_KT` need -/
theorem local_edit {f : STree α → STree α} {g : NS α C → NS α C} (L : LocalMod D.toCacheObs f g) (d : List Nat)
    (t : STree α) (ns : NS α C) (hsh : C16.Shape t ns) (hok : OK D.toCacheObs ns) (hk : KTns D.toCacheObs t ns)
    (hv : C05.VisibleTo t d) (hex : ∃ t', treeAt t d = some t') :
    markDirtyRose ci D.emp d (modifyAt g d ns) = clearPath ci d (modifyAt g d ns) ∧
    C16.Shape (treeModifyAt f d t) (markDirtyRose ci D.emp d (modifyAt g d ns)) ∧
    OK D.toCacheObs (markDirtyRose ci D.emp d (modifyAt g d ns)) ∧
    KTns D.toCacheObs (treeModifyAt f d t) (markDirtyRose ci D.emp d (modifyAt g d ns)) := by
  obtain ⟨r1, r2, r3, r4, _⟩ := modify_raw D.toCacheObs L d t ns hsh hok hk.1 hk.2
  obtain ⟨o1, o2⟩ := go_OK_shape D d _ _ r1 r2
  refine ⟨(go_eq_clearPath D d _ _ r1 r2 (PathK_of_ABx d _ r3 r4) (VisibleTo_modify f d t hv)
    (treeAt_modify f d t hex)).1, o2, o1, ?_⟩
  unfold KTns
  rw [markDirty_abs D d _ _ r1 r2]
  exact markDirtyFT_restores_KT d _ r3 r4

/-- **markDirty_establishes_Edit** (item 4): for each of the four mutators of `EvalMemo.Edit` — on ANY cache
implementation with observers and an emptiness test, in particular the real cache (`realDObs`) and the exact memo
(`memoDObs`) that `C01.history_independent_outputs_exact` is about — from a state of the right shape, with well-formed
caches, that satisfies the dirtiness invariant: if the node the edit acts on exists and NO `display:none` node lies
strictly above it, then the structural change followed by `TaffyTree::mark_dirty` WITH ITS EARLY EXIT produces exactly
the state `Edit.applyState` describes (structural change, cache of the node and of every ancestor cleared).  The new
state has again the right shape, well-formed caches and satisfies the invariant. -/
theorem markDirty_establishes_Edit (e : Edit α) (t : STree α) (ns : NS α C) (hsh : C16.Shape t ns)
    (hok : OK D.toCacheObs ns) (hk : KTns D.toCacheObs t ns) (hv : C05.VisibleTo t e.path)
    (hex : ∃ t', treeAt t e.path = some t') :
    mutApply ci D.emp e ns = e.applyState ci ns ∧
    C16.Shape (e.applyTree t) (e.applyState ci ns) ∧ OK D.toCacheObs (e.applyState ci ns) ∧
    KTns D.toCacheObs (e.applyTree t) (e.applyState ci ns) := by
  cases e with
  | setStyle p s ctx =>
    have hA : (Edit.setStyle p s ctx).applyState ci ns = clearPath ci p (modifyAt (fun k => k) p ns) := by
      rw [← stateModifyAt_clear]
      unfold Edit.applyState
      congr 1
      funext k; cases k; rfl
    obtain ⟨h1, h2, h3, h4⟩ := local_edit D (LM_style D.toCacheObs s ctx) p t ns hsh hok hk hv hex
    have hM : mutApply ci D.emp (Edit.setStyle p s ctx) ns = markDirtyRose ci D.emp p (modifyAt (fun k => k) p ns) := rfl
    unfold Edit.applyTree
    rw [hM, hA, onTree_setStyle, ← h1]
    exact ⟨rfl, h2, h3, h4⟩
  | insertChild p i sub =>
    have hA : (Edit.insertChild p i sub).applyState ci ns = clearPath ci p (modifyAt (insertState ci i sub) p ns) := by
      rw [← stateModifyAt_clear]
      unfold Edit.applyState
      congr 1
      funext k; cases k; rfl
    obtain ⟨h1, h2, h3, h4⟩ := local_edit D (LM_insert D.toCacheObs i sub) p t ns hsh hok hk hv hex
    have hM : mutApply ci D.emp (Edit.insertChild p i sub) ns =
        markDirtyRose ci D.emp p (modifyAt (insertState ci i sub) p ns) := rfl
    unfold Edit.applyTree
    rw [hM, hA, onTree_insert, ← h1]
    exact ⟨rfl, h2, h3, h4⟩
  | removeChild p i =>
    have hA : (Edit.removeChild p i).applyState ci ns = clearPath ci p (modifyAt (removeState i) p ns) := by
      rw [← stateModifyAt_clear]
      unfold Edit.applyState
      congr 1
      funext k; cases k; rfl
    obtain ⟨h1, h2, h3, h4⟩ := local_edit D (LM_remove D.toCacheObs i) p t ns hsh hok hk hv hex
    have hM : mutApply ci D.emp (Edit.removeChild p i) ns =
        markDirtyRose ci D.emp p (modifyAt (removeState i) p ns) := rfl
    unfold Edit.applyTree
    rw [hM, hA, onTree_remove, ← h1]
    exact ⟨rfl, h2, h3, h4⟩
  | replace p sub =>
    have hT : ∀ p' : List Nat, (Edit.replace p' sub).onTree = fun _ => sub := by intro p'; funext t; rfl
    have hS : ∀ p' : List Nat, (Edit.replace p' sub).onState ci = fun _ => NS.init ci sub := by intro p'; funext k; rfl
    rcases List.eq_nil_or_concat p with hp | ⟨q, i, hp⟩
    · -- the root is replaced: a freshly built tree
      subst hp
      refine ⟨rfl, ?_, ?_, ?_⟩
      · exact C16.Shape_init ci sub
      · exact OK_init D.toCacheObs sub
      · exact KTns_init D.toCacheObs sub
    · rw [List.concat_eq_append] at hp
      subst hp
      have hv' := VisibleTo_prefix q [i] t hv
      have hex' := treeAt_prefix q [i] t hex
      obtain ⟨h1, h2, h3, h4⟩ := local_edit D (LM_replaceChild D.toCacheObs i sub) q t ns hsh hok hk hv' hex'
      have hA : (Edit.replace (q ++ [i]) sub).applyState ci ns =
          clearPath ci q (modifyAt (modifyAt (fun _ => NS.init ci sub) [i]) q ns) := by
        rw [← stateModifyAt_clear]
        unfold Edit.applyState
        simp only [Edit.path]
        rw [hS, ← stateModifyAt_append]
        congr 1
        funext k; cases k; rfl
      have hM : mutApply ci D.emp (Edit.replace (q ++ [i]) sub) ns =
          markDirtyRose ci D.emp q (modifyAt (modifyAt (fun _ => NS.init ci sub) [i]) q ns) := by
        unfold mutApply
        simp only [markTarget, List.append_eq_nil_iff, List.cons_ne_self, and_false, if_false, List.dropLast_concat,
          Edit.path]
        rw [modifyAt_append]
        rfl
      have hTr : (Edit.replace (q ++ [i]) sub).applyTree t = treeModifyAt (treeModifyAt (fun _ => sub) [i]) q t := by
        unfold Edit.applyTree
        simp only [Edit.path]
        rw [hT, treeModifyAt_append]
      rw [hM, hA, hTr, ← h1]
      exact ⟨rfl, h2, h3, h4⟩

/-- the invariants after the structural part of an edit at `d` followed by `mark_dirty(d)` — no visibility needed -/
theorem local_inv {f : STree α → STree α} {g : NS α C → NS α C} (L : LocalMod D.toCacheObs f g) (d : List Nat)
    (t : STree α) (ns : NS α C) (hsh : C16.Shape t ns) (hok : OK D.toCacheObs ns) (hk : KTns D.toCacheObs t ns) :
    C16.Shape (treeModifyAt f d t) (markDirtyRose ci D.emp d (modifyAt g d ns)) ∧
    OK D.toCacheObs (markDirtyRose ci D.emp d (modifyAt g d ns)) ∧
    KTns D.toCacheObs (treeModifyAt f d t) (markDirtyRose ci D.emp d (modifyAt g d ns)) := by
  obtain ⟨r1, r2, r3, r4, _⟩ := modify_raw D.toCacheObs L d t ns hsh hok hk.1 hk.2
  obtain ⟨o1, o2⟩ := go_OK_shape D d _ _ r1 r2
  refine ⟨o2, o1, ?_⟩
  unfold KTns
  rw [markDirty_abs D d _ _ r1 r2]
  exact markDirtyFT_restores_KT d _ r3 r4

/-- **mutApply_preserves_K** (`C15.step_preserves_K` on the evaluator's state): each of the four mutators of
`EvalMemo.Edit`, performed as `TaffyTree` performs it (structural change, then `mark_dirty` with its early exit on the
target of the extracted table), at ANY path — `display:none` ancestors or not, existing or not — keeps the shape, the
cache invariant and the dirtiness invariant `KTns`, for every cache implementation with observers -/
theorem mutApply_preserves_K (e : Edit α) (t : STree α) (ns : NS α C) (hsh : C16.Shape t ns)
    (hok : OK D.toCacheObs ns) (hk : KTns D.toCacheObs t ns) :
    C16.Shape (e.applyTree t) (mutApply ci D.emp e ns) ∧ OK D.toCacheObs (mutApply ci D.emp e ns) ∧
    KTns D.toCacheObs (e.applyTree t) (mutApply ci D.emp e ns) := by
  cases e with
  | setStyle p s ctx =>
    have hM : mutApply ci D.emp (Edit.setStyle p s ctx) ns = markDirtyRose ci D.emp p (modifyAt (fun k => k) p ns) := rfl
    unfold Edit.applyTree
    rw [hM, onTree_setStyle]
    exact local_inv D (LM_style D.toCacheObs s ctx) p t ns hsh hok hk
  | insertChild p i sub =>
    have hM : mutApply ci D.emp (Edit.insertChild p i sub) ns =
        markDirtyRose ci D.emp p (modifyAt (insertState ci i sub) p ns) := rfl
    unfold Edit.applyTree
    rw [hM, onTree_insert]
    exact local_inv D (LM_insert D.toCacheObs i sub) p t ns hsh hok hk
  | removeChild p i =>
    have hM : mutApply ci D.emp (Edit.removeChild p i) ns =
        markDirtyRose ci D.emp p (modifyAt (removeState i) p ns) := rfl
    unfold Edit.applyTree
    rw [hM, onTree_remove]
    exact local_inv D (LM_remove D.toCacheObs i) p t ns hsh hok hk
  | replace p sub =>
    have hT : ∀ p' : List Nat, (Edit.replace p' sub).onTree = fun _ => sub := by intro p'; funext t; rfl
    rcases List.eq_nil_or_concat p with hp | ⟨q, i, hp⟩
    · subst hp
      exact ⟨C16.Shape_init ci sub, OK_init D.toCacheObs sub, KTns_init D.toCacheObs sub⟩
    · rw [List.concat_eq_append] at hp
      subst hp
      have hM : mutApply ci D.emp (Edit.replace (q ++ [i]) sub) ns =
          markDirtyRose ci D.emp q (modifyAt (modifyAt (fun _ => NS.init ci sub) [i]) q ns) := by
        unfold mutApply
        simp only [markTarget, List.append_eq_nil_iff, List.cons_ne_self, and_false, if_false, List.dropLast_concat,
          Edit.path]
        rw [modifyAt_append]
        rfl
      have hTr : (Edit.replace (q ++ [i]) sub).applyTree t = treeModifyAt (treeModifyAt (fun _ => sub) [i]) q t := by
        unfold Edit.applyTree
        simp only [Edit.path]
        rw [hT, treeModifyAt_append]
      rw [hM, hTr]
      exact local_inv D (LM_replaceChild D.toCacheObs i sub) q t ns hsh hok hk

/-- item 4 on the real caches -/
theorem markDirty_establishes_Edit_real (e : Edit α) (t : STree α) (ns : NS α (Cache α)) (hsh : C16.Shape t ns)
    (hok : OK robs ns) (hk : KTns realObs t ns) (hv : C05.VisibleTo t e.path)
    (hex : ∃ t', treeAt t e.path = some t') :
    mutApply realCache (fun c => c.isEmptyFlag) e ns = e.applyState realCache ns :=
  (markDirty_establishes_Edit realDObs e t ns hsh hok (by unfold KTns; rw [absFT_realDObs]; exact hk) hv hex).1

end item4

/-! ## 4b. C01's histories, run with the real mutators -/
section c01
variable {α : Type} [Num α] {C : Type} {ci : CacheImpl α C} (D : DirtyObs ci)
variable (sel : Display → Bool → Option Callee) (algs : Algs α)
open EvalMemo

/-- one step of a C01 history (`EvalMemo.runStep`) with the edit performed as `TaffyTree` performs it: structural change,
then `mark_dirty` with its early exit (`mutApply`) — instead of the idealised "clear every ancestor" (`Edit.applyState`) -/
def runStepMut (s : STree α × NS α C) (st : Step α) : STree α × NS α C :=
  let t' := st.edit.applyTree s.1
  (t', (evalNodeWith ci sel algs (STree.depth t' + st.extra) t' (mutApply ci D.emp st.edit s.2) st.inp).2)

def runHistoryMut (s : STree α × NS α C) (h : List (Step α)) : STree α × NS α C := h.foldl (runStepMut D sel algs) s

/-- a condition on the style trees of the history only: every pass is a PerformLayout evaluation, every edit acts on a
node that exists and has no `display:none` node strictly above it -/
def StepsVisible : STree α → List (Step α) → Prop
  | _, [] => True
  | t, st :: h => st.inp.runMode = .performLayout ∧ C05.VisibleTo t st.edit.path ∧
      (∃ t', treeAt t st.edit.path = some t') ∧ StepsVisible (st.edit.applyTree t) h

/-- a PerformLayout evaluation of the root (any input, any sufficient fuel) keeps shape, cache invariant and `KTns` -/
theorem eval_PL_inv (hsel : SelHidden sel) (hsok : EvalMemo.SelOK sel) (hcov : EvalMemo.PLCovers algs)
    (hcalm : AlgsCalm algs) (fuel : Nat) (t : STree α) (ns : NS α C) (inp : LayoutInput α)
    (hm : inp.runMode = .performLayout) (hd : STree.depth t ≤ fuel) (hsh : C16.Shape t ns)
    (hok : OK D.toCacheObs ns) (hk : KTns D.toCacheObs t ns) :
    C16.Shape t (evalNodeWith ci sel algs fuel t ns inp).2 ∧ OK D.toCacheObs (evalNodeWith ci sel algs fuel t ns inp).2 ∧
    KTns D.toCacheObs t (evalNodeWith ci sel algs fuel t ns inp).2 := by
  have e : evalNodeWith ci sel algs fuel t ns inp = evalNodeWith ci sel algs (STree.depth t) t ns inp :=
    EvalMemo.evalNodeWith_fuel_indep ci sel algs fuel (STree.depth t) t ns _ hd (Nat.le_refl _)
  obtain ⟨h1, cs, h2⟩ := eval_refines_visit D.toCacheObs sel algs hsel hsok hcov hcalm (STree.depth t) t ns inp .L hm hok
  refine ⟨C16.eval_shape ci sel algs fuel t ns inp hsh, by rw [e]; exact h1, ?_⟩
  rw [e]
  unfold KTns
  have h3 := h2 []
  rw [List.append_nil] at h3
  have h4 : absFT D.toCacheObs t (evalNodeWith ci sel algs (STree.depth t) t ns inp).2 =
      pass (absFT D.toCacheObs t ns) cs := by
    unfold pass
    rw [depth_abs D.toCacheObs t ns hsh, h3]
  rw [h4]
  exact (C15Pass.pass_cleans _ cs hk).1

/-- **mut_history_eq**: along a history whose passes are PerformLayout evaluations and whose edits act on existing
nodes with no `display:none` node strictly above them, running the edits as `TaffyTree` does (`mark_dirty` with the early
exit) gives step by step the SAME state as `EvalMemo.runHistory`; the invariant holds throughout -/
theorem mut_history_eq (hsel : SelHidden sel) (hsok : EvalMemo.SelOK sel) (hcov : EvalMemo.PLCovers algs)
    (hcalm : AlgsCalm algs) : ∀ (h : List (Step α)) (s : STree α × NS α C), C16.Shape s.1 s.2 → OK D.toCacheObs s.2 →
    KTns D.toCacheObs s.1 s.2 → StepsVisible s.1 h →
    runHistoryMut D sel algs s h = runHistory ci sel algs s h ∧
    C16.Shape (runHistory ci sel algs s h).1 (runHistory ci sel algs s h).2 ∧
    OK D.toCacheObs (runHistory ci sel algs s h).2 ∧
    KTns D.toCacheObs (runHistory ci sel algs s h).1 (runHistory ci sel algs s h).2
  | [], s, h1, h2, h3, _ => ⟨rfl, h1, h2, h3⟩
  | st :: h, s, h1, h2, h3, hv => by
    obtain ⟨hm, v1, v2, v3⟩ := hv
    obtain ⟨e, i1, i2, i3⟩ := markDirty_establishes_Edit D st.edit s.1 s.2 h1 h2 h3 v1 v2
    have es : runStepMut D sel algs s st = runStep ci sel algs s st := by
      unfold runStepMut runStep
      rw [e]
    obtain ⟨j1, j2, j3⟩ := eval_PL_inv D sel algs hsel hsok hcov hcalm (STree.depth (st.edit.applyTree s.1) + st.extra)
      (st.edit.applyTree s.1) (st.edit.applyState ci s.2) st.inp hm (Nat.le_add_right _ _) i1 i2 i3
    have ih := mut_history_eq hsel hsok hcov hcalm h (runStep ci sel algs s st) j1 j2 j3 v3
    simp only [runHistoryMut, runHistory, List.foldl_cons] at ih ⊢
    rw [es]
    exact ih

/-- **history_independent_outputs_exact_mut** (item 4, the corollary for C01): `C01.history_independent_outputs_exact`
with the edits performed AS `TaffyTree` PERFORMS THEM (`runHistoryMut`: structural change, then `mark_dirty` with the early
exit, on the exact memo) — for every dispatch and bundle satisfying the hypotheses of the refinement theorem, every
history from a freshly built tree whose passes are PerformLayout evaluations and whose edits act on nodes with no
`display:none` node strictly above them: the output of the exact-memo evaluator for the root equals the cache-free
output of a freshly built copy of the final tree. -/
theorem history_independent_outputs_exact_mut [DecidableEq α] (hsel : SelHidden sel) (hsok : EvalMemo.SelOK sel)
    (hcov : EvalMemo.PLCovers algs) (hcalm : AlgsCalm algs) (t0 : STree α) (h : List (Step α))
    (hvis : StepsVisible t0 h) (inp : LayoutInput α) (fuel : Nat)
    (hd : STree.depth (runHistoryMut memoDObs sel algs (t0, NS.init exactMemo t0) h).1 ≤ fuel) :
    let s := runHistoryMut memoDObs sel algs (t0, NS.init exactMemo t0) h
    s = runHistory exactMemo sel algs (t0, NS.init exactMemo t0) h ∧
    (evalNodeWith exactMemo sel algs fuel s.1 s.2 inp).1 = outFresh sel algs fuel s.1 inp ∧
    (evalNodeWith exactMemo sel algs fuel s.1 s.2 inp).1 =
      (evalNodeWith noCache sel algs fuel s.1 (NS.init noCache s.1) inp).1 := by
  intro s
  have e : s = runHistory exactMemo sel algs (t0, NS.init exactMemo t0) h :=
    (mut_history_eq memoDObs sel algs hsel hsok hcov hcalm h (t0, NS.init exactMemo t0)
      (C16.Shape_init exactMemo t0) (OK_init memoDObs.toCacheObs t0) (KTns_init memoDObs.toCacheObs t0) hvis).1
  have hd' : STree.depth s.1 ≤ fuel := hd
  rw [e] at hd' ⊢
  exact ⟨rfl, C01.history_independent_outputs_exact sel algs t0 h inp fuel hd'⟩

end c01

section c01concrete
variable {α : Type} [Num α] [FlexLine.NumX α] [GridTracks.NumCast α] [DecidableEq α]
open EvalGrid EvalMemo

/-- the corollary for the extracted dispatch and the concrete leaf / block / flexbox algorithms with the total grid
program `gridCov` (= `compute_grid_layout` on every run that does not panic; `EvalGrid.GridCalm_agree`): no hypothesis
on the bundle is left -/
theorem history_independent_outputs_exact_mut_real (t0 : STree α) (h : List (Step α))
    (hvis : StepsVisible t0 h) (inp : LayoutInput α) (fuel : Nat)
    (hd : STree.depth (runHistoryMut memoDObs (Dispatch.select dispatchArms) (algsCovG : Algs α)
      (t0, NS.init exactMemo t0) h).1 ≤ fuel) :
    let s := runHistoryMut memoDObs (Dispatch.select dispatchArms) (algsCovG : Algs α) (t0, NS.init exactMemo t0) h
    s = runHistory exactMemo (Dispatch.select dispatchArms) algsCovG (t0, NS.init exactMemo t0) h ∧
    (evalNodeWith exactMemo (Dispatch.select dispatchArms) algsCovG fuel s.1 s.2 inp).1 =
      outFresh (Dispatch.select dispatchArms) algsCovG fuel s.1 inp ∧
    (evalNodeWith exactMemo (Dispatch.select dispatchArms) algsCovG fuel s.1 s.2 inp).1 =
      (evalNodeWith noCache (Dispatch.select dispatchArms) algsCovG fuel s.1 (NS.init noCache s.1) inp).1 :=
  history_independent_outputs_exact_mut _ _ selHidden_real C01.selOK_real algsCovG_PLCovers algsCovG_Calm t0 h hvis inp
    fuel hd

/-- `runHistoryMut` only depends on the bundle through the trees of the history -/
theorem runHistoryMut_agree {C : Type} {ci : CacheImpl α C} (D : DirtyObs ci) (sel : Display → Bool → Option Callee)
    (a1 a2 : Algs α) (h : List (Step α)) : ∀ (s : STree α × NS α C), EvalBlock.AgreeHist sel a1 a2 s.1 h →
      runHistoryMut D sel a1 s h = runHistoryMut D sel a2 s h := by
  induction h with
  | nil => intro s _; rfl
  | cons st rest ih =>
    intro s ha
    have h1 := EvalBlock.AgreeHist_head sel a1 a2 _ rest ha.2
    have e : runStepMut D sel a1 s st = runStepMut D sel a2 s st := by
      unfold runStepMut
      simp only
      rw [EvalBlock.eval_agree ci sel a1 a2 _ _ _ _ h1]
    simp only [runHistoryMut, List.foldl_cons]
    rw [e]
    exact ih _ (by simpa only [runStepMut] using ha.2)

/-- **history_independent_outputs_exact_mut_all_trees** (item 4 for the concrete bundle): with the extracted dispatch
and the concrete leaf / block / flexbox / grid algorithms (`EvalGrid.allAlgs`), for every history from a freshly built
tree in which every tree is `GridCalm`, every pass is a PerformLayout evaluation and every edit acts on a node with no
`display:none` node strictly above it: the history run with the REAL mutators (`mark_dirty` with the early exit on the
exact memo) is state for state the history of C01, and the exact-memo output for the root equals the cache-free output
of a freshly built copy of the final tree -/
theorem history_independent_outputs_exact_mut_all_trees (t0 : STree α) (h : List (Step α))
    (hb : GridCalmHist t0 h) (hvis : StepsVisible t0 h) (inp : LayoutInput α) (fuel : Nat)
    (hd : STree.depth (runHistoryMut memoDObs (Dispatch.select dispatchArms) (allAlgs : Algs α)
      (t0, NS.init exactMemo t0) h).1 ≤ fuel) :
    let s := runHistoryMut memoDObs (Dispatch.select dispatchArms) (allAlgs : Algs α) (t0, NS.init exactMemo t0) h
    s = runHistory exactMemo (Dispatch.select dispatchArms) allAlgs (t0, NS.init exactMemo t0) h ∧
    (evalNode exactMemo allAlgs fuel s.1 s.2 inp).1 = (evalNode noCache allAlgs fuel s.1 (NS.init noCache s.1) inp).1 := by
  have hA := GridCalmHist_agree _ EvalBlock.docSel_real h t0 hb
  have e1 := runHistoryMut_agree memoDObs _ _ _ h (t0, NS.init exactMemo t0) hA
  have e2 := EvalBlock.runHistory_agree exactMemo _ _ _ h (t0, NS.init exactMemo t0) hA
  have hfin := EvalBlock.AgreeHist_final exactMemo _ _ _ algsCovG h (t0, NS.init exactMemo t0) hA
  have hd' : STree.depth (runHistoryMut memoDObs (Dispatch.select dispatchArms) (algsCovG : Algs α)
      (t0, NS.init exactMemo t0) h).1 ≤ fuel := by
    have := hd
    rw [e1] at this
    exact this
  obtain ⟨r1, _, r3⟩ := history_independent_outputs_exact_mut_real t0 h hvis inp fuel hd'
  intro s
  have es : s = runHistoryMut memoDObs (Dispatch.select dispatchArms) (algsCovG : Algs α)
      (t0, NS.init exactMemo t0) h := e1
  have hfin' : EvalBlock.AgreeOn (Dispatch.select dispatchArms) (allAlgs : Algs α) algsCovG s.1 := by
    rw [es, r1]; exact hfin
  refine ⟨?_, ?_⟩
  · rw [es, r1]; exact e2.symm
  · unfold evalNode
    rw [EvalBlock.eval_agree exactMemo _ _ _ fuel s.1 _ inp hfin', EvalBlock.eval_agree noCache _ _ _ fuel s.1 _ inp hfin', es]
    exact r3

end c01concrete

/-! ## 1b. the flat model's `markDirty` is `markDirtyFT` on the unfolding (C15Link's correspondence) -/
section flat
open Dirty C15Link

/-- **markDirty_flat_is_markDirtyFT** (item 1, second half): in every flat state satisfying the structural invariant
(`C15Link.reach_inv`: every state reached by mutators and passes), for every parentless node `r` and every node `n`
reached from `r` by the path `p` of child indices: `Dirty.markDirty` (the recursion along parent pointers with the
`AlreadyEmpty` early exit, fuel `next + 1`) does not run out of fuel, keeps the shape, touches nothing outside the
subtree of `r`, and the rose tree of `r`'s subtree afterwards (`C15Link.unfold`, THE rose tree by
`C15Link.subtree_is_rose_tree`) is `markDirtyFT p` of the rose tree before. -/
theorem markDirty_flat_is_markDirtyFT {s : St} (st : Struct s) {r : Nat} (hr : s.parent r = none) (p : List Nat)
    (n : Nat) (hn : nodeAt s r p = some n) :
    ∃ s', Dirty.markDirty (s.next + 1) s n = some s' ∧ Dirty.SameShape s s' ∧
      unfold s' s'.next r = markDirtyFT p (unfold s s.next r) ∧
      (∀ m, ¬ Desc s r m → s'.fin m = s.fin m ∧ s'.meas m = s.meas m) := by
  have hs := subtree_finite st hr
  have hu := unfold_exact _ _ hs
  obtain ⟨s1, sh, u1, fr, eq⟩ := flat_go st p r _ n s.next hs hu hn
  have hlen : p.length ≤ s.next := (descN_le hs (nodeAt_descN p r n hn)).1
  have e := eq (s.next - p.length)
  have hf : p.length + 1 + (s.next - p.length) = s.next + 1 := by omega
  rw [hf, hr] at e
  have e' : Dirty.markDirty (s.next + 1) s n = some s1 := by
    rw [e]; split <;> rfl
  refine ⟨s1, e', sh, ?_, fr⟩
  have hr1 : s1.parent r = none := by rw [sh.2.2.1]; exact hr
  exact ((subtree_is_rose_tree (st.of_shape sh) hr1).2.1 _ u1).symm

variable {α : Type} [Num α]

/-- **markDirty_rose_is_flat** (item 1, both halves together): if the flags of the evaluator's state, read through
`absFT realObs`, are the rose tree of the flat model's subtree under the parentless node `r` (C15Link's correspondence),
then after `mark_dirty` on both sides — `markDirty_rose p` on the evaluator's real caches, `Dirty.markDirty` on the flat
model at the node the path leads to — they still are.  So `C15.mutation_dirties_exactly`, `C15.ancestors_dirty` and the
early-exit argument (`C15.I_reachable`) are statements about the evaluator's state. -/
theorem markDirty_rose_is_flat (t : STree α) (ns : NS α (Cache α)) (hsh : C16.Shape t ns) (hok : OK robs ns)
    {s : St} (st : Struct s) {r : Nat} (hr : s.parent r = none) (p : List Nat) (n : Nat)
    (hn : nodeAt s r p = some n) (hcorr : absFT realObs t ns = unfold s s.next r) :
    ∃ s', Dirty.markDirty (s.next + 1) s n = some s' ∧ Dirty.step s (.markDirty n) = some s' ∧
      absFT realObs t (markDirty_rose p ns) = unfold s' s'.next r := by
  obtain ⟨s', h1, _, h3, _⟩ := markDirty_flat_is_markDirtyFT st hr p n hn
  refine ⟨s', h1, h1, ?_⟩
  rw [markDirty_rose_abs p t ns hsh hok, hcorr, h3]

/-- non-vacuity: `C15Link.exS'` (root 0 with children 1 — `display:none`, child 3 — and 2; after a pass) and the path
`[1]` to node 2 -/
example : ∃ s', Dirty.markDirty (exS'.next + 1) exS' 2 = some s' ∧ Dirty.SameShape exS' s' ∧
    unfold s' s'.next 0 = markDirtyFT [1] (unfold exS' exS'.next 0) ∧
    (∀ m, ¬ Desc exS' 0 m → s'.fin m = exS'.fin m ∧ s'.meas m = exS'.meas m) :=
  markDirty_flat_is_markDirtyFT (s := exS') (r := 0)
    (Struct.of_shape (s := exS) (s' := exS') ⟨rfl, rfl, rfl, rfl, rfl⟩ (struct_reachable exH exS exS_run exH_valid))
    (by decide) [1] 2 (by decide)

end flat

/-! ## 3b. the same histories on the flat model: the evaluator's flags ARE the flat model's flags -/
section flatsim
variable {α : Type} [Num α] [FlexLine.NumX α] [GridTracks.NumCast α]
open EvalGrid EvalMemo Dirty C15Link

/-- **the correspondence**: the evaluator's state satisfies its invariants, the flat state the structural invariant, `r` is
parentless, and the flags of the evaluator's real caches read through `absFT` are THE rose tree of `r`'s subtree in the
flat state (`C15Link.subtree_is_rose_tree`) -/
structure Corr (se : HState α) (s : St) (r : Nat) : Prop where
  inv : Inv se
  struct : Struct s
  root : s.parent r = none
  flags : absFT realObs se.1 se.2 = unfold s s.next r

theorem flat_setStyle_eq (s : St) (n : Nat) (h : Bool) :
    Dirty.step s (.setStyle n h) = Dirty.markDirty ((setHiddenSt s n h).next + 1) (setHiddenSt s n h) n := by
  have e : Gen.Facts.dirty_set_style = .node := by decide
  simp only [Dirty.step, applyDirty, e, dirtyTarget]
  rfl

/-- **markDirty_is_flat**: `mark_dirty` on both sides keeps the correspondence -/
theorem markDirty_is_flat (se : HState α) (s : St) (r : Nat) (hc : Corr se s r) (p : List Nat) (n : Nat)
    (hn : nodeAt s r p = some n) :
    ∃ s', Dirty.step s (.markDirty n) = some s' ∧ Corr (hstep se (.markDirty p)) s' r ∧ s'.children = s.children ∧
      (Reach s → Reach s') := by
  obtain ⟨s', h1, h2, h3⟩ := markDirty_rose_is_flat se.1 se.2 hc.inv.1 hc.inv.2.1 hc.struct hc.root p n hn hc.flags
  have sh := markDirty_shape _ _ _ _ h1
  refine ⟨s', h2, ⟨hstep_inv se _ hc.inv (fun av e => by cases e), hc.struct.of_shape sh, ?_, h3⟩, sh.2.2.2.1,
    fun hr => .mutate (op := .markDirty n) hr trivial h2⟩
  rw [sh.2.2.1]; exact hc.root

/-- **style_is_flat**: `set_style` at the path `p` on the evaluator's state (new style, then `mark_dirty` with the early
exit on the real caches) and `set_style(n, display:none := …)` on the flat model (`Dirty.step`, with the `mark_dirty`
target extracted from the source) keep the correspondence -/
theorem style_is_flat (se : HState α) (s : St) (r : Nat) (hc : Corr se s r) (p : List Nat) (sty : Style α)
    (ctx : Option (MeasureSpec α)) (n : Nat) (hn : nodeAt s r p = some n) :
    ∃ s', Dirty.step s (.setStyle n sty.isHidden) = some s' ∧ Corr (hstep se (.style p sty ctx)) s' r ∧
      s'.children = s.children ∧ (Reach s → Reach s') := by
  have hs := subtree_finite hc.struct hc.root
  have hu := unfold_exact _ _ hs
  -- the structural part on both sides
  have st_h := struct_setHidden hc.struct n sty.isHidden
  have hr_h : (setHiddenSt s n sty.isHidden).parent r = none := hc.root
  have hu_h := flat_setHidden hc.struct sty.isHidden p r _ n s.next hs hu hn
  have hcorr : absFT realObs (treeModifyAt (setStyleOf sty ctx) p se.1) se.2 =
      unfold (setHiddenSt s n sty.isHidden) (setHiddenSt s n sty.isHidden).next r := by
    rw [abs_setHid realObs sty ctx p se.1 se.2 hc.inv.1, hc.flags]
    exact (subtree_is_rose_tree st_h hr_h).2.1 _ hu_h
  have hn_h : nodeAt (setHiddenSt s n sty.isHidden) r p = some n := by
    rw [nodeAt_congr (s := s) (s2 := setHiddenSt s n sty.isHidden) rfl]; exact hn
  obtain ⟨s', h1, _, h3⟩ := markDirty_rose_is_flat (treeModifyAt (setStyleOf sty ctx) p se.1) se.2
    (Shape_style sty ctx p se.1 se.2 hc.inv.1) hc.inv.2.1 st_h hr_h p n hn_h hcorr
  have sh := markDirty_shape _ _ _ _ h1
  have hstep' : Dirty.step s (.setStyle n sty.isHidden) = some s' := by rw [flat_setStyle_eq]; exact h1
  refine ⟨s', hstep', ⟨hstep_inv se _ hc.inv (fun av e => by cases e), st_h.of_shape sh, ?_, h3⟩, ?_,
    fun hr => .mutate (op := .setStyle n sty.isHidden) hr trivial hstep'⟩
  · rw [sh.2.2.1]; exact hr_h
  · rw [sh.2.2.2.1]; rfl

/-- **pass_is_flat**: the evaluator's root pass is, on the flat model, a pass from `r` resolved by some choice stream
(`C15Link.PassFlat`), and the correspondence is kept -/
theorem pass_is_flat (se : HState α) (s : St) (r : Nat) (hc : Corr se s r) (av : Size (AvailableSpace α))
    (hb : GridCalm se.1) :
    ∃ cs s', PassFlat s r cs s' ∧ Corr (hstep se (.pass av)) s' r ∧ s'.children = s.children ∧ (Reach s → Reach s') := by
  obtain ⟨⟨cs, h⟩, _, _⟩ := rootPass_refines se.1 av se.2 hb hc.inv.1 hc.inv.2.1
  obtain ⟨s', hp⟩ := pass_total hc.struct hc.root cs
  have st' := hc.struct.of_shape hp.shape
  have hr' : s'.parent r = none := by rw [hp.shape.2.2.1]; exact hc.root
  refine ⟨cs, s', hp, ⟨hstep_inv se _ hc.inv (fun av' e => by cases e; exact hb), st', hr', ?_⟩, hp.shape.2.2.2.1,
    fun hr => .pass hr hc.root hp⟩
  show absFT realObs se.1 (rootPass se.1 av se.2) = _
  rw [h, hc.flags]
  exact (subtree_is_rose_tree st' hr').2.1 _ hp.tree

/-- the operations that have a counterpart on the flat model of `Model/Dirty.lean` by path: `set_style`, `mark_dirty`
(the path must lead to a node of the flat subtree) and passes -/
def HFlat (s0 : St) (r : Nat) : List (HOp α) → Prop
  | [] => True
  | .style p _ _ :: h => (∃ n, nodeAt s0 r p = some n) ∧ HFlat s0 r h
  | .markDirty p :: h => (∃ n, nodeAt s0 r p = some n) ∧ HFlat s0 r h
  | .pass _ :: h => HFlat s0 r h
  | .replace _ _ _ :: _ => False

/-- **history_is_flat** (the chain, for `set_style` / `mark_dirty` / passes): along every such history the evaluator's
state and the flat model stay in correspondence — after ANY history of these mutators and passes the evaluator's real
caches, read through `absFT`, are exactly the flags of the flat model (which is reached by `Dirty.step`s and
`PassFlat`s: `C15Link.Reach` is kept), so `C15.mutation_dirties_exactly`, `C15.ancestors_dirty`, `C15.I_reachable` and
`C15Link.passFlat_preserves` speak about the evaluator's state -/
theorem history_is_flat (s0 : St) (r : Nat) : ∀ (h : List (HOp α)) (se : HState α) (s : St), Corr se s r →
    s.children = s0.children → HCalm se h → HFlat s0 r h →
    ∃ s', Corr (hrun se h) s' r ∧ s'.children = s0.children ∧ (Reach s → Reach s')
  | [], se, s, hc, hch, _, _ => ⟨s, hc, hch, id⟩
  | op :: ops, se, s, hc, hch, hcalm, hfl => by
    cases op with
    | style p sty ctx =>
      obtain ⟨⟨n, hn⟩, hfl'⟩ := hfl
      have hn' : nodeAt s r p = some n := by rw [nodeAt_congr hch]; exact hn
      obtain ⟨s1, _, c1, ch1, r1⟩ := style_is_flat se s r hc p sty ctx n hn'
      obtain ⟨s', c', ch', r'⟩ := history_is_flat s0 r ops _ s1 c1 (ch1.trans hch) hcalm.2 hfl'
      exact ⟨s', c', ch', fun hr => r' (r1 hr)⟩
    | markDirty p =>
      obtain ⟨⟨n, hn⟩, hfl'⟩ := hfl
      have hn' : nodeAt s r p = some n := by rw [nodeAt_congr hch]; exact hn
      obtain ⟨s1, _, c1, ch1, r1⟩ := markDirty_is_flat se s r hc p n hn'
      obtain ⟨s', c', ch', r'⟩ := history_is_flat s0 r ops _ s1 c1 (ch1.trans hch) hcalm.2 hfl'
      exact ⟨s', c', ch', fun hr => r' (r1 hr)⟩
    | pass av =>
      obtain ⟨cs, s1, _, c1, ch1, r1⟩ := pass_is_flat se s r hc av (hcalm.1 av rfl)
      obtain ⟨s', c', ch', r'⟩ := history_is_flat s0 r ops _ s1 c1 (ch1.trans hch) hcalm.2 hfl
      exact ⟨s', c', ch', fun hr => r' (r1 hr)⟩
    | replace q i sub => exact hfl.elim

end flatsim

/-! ## 5. non-vacuity: a 4-node tree, a history edit · pass · edit · pass -/
section Examples
open EvalGrid EvalMemo

/-- block root > flexbox container > two measured leaves -/
def ex5 : STree Rat :=
  .node C05.blockStyle none
    [.node EvalFlex.flexStyle none
      [.node C05.blockStyle (some (.fixed 10 10)) [], .node C05.blockStyle (some (.fixed 20 10)) []]]

def av5 : Size (AvailableSpace Rat) := ⟨.definite 100, .maxContent⟩

/-- the replacement used in `hist5` -/
def op5 : HOp Rat := .replace [0] 1 (.node C05.blockStyle (some (.fixed 30 10)) [])

/-- `set_style` on the second leaf of the fresh tree · pass · replace the second leaf by a new 30×10 leaf · pass -/
def hist5 : List (HOp Rat) :=
  [.style [0, 1] C05.blockStyle (some (.fixed 25 10)), .pass av5,
   op5, .pass av5]

/-- executable form of `C05.VisibleTo` (for concrete instances) -/
def visB : STree Rat → List Nat → Bool
  | _, [] => true
  | .node s _ kids, i :: p =>
    decide (s.display ≠ .none) &&
      match kids[i]? with
      | some c => visB c p
      | none => true

theorem visB_sound : ∀ (t : STree Rat) (p : List Nat), visB t p = true → C05.VisibleTo t p
  | t, [], _ => by cases t; simp only [C05.VisibleTo]
  | .node s c kids, i :: p, h => by
    simp only [visB, Bool.and_eq_true, decide_eq_true_eq] at h
    simp only [C05.VisibleTo]
    refine ⟨h.1, ?_⟩
    cases hk : kids[i]? with
    | none => trivial
    | some tc =>
      rw [hk] at h
      exact visB_sound tc p h.2

/-- the trees of the history -/
def ex5a : STree Rat :=
  .node C05.blockStyle none
    [.node EvalFlex.flexStyle none
      [.node C05.blockStyle (some (.fixed 10 10)) [], .node C05.blockStyle (some (.fixed 25 10)) []]]
def ex5b : STree Rat :=
  .node C05.blockStyle none
    [.node EvalFlex.flexStyle none
      [.node C05.blockStyle (some (.fixed 10 10)) [], .node C05.blockStyle (some (.fixed 30 10)) []]]

theorem ex5_trees :
    (hrun (ex5, NS.init realCache ex5) (hist5.take 1)).1 = ex5a ∧
    (hrun (ex5, NS.init realCache ex5) (hist5.take 2)).1 = ex5a ∧
    (hrun (ex5, NS.init realCache ex5) (hist5.take 3)).1 = ex5b ∧
    (hrun (ex5, NS.init realCache ex5) hist5).1 = ex5b := ⟨rfl, rfl, rfl, rfl⟩

theorem ex5a_calm : GridCalm ex5a := gridCalm_of_gridCalmB ex5a (by decide +kernel)
theorem ex5b_calm : GridCalm ex5b := gridCalm_of_gridCalmB ex5b (by decide +kernel)

/-- the hypothesis of `history_refines` holds for `hist5` -/
theorem hist5_calm : HCalm (ex5, NS.init realCache ex5) hist5 := by
  refine ⟨(fun av e => by cases e), fun av _ => ?_, (fun av e => by cases e), fun av _ => ?_, trivial⟩
  · exact ex5a_calm
  · exact ex5b_calm

/-- the flags of the real caches, read through `absFT`, after each operation of `hist5` (evaluated):
 1. `set_style` on a leaf of the FRESH tree: `mark_dirty` stops at once (`AlreadyEmpty`) — nothing changes;
 2. pass: root and container hold a final entry, the leaves a final and a measure entry;
 3. `replace_child_at_index(container, 1, new leaf)` + `mark_dirty(container)`: container and root are dirty, the first
    leaf keeps its entries, the new leaf is dirty;
 4. pass: everything clean again. -/
theorem ex5_flags :
    absFT realObs ex5a (hrun (ex5, NS.init realCache ex5) (hist5.take 1)).2 =
      .node false false false [.node false false false [.node false false false [], .node false false false []]] ∧
    absFT realObs ex5a (hrun (ex5, NS.init realCache ex5) (hist5.take 2)).2 =
      .node false true false [.node false true false [.node false true true [], .node false true true []]] ∧
    absFT realObs ex5b (hrun (ex5, NS.init realCache ex5) (hist5.take 3)).2 =
      .node false false false [.node false false false [.node false true true [], .node false false false []]] ∧
    absFT realObs ex5b (hrun (ex5, NS.init realCache ex5) hist5).2 =
      .node false true false [.node false true false [.node false true true [], .node false true true []]] := by
  simp only [hrun, hist5, op5, List.take, List.foldl, hstep, rootPass, markDirty_rose]
  rw [allAlgs_eq_K]
  refine ⟨ftEq_sound _ _ (by decide +kernel), ftEq_sound _ _ (by decide +kernel), ftEq_sound _ _ (by decide +kernel),
    ftEq_sound _ _ (by decide +kernel)⟩

/-- `history_refines` applies: the invariant holds after the whole history … -/
example : KTns realObs (hrun (ex5, NS.init realCache ex5) hist5).1 (hrun (ex5, NS.init realCache ex5) hist5).2 :=
  (history_refines ex5 hist5 hist5_calm).2.2.2

/-- … `history_refines_dirty` applies to the replacement (`pre` = the first two operations, `post` empty): its
`mark_dirty` target `[0]` exists and has no `display:none` proper ancestor, so the container and the root are dirty -/
example (k : NS Rat (Cache Rat))
    (hk : C05.nsAt (hrun (ex5, NS.init realCache ex5) (hist5.take 2 ++ op5 :: [])).2 [] = some k) :
    k.cache.isEmpty = true :=
  (history_refines_dirty ex5 (hist5.take 2) [] op5 [0]
    ⟨(fun av e => by cases e), fun av _ => ex5a_calm, trivial⟩ (fun o ho => by cases ho) rfl ⟨_, rfl⟩
    (visB_sound _ _ (by decide +kernel)) [] [0] rfl k hk).2.2

/-- … and `history_pass_cleans` to the final pass: e.g. the new leaf at `[0, 1]` is clean -/
example (k : NS Rat (Cache Rat)) (hk : C05.nsAt (hrun (ex5, NS.init realCache ex5) hist5).2 [0, 1] = some k) :
    k.cache.isEmpty = false :=
  (history_pass_cleans ex5 (hist5.take 3) av5 hist5_calm [0, 1] k
    (visB_sound _ _ (by decide +kernel)) ⟨_, rfl⟩ hk).2

/-- item 4 on this tree: after the first pass, `set_style` on the second leaf done the `TaffyTree` way equals the
`Edit` step of C01 (the hypotheses of `markDirty_establishes_Edit_real` are met) -/
example : mutApply realCache (fun c => c.isEmptyFlag) (Edit.setStyle [0, 1] C05.blockStyle (some (.fixed 30 10)))
      (hrun (ex5, NS.init realCache ex5) (hist5.take 2)).2 =
    (Edit.setStyle [0, 1] C05.blockStyle (some (.fixed 30 10))).applyState realCache
      (hrun (ex5, NS.init realCache ex5) (hist5.take 2)).2 := by
  have hi := hrun_inv (hist5.take 2) _ (Inv_init ex5) ⟨(fun av e => by cases e), fun av _ => ex5a_calm, trivial⟩
  exact markDirty_establishes_Edit_real _ ex5a _ hi.1 hi.2.1 hi.2.2 (visB_sound _ _ (by decide +kernel)) ⟨_, rfl⟩

/-- a C01 history that meets `StepsVisible` (item 4b is not vacuous): restyle the second leaf, PerformLayout pass -/
example : StepsVisible ex5
    [⟨Edit.setStyle [0, 1] C05.blockStyle (some (.fixed 30 10)),
      { (LayoutInput.hidden : LayoutInput Rat) with runMode := .performLayout }, 0⟩] :=
  ⟨rfl, visB_sound _ _ (by decide +kernel), ⟨_, rfl⟩, trivial⟩

/-- the style tree of `C15Link.exS` (root 0 with children 1 — `display:none`, child 3 — and 2) -/
def exT : STree Rat :=
  .node C05.blockStyle none
    [.node C05.hiddenStyle none [.node C05.blockStyle (some (.fixed 10 10)) []],
     .node C05.blockStyle (some (.fixed 20 10)) []]

/-- the freshly built evaluator state of `exT` and the flat state `C15Link.exS` correspond -/
theorem exT_corr : Corr (exT, NS.init realCache exT) C15Link.exS 0 where
  inv := Inv_init exT
  struct := C15Link.struct_reachable C15Link.exH C15Link.exS C15Link.exS_run C15Link.exH_valid
  root := by decide
  flags := by
    have e : C15Link.unfold C15Link.exS C15Link.exS.next 0 =
        .node false false false [.node true false false [.node false false false []], .node false false false []] := by
      rfl
    rw [e]
    exact ftEq_sound _ _ (by decide +kernel)

/-- restyle node 2 · pass · `mark_dirty` of node 3 (below the hidden node) · un-hide node 1 · pass -/
def histT : List (HOp Rat) :=
  [.style [1] C05.blockStyle (some (.fixed 25 10)), .pass av5, .markDirty [0, 0],
   .style [0] C05.blockStyle none, .pass av5]

/-- `history_is_flat` applies to `histT`: its hypotheses hold, so at the end the evaluator's flags are the flat model's -/
example : ∃ s', Corr (hrun (exT, NS.init realCache exT) histT) s' 0 ∧ s'.children = C15Link.exS.children ∧
    (C15Link.Reach C15Link.exS → C15Link.Reach s') := by
  refine history_is_flat C15Link.exS 0 histT _ _ exT_corr rfl ?_ ?_
  · refine ⟨(fun av e => by cases e), fun av _ => ?_, (fun av e => by cases e), (fun av e => by cases e),
      fun av _ => ?_, trivial⟩
    · exact gridCalm_of_gridCalmB _ (by decide +kernel)
    · exact gridCalm_of_gridCalmB _ (by decide +kernel)
  · exact ⟨⟨2, by decide⟩, ⟨3, by decide⟩, ⟨1, by decide⟩, trivial⟩

end Examples


end C15Mut
