/-
  Tie (tier T) for the pure line / cross-axis functions of src/compute/flexbox.rs:
  `collect_flex_lines`, `calculate_cross_size`, `handle_align_content_stretch`, `resolve_cross_axis_auto_margins`,
  `align_flex_items_along_cross_axis`, `determine_container_cross_size`, `align_flex_lines_per_align_content`.

  `Gen.Flex.*` is regenerated from the Rust source on every run (extract/src/{loops,flexwhile,flexmod}.rs). The theorems prove each
  generated definition equal to the definition of `Model/Flex.lean` (the flex program the FLEX / EVAL correspondences and the theorems of
  C07 / C04 / C12 / C06 are stated on), for every `[Num α]` and every argument:

    * `collect_flex_lines_eq` — for every fuel ≥ the number of items the translated function (two `while` loops over `split_at_mut`
      slices, the `enumerate().find(..)` with the running line length) returns `some (FlexModel.collectFlexLines k av items)`: it does not
      panic, it finishes, and the lines are the model's (`breakIndex` / `splitLines`).
    * `calculate_cross_size_eq` — on a non-empty list of lines (or with `is_wrap`) the translated function is `some` of the model's;
      `calculate_cross_size_nil_panics`: on `[]` without `is_wrap` the source indexes `flex_lines[0]` and panics where the model (`mapHead`)
      answers `[]`; `collectFlexLines_ne_nil`: that input does not arise (without `is_wrap` there is exactly one line).
    * `handle_align_content_stretch_eq`, `determine_container_cross_size_eq`, `align_flex_lines_per_align_content_eq`,
      `align_flex_items_along_cross_axis_eq`: unconditional.
    * `resolve_cross_axis_auto_margins_eq` — under `k.isRow = k.dir.isRow` (established by `compute_constants`:
      `TieFlexLine.computeConstants_isRow`; the source selects `margin.top` / `margin.left` by `is_row`, the model by the direction);
      `resolve_cross_needs_isRow_witness`: the hypothesis is needed.

  How: after rewriting the translated helpers with the existing Tie equalities (`tie` below) the generated term and the model differ only
  in the shape of folds (`fold` over a `map` against a fold with the projection inside), `mapIdx` against `alignForward`, and the `while`
  loops against structural recursion — congruence lemmas and inductions over the lists; the generated step functions are never restated.
-/
import TaffyVerif.Generated.Flex
import TaffyVerif.Props.TieFlexLine
import TaffyVerif.Props.TieLayout
import TaffyVerif.Props.TieResolve
import TaffyVerif.Props.TieLeaf

namespace TieFlex
open FlexModel FlexLine
variable {α : Type} [Num α]

/-! ### align_flex_items_along_cross_axis -/

theorem align_flex_items_along_cross_axis_eq (k : AlgoConstants α) (child : FlexItem α) (fs mb : α) :
    Gen.Flex.align_flex_items_along_cross_axis child fs mb k = alignFlexItemsAlongCrossAxis k child fs mb := by
  unfold Gen.Flex.align_flex_items_along_cross_axis alignFlexItemsAlongCrossAxis
  cases child.alignSelf <;> rfl

/-! ### shapes shared by the cross-axis functions -/

/-- `items.iter().map(|c| c.baseline).fold(0.0, |acc, x| acc.max(x))` -/
theorem max_baseline_eq (items : List (FlexItem α)) :
    List.foldl (fun (acc x : α) => Num.fmax acc x) 0 (List.map (fun (c : FlexItem α) => c.baseline) items) = maxBaseline items := by
  unfold maxBaseline; rw [List.foldl_map]

theorem is_auto_eq : Gen.Flex.Dimension.is_auto (α := α) = LPA.isAuto := by
  funext x; cases x <;> rfl

omit [Num α] in
theorem mapHead_cons {β : Type} (f : β → β) (x : β) (xs : List β) : mapHead f (x :: xs) = f x :: xs := rfl

/-! ### collect_flex_lines -/

omit [Num α] in
theorem split_at_mut_ok {β : Type} (l : List β) (n : Nat) (h : n ≤ l.length) :
    Gen.Flex.split_at_mut l n = some (l.take n, l.drop n) := by
  unfold Gen.Flex.split_at_mut; rw [if_pos h]

/-- the `MinContent` arm: `while !items.is_empty() { split_at_mut(1) … }` puts every item on its own line -/
theorem while_min_eq : ∀ (items : List (FlexItem α)) (fuel : Nat) (acc : List (FlexLineS α)), items.length ≤ fuel →
    Gen.Flex.collect_flex_lines.while fuel (acc, items) = some (acc ++ items.map (fun i => mkLine [i]), [])
  | [], fuel, acc, _ => by
    unfold Gen.Flex.collect_flex_lines.while; simp
  | x :: xs, 0, acc, h => by simp at h
  | x :: xs, fuel + 1, acc, h => by
    unfold Gen.Flex.collect_flex_lines.while
    have hb : Gen.Flex.collect_flex_lines.while_body (acc, x :: xs) = some (acc ++ [mkLine [x]], xs) := by
      have hs : Gen.Flex.split_at_mut (x :: xs) 1 = some ([x], xs) := by rw [split_at_mut_ok _ _ (by simp)]; rfl
      unfold Gen.Flex.collect_flex_lines.while_body
      simp only [hs]; rfl
    simp only [List.isEmpty_cons, Bool.not_false, Bool.not_true, Bool.false_eq_true, if_false, hb]
    rw [while_min_eq xs fuel _ (by simpa using h)]
    simp

theorem breakIndex_cons (d : FlexDirection) (av gap : α) (c : FlexItem α) (rest : List (FlexItem α)) (idx : Nat) (len : α) :
    breakIndex d av gap (c :: rest) idx len =
      if (Num.fgt (len + (c.hypotheticalOuterSize.main d + if (idx == 0) = true then 0 else gap)) av && idx != 0) = true then idx
      else breakIndex d av gap rest (idx + 1) (len + (c.hypotheticalOuterSize.main d + if (idx == 0) = true then 0 else gap)) := by
  rw [breakIndex]

theorem breakIndex_ge (d : FlexDirection) (av gap : α) : ∀ (items : List (FlexItem α)) (idx : Nat) (len : α),
    idx ≤ breakIndex d av gap items idx len
  | [], idx, len => by unfold breakIndex; exact Nat.le_refl _
  | c :: rest, idx, len => by
    rw [breakIndex_cons]
    generalize len + (c.hypotheticalOuterSize.main d + if (idx == 0) = true then 0 else gap) = L
    by_cases hc : (Num.fgt L av && idx != 0) = true
    · rw [if_pos hc]; exact Nat.le_refl _
    · rw [if_neg hc]; exact Nat.le_trans (Nat.le_succ _) (breakIndex_ge d av gap rest (idx + 1) _)

theorem breakIndex_le (d : FlexDirection) (av gap : α) : ∀ (items : List (FlexItem α)) (idx : Nat) (len : α),
    breakIndex d av gap items idx len ≤ idx + items.length
  | [], idx, len => by unfold breakIndex; simp
  | c :: rest, idx, len => by
    rw [breakIndex_cons]
    generalize len + (c.hypotheticalOuterSize.main d + if (idx == 0) = true then 0 else gap) = L
    by_cases hc : (Num.fgt L av && idx != 0) = true
    · rw [if_pos hc]; simp
    · rw [if_neg hc]
      have := breakIndex_le d av gap rest (idx + 1) L
      simp only [List.length_cons]; omega

theorem breakIndex_pos (d : FlexDirection) (av gap : α) (c : FlexItem α) (rest : List (FlexItem α)) (len : α) :
    1 ≤ breakIndex d av gap (c :: rest) 0 len := by
  rw [breakIndex_cons]
  simp only [bne_self_eq_false, Bool.and_false, Bool.false_eq_true, if_false]
  exact breakIndex_ge d av gap rest 1 _

/-- `enumerate().find(..)` with the running line length, whatever the closure `F` is called, as long as it computes the model's step:
    the index found (or the length) is `breakIndex` -/
theorem find_breakIndex (d : FlexDirection) (av gap : α) (F : α → Nat → FlexItem α → α × Bool)
    (hF : ∀ len idx c, F len idx c =
      (len + (c.hypotheticalOuterSize.main d + if (idx == 0) = true then 0 else gap),
       Num.fgt (len + (c.hypotheticalOuterSize.main d + if (idx == 0) = true then 0 else gap)) av && !(idx == 0))) :
    ∀ (items : List (FlexItem α)) (idx : Nat) (len : α),
      Option.getD (Option.map (fun (p : Nat × FlexItem α) => p.1) (Gen.Flex.enumerate_find_state F len idx items).1)
        (idx + items.length) = breakIndex d av gap items idx len
  | [], idx, len => by unfold Gen.Flex.enumerate_find_state breakIndex; simp
  | c :: rest, idx, len => by
    rw [breakIndex_cons]
    unfold Gen.Flex.enumerate_find_state
    simp only [hF, bne]
    generalize len + (c.hypotheticalOuterSize.main d + if (idx == 0) = true then 0 else gap) = L
    by_cases hc : (Num.fgt L av && !(idx == 0)) = true
    · rw [if_pos hc, if_pos hc]; rfl
    · rw [if_neg hc, if_neg hc]
      have := find_breakIndex d av gap F hF rest (idx + 1) L
      rw [← this]; simp only [List.length_cons]; congr 1; omega

/-- one pass of the `Definite` arm's `while`: the next line is the first `breakIndex` items -/
theorem while_body_2_eq (gap av : α) (k : AlgoConstants α) (acc : List (FlexLineS α)) (items : List (FlexItem α)) :
    Gen.Flex.collect_flex_lines.while_body_2 gap k av (acc, items) =
      some (acc ++ [mkLine (items.take (breakIndex k.dir av gap items 0 0))], items.drop (breakIndex k.dir av gap items 0 0)) := by
  unfold Gen.Flex.collect_flex_lines.while_body_2
  simp only [TieAxes.size_main_eq]
  have h := find_breakIndex k.dir av gap _ (fun _ _ _ => rfl) items 0 0
  simp only [Nat.zero_add] at h
  rw [h, split_at_mut_ok _ _ (by simpa using breakIndex_le k.dir av gap items 0 0)]
  rfl

theorem while_2_eq (gap av : α) (k : AlgoConstants α) : ∀ (n fuel : Nat) (items : List (FlexItem α)) (acc : List (FlexLineS α)),
    items.length ≤ n → items.length ≤ fuel →
    Gen.Flex.collect_flex_lines.while_2 gap k av fuel (acc, items) = some (acc ++ splitLines k.dir av gap n items, [])
  | n, fuel, [], acc, _, _ => by
    unfold Gen.Flex.collect_flex_lines.while_2
    cases n <;> simp [splitLines]
  | 0, _, c :: rest, _, h, _ => by simp at h
  | _, 0, c :: rest, _, _, h => by simp at h
  | n + 1, fuel + 1, c :: rest, acc, hn, hf => by
    unfold Gen.Flex.collect_flex_lines.while_2
    simp only [List.isEmpty_cons, Bool.not_false, Bool.not_true, Bool.false_eq_true, if_false, while_body_2_eq]
    have hp := breakIndex_pos k.dir av gap c rest 0
    have hl : (List.drop (breakIndex k.dir av gap (c :: rest) 0 0) (c :: rest)).length ≤ rest.length := by
      simp only [List.length_drop, List.length_cons]; omega
    simp only [List.length_cons] at hn hf
    rw [while_2_eq gap av k n fuel _ _ (by omega) (by omega)]
    simp [splitLines]

theorem collect_flex_lines_eq (k : AlgoConstants α) (av : Size (AvailableSpace α)) (items : List (FlexItem α)) (fuel : Nat)
    (hfuel : items.length ≤ fuel) :
    Gen.Flex.collect_flex_lines fuel k av items = some (collectFlexLines k av items) := by
  unfold Gen.Flex.collect_flex_lines collectFlexLines
  simp only [TieAxes.size_main_eq, TieMaybeMath.fo_max_eq, TieLayout.into_option_eq]
  cases hw : k.isWrap
  · simp [mkLine]
  · simp only [Bool.not_true, Bool.false_eq_true, if_false]
    cases hmx : k.maxSize.main k.dir with
    | some mx =>
      simp only []
      rw [while_2_eq _ _ k items.length fuel items [] (Nat.le_refl _) hfuel]; simp
    | none =>
      simp only []
      cases hav : av.main k.dir with
      | maxContent => simp [mkLine]
      | minContent => simp only []; rw [while_min_eq items fuel [] hfuel]; simp
      | definite v =>
        simp only []
        rw [while_2_eq _ _ k items.length fuel items [] (Nat.le_refl _) hfuel]; simp


/-- a concrete instance: three items of outer main size 4 in a wrapping row of width 10 — two lines (2 + 1 items) -/
def exItem (w : Rat) : FlexItem Rat := { (default : FlexItem Rat) with hypotheticalOuterSize := ⟨w, 0⟩ }
def exWrap : AlgoConstants Rat := { (default : AlgoConstants Rat) with dir := .row, isWrap := true, maxSize := ⟨none, none⟩ }
example : Gen.Flex.collect_flex_lines 3 exWrap ⟨.definite 10, .maxContent⟩ [exItem 4, exItem 4, exItem 4] =
    some (collectFlexLines exWrap ⟨.definite 10, .maxContent⟩ [exItem 4, exItem 4, exItem 4]) :=
  collect_flex_lines_eq _ _ _ 3 (by decide)
example : (collectFlexLines exWrap ⟨.definite 10, .maxContent⟩ [exItem 4, exItem 4, exItem 4]).map (·.items.length) = [2, 1] := by
  decide +kernel

/-- with less fuel than items the translated loop does not finish (`none`): the bound of `collect_flex_lines_eq` is used -/
example : Gen.Flex.collect_flex_lines 1 exWrap ⟨.minContent, .maxContent⟩ [exItem 4, exItem 4, exItem 4] = none := by
  decide +kernel

/-! ### calculate_cross_size -/

theorem calculate_cross_size_eq (k : AlgoConstants α) (ns : Size (Option α)) (lines : List (FlexLineS α))
    (h : lines ≠ [] ∨ k.isWrap = true) :
    Gen.Flex.calculate_cross_size lines ns k = some (calculateCrossSize k ns lines) := by
  unfold Gen.Flex.calculate_cross_size calculateCrossSize
  simp only [TieAxes.size_cross_eq, TieAxes.cross_axis_sum_eq, TieAxes.cross_start_eq, TieAxes.cross_end_eq,
    TieMaybeMath.of_max_eq, TieMaybeMath.of_sub_eq, TieMaybeMath.oo_clamp_eq, TieMaybeMath.fo_clamp_eq, max_baseline_eq, List.foldl_map]
  by_cases hc : (!k.isWrap && (ns.cross k.dir).isSome) = true
  · rw [if_pos hc, if_pos hc]
    cases lines with
    | nil => simp_all
    | cons l rest => rfl
  · rw [if_neg hc, if_neg hc]
    by_cases hw : (!k.isWrap) = true
    · rw [if_pos hw, if_pos hw]
      cases lines with
      | nil => simp_all
      | cons l rest => rfl
    · rw [if_neg hw, if_neg hw]; rfl

/-- the panic the model totalises: without `is_wrap` the source writes `flex_lines[0]` -/
theorem calculate_cross_size_nil_panics (k : AlgoConstants α) (ns : Size (Option α)) (hw : k.isWrap = false) :
    Gen.Flex.calculate_cross_size ([] : List (FlexLineS α)) ns k = none ∧ calculateCrossSize k ns [] = [] := by
  unfold Gen.Flex.calculate_cross_size calculateCrossSize
  cases hs : (Gen.Axes.Size.cross ns k.dir).isSome <;> simp_all [TieAxes.size_cross_eq, mapHead]

/-- … and the lines `collect_flex_lines` hands on are never empty without `is_wrap` -/
theorem collectFlexLines_ne_nil (k : AlgoConstants α) (av : Size (AvailableSpace α)) (items : List (FlexItem α))
    (hw : k.isWrap = false) : collectFlexLines k av items ≠ [] := by
  unfold collectFlexLines; simp [hw]

/-- in the flex program the lines reaching `calculate_cross_size` are those of `collect_flex_lines` with updated items (every step in
    between maps over the lines): the index `flex_lines[0]` does not panic -/
theorem calculate_cross_size_no_panic (k : AlgoConstants α) (av : Size (AvailableSpace α)) (items : List (FlexItem α))
    (ns : Size (Option α)) (lines : List (FlexLineS α)) (hl : lines.length = (collectFlexLines k av items).length) :
    Gen.Flex.calculate_cross_size lines ns k = some (calculateCrossSize k ns lines) := by
  apply calculate_cross_size_eq
  cases hw : k.isWrap
  · refine Or.inl fun h => collectFlexLines_ne_nil k av items hw (List.length_eq_zero_iff.mp ?_)
    rw [← hl, h]; rfl
  · exact Or.inr rfl

example : Gen.Flex.calculate_cross_size [({ items := [], crossSize := 1, offsetCross := 0 } : FlexLineS Rat)] ⟨none, some 7⟩
    { (default : AlgoConstants Rat) with dir := .row } =
    some (calculateCrossSize { (default : AlgoConstants Rat) with dir := .row } ⟨none, some 7⟩ [{ items := [], crossSize := 1, offsetCross := 0 }]) :=
  calculate_cross_size_eq _ _ _ (Or.inl (by simp))

/-! ### handle_align_content_stretch -/

theorem handle_align_content_stretch_eq (k : AlgoConstants α) (ns : Size (Option α)) (lines : List (FlexLineS α)) :
    Gen.Flex.handle_align_content_stretch lines ns k = handleAlignContentStretch k ns lines := by
  unfold Gen.Flex.handle_align_content_stretch handleAlignContentStretch
  simp only [TieAxes.size_cross_eq, TieAxes.cross_axis_sum_eq, TieMaybeMath.of_max_eq, TieMaybeMath.of_sub_eq,
    TieMaybeMath.oo_clamp_eq, TieFlexLine.sum_axis_gaps_eq, Gen.Flex.sum_f32, TieFlexLine.sum_f32_eq]

def exLines : List (FlexLineS Rat) := [{ items := [], crossSize := 1, offsetCross := 0 }, { items := [], crossSize := 2, offsetCross := 0 }]
example : Gen.Flex.handle_align_content_stretch exLines ⟨none, some 7⟩ { (default : AlgoConstants Rat) with alignContent := .stretch } =
    handleAlignContentStretch { (default : AlgoConstants Rat) with alignContent := .stretch } ⟨none, some 7⟩ exLines :=
  handle_align_content_stretch_eq _ _ _

/-! ### resolve_cross_axis_auto_margins -/

theorem resolve_cross_axis_auto_margins_eq (k : AlgoConstants α) (lines : List (FlexLineS α)) (hk : k.isRow = k.dir.isRow) :
    Gen.Flex.resolve_cross_axis_auto_margins lines k = resolveCrossAxisAutoMargins k lines := by
  unfold Gen.Flex.resolve_cross_axis_auto_margins resolveCrossAxisAutoMargins
  simp only [TieAxes.size_cross_eq, TieAxes.cross_start_eq, TieAxes.cross_end_eq, max_baseline_eq, align_flex_items_along_cross_axis_eq]
  apply List.map_congr_left; intro line _
  congr 1
  apply List.map_congr_left; intro child _
  unfold crossAutoMarginItem setCrossStart setCrossEnd
  rw [hk]
  cases hs : AbsPos.Dir.crossStart child.marginIsAuto k.dir <;> cases he : AbsPos.Dir.crossEnd child.marginIsAuto k.dir <;>
    cases hr : k.dir.isRow <;> simp [hs, he, hr]

def exAutoLine : List (FlexLineS Rat) :=
  [{ items := [{ (default : FlexItem Rat) with marginIsAuto := ⟨false, false, true, true⟩ }], crossSize := 8, offsetCross := 0 }]
example : Gen.Flex.resolve_cross_axis_auto_margins exAutoLine (FlexModel.computeConstants (default : Style Rat) ⟨none, none⟩ ⟨none, none⟩) =
    resolveCrossAxisAutoMargins (FlexModel.computeConstants (default : Style Rat) ⟨none, none⟩ ⟨none, none⟩) exAutoLine :=
  resolve_cross_axis_auto_margins_eq _ _ (TieFlexLine.computeConstants_isRow _ _ _)

/-! the hypothesis `k.isRow = k.dir.isRow` is needed: on constants `compute_constants` never produces (a column direction with
`is_row = true`) the source writes the resolved cross-start auto margin to `margin.top`, the model (through the direction) to `margin.left` -/
def witnessConstants : AlgoConstants Rat := { (default : AlgoConstants Rat) with dir := .column, isRow := true }
def witnessLine : FlexLineS Rat :=
  { items := [{ (default : FlexItem Rat) with marginIsAuto := ⟨true, false, true, false⟩ }], crossSize := 10, offsetCross := 0 }

theorem resolve_cross_needs_isRow_witness :
    ((Gen.Flex.resolve_cross_axis_auto_margins [witnessLine] witnessConstants).map fun l =>
        l.items.map fun i => (i.margin.left, i.margin.top)) = [[(0, 10)]] ∧
    ((resolveCrossAxisAutoMargins witnessConstants [witnessLine]).map fun l =>
        l.items.map fun i => (i.margin.left, i.margin.top)) = [[(10, 0)]] ∧
    witnessConstants.isRow ≠ witnessConstants.dir.isRow := by
  refine ⟨by decide +kernel, by decide +kernel, by decide⟩

/-! ### compute_flexbox_layout: styled_based_known_dimensions -/

/-- "if both min and max are set and max <= min, this determines the size" -/
def minMaxDefinite (a b : Option α) : Option α :=
  match a, b with
  | some mn, some mx => if Num.fle mx mn then some mn else none
  | _, _ => none

/-- `min_size.zip_map(max_size, closure)`, whatever the closure is called, as long as it computes `minMaxDefinite` -/
theorem zip_minMaxDefinite (F : Option α → Option α → Option α) (hF : ∀ a b, F a b = minMaxDefinite a b) (x y : Size (Option α)) :
    Gen.Geometry.Size.zip_map x y F = ⟨minMaxDefinite x.width y.width, minMaxDefinite x.height y.height⟩ := by
  rw [TieLeaf.size_zip_map_eq]; simp only [Size.zipMap, hF]

/-- the statements of `compute_flexbox_layout` from the style read to `styled_based_known_dimensions` (the statements after them are
    compared token by token by the extractor: the `ComputeSize` short-circuit and the call of `compute_preliminary` with the known
    dimensions replaced — `FlexModel.computeFlexboxLayout`) -/
theorem styled_based_known_dimensions_eq (style : Style α) (inputs : LayoutInput α) :
    Gen.Flex.compute_flexbox_layout.styled_based_known_dimensions style inputs = styledBasedKnownDimensions style inputs := by
  unfold Gen.Flex.compute_flexbox_layout.styled_based_known_dimensions styledBasedKnownDimensions BlockModel.resolveStyleSize
    BlockModel.boxSizingAdjustment
  dsimp only
  rw [zip_minMaxDefinite _ (fun a b => by cases a <;> cases b <;> rfl)]
  simp only [TieStyle.aspect_ratio_eq, TieStyle.padding_eq, TieStyle.border_eq, TieStyle.box_sizing_eq, TieStyle.size_eq,
    TieStyle.min_size_eq, TieStyle.max_size_eq, TieResolve.rect_lp_opt_resolve_or_zero_eq, TieResolve.size_dim_maybe_resolve_eq,
    TieLeaf.size_add_eq, TieLayout.sum_axes_eq, TieLayout.size_ZERO_eq, TieLayout.size_NONE_eq, TieLayout.size_or_eq,
    TieLayout.maybe_apply_aspect_ratio_eq, TieMaybeMath.size_of_add_eq, TieMaybeMath.size_oo_clamp_eq, TieMaybeMath.size_of_max_eq]
  rfl

example : Gen.Flex.compute_flexbox_layout.styled_based_known_dimensions
      { (default : Style Rat) with minSize := ⟨.length 30, .auto⟩, maxSize := ⟨.length 20, .auto⟩ } (default : LayoutInput Rat) =
    styledBasedKnownDimensions { (default : Style Rat) with minSize := ⟨.length 30, .auto⟩, maxSize := ⟨.length 20, .auto⟩ }
      (default : LayoutInput Rat) := styled_based_known_dimensions_eq _ _

/-! ### compute_constants -/

/-- `style.overflow().transpose().map(|o| match o { Scroll => w, _ => 0.0 })`, whatever the closure is called -/
theorem scrollbar_gutter_shape (ov : Point Overflow) (w : α) (F : Overflow → α)
    (hF : ∀ o, F o = if o == Overflow.scroll then w else 0) :
    Gen.Geometry.Point.map (Gen.Axes.Point.transpose ov) F =
      ⟨if ov.y == .scroll then w else 0, if ov.x == .scroll then w else 0⟩ := by
  rw [TieLeaf.point_map_eq, TieAxes.point_transpose_eq, hF, hF]; rfl

theorem compute_constants_eq (style : Style α) (kd ps : Size (Option α)) :
    Gen.Flex.compute_constants style kd ps = computeConstants style kd ps := by
  unfold Gen.Flex.compute_constants computeConstants BlockModel.resolveStyleSize BlockModel.boxSizingAdjustment AbsPos.scrollbarGutter
  simp only [TieStyle.overflow_eq, TieStyle.scrollbar_width_eq]
  rw [scrollbar_gutter_shape style.overflow style.scrollbarWidth _ (fun o => by cases o <;> rfl)]
  simp only [TieStyle.flex_direction_eq, TieStyle.flex_wrap_eq, TieStyle.aspect_ratio_eq, TieStyle.margin_eq, TieStyle.padding_eq,
    TieStyle.border_eq, TieStyle.box_sizing_eq, TieStyle.flex_align_items_eq, TieStyle.flex_align_content_eq,
    TieStyle.flex_justify_content_eq, TieStyle.overflow_eq, TieStyle.scrollbar_width_eq, TieStyle.flex_gap_eq, TieStyle.min_size_eq,
    TieStyle.max_size_eq, TieAxes.is_row_eq, TieAxes.is_column_eq,
    TieResolve.rect_lpa_opt_resolve_or_zero_eq, TieResolve.rect_lp_opt_resolve_or_zero_eq, TieResolve.size_lp_resolve_or_zero_eq,
    TieResolve.size_dim_maybe_resolve_eq, TieLeaf.size_add_eq, TieLeaf.rect_add_eq, TieLayout.sum_axes_eq, TieLayout.size_ZERO_eq,
    TieLayout.size_zero_eq, TieLayout.size_or_eq, TieLayout.maybe_apply_aspect_ratio_eq, TieMaybeMath.size_of_add_eq,
    TieMaybeMath.size_of_sub_eq]
  cases style.flexWrap <;> rfl

example : Gen.Flex.compute_constants { (default : Style Rat) with flexWrap := .wrapReverse, overflow := ⟨.scroll, .visible⟩, scrollbarWidth := 3 }
      ⟨some 40, none⟩ ⟨some 100, none⟩ =
    computeConstants { (default : Style Rat) with flexWrap := .wrapReverse, overflow := ⟨.scroll, .visible⟩, scrollbarWidth := 3 }
      ⟨some 40, none⟩ ⟨some 100, none⟩ := compute_constants_eq _ _ _

/-! ### generate_anonymous_flex_items -/

omit [Num α] in
theorem rect_map_eq {β γ : Type} (r : Rect β) (f : β → γ) : Gen.Flex.Rect.map r f = ⟨f r.left, f r.right, f r.top, f r.bottom⟩ := rfl
omit [Num α] in
theorem rect_zip_size_eq {β γ δ : Type} (r : Rect β) (s : Size γ) (f : β → γ → δ) :
    Gen.Flex.Rect.zip_size r s f = ⟨f r.left s.width, f r.right s.width, f r.top s.height, f r.bottom s.height⟩ := rfl

/-- the item constructor (the last `map`): field by field the model's `generateItem`; the child is addressed by its index -/
theorem generate_item_eq (k : AlgoConstants α) (idx : Nat) (cs : Style α) :
    Gen.Flex.generate_anonymous_flex_items.item k idx idx cs = generateItem k idx cs := by
  unfold Gen.Flex.generate_anonymous_flex_items.item generateItem BlockModel.resolveStyleSize BlockModel.boxSizingAdjustment
  simp only [rect_map_eq, rect_zip_size_eq, is_auto_eq, TieStyle.aspect_ratio_eq, TieStyle.padding_eq, TieStyle.border_eq, TieStyle.box_sizing_eq,
    TieStyle.size_eq, TieStyle.min_size_eq, TieStyle.max_size_eq, TieStyle.inset_eq, TieStyle.margin_eq, TieStyle.flex_align_self_eq,
    TieStyle.overflow_eq, TieStyle.scrollbar_width_eq, TieStyle.flex_grow_eq, TieStyle.flex_shrink_eq,
    TieResolve.rect_lp_opt_resolve_or_zero_eq, TieResolve.rect_lpa_opt_resolve_or_zero_eq, TieResolve.size_dim_maybe_resolve_eq,
    TieResolve.lpa_maybe_resolve_eq, TieLeaf.rect_add_eq, TieLayout.sum_axes_eq, TieLayout.size_ZERO_eq, TieLayout.size_zero_eq,
    TieLayout.maybe_apply_aspect_ratio_eq, TieMaybeMath.size_of_add_eq]

/-- the two `filter`s keep what the model's `generateItemsFrom` keeps -/
theorem generate_filters_eq (cs : Style α) :
    (Gen.Flex.generate_anonymous_flex_items.filter_1 cs && Gen.Flex.generate_anonymous_flex_items.filter_2 cs) =
      !(cs.position == .absolute || cs.isHidden) := by
  unfold Gen.Flex.generate_anonymous_flex_items.filter_1 Gen.Flex.generate_anonymous_flex_items.filter_2
  rw [TieStyle.box_generation_mode_none_eq, TieStyle.position_eq]
  cases (cs.position == Position.absolute) <;> cases cs.isHidden <;> rfl

theorem generate_chain_eq (k : AlgoConstants α) (styleOf : Nat → Style α) : ∀ (n s : Nat),
    List.map (fun (t : Nat × Nat × Style α) => Gen.Flex.generate_anonymous_flex_items.item k t.1 t.2.1 t.2.2)
      (List.filter (fun (t : Nat × Nat × Style α) => Gen.Flex.generate_anonymous_flex_items.filter_2 t.2.2)
        (List.filter (fun (t : Nat × Nat × Style α) => Gen.Flex.generate_anonymous_flex_items.filter_1 t.2.2)
          (List.map (fun (p : Nat × Nat) => (p.1, p.2, styleOf p.2)) (((List.range' s n).zipIdx s).map (fun p => (p.2, p.1)))))) =
    generateItemsFrom k ((List.range' s n).map styleOf) s
  | 0, s => by simp [generateItemsFrom]
  | n + 1, s => by
    have ih := generate_chain_eq k styleOf n (s + 1)
    have hf := generate_filters_eq (styleOf s)
    have hc : ((styleOf s).position == Position.absolute || (styleOf s).isHidden) =
        !(Gen.Flex.generate_anonymous_flex_items.filter_1 (styleOf s) && Gen.Flex.generate_anonymous_flex_items.filter_2 (styleOf s)) := by
      rw [hf, Bool.not_not]
    simp only [List.range'_succ, List.zipIdx_cons, List.map_cons]
    rw [generateItemsFrom, ← ih, hc]
    cases h1 : Gen.Flex.generate_anonymous_flex_items.filter_1 (styleOf s) <;>
      cases h2 : Gen.Flex.generate_anonymous_flex_items.filter_2 (styleOf s) <;>
      simp [List.filter_cons, h1, h2, generate_item_eq]

/-- `generate_anonymous_flex_items` with the children addressed by their indices `0 .. n` and their styles read through `styleOf` -/
theorem generate_anonymous_flex_items_eq (k : AlgoConstants α) (styleOf : Nat → Style α) (n : Nat) :
    Gen.Flex.generate_anonymous_flex_items styleOf n k = generateAnonymousFlexItems k ((List.range n).map styleOf) := by
  unfold Gen.Flex.generate_anonymous_flex_items generateAnonymousFlexItems Gen.Flex.enumerate
  rw [List.range_eq_range']
  exact generate_chain_eq k styleOf n 0

example : Gen.Flex.generate_anonymous_flex_items
      (fun i => if i == 1 then { (default : Style Rat) with position := .absolute } else { (default : Style Rat) with flexGrow := 2 }) 3
      (default : AlgoConstants Rat) =
    generateAnonymousFlexItems (default : AlgoConstants Rat)
      ((List.range 3).map (fun i => if i == 1 then { (default : Style Rat) with position := .absolute } else { (default : Style Rat) with flexGrow := 2 })) :=
  generate_anonymous_flex_items_eq _ _ _

/-- with the model's style lookup (`childStyles[i]?.getD default`, as in `computePreliminary`) over all the children: the model's call -/
theorem generate_anonymous_flex_items_childStyles (k : AlgoConstants α) (childStyles : List (Style α)) :
    Gen.Flex.generate_anonymous_flex_items (fun i => (childStyles[i]?).getD Style.default) childStyles.length k =
      generateAnonymousFlexItems k childStyles := by
  rw [generate_anonymous_flex_items_eq]
  congr 1
  apply List.ext_getElem (by simp)
  intro i h1 h2
  simp [List.getElem?_eq_getElem h2]

/-! ### determine_available_space -/

theorem determine_available_space_eq (kd : Size (Option α)) (outer : Size (AvailableSpace α)) (k : AlgoConstants α) :
    Gen.Flex.determine_available_space kd outer k = determineAvailableSpace kd outer k := by
  unfold Gen.Flex.determine_available_space determineAvailableSpace
  simp only [TieLayout.horizontal_axis_sum_eq, TieLayout.vertical_axis_sum_eq, TieMaybeMath.af_sub_eq]
  cases kd.width <;> cases kd.height <;> rfl

example : Gen.Flex.determine_available_space ⟨some 5, none⟩ ⟨.maxContent, .definite 9⟩ (default : AlgoConstants Rat) =
    determineAvailableSpace ⟨some 5, none⟩ ⟨.maxContent, .definite 9⟩ (default : AlgoConstants Rat) :=
  determine_available_space_eq _ _ _

/-! ### determine_used_cross_size -/

/-- the tree is read only through `get_flexbox_child_style(child.node)`: `styleOf` -/
theorem determine_used_cross_size_eq (k : AlgoConstants α) (styleOf : Nat → Style α) (lines : List (FlexLineS α)) :
    Gen.Flex.determine_used_cross_size styleOf lines k = determineUsedCrossSize k styleOf lines := by
  unfold Gen.Flex.determine_used_cross_size determineUsedCrossSize
  unfold usedCrossItem BlockModel.boxSizingAdjustment
  simp only [TieAxes.size_cross_eq, TieAxes.cross_start_eq, TieAxes.cross_end_eq, TieAxes.set_cross_eq, TieAxes.cross_axis_sum_eq,
    is_auto_eq, TieStyle.size_eq, TieStyle.padding_eq, TieStyle.border_eq, TieStyle.box_sizing_eq, TieStyle.max_size_eq,
    TieResolve.rect_lp_size_resolve_or_zero_eq, TieResolve.size_dim_maybe_resolve_eq, TieLayout.sum_axes_eq, TieLayout.size_ZERO_eq,
    TieMaybeMath.size_of_add_eq, TieMaybeMath.fo_clamp_eq]
  rfl

example : Gen.Flex.determine_used_cross_size (fun _ => (default : Style Rat)) exAutoLine (default : AlgoConstants Rat) =
    determineUsedCrossSize (default : AlgoConstants Rat) (fun _ => (default : Style Rat)) exAutoLine :=
  determine_used_cross_size_eq _ _ _

/-! ### determine_container_cross_size -/

theorem determine_container_cross_size_eq (k : AlgoConstants α) (ns : Size (Option α)) (lines : List (FlexLineS α)) :
    Gen.Flex.determine_container_cross_size lines ns k =
      ((determineContainerCrossSize k ns lines).2, (determineContainerCrossSize k ns lines).1) := by
  unfold Gen.Flex.determine_container_cross_size determineContainerCrossSize
  simp only [TieAxes.size_cross_eq, TieAxes.cross_axis_sum_eq, TieAxes.point_cross_eq, TieAxes.set_cross_eq, TieMaybeMath.fo_clamp_eq,
    TieFlexLine.sum_axis_gaps_eq, Gen.Flex.sum_f32, TieFlexLine.sum_f32_eq, Gen.Sys.f32_max]

/-! ### align_flex_lines_per_align_content -/

omit [Num α] in
/-- `iter_mut().enumerate().for_each(align_line)`: the line with index 0 is the first -/
theorem mapIdx_alignForward (f : Bool → α) (l : List (FlexLineS α)) :
    l.mapIdx (fun i c => { c with offsetCross := f (i == 0) }) = alignForward f l := by
  cases l with
  | nil => rfl
  | cons c rest =>
    rw [List.mapIdx_cons]
    show _ :: List.mapIdx (fun i c => { c with offsetCross := f (i + 1 == 0) }) rest = _
    have : (fun (i : Nat) (c : FlexLineS α) => { c with offsetCross := f (i + 1 == 0) }) = fun _ c => { c with offsetCross := f false } := by
      funext i c; rfl
    rw [this, TieFlexLine.mapIdx_const]; rfl

theorem align_flex_lines_per_align_content_eq (k : AlgoConstants α) (total : α) (lines : List (FlexLineS α)) :
    Gen.Flex.align_flex_lines_per_align_content lines k total = alignFlexLinesPerAlignContent k total lines := by
  unfold Gen.Flex.align_flex_lines_per_align_content alignFlexLinesPerAlignContent
  simp only [TieAxes.size_cross_eq, TieFlexLine.sum_axis_gaps_eq, TieFlexLine.apply_alignment_fallback_eq,
    TieFlexLine.compute_alignment_offset_eq]
  cases k.isWrapReverse
  · simp only [Bool.false_eq_true, if_false]
    exact mapIdx_alignForward (fun b => FlexLine.computeAlignmentOffset _ _ _ _ _ b) lines
  · simp only [if_true]
    rw [← mapIdx_alignForward]

example : Gen.Flex.align_flex_lines_per_align_content exLines
    { (default : AlgoConstants Rat) with isWrapReverse := true, alignContent := .center } 3 =
    alignFlexLinesPerAlignContent { (default : AlgoConstants Rat) with isWrapReverse := true, alignContent := .center } 3 exLines :=
  align_flex_lines_per_align_content_eq _ _ _

end TieFlex
