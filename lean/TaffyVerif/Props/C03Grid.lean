/-
  C03 (grid placement part) — placement is total: it never loops forever, and (see the status note at the end) what
  remains open of "never panics / overflows".

  Model: `GridPlacement.run` (Model/GridPlacement.lean) with every machine-integer operation checked.  Outcomes:
  `ok result | panic msg | overflow | outOfFuel`.
-/
import TaffyVerif.Lemmas.GridPlacementFuel
import TaffyVerif.Lemmas.GridPlacementNoPanic

namespace C03Grid
open GridPlacement Outcome

/-- loop of `place_definite_secondary_axis_item`: started at an i16 line `pos`, it returns (a placement, a panic or an
overflow) within `32768 - pos` steps, because every step advances the line by one with a checked i16 addition. -/
theorem search_secondary_terminates (m : Matrix) (ax : Axis) (pl : Line Placement) (sec : Line Int)
    (fuel : Nat) (pos : Int) (h : max (32767 - pos) 0 < (fuel : Int)) :
    searchSecondary m ax pl sec fuel pos ≠ .outOfFuel :=
  (searchSecondary_nf fuel pos h).out

/-- first loop of `place_indefinitely_positioned_item` (fixed primary axis position) -/
theorem search_fixed_primary_terminates (m : Matrix) (ax : Axis) (prim : Line Int) (span : Int)
    (fuel : Nat) (idx : Int) (h : max (32767 - idx) 0 < (fuel : Int)) :
    searchFixedPrimary m ax prim span fuel idx ≠ .outOfFuel :=
  (searchFixedPrimary_nf fuel idx h).out

/-- second loop of `place_indefinitely_positioned_item`: the pair (secondary index, primary index) increases
lexicographically with every step (the primary index restarts at the implicit start line, an i16 value), so
`(32767 - secondary) · 65536 + (32767 - primary)` bounds the number of steps. -/
theorem search_both_terminates (m : Matrix) (ax : Axis) (pspan sspan startLine endLine : Int)
    (hs : -32768 ≤ startLine) (fuel : Nat) (pi si : Int)
    (h : max (32767 - si) 0 * 65536 + max (32767 - pi) 0 < (fuel : Int)) :
    searchBoth m ax pspan sspan startLine endLine fuel pi si ≠ .outOfFuel :=
  (searchBoth_nf hs fuel pi si h).out

/-- **fuel_suffices**: for *every* input — any explicit track counts, flow, children and placements — the whole
placement run never exhausts `defaultFuel = 65536² + 2·65536` (nor any larger fuel): each of the three search loops
returns within its bound above, every other step is loop-free. So `outOfFuel` is not a possible outcome of the model
the driver executes; in terms of the implementation: with overflow checks on, placement cannot loop forever. -/
theorem fuel_suffices (fuel : Nat) (hf : defaultFuel ≤ fuel) (ec er : Int) (flow : AutoFlow) (children : List Child) :
    run fuel ec er flow children ≠ .outOfFuel :=
  (run_nf hf ec er flow children).out

/-- non-vacuity / the bound is not absurdly loose for the model either: with too little fuel a search does run out -/
example : run 1 1 1 .rowDense [⟨⟨.auto, .auto⟩, ⟨.line 1, .auto⟩⟩, ⟨⟨.auto, .auto⟩, ⟨.line 1, .auto⟩⟩] = .outOfFuel := by
  decide
example : (run 2 1 1 .rowDense [⟨⟨.auto, .auto⟩, ⟨.line 1, .auto⟩⟩, ⟨⟨.auto, .auto⟩, ⟨.line 1, .auto⟩⟩]).isOk = true := by
  decide

/-! ### towards `placement_total`

Full statement (not yet proved):

    theorem placement_total (B N : Nat) (hB : (N + 4) * B ≤ 32767)
        (hin : 0 ≤ ec ∧ ec ≤ B ∧ 0 ≤ er ∧ er ≤ B ∧ children.length ≤ N ∧
               ∀ c ∈ children, every line n of c has |n| ≤ B and every span s of c has 0 ≤ s ≤ B) :
        ∃ r, run defaultFuel ec er flow children = .ok r

i.e. no `panic`, no `overflow` (and by `fuel_suffices` no `outOfFuel`) for moderately sized inputs.  Proved below are
the two structural halves that the repaired defects 2–5 violated; what is missing is (i) threading them through the
three phases (the search start positions are ≥ the implicit start line, `last_of_type` indexes an existing track) and
(ii) the quantitative invariant "every track count and line stays ≤ (items placed + 4) · B", which needs the real
termination argument of the searches (an area beyond the last track is free). -/

/-- **estimate_covers_definite** (`no_negative_expansion` for definitely placed lines): the grid size estimate covers
every definite placement — for each child and each axis in which it has a non-zero line, the area
`resolve_definite_grid_lines` derives lies inside the estimated tracks, in particular not before the estimated negative
implicit tracks (defects 2 and 3 were violations of exactly this). With at least one child both axes have ≥ 1 track. -/
theorem estimate_covers_definite {ec er : Int} {children : List Child} {cols rows : TrackCounts}
    (hec : 0 ≤ ec) (her : 0 ≤ er) (h : computeGridSizeEstimate ec er children = .ok (cols, rows)) :
    (children ≠ [] → 1 ≤ cols.total ∧ 1 ≤ rows.total) ∧
    ∀ c ∈ children,
      (∀ oz a, intoOriginZero c.column ec = .ok oz → resolveDefiniteGridLines oz = .ok a →
        -cols.negativeImplicit ≤ a.start ∧ a.«end» ≤ cols.explicit + cols.positiveImplicit) ∧
      (∀ oz a, intoOriginZero c.row er = .ok oz → resolveDefiniteGridLines oz = .ok a →
        -rows.negativeImplicit ≤ a.start ∧ a.«end» ≤ rows.explicit + rows.positiveImplicit) := by
  obtain ⟨_, _, _, _, _, _, h1, h2⟩ := estimate_spec hec her h
  exact ⟨h1, h2⟩

/-- **mark_area_never_panics**: on a matrix whose inner grid has the dimensions its track counts say, marking an
area that does not start before the implicit grid cannot panic — `expand_to_fit_range` is asked for non-negative growth
only, copies existing cells only, gives `Grid::from_vec` exactly rows × columns cells, and all `get_mut(..).unwrap()`
are in bounds (the out-of-bounds index of defect 2 and the negative expansion of defect 4 are excluded). The only
possible failure is an integer overflow. -/
theorem mark_area_never_panics {m : Matrix} {ax : Axis} {p s : Line Int} (v : Cell) (wf : MatrixWF m)
    (hc : -m.columns.negativeImplicit ≤ (colOf ax p s).start) (hr : -m.rows.negativeImplicit ≤ (rowOf ax p s).start)
    (msg : String) : m.markAreaAs ax p s v ≠ .panic msg :=
  (markAreaAs_np v wf hc hr).out msg

/-- well-formedness is established by `with_track_counts` and kept by every `mark_area_as` -/
theorem matrix_wellformed_invariant :
    (∀ cols rows m, Matrix.withTrackCounts cols rows = .ok m → MatrixWF m) ∧
    (∀ m m' ax p s v, v ≠ Cell.unoccupied → MatrixWF m → m.markAreaAs ax p s v = .ok m' → MatrixWF m') :=
  ⟨fun _ _ _ h => (withTrackCounts_wf h).1, fun _ _ _ _ _ _ hv wf h => (markAreaAs_cells hv wf h).1⟩

end C03Grid
