/-
  Tie (tier T) for src/tree/traits.rs: the interaction-program type `Gen.Tree.Prog` (generated from the declarations of the traits
  `LayoutPartialTree` and `CacheTree`) and the provided method `LayoutPartialTreeExt::perform_child_layout`.

  `Handler` gives the trait methods a state-passing meaning over an arbitrary state `σ` (the evaluator's per-node data, a single
  childless node, a bare cache, …) and `Handler.run` interprets a generated program with it, in the order of its interactions.
  `unreachable!()` has no meaning (`none`).  The Tie theorems of `compute_root_layout` / `compute_cached_layout`
  (Props/TieRoot.lean, Props/TieCompute.lean) are stated both as equalities of programs and through `Handler.run`.
-/
import TaffyVerif.Generated.Tree
import TaffyVerif.Model.Prog

namespace TieLayoutTree
variable {α : Type} [Num α] {N σ β γ : Type}

/-- a meaning for every method of the tree traits: reads are functions of the state, writes transform it, `compute_child_layout`
does both -/
structure Handler (α : Type) (N : Type) (σ : Type) where
  style : N → σ → Style α
  setLayout : N → Layout α → σ → σ
  child : N → LayoutInput α → σ → LayoutOutput α × σ
  cacheGet : N → Size (Option α) → Size (AvailableSpace α) → RunMode → σ → Option (LayoutOutput α)
  cacheStore : N → Size (Option α) → Size (AvailableSpace α) → RunMode → LayoutOutput α → σ → σ
  cacheClear : N → σ → σ

/-- run a generated program: every interaction is answered by the handler, in program order -/
def Handler.run (h : Handler α N σ) : Gen.Tree.Prog α N β → σ → Option (β × σ)
  | .ret b, s => some (b, s)
  | .unreachable, _ => none
  | .get_core_container_style n k, s => h.run (k (h.style n s)) s
  | .set_unrounded_layout n l k, s => h.run (k ()) (h.setLayout n l s)
  | .compute_child_layout n i k, s => h.run (k (h.child n i s).1) (h.child n i s).2
  | .cache_get n kd av rm k, s => h.run (k (h.cacheGet n kd av rm s)) s
  | .cache_store n kd av rm o k, s => h.run (k ()) (h.cacheStore n kd av rm o s)
  | .cache_clear n k, s => h.run (k ()) (h.cacheClear n s)

omit [Num α] in
/-- `bind` is sequencing -/
theorem run_bind (h : Handler α N σ) (p : Gen.Tree.Prog α N β) (f : β → Gen.Tree.Prog α N γ) (s : σ) :
    h.run (p.bind f) s = (h.run p s).bind fun r => h.run (f r.1) r.2 := by
  induction p generalizing s with
  | ret b => rfl
  | unreachable => rfl
  | get_core_container_style n k ih => simp only [Gen.Tree.Prog.bind, Handler.run, ih]
  | set_unrounded_layout n l k ih => simp only [Gen.Tree.Prog.bind, Handler.run, ih]
  | compute_child_layout n i k ih => simp only [Gen.Tree.Prog.bind, Handler.run, ih]
  | cache_get n kd av rm k ih => simp only [Gen.Tree.Prog.bind, Handler.run, ih]
  | cache_store n kd av rm o k ih => simp only [Gen.Tree.Prog.bind, Handler.run, ih]
  | cache_clear n k ih => simp only [Gen.Tree.Prog.bind, Handler.run, ih]

/-! ### `LayoutPartialTreeExt::perform_child_layout` -/
theorem perform_child_layout_eq (node : N) (knownDimensions parentSize : Size (Option α))
    (availableSpace : Size (AvailableSpace α)) (sizingMode : SizingMode) (vmc : Line Bool) :
    Gen.Tree.perform_child_layout node knownDimensions parentSize availableSpace sizingMode vmc =
      .compute_child_layout node
        { runMode := .performLayout, sizingMode, axis := .both, knownDimensions, parentSize, availableSpace,
          verticalMarginsAreCollapsible := vmc } .ret := rfl

/-- the hand-written `ProgM.performChildLayout` asks for the same `LayoutInput` (`ProgM.call` is `compute_child_layout` on the
child with that index) -/
theorem perform_child_layout_ProgM (child : Nat) (knownDimensions parentSize : Size (Option α))
    (availableSpace : Size (AvailableSpace α)) (sizingMode : SizingMode) (vmc : Line Bool) :
    (∃ inp, ProgM.performChildLayout child knownDimensions parentSize availableSpace sizingMode vmc = .call child inp .pure ∧
      Gen.Tree.perform_child_layout child knownDimensions parentSize availableSpace sizingMode vmc =
        .compute_child_layout child inp .ret) :=
  ⟨_, rfl, rfl⟩

/-- concrete instance: with a handler whose child answers with a fixed output, `perform_child_layout` returns it and leaves the
state alone -/
example (o : LayoutOutput α) (kd ps : Size (Option α)) (av : Size (AvailableSpace α)) :
    (Handler.run (σ := Unit)
        { style := fun _ _ => Style.default, setLayout := fun _ _ s => s, child := fun _ _ s => (o, s),
          cacheGet := fun _ _ _ _ _ => none, cacheStore := fun _ _ _ _ _ s => s, cacheClear := fun _ s => s }
        (Gen.Tree.perform_child_layout (0 : Nat) kd ps av .inherentSize ⟨false, false⟩) ()) = some (o, ()) := rfl

end TieLayoutTree
