/-
  Tie (tier T) for src/compute/mod.rs `compute_root_layout` (and the provided method `perform_child_layout` of
  src/tree/traits.rs it calls).

  `Gen.Root.compute_root_layout` is regenerated from the Rust source on every run, as an interaction program over the tree
  (`Gen.Tree.Prog`, one node per trait-method call, in the Rust order).  `compute_root_layout_eq` states that this program IS

      read the root's style;  compute_child_layout(root, RootModel.rootInput style available_space);
      read the root's style;  set_unrounded_layout(root, RootModel.rootLayout style' available_space output)

  i.e. the three definitions of Model/Root.lean (`rootKnownDimensions` inside `rootInput`, `rootLayout`) that C19, C10, C04 and the
  evaluator start from — for every node id, available space and every `[Num α]`.  `Handler.run` interprets such programs over
  any state (the evaluator's `NS`, a single childless node, …); `compute_root_layout_run` is the corollary in that form and
  `layoutSingleLeafWith_eq` instantiates it to the single-leaf composition C19 is stated on.
-/
import TaffyVerif.Generated.Root
import TaffyVerif.Model.Root
import TaffyVerif.Props.TieLeaf
import TaffyVerif.Props.TieLayoutTree

namespace TieRoot
open TieLayoutTree
variable {α : Type} [Num α] {N σ : Type}

/-! ### `compute_root_layout` -/

theorem size_into_options_eq (a : Size (AvailableSpace α)) :
    Gen.AvailableSpace.Size.into_options a = a.map AvailableSpace.intoOption := by
  simp only [Gen.AvailableSpace.Size.into_options, TieLayout.into_option_eq]; rfl

/-- **Tie, `compute_root_layout`.**  The generated program is: style, `compute_child_layout(root, rootInput)`, style,
`set_unrounded_layout(root, rootLayout)`. -/
theorem compute_root_layout_eq (root : N) (availableSpace : Size (AvailableSpace α)) :
    Gen.Root.compute_root_layout root availableSpace =
      .get_core_container_style root fun style =>
      .compute_child_layout root (RootModel.rootInput style availableSpace) fun output =>
      .get_core_container_style root fun style' =>
      .set_unrounded_layout root (RootModel.rootLayout style' availableSpace output) fun _ => .ret () := by
  simp only [Gen.Root.compute_root_layout, TieLayoutTree.perform_child_layout_eq, Gen.Tree.Prog.bind, size_into_options_eq,
    TieLeaf.rect_add_eq, TieLeaf.size_zip_map_eq,
    TieLayout.sum_axes_eq, TieLayout.size_ZERO_eq, TieLayout.size_NONE_eq, TieLayout.maybe_apply_aspect_ratio_eq,
    TieLayout.size_or_eq, TieLayout.horizontal_axis_sum_eq, TieLayout.into_option_eq,
    TieMaybeMath.size_of_add_eq, TieMaybeMath.size_oo_clamp_eq, TieMaybeMath.size_of_max_eq, TieMaybeMath.of_sub_eq,
    TieResolve.rect_lp_opt_resolve_or_zero_eq, TieResolve.rect_lpa_opt_resolve_or_zero_eq, TieResolve.size_dim_maybe_resolve_eq,
    TieStyle.margin_eq, TieStyle.padding_eq, TieStyle.border_eq, TieStyle.box_sizing_eq, TieStyle.aspect_ratio_eq,
    TieStyle.size_eq, TieStyle.min_size_eq, TieStyle.max_size_eq, TieStyle.overflow_eq, TieStyle.scrollbar_width_eq,
    TieStyle.is_block_eq]
  congr 1
  funext style
  cases hb : style.isBlock <;> simp only [hb, RootModel.rootInput, RootModel.rootKnownDimensions] <;> rfl

/-- the same through any handler: one child layout with `rootInput`, then `rootLayout` is written for the root -/
theorem compute_root_layout_run (h : Handler α N σ) (root : N) (availableSpace : Size (AvailableSpace α)) (s : σ) :
    h.run (Gen.Root.compute_root_layout root availableSpace) s =
      let r := h.child root (RootModel.rootInput (h.style root s) availableSpace) s
      some ((), h.setLayout root (RootModel.rootLayout (h.style root r.2) availableSpace r.1) r.2) := by
  rw [compute_root_layout_eq]; rfl

/-! ### the single-leaf composition of Model/Root.lean (what C19 is stated on) -/

/-- a tree that is one childless node: `compute_child_layout` is `RootModel.computeChildLayoutChildless`; the state is the layout
stored for the node and the measure calls so far, or the panic -/
def leafHandler (style : Style α) (measure : Size (Option α) → Size (AvailableSpace α) → Size α) :
    Handler α Unit (LeafModel.Traced α (Option (Layout α))) where
  style _ _ := style
  setLayout _ l s := match s with
    | .ok (_, calls) => .ok (some l, calls)
    | .error e => .error e
  child _ inp s := match s with
    | .error e => (LayoutOutput.hidden, .error e)
    | .ok (lay, calls) =>
      match RootModel.computeChildLayoutChildless style measure inp with
      | .ok ((out, lay'), calls') => (out, .ok (lay'.or lay, calls ++ calls'))
      | .error e => (LayoutOutput.hidden, .error e)
  cacheGet _ _ _ _ _ := none
  cacheStore _ _ _ _ _ s := s
  cacheClear _ s := s

/-- `RootModel.layoutSingleLeafWith` (root + dispatch + leaf for a one-node tree) is the generated `compute_root_layout` run on
that tree -/
theorem layoutSingleLeafWith_eq (style : Style α) (measure : Size (Option α) → Size (AvailableSpace α) → Size α)
    (availableSpace : Size (AvailableSpace α)) :
    (leafHandler style measure).run (Gen.Root.compute_root_layout () availableSpace) (.ok (none, [])) =
      some ((), match RootModel.layoutSingleLeafWith style measure availableSpace with
                | .ok (l, calls) => .ok (some l, calls)
                | .error e => .error e) := by
  rw [compute_root_layout_run]
  simp only [leafHandler, RootModel.layoutSingleLeafWith]
  cases RootModel.computeChildLayoutChildless style measure (RootModel.rootInput style availableSpace) with
  | error e => rfl
  | ok r => obtain ⟨⟨out, lay⟩, calls⟩ := r; rfl

/-- concrete instance: for a `display: none` root the hidden arm stores `Layout::with_order(0)` first and the root's layout
overwrites it; nothing is measured -/
example (measure : Size (Option α) → Size (AvailableSpace α) → Size α) (av : Size (AvailableSpace α)) :
    ((leafHandler { (Style.default : Style α) with display := .none } measure).run
        (Gen.Root.compute_root_layout () av) (.ok (none, []))).map (fun r => r.2.toOption.map (·.2)) = some (some []) := rfl

end TieRoot
