/-
  C17 — The high-level tree and the documented low-level API produce identical layouts (dispatch part).

  `Gen.Facts.dispatchArms` and `Gen.Facts.hiddenModeFirst` are extracted from `TaffyView::compute_child_layout`
  (src/tree/taffy_tree.rs) on every run.  `documented` is written from the trait documentation
  (src/tree/traits.rs, src/compute/mod.rs, examples/custom_tree_vec.rs): hidden mode first; then the cached layout;
  `Display::None` → hidden layout; a node with children → the algorithm of its display mode; a childless node → leaf
  layout with the node's measure function.
-/
import TaffyVerif.Model.Eval

namespace C17
open Gen.Facts

/-- the dispatch the documentation prescribes -/
def documented (d : Display) (hasChildren : Bool) : Callee :=
  match d with
  | .none => .hidden
  | .block => if hasChildren then .block else .leaf
  | .flex => if hasChildren then .flex else .leaf
  | .grid => if hasChildren then .grid else .leaf

/-- **dispatch_eq**: for every display mode and child count, `TaffyTree` calls the function the documentation names -/
theorem dispatch_eq (d : Display) (hasChildren : Bool) :
    Dispatch.select dispatchArms d hasChildren = some (documented d hasChildren) := by
  cases d <;> cases hasChildren <;> decide

/-- hidden run mode is handled before the cache and before the dispatch -/
theorem hidden_mode_first : hiddenModeFirst = true := by decide

/-- the measure function is reachable only through the leaf arm: never for `display:none`, never for a node with children -/
theorem measure_only_childless_boxes (d : Display) (hasChildren : Bool)
    (h : Dispatch.select dispatchArms d hasChildren = some .leaf) : d ≠ .none ∧ hasChildren = false := by
  rw [dispatch_eq] at h
  cases d <;> cases hasChildren <;> simp [documented] at h <;> simp

/-- **drivers_eq**: the evaluator with `TaffyTree`'s extracted dispatch and the evaluator with the documented dispatch
are the same function — for every cache implementation (the real one, an exact memo, none), every choice of
algorithms, every tree, state, input and fuel. -/
theorem drivers_eq {α C : Type} [Num α] (ci : Eval.CacheImpl α C) (algs : Eval.Algs α) :
    Eval.evalNode ci algs = Eval.evalNodeWith ci (fun d h => some (documented d h)) algs := by
  unfold Eval.evalNode
  congr 1
  funext d h
  exact dispatch_eq d h

end C17
