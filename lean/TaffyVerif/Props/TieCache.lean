/-
  Tie (tier T) for src/tree/cache.rs and `AvailableSpace::is_roughly_equal`.

  `Gen.Cache.*` / `Gen.AvailableSpace.*` are **regenerated from the Rust source on every run** (verif/extract).
  Each theorem states that a generated definition IS the hand-written model definition the C02 / C01 / C17 theorems
  are about — for every argument and every `[Num α]` (hence at `Rat`, where the theorems live, and at `Float32`, where the
  correspondence runs).  A change of the Rust source changes the generated side and the equality stops checking.
-/
import TaffyVerif.Generated.Cache
import TaffyVerif.Model.Cache

namespace TieCache
variable {α : Type} [Num α]

/-- `CACHE_SIZE` -/
theorem cache_size_eq : Gen.Cache.CACHE_SIZE = CacheModel.cacheSize := rfl

/-- Rust's `Option<f32> == Option<f32>` as translated = the model's `optEq` -/
theorem optEq_eq : Gen.optEq (α := α) = CacheModel.optEq := by
  funext a b; cases a <;> cases b <;> rfl

/-- derived `==` against `MinContent` = the model's `isMinContent` -/
theorem avEq_minContent (a : AvailableSpace α) : Gen.avEq a AvailableSpace.minContent = CacheModel.isMinContent a := by
  cases a <;> rfl

/-- `AvailableSpace::is_roughly_equal` -/
theorem is_roughly_equal_eq : Gen.AvailableSpace.is_roughly_equal (α := α) = CacheModel.isRoughlyEqual := by
  funext a b; cases a <;> cases b <;> rfl

/-- `Cache::compute_cache_slot` (the model orders the final `match` differently: extensional equality) -/
theorem slot_eq : Gen.Cache.compute_cache_slot (α := α) = CacheModel.computeCacheSlot := by
  funext kd av
  obtain ⟨kw, kh⟩ := kd
  obtain ⟨aw, ah⟩ := av
  cases kw <;> cases kh <;> cases aw <;> cases ah <;> rfl

/-- the closure of `.filter(..)` in the `PerformLayout` arm of `Cache::get` = `compatible` -/
theorem get_final_compatible_eq (kd : Size (Option α)) (av : Size (AvailableSpace α))
    (e : CacheModel.Entry α (LayoutOutput α)) :
    Gen.Cache.get_final_compatible kd av e
      = CacheModel.compatible kd av e.knownDimensions e.availableSpace e.content.size := by
  simp only [Gen.Cache.get_final_compatible, CacheModel.compatible, optEq_eq, is_roughly_equal_eq]

/-- the `if` condition inside the loop of the `ComputeSize` arm of `Cache::get` = `compatible` -/
theorem get_measure_compatible_eq (kd : Size (Option α)) (av : Size (AvailableSpace α))
    (e : CacheModel.Entry α (Size α)) :
    Gen.Cache.get_measure_compatible kd av e
      = CacheModel.compatible kd av e.knownDimensions e.availableSpace e.content := by
  simp only [Gen.Cache.get_measure_compatible, CacheModel.compatible, optEq_eq, is_roughly_equal_eq]

/-- `LayoutOutput::from_outer_size` as used by `get` -/
theorem from_outer_size_eq : Gen.LayoutTypes.LayoutOutput.from_outer_size (α := α) = LayoutOutput.fromOuterSize := by
  funext s; rfl

/-- `Cache::new` -/
theorem new_eq : Gen.Cache.new (α := α) = CacheModel.Cache.new := rfl

/-- `Cache::get`, both arms and the hidden arm -/
theorem get_eq : Gen.Cache.get (α := α) = CacheModel.Cache.get := by
  funext c kd av mode
  cases mode
  · -- PerformLayout: `final_layout_entry.filter(pred).map(|e| e.content)`
    show Option.map _ (Option.filter (Gen.Cache.get_final_compatible kd av) c.finalLayoutEntry) = _
    simp only [CacheModel.Cache.get]
    cases h : c.finalLayoutEntry with
    | none => rfl
    | some e =>
      simp only [Option.filter, get_final_compatible_eq]
      cases CacheModel.compatible kd av e.knownDimensions e.availableSpace e.content.size <;> rfl
  · -- ComputeSize: the search loop over `measure_entries.iter().flatten()`
    have hp : (fun (entry : CacheModel.Entry α (Size α)) => Gen.Cache.get_measure_compatible kd av entry)
        = (fun e => CacheModel.compatible kd av e.knownDimensions e.availableSpace e.content) := by
      funext e; exact get_measure_compatible_eq kd av e
    show (match List.find? (fun entry => Gen.Cache.get_measure_compatible kd av entry)
            (List.filterMap id c.measureEntries) with
          | some entry => some (Gen.LayoutTypes.LayoutOutput.from_outer_size entry.content)
          | none => none) = _
    rw [hp, from_outer_size_eq]
    rfl
  · rfl

/-- `Cache::store`, every arm -/
theorem store_eq : Gen.Cache.store (α := α) = CacheModel.Cache.store := by
  funext c kd av mode out
  cases mode
  · rfl
  · show _ = CacheModel.Cache.store c kd av RunMode.computeSize out
    simp only [Gen.Cache.store, CacheModel.Cache.store, slot_eq]
  · rfl

/-- `Cache::clear` (returns the new cache and the `ClearState`) -/
theorem clear_eq : Gen.Cache.clear (α := α) = CacheModel.Cache.clear := by
  funext c
  simp only [Gen.Cache.clear, CacheModel.Cache.clear, cache_size_eq]

/-- `Cache::is_empty` -/
theorem is_empty_eq : Gen.Cache.is_empty (α := α) = CacheModel.Cache.isEmpty := by
  funext c; rfl

end TieCache
