/-
  Tie (tier T) for src/compute/mod.rs: the per-node arithmetic of `round_layout` and the constants of `compute_hidden_layout`.

  `round_layout` / `compute_hidden_layout` walk the tree through trait calls, which the translator does not accept.  The extractor
  compares their skeleton (read the unrounded layout, …, write the final layout, visit every child with the same cumulative
  coordinates; `round_layout` starts at `0.0, 0.0`; clear cache, write NODE_LAYOUT, visit every child with CHILD_INPUT, return
  OUTPUT) token by token and translates the statements in between / the three expressions.  `Gen.Compute.*` is regenerated from
  the Rust source on every run; the theorems state that

  * the node block of `round_layout_inner` IS `RoundModel.roundNode` applied to the updated cumulative coordinates, and the
    coordinates handed to the children are the ones `RoundModel.roundInner` passes on (`round_layout_inner_node_eq`);
    hence one unfolding of `roundInner` is the generated block (`roundInner_unfold`);
  * `round_layout` starts at `(0, 0)` like `RoundModel.roundLayout`;
  * `compute_hidden_layout` writes `Layout.withOrder 0`, passes `LayoutInput.hidden` to the children and returns
    `LayoutOutput.hidden` (what `Eval.hiddenLayout` / `Eval.evalNodeWith` do),
  for every argument and every `[Num α]`.

  `compute_cached_layout` (translated in interaction form, `Gen.Root.compute_cached_layout`; the `compute_uncached` closure takes the
  tree, so it is a sub-program):
  * `compute_cached_layout_eq`: the generated program is `cache_get`; on a hit return the entry; on a miss run `compute_uncached`,
    `cache_store` its result under the same key, return it;
  * `compute_cached_layout_run`: the same through any handler of the tree methods;
  * `evalNodeWith_is_compute_cached_layout`: the cache discipline of the tree-level evaluator `Eval.evalNodeWith` with the real
    cache (the definition the tree-level theorems of C01, C05, C16, C17 are about) IS the generated `compute_cached_layout`, run on the
    node's data with `Gen.Cache.get` / `Gen.Cache.store` (themselves tied to Model/Cache.lean by Props/TieCache.lean) and the
    dispatch body as `compute_uncached`.
-/
import TaffyVerif.Generated.Compute
import TaffyVerif.Generated.Root
import TaffyVerif.Model.Round
import TaffyVerif.Model.Prog
import TaffyVerif.Model.Eval
import TaffyVerif.Props.TieLayoutTree
import TaffyVerif.Props.TieCache

namespace TieCompute
variable {α : Type} [Num α]

theorem round_content_size_eq (l : Layout α) (cs : Size α) (cx cy : α) :
    Gen.Compute.round_content_size l cs cx cy =
      { l with contentSize := ⟨Num.round (cx + cs.width) - Num.round cx, Num.round (cy + cs.height) - Num.round cy⟩ } := rfl

theorem round_layout_inner_node_eq (u : Layout α) (cumX cumY : α) :
    Gen.Compute.round_layout_inner_node u cumX cumY =
      (RoundModel.roundNode u (cumX + u.location.x) (cumY + u.location.y), cumX + u.location.x, cumY + u.location.y) := rfl

/-- one step of the model's recursion, written with the generated node block -/
theorem roundInner_unfold (u : Layout α) (cs : List (LTree α)) (cumX cumY : α) :
    RoundModel.roundInner (.node u cs) cumX cumY =
      let r := Gen.Compute.round_layout_inner_node u cumX cumY
      .node r.1 (RoundModel.roundForest cs r.2.1 r.2.2) := by
  rw [round_layout_inner_node_eq]; simp [RoundModel.roundInner]

theorem round_layout_start_eq (t : LTree α) :
    RoundModel.roundLayout t =
      RoundModel.roundInner t (Gen.Compute.round_layout_cumulative_start (α := α)).1 Gen.Compute.round_layout_cumulative_start.2 := rfl

theorem hidden_node_layout_eq : Gen.Compute.compute_hidden_layout_node_layout (α := α) = Layout.withOrder 0 := rfl
theorem hidden_child_input_eq : Gen.Compute.compute_hidden_layout_child_input (α := α) = LayoutInput.hidden := rfl
theorem hidden_output_eq : Gen.Compute.compute_hidden_layout_output (α := α) = LayoutOutput.hidden := rfl

/-! ### `compute_cached_layout` -/
section Cached
open TieLayoutTree
variable {N σ : Type}

/-- **Tie, `compute_cached_layout`.**  lookup; hit: return it; miss: compute, store under the same key, return -/
theorem compute_cached_layout_eq (node : N) (inputs : LayoutInput α)
    (computeUncached : N → LayoutInput α → Gen.Tree.Prog α N (LayoutOutput α)) :
    Gen.Root.compute_cached_layout node inputs computeUncached =
      .cache_get node inputs.knownDimensions inputs.availableSpace inputs.runMode fun entry =>
        match entry with
        | some cached => .ret cached
        | none =>
          (computeUncached node inputs).bind fun out =>
            .cache_store node inputs.knownDimensions inputs.availableSpace inputs.runMode out fun _ => .ret out := by
  simp only [Gen.Root.compute_cached_layout]
  congr 1
  funext entry
  cases entry <;> rfl

/-- the same through any handler of the tree methods -/
theorem compute_cached_layout_run (h : Handler α N σ) (node : N) (inputs : LayoutInput α)
    (computeUncached : N → LayoutInput α → Gen.Tree.Prog α N (LayoutOutput α)) (s : σ) :
    h.run (Gen.Root.compute_cached_layout node inputs computeUncached) s =
      match h.cacheGet node inputs.knownDimensions inputs.availableSpace inputs.runMode s with
      | some cached => some (cached, s)
      | none =>
        (h.run (computeUncached node inputs) s).map fun r =>
          (r.1, h.cacheStore node inputs.knownDimensions inputs.availableSpace inputs.runMode r.1 r.2) := by
  rw [compute_cached_layout_eq]
  simp only [Handler.run]
  cases h.cacheGet node inputs.knownDimensions inputs.availableSpace inputs.runMode s with
  | some c => rfl
  | none =>
    simp only [run_bind]
    cases h.run (computeUncached node inputs) s <;> rfl

/-- the tree methods on ONE node of the evaluator (its cache is the real nine-slot cache, read and written with the GENERATED
`Cache::get` / `Cache::store` / `Cache::clear`); `compute_child_layout` is `body` -/
def nodeHandler (body : LayoutInput α → Eval.NS α (CacheModel.Cache α) → LayoutOutput α × Eval.NS α (CacheModel.Cache α)) :
    Handler α Unit (Eval.NS α (CacheModel.Cache α)) where
  style _ _ := Style.default
  setLayout _ l ns := match ns with | .mk c _ k => .mk c l k
  child _ inp ns := body inp ns
  cacheGet _ kd av rm ns := Gen.Cache.get ns.cache kd av rm
  cacheStore _ kd av rm o ns := match ns with | .mk c l k => .mk (Gen.Cache.store c kd av rm o) l k
  cacheClear _ ns := match ns with | .mk c l k => .mk (Gen.Cache.clear c).1 l k

/-- what `Eval.evalNodeWith` computes for a node on a cache miss (the dispatch on `(display, has_children)` and the call of the
selected algorithm; the children are evaluated by `evalNodeWith` with one unit of fuel less) — the closure `TaffyView` passes to
`compute_cached_layout` -/
def evalBody (sel : Display → Bool → Option Gen.Facts.Callee) (algs : Eval.Algs α) (fuel : Nat) (t : STree α)
    (inp : LayoutInput α) (ns : Eval.NS α (CacheModel.Cache α)) : LayoutOutput α × Eval.NS α (CacheModel.Cache α) :=
  match t with
  | .node style ctx kids =>
    let evalChild : Nat → LayoutInput α → List (Eval.NS α (CacheModel.Cache α)) →
        LayoutOutput α × List (Eval.NS α (CacheModel.Cache α)) := fun i cin ks =>
      match kids[i]?, ks[i]? with
      | some t, some k =>
        let r := Eval.evalNodeWith Eval.realCache sel algs fuel t k cin
        (r.1, ks.set i r.2)
      | _, _ => (LayoutOutput.hidden, ks)
    let childStyles := kids.map STree.style
    let run := fun (p : ProgM α (LayoutOutput α)) =>
      match ns with
      | .mk c l nk => let r := Eval.runProg evalChild p nk; (r.1, Eval.NS.mk c l r.2)
    match sel style.display (!kids.isEmpty) with
    | some .hidden => (LayoutOutput.hidden, Eval.hiddenLayout Eval.realCache ns)
    | some .block => run (algs.block style childStyles inp)
    | some .flex => run (algs.flex style childStyles inp)
    | some .grid => run (algs.grid style childStyles inp)
    | some .leaf => (algs.leaf inp style (Eval.measureOf ctx), ns)
    | none => (LayoutOutput.hidden, ns)

/-- **The evaluator's cache discipline is the generated `compute_cached_layout`.**  Every non-hidden evaluation of a node by
`Eval.evalNodeWith` with the real cache (any dispatch, algorithms, fuel, node, node data, input) is the generated
`compute_cached_layout` run on the node's data, with the dispatch body `evalBody` as `compute_uncached`: lookup with the generated
`Cache::get`; hit: the cached output, data unchanged; miss: run the body, store its output with the generated `Cache::store`. -/
theorem evalNodeWith_is_compute_cached_layout (sel : Display → Bool → Option Gen.Facts.Callee) (algs : Eval.Algs α) (fuel : Nat)
    (t : STree α) (ns : Eval.NS α (CacheModel.Cache α)) (inp : LayoutInput α)
    (hrm : (inp.runMode == .performHiddenLayout) = false) :
    (nodeHandler (evalBody sel algs fuel t)).run
        (Gen.Root.compute_cached_layout () inp fun n i => .compute_child_layout n i .ret) ns =
      some (Eval.evalNodeWith Eval.realCache sel algs (fuel + 1) t ns inp) := by
  obtain ⟨style, ctx, kids⟩ := t
  obtain ⟨c, l, nk⟩ := ns
  rw [compute_cached_layout_run]
  simp only [Eval.evalNodeWith, hrm, Bool.false_eq_true, if_false, nodeHandler, evalBody, Eval.realCache, TieCache.get_eq,
    TieCache.store_eq, Eval.NS.cache]
  cases CacheModel.Cache.get c inp.knownDimensions inp.availableSpace inp.runMode with
  | some c => rfl
  | none =>
    simp only [Handler.run, Option.map]
    generalize sel style.display (!kids.isEmpty) = callee
    rcases callee with _ | (_ | _ | _ | _ | _) <;> simp only []
    -- the dispatch arms agree literally, except that the closure evaluating a child is the same `match` compiled twice
    -- (here and in `Eval.evalNodeWith`): equal by cases on its two scrutinees
    all_goals
      repeat' first
        | rfl
        | (funext i cin ks; cases kids[i]? <;> cases ks[i]? <;> rfl)
        | congr 1

end Cached

/-- concrete instance: on an empty cache the generated `compute_cached_layout` misses, runs the closure once and stores the
result under the input's key; a second lookup with the same `PerformLayout` input then hits -/
example (o : LayoutOutput α) (inp : LayoutInput α) (h : inp.runMode = .performLayout) (hkd : inp.knownDimensions = ⟨none, none⟩)
    (hav : inp.availableSpace = ⟨.maxContent, .maxContent⟩) :
    ((nodeHandler (fun _ ns => (o, ns))).run
        (Gen.Root.compute_cached_layout () inp fun n i => .compute_child_layout n i .ret)
        (.mk Gen.Cache.new Layout.new [])).map (fun r => (r.1, r.2.cache.finalLayoutEntry.map (·.content))) = some (o, some o) := by
  rw [compute_cached_layout_run]
  simp only [nodeHandler, h, hkd, hav]
  rfl

end TieCompute
