/-
  Tie (tier T) for src/compute/mod.rs: the per-node arithmetic of `round_layout` and the constants of `compute_hidden_layout`.

  `round_layout` / `compute_hidden_layout` walk the tree through trait calls, which the translator does not accept.  The extractor
  compares their skeleton (read the unrounded layout, …, write the final layout, visit every child with the same cumulative
  coordinates; `round_layout` starts at `0.0, 0.0`; clear cache, write NODE_LAYOUT, visit every child with CHILD_INPUT, return
  OUTPUT) token by token and translates the statements in between / the three expressions.  `Gen.Compute.*` is regenerated from
  the Rust source on every run; the theorems state that

  * the node block of `round_layout_inner` IS `RoundModel.roundNode` applied to the updated cumulative coordinates, and the
    coordinates handed to the children are the ones `RoundModel.roundInner` passes on (`round_layout_inner_node_eq`);
    hence one unfolding of `roundInner` is the generated block (`roundInner_unfold`);
  * `round_layout` starts at `(0, 0)` like `RoundModel.roundLayout`;
  * `compute_hidden_layout` writes `Layout.withOrder 0`, passes `LayoutInput.hidden` to the children and returns
    `LayoutOutput.hidden` (what `Eval.hiddenLayout` / `Eval.evalNodeWith` do),
  for every argument and every `[Num α]`.
-/
import TaffyVerif.Generated.Compute
import TaffyVerif.Model.Round
import TaffyVerif.Model.Prog

namespace TieCompute
variable {α : Type} [Num α]

theorem round_content_size_eq (l : Layout α) (cs : Size α) (cx cy : α) :
    Gen.Compute.round_content_size l cs cx cy =
      { l with contentSize := ⟨Num.round (cx + cs.width) - Num.round cx, Num.round (cy + cs.height) - Num.round cy⟩ } := rfl

theorem round_layout_inner_node_eq (u : Layout α) (cumX cumY : α) :
    Gen.Compute.round_layout_inner_node u cumX cumY =
      (RoundModel.roundNode u (cumX + u.location.x) (cumY + u.location.y), cumX + u.location.x, cumY + u.location.y) := rfl

/-- one step of the model's recursion, written with the generated node block -/
theorem roundInner_unfold (u : Layout α) (cs : List (LTree α)) (cumX cumY : α) :
    RoundModel.roundInner (.node u cs) cumX cumY =
      let r := Gen.Compute.round_layout_inner_node u cumX cumY
      .node r.1 (RoundModel.roundForest cs r.2.1 r.2.2) := by
  rw [round_layout_inner_node_eq]; simp [RoundModel.roundInner]

theorem round_layout_start_eq (t : LTree α) :
    RoundModel.roundLayout t =
      RoundModel.roundInner t (Gen.Compute.round_layout_cumulative_start (α := α)).1 Gen.Compute.round_layout_cumulative_start.2 := rfl

theorem hidden_node_layout_eq : Gen.Compute.compute_hidden_layout_node_layout (α := α) = Layout.withOrder 0 := rfl
theorem hidden_child_input_eq : Gen.Compute.compute_hidden_layout_child_input (α := α) = LayoutInput.hidden := rfl
theorem hidden_output_eq : Gen.Compute.compute_hidden_layout_output (α := α) = LayoutOutput.hidden := rfl

end TieCompute
