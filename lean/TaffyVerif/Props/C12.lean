/-
  C12 — content-box and border-box sizing are interchangeable descriptions of one box.

  A node with `box-sizing: content-box`, lengths (or `auto`) for size / min-size / max-size / flex-basis, length-valued
  padding and border and no aspect ratio (`Eligible`, Model/BoxSizing.lean) is laid out — together with the whole tree
  around and below it — exactly like the same node with `box-sizing: border-box` and each of those lengths increased by
  the node's padding+border on that axis (`toBorderBox`; flex-basis along the parent's main axis).

  All statements are at `Rat`.  Structure:
    1. the arithmetic fact used by every site;
    2. `*_site_equiv`, one per modelled site (leaf, root, abs-pos ×3, block container, block items): the model functions
       (each keeping the `box_sizing_adjustment` pattern inline, as the Rust does) return *equal* results for the two
       styles — outputs, recorded measure calls, interaction programs;
    3. `tree_equiv`: `Eval.evalNodeWith` evaluates two `BoxRel`-related trees to equal outputs and equal node states,
       for every cache implementation, dispatch, fuel, state and input, when the algorithms are `BoxBlind`;
       `BoxBlind` is proved for the modelled leaf and block algorithms, flex and grid remain hypotheses
       (their reads of the four properties are covered by the site table, notes/c12_sites.py).
  Every modelled site is equivalent.  One *unmodelled* site is not (grid_item.rs l.517–522, compressible replaced grid
  items: `self.size` / `self.max_size` used without the adjustment): `grid_compressible_cap_site_not_equiv` states the
  witness, which was replayed on the real code; `ContainerBlind grid` is therefore false of the real grid algorithm for
  children with `item_is_replaced` and a definite max-size, and true only with that read repaired.
-/
import TaffyVerif.Lemmas.BoxSizingLeaf
import TaffyVerif.Lemmas.BoxSizingAbs
import TaffyVerif.Lemmas.BoxSizingBlock
import TaffyVerif.Lemmas.BoxSizingTree
import Mathlib.Tactic.NormNum

namespace C12
open BoxSizingModel Eval C12L

abbrev MeasureFn := Size (Option Rat) → Size (AvailableSpace Rat) → Size Rat

/-! ### 1. the arithmetic fact -/

/-- **core_arith**: for an eligible style, in every resolution context (`ctx` for the sizes, `c` for padding/border),
`resolve(size).maybe_add(adjustment)` of the content-box style is `resolve(size')` of its border-box description —
likewise min-size and max-size — and the border-box style's own adjustment is zero. -/
theorem core_arith (s : Style Rat) (h : Eligible s) (m : Bool) (ctx : Size (Option Rat)) (c : Option Rat) :
    (Resolve.sizeMaybe s.size ctx).of_add (adjustment s c) = Resolve.sizeMaybe (toBorderBox m s).size ctx
    ∧ (Resolve.sizeMaybe s.minSize ctx).of_add (adjustment s c) = Resolve.sizeMaybe (toBorderBox m s).minSize ctx
    ∧ (Resolve.sizeMaybe s.maxSize ctx).of_add (adjustment s c) = Resolve.sizeMaybe (toBorderBox m s).maxSize ctx
    ∧ adjustment (toBorderBox m s) c = Size.zero :=
  core_size h m ctx c

/-- the adjustment of an eligible style is the same in every context: padding and border are lengths -/
theorem adjustment_context_free (s : Style Rat) (h : Eligible s) (c c' : Option Rat) :
    adjustment s c = adjustment s c' := by
  rw [adjustment_eligible h, adjustment_eligible h]

/-- **core_site_shape**: the complete site expression
`size().maybe_resolve(ctx).maybe_apply_aspect_ratio(ar).maybe_add(box_sizing_adjustment)` is invariant -/
theorem core_site_shape (s : Style Rat) (h : Eligible s) (m : Bool) (ctx : Size (Option Rat)) (c : Option Rat) :
    ((Resolve.sizeMaybe s.size ctx).maybeApplyAspectRatio s.aspectRatio).of_add (adjustment s c)
      = ((Resolve.sizeMaybe (toBorderBox m s).size ctx).maybeApplyAspectRatio (toBorderBox m s).aspectRatio).of_add
          (adjustment (toBorderBox m s) c) :=
  core_site h m ctx c

/-- **core_flex_basis**: flexbox.rs l.688–700, `flex_basis().maybe_resolve(main).maybe_add(adjustment.main(dir))`, with
the padding/border of the adjustment resolved against *any* context `c'` (the Rust resolves them against the
container's main size rather than its width: immaterial for length-valued padding/border) -/
theorem core_flex_basis (s : Style Rat) (h : Eligible s) (mainIsRow : Bool) (c c' : Option Rat) :
    MaybeMath.of_add (s.flexBasis.maybeResolve c)
        (if mainIsRow then (adjustment s c').width else (adjustment s c').height)
      = MaybeMath.of_add ((toBorderBox mainIsRow s).flexBasis.maybeResolve c)
          (if mainIsRow then (adjustment (toBorderBox mainIsRow s) c').width
           else (adjustment (toBorderBox mainIsRow s) c').height) :=
  core_flexBasis h mainIsRow c c'

/-- `toBorderBox` keeps `auto` auto (flexbox.rs l.1609 reads `size().cross(dir).is_auto()` directly) -/
theorem isAuto_invariant (s : Style Rat) (m : Bool) :
    (toBorderBox m s).size.width.isAuto = s.size.width.isAuto
    ∧ (toBorderBox m s).size.height.isAuto = s.size.height.isAuto
    ∧ (toBorderBox m s).flexBasis.isAuto = s.flexBasis.isAuto :=
  ⟨bumpDim_isAuto _ _, bumpDim_isAuto _ _, bumpDim_isAuto _ _⟩

/-! ### 2. sites -/

/-- **leaf_site_equiv** (leaf.rs): `compute_leaf_layout` returns the same outcome — output, the list of recorded
measure calls, or the panic — for an eligible style and its border-box description, for every input and every measure
function. -/
theorem leaf_site_equiv (s : Style Rat) (h : Eligible s) (m : Bool) (inp : LayoutInput Rat) (mf : MeasureFn) :
    LeafModel.computeLeafLayout inp s mf = LeafModel.computeLeafLayout inp (toBorderBox m s) mf :=
  leaf_site h m inp mf

/-- **root_site_equiv** (compute_root_layout): the root's known dimensions, the `LayoutInput` it is laid out with and
the `Layout` written for it -/
theorem root_site_equiv (s : Style Rat) (h : Eligible s) (m : Bool) (av : Size (AvailableSpace Rat)) :
    RootModel.rootKnownDimensions s av = RootModel.rootKnownDimensions (toBorderBox m s) av
    ∧ RootModel.rootInput s av = RootModel.rootInput (toBorderBox m s) av
    ∧ ∀ out, RootModel.rootLayout s av out = RootModel.rootLayout (toBorderBox m s) av out :=
  ⟨rootKnown_site h m av, rootInput_site h m av, fun out => rootLayout_site m av out⟩

/-- the complete single-leaf tree (root adjustment, dispatch, leaf): layout and measure calls -/
theorem single_leaf_equiv (s : Style Rat) (h : Eligible s) (m : Bool) (mf : MeasureFn)
    (av : Size (AvailableSpace Rat)) :
    RootModel.layoutSingleLeafWith s mf av = RootModel.layoutSingleLeafWith (toBorderBox m s) mf av :=
  singleLeaf_site h m mf av

/-- **abs_site_equiv_block** (block.rs `perform_absolute_layout_on_absolute_children`): the `Layout` written for the
absolutely positioned child, for every area and every answer of the child -/
theorem abs_site_equiv_block (s : Style Rat) (h : Eligible s) (m : Bool) (a : AbsPos.BlockArgs Rat)
    (oracle : AbsPos.Oracle Rat) : AbsPos.absBlock a s oracle = AbsPos.absBlock a (toBorderBox m s) oracle :=
  absBlock_site h m a oracle

/-- **abs_site_equiv_flex** (flexbox.rs `perform_absolute_layout_on_absolute_children`) -/
theorem abs_site_equiv_flex (s : Style Rat) (h : Eligible s) (m : Bool) (a : AbsPos.FlexArgs Rat)
    (oracle : AbsPos.Oracle Rat) : AbsPos.absFlex a s oracle = AbsPos.absFlex a (toBorderBox m s) oracle :=
  absFlex_site h m a oracle

/-- **abs_site_equiv_grid** (grid/alignment.rs `align_and_position_item`) -/
theorem abs_site_equiv_grid (s : Style Rat) (h : Eligible s) (m : Bool) (a : AbsPos.GridArgs Rat)
    (oracle : AbsPos.Oracle Rat) : AbsPos.absGrid a s oracle = AbsPos.absGrid a (toBorderBox m s) oracle :=
  absGrid_site h m a oracle

/-- the *container's* style switched: the arguments the three containers hand to their abs-pos pass, and
`compute_flexbox_layout`'s own styled known dimensions (flexbox.rs l.169–209) -/
theorem abs_call_sites_equiv (s : Style Rat) (h : Eligible s) (m : Bool) :
    (∀ outer order, AbsPos.blockCallSite s outer order = AbsPos.blockCallSite (toBorderBox m s) outer order)
    ∧ (∀ ps kd cs order, AbsPos.flexCallSite s ps kd cs order = AbsPos.flexCallSite (toBorderBox m s) ps kd cs order)
    ∧ (∀ ps bb order, AbsPos.gridCallSite s ps bb order = AbsPos.gridCallSite (toBorderBox m s) ps bb order)
    ∧ (∀ ps, AbsPos.flexStyledKnownDimensions s ps = AbsPos.flexStyledKnownDimensions (toBorderBox m s) ps) :=
  ⟨fun _ _ => rfl, fun _ _ _ _ => rfl, fun _ _ _ => rfl, fun ps => flexStyledKnown_site h m ps⟩

/-- **block_container_site_equiv** (block.rs `compute_block_layout` + `compute_inner`): the container's own style
switched gives the same interaction program (same child queries in the same order, same layouts set, same output
for all child answers) -/
theorem block_container_site_equiv (s : Style Rat) (h : Eligible s) (m : Bool) (cs : List (Style Rat))
    (inp : LayoutInput Rat) :
    BlockModel.computeBlockLayout s cs inp = BlockModel.computeBlockLayout (toBorderBox m s) cs inp :=
  blockContainer_site h m cs inp

/-- **block_item_site_equiv** (block.rs `generate_item_list` + the abs-pos pass + the hidden loop): any subset of
eligible child styles switched — with the flex-basis rewritten along an arbitrary axis per child, block layout never
reads it — gives the same interaction program -/
theorem block_item_site_equiv (s : Style Rat) (cs cs' : List (Style Rat)) (hr : StylesRelAny cs cs')
    (inp : LayoutInput Rat) : BlockModel.computeBlockLayout s cs inp = BlockModel.computeBlockLayout s cs' inp :=
  blockItems_site s cs cs' hr inp

/-! ### 3. the tree -/

/-- **tree_equiv**: related trees are evaluated identically — equal output and equal node states (caches and
unrounded layouts of every node) from equal states — for every cache implementation, every dispatch, every fuel, every
state and every input (so also for every *sequence* of evaluations), when the algorithms are `BoxBlind`. -/
theorem tree_equiv {C : Type} (ci : CacheImpl Rat C) (sel : Display → Bool → Option Gen.Facts.Callee)
    (algs : Algs Rat) (hb : BoxBlind algs) (fuel : Nat) (m : Bool) (tA tB : STree Rat) (hr : BoxRel m tA tB)
    (ns : NS Rat C) (inp : LayoutInput Rat) :
    evalNodeWith ci sel algs fuel tA ns inp = evalNodeWith ci sel algs fuel tB ns inp :=
  eval_blind ci sel algs hb fuel m tA tB hr ns inp

/-- related trees start from the same fresh state -/
theorem tree_equiv_init {C : Type} (ci : CacheImpl Rat C) (m : Bool) (tA tB : STree Rat) (hr : BoxRel m tA tB) :
    NS.init ci tA = NS.init ci tB :=
  init_blind ci m tA tB hr

/-- **tree_equiv_root**: `compute_root_layout` on freshly built related trees with `TaffyTree`'s own dispatch: the
root is given the same input, the evaluation returns the same output and leaves the same states, and the root's
own `Layout` is the same. -/
theorem tree_equiv_root {C : Type} (ci : CacheImpl Rat C) (algs : Algs Rat) (hb : BoxBlind algs) (fuel : Nat)
    (m : Bool) (tA tB : STree Rat) (hr : BoxRel m tA tB) (av : Size (AvailableSpace Rat)) :
    evalNode ci algs fuel tA (NS.init ci tA) (RootModel.rootInput tA.style av)
      = evalNode ci algs fuel tB (NS.init ci tB) (RootModel.rootInput tB.style av)
    ∧ ∀ out, RootModel.rootLayout tA.style av out = RootModel.rootLayout tB.style av out := by
  cases tA with
  | node sA cA kA =>
    cases tB with
    | node sB cB kB =>
      have hs : StyleRel m sA sB := by
        simp only [BoxRel] at hr
        exact hr.1
      have hin : RootModel.rootInput sA av = RootModel.rootInput sB av ∧
          ∀ out, RootModel.rootLayout sA av out = RootModel.rootLayout sB av out := by
        rcases hs with h | ⟨he, h⟩
        · rw [h]; exact ⟨rfl, fun _ => rfl⟩
        · rw [h]; exact ⟨rootInput_site he m av, fun out => rootLayout_site m av out⟩
      refine ⟨?_, hin.2⟩
      simp only [STree.style, evalNode]
      rw [init_blind ci m _ _ hr, hin.1]
      exact eval_blind ci _ algs hb fuel m _ _ hr _ _

/-! ### `BoxBlind` for the modelled algorithms -/

/-- the concrete leaf (`compute_leaf_layout`, panic ↦ hidden output) is blind to the rewriting -/
theorem leafAlg_blind (inp : LayoutInput Rat) (s : Style Rat) (m : Bool) (mf : MeasureFn) (h : Eligible s) :
    leafAlg inp s mf = leafAlg inp (toBorderBox m s) mf := by
  unfold leafAlg
  rw [leaf_site h m inp mf]

/-- `compute_block_layout` is blind to the rewriting of its own style and of any subset of child styles -/
theorem block_blind : ContainerBlind (BlockModel.computeBlockLayout (α := Rat)) := block_containerBlind

/-- **boxBlind_modelled**: with the modelled leaf and block algorithms, `BoxBlind` reduces to the two hypotheses about
flex and grid -/
theorem boxBlind_modelled (flex grid : Style Rat → List (Style Rat) → LayoutInput Rat → ProgM Rat (LayoutOutput Rat))
    (hf : ContainerBlind flex) (hg : ContainerBlind grid) : BoxBlind (algsWith flex grid) where
  leaf inp s m mf h := leafAlg_blind inp s m mf h
  block := block_containerBlind
  flex := hf
  grid := hg

/-- **tree_equiv_modelled**: `tree_equiv` for the modelled leaf and block algorithms; only flex and grid are assumed -/
theorem tree_equiv_modelled {C : Type} (ci : CacheImpl Rat C) (sel : Display → Bool → Option Gen.Facts.Callee)
    (flex grid : Style Rat → List (Style Rat) → LayoutInput Rat → ProgM Rat (LayoutOutput Rat))
    (hf : ContainerBlind flex) (hg : ContainerBlind grid) (fuel : Nat) (m : Bool) (tA tB : STree Rat)
    (hr : BoxRel m tA tB) (ns : NS Rat C) (inp : LayoutInput Rat) :
    evalNodeWith ci sel (algsWith flex grid) fuel tA ns inp = evalNodeWith ci sel (algsWith flex grid) fuel tB ns inp :=
  tree_equiv ci sel _ (boxBlind_modelled flex grid hf hg) fuel m tA tB hr ns inp

/-- a dispatch that never reaches flex or grid (trees of block containers and leaves): no hypothesis left.
Stated with algorithms whose flex/grid slots are the block algorithm. -/
theorem tree_equiv_block_only {C : Type} (ci : CacheImpl Rat C) (sel : Display → Bool → Option Gen.Facts.Callee)
    (fuel : Nat) (m : Bool) (tA tB : STree Rat) (hr : BoxRel m tA tB) (ns : NS Rat C) (inp : LayoutInput Rat) :
    evalNodeWith ci sel (algsWith BlockModel.computeBlockLayout BlockModel.computeBlockLayout) fuel tA ns inp
      = evalNodeWith ci sel (algsWith BlockModel.computeBlockLayout BlockModel.computeBlockLayout) fuel tB ns inp :=
  tree_equiv_modelled ci sel _ _ block_containerBlind block_containerBlind fuel m tA tB hr ns inp

/-! ### a site that is NOT equivalent (unmodelled; found by the site table; replayed on the real code)

  grid_item.rs l.517–522 (`GridItem::minimum_contribution`, compressible replaced items) reads the raw copies
  `self.size` / `self.max_size` without `maybe_add(box_sizing_adjustment)`.  Witness on the real code (see the report):
  a 100-wide grid with one `auto` column and one replaced child with content 200×10, padding 5 + border 1 left and right,
  `max-width: 100` content-box  ⇒ child 100 wide;  the same child as border-box `max-width: 112` ⇒ child 112 wide. -/

/-- a replaced grid item: content-box, padding 5 + border 1 left and right, `max-width: 100` -/
def exReplaced : Style Rat :=
  { (Style.default : Style Rat) with
    display := .block, boxSizing := .contentBox, itemIsReplaced := true,
    padding := ⟨.length 5, .length 5, .length 0, .length 0⟩,
    border := ⟨.length 1, .length 1, .length 0, .length 0⟩,
    maxSize := ⟨.length 100, .auto⟩ }

/-- **grid_compressible_cap_site_not_equiv**: the cap of l.517–522 distinguishes the two descriptions of one box:
a min-content contribution of 112 (border box: 100 of content + 12) is capped to 100 for the content-box style and
left at 112 for its border-box description. -/
theorem grid_compressible_cap_site_not_equiv :
    Eligible exReplaced ∧ gridCompressibleCap exReplaced true 112 = 100
      ∧ gridCompressibleCap (toBorderBox true exReplaced) true 112 = 112 := by
  refine ⟨by decide, ?_, ?_⟩
  · simp only [gridCompressibleCap, exReplaced, Style.default, if_true, LPA.maybeResolve, MaybeMath.fo_min, Num.fmin]
    norm_num
  · simp only [gridCompressibleCap, toBorderBox, bumpSize, bumpDim, pbSum, rectLen, lpLen, Rect.add, Rect.sumAxes,
      Rect.horizontalAxisSum, Rect.verticalAxisSum, exReplaced, Style.default, if_true, LPA.maybeResolve,
      MaybeMath.fo_min, Num.fmin]
    norm_num

theorem grid_compressible_cap_site_differs :
    ∃ s : Style Rat, Eligible s ∧ ∃ mc : Rat,
      gridCompressibleCap s true mc ≠ gridCompressibleCap (toBorderBox true s) true mc := by
  obtain ⟨h, h1, h2⟩ := grid_compressible_cap_site_not_equiv
  exact ⟨exReplaced, h, 112, by rw [h1, h2]; norm_num⟩

/-- with the one-line repair (`.maybe_add(box_sizing_adjustment.get(axis))` on both caps) the site is equivalent -/
theorem grid_compressible_cap_repaired_equiv (s : Style Rat) (h : Eligible s) (m inlineAxis : Bool) (c : Option Rat)
    (mc : Rat) :
    gridCompressibleCapRepaired s inlineAxis (adjustment s c) mc
      = gridCompressibleCapRepaired (toBorderBox m s) inlineAxis (adjustment (toBorderBox m s) c) mc := by
  have hs := h.size
  have hm := h.maxSize
  unfold sizeNoPercent at hs hm
  simp only [Bool.and_eq_true] at hs hm
  cases inlineAxis <;>
    simp only [gridCompressibleCapRepaired, adjustment_eligible h, adjustment_toBorderBox, tbb_size, tbb_maxSize,
      bumpSize, bumpDim_resolve _ hs.1, bumpDim_resolve _ hs.2, bumpDim_resolve _ hm.1, bumpDim_resolve _ hm.2,
      Size.zero, opt_of_add_zero, if_true, Bool.false_eq_true, if_false]

/-! ### non-vacuity -/

/-- a content-box style with padding 5, border 1, width 100, min-height 10, max-width 300, flex-basis 50 -/
def exStyle : Style Rat :=
  { (Style.default : Style Rat) with
    display := .block, boxSizing := .contentBox,
    padding := ⟨.length 5, .length 5, .length 5, .length 5⟩,
    border := ⟨.length 1, .length 1, .length 1, .length 1⟩,
    size := ⟨.length 100, .auto⟩, minSize := ⟨.auto, .length 10⟩, maxSize := ⟨.length 300, .auto⟩,
    flexBasis := .length 50 }

example : Eligible exStyle := by decide

/-- size 100 ↦ 112, min-height 10 ↦ 22, max-width 300 ↦ 312, flex-basis 50 ↦ 62; `auto` stays `auto` -/
example : (toBorderBox true exStyle).size = ⟨.length 112, .auto⟩
    ∧ (toBorderBox true exStyle).minSize = ⟨.auto, .length 22⟩
    ∧ (toBorderBox true exStyle).maxSize = ⟨.length 312, .auto⟩
    ∧ (toBorderBox true exStyle).flexBasis = .length 62
    ∧ (toBorderBox true exStyle).boxSizing = .borderBox
    ∧ (toBorderBox true exStyle).padding = exStyle.padding := by
  simp only [toBorderBox, exStyle, Style.default, bumpSize, bumpDim, pbSum, rectLen, lpLen, Rect.add, Rect.sumAxes,
    Rect.horizontalAxisSum, Rect.verticalAxisSum, if_true]
  norm_num

/-- a percentage makes a style ineligible; so does an aspect ratio; so does border-box -/
example : ¬ Eligible { exStyle with size := ⟨.percent 1, .auto⟩ } := by decide
example : ¬ Eligible { exStyle with aspectRatio := some 2 } := by decide
example : ¬ Eligible { exStyle with padding := ⟨.percent 1, .length 0, .length 0, .length 0⟩ } := by decide
example : ¬ Eligible (toBorderBox true exStyle) := by decide

def exInput : LayoutInput Rat :=
  { runMode := .performLayout, sizingMode := .inherentSize, axis := .both, knownDimensions := ⟨none, none⟩,
    parentSize := ⟨some 400, none⟩, availableSpace := ⟨.definite 400, .maxContent⟩,
    verticalMarginsAreCollapsible := ⟨false, false⟩ }

def exMeasure : MeasureFn := fun _ _ => ⟨0, 0⟩

/-- the two descriptions are different styles with the same leaf layout: the content-box leaf (content width 100,
min content height 10, padding 5 + border 1 per side) is 112 × 22 -/
example : (leafAlg exInput exStyle exMeasure).size = ⟨112, 22⟩ := by
  simp only [leafAlg, LeafModel.computeLeafLayout, LeafModel.box, LeafModel.nodeSizes, exStyle, exInput, exMeasure,
    Style.default]
  norm_num [Resolve.rectLPOrZero, Resolve.rectLPAOrZero, LP.resolveOrZero, LP.maybeResolve, LPA.resolveOrZero,
    LPA.maybeResolve, Resolve.sizeMaybe, Size.maybeApplyAspectRatio, Size.of_add, MaybeMath.of_add, Rect.add,
    Rect.sumAxes, Rect.horizontalAxisSum, Rect.verticalAxisSum, Size.orOpt, Size.unwrapOr, Size.fo_clamp,
    MaybeMath.fo_clamp, Size.f32Max, Size.add, Num.fmax, Num.fmin, LeafModel.hasStylesPreventingBeingCollapsedThrough,
    LeafModel.scrollbarGutter, LeafModel.contentBoxInset, LeafModel.measureAvailableSpace, LeafModel.availableAxis,
    Style.isBlock, Num.fgt, Num.flt, Num.feq, Point.transpose, Size.none, Size.zero, beq_cb_cb]

example : (leafAlg exInput (toBorderBox true exStyle) exMeasure).size = ⟨112, 22⟩ := by
  rw [← leafAlg_blind exInput exStyle true exMeasure (by decide)]
  simp only [leafAlg, LeafModel.computeLeafLayout, LeafModel.box, LeafModel.nodeSizes, exStyle, exInput, exMeasure,
    Style.default]
  norm_num [Resolve.rectLPOrZero, Resolve.rectLPAOrZero, LP.resolveOrZero, LP.maybeResolve, LPA.resolveOrZero,
    LPA.maybeResolve, Resolve.sizeMaybe, Size.maybeApplyAspectRatio, Size.of_add, MaybeMath.of_add, Rect.add,
    Rect.sumAxes, Rect.horizontalAxisSum, Rect.verticalAxisSum, Size.orOpt, Size.unwrapOr, Size.fo_clamp,
    MaybeMath.fo_clamp, Size.f32Max, Size.add, Num.fmax, Num.fmin, LeafModel.hasStylesPreventingBeingCollapsedThrough,
    LeafModel.scrollbarGutter, LeafModel.contentBoxInset, LeafModel.measureAvailableSpace, LeafModel.availableAxis,
    Style.isBlock, Num.fgt, Num.flt, Num.feq, Point.transpose, Size.none, Size.zero, beq_cb_cb]

/-- a block container (itself eligible) with two leaf children, the first child and the container switched -/
def exTreeA : STree Rat :=
  .node exStyle none [.node exStyle (some (.fixed 10 10)) [], .node exStyle none []]
def exTreeB : STree Rat :=
  .node (toBorderBox true exStyle) none
    [.node (toBorderBox true exStyle) (some (.fixed 10 10)) [], .node exStyle none []]

example : BoxRel true exTreeA exTreeB := by
  simp only [exTreeA, exTreeB, BoxRel, BoxRelList, and_true, true_and]
  have he : Eligible exStyle := by decide
  have hd : exStyle.flexDirection.isRow = true := rfl
  rw [hd]
  exact ⟨Or.inr ⟨he, rfl⟩, Or.inr ⟨he, rfl⟩, Or.inl rfl⟩

example : exTreeA.style ≠ exTreeB.style := by
  simp only [exTreeA, exTreeB, STree.style]
  intro h
  have := congrArg Style.boxSizing h
  exact absurd this (by decide)

end C12

/-
  AUDIT LIST (full names; `#print axioms` of each must be within {propext, Classical.choice, Quot.sound})

    C12.core_arith
    C12.adjustment_context_free
    C12.core_site_shape
    C12.core_flex_basis
    C12.isAuto_invariant
    C12.leaf_site_equiv
    C12.root_site_equiv
    C12.single_leaf_equiv
    C12.abs_site_equiv_block
    C12.abs_site_equiv_flex
    C12.abs_site_equiv_grid
    C12.abs_call_sites_equiv
    C12.block_container_site_equiv
    C12.block_item_site_equiv
    C12.tree_equiv
    C12.tree_equiv_init
    C12.tree_equiv_root
    C12.leafAlg_blind
    C12.block_blind
    C12.boxBlind_modelled
    C12.tree_equiv_modelled
    C12.tree_equiv_block_only
  negative result (an unmodelled site that is not equivalent, grid_item.rs l.517–522) and its repair:
    C12.grid_compressible_cap_site_not_equiv
    C12.grid_compressible_cap_site_differs
    C12.grid_compressible_cap_repaired_equiv

  Definitions the statements rest on (Model/BoxSizing.lean): BoxSizingModel.Eligible, toBorderBox, pbSum, bumpDim,
  StyleRel, StylesRel, StylesRelAny, BoxRel, BoxRelList, ContainerBlind, BoxBlind, leafAlg, algsWith;
  (Lemmas/BoxSizing.lean) C12L.adjustment.
  Remaining hypotheses: `ContainerBlind flex`, `ContainerBlind grid` (flexbox.rs / grid item generation are not
  modelled as interaction programs); their discharge is the site table notes/c12_sites.py (every read of
  size/min_size/max_size/flex_basis/box_sizing in src/compute/** has a recognised shape).
-/
