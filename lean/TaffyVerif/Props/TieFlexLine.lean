/-
  Tie (tier T) for the per-line functions of src/compute/flexbox.rs: `resolve_flexible_lengths` (in full, the §9.7 freeze loop),
  `distribute_remaining_free_space`, `sum_axis_gaps`, `FlexItem::is_scroll_container`.

  `Gen.FlexLine.*` is regenerated from the Rust source on every run (extract/src/{loops,flexline}.rs: a slice is a list, `for` over
  `&mut [T]` is `List.map` / `List.foldl`, a filtered mutable view is (list, predicate), the `loop` runs under fuel). It works on the
  full `FlexItem` / `FlexLine` / `AlgoConstants` records (compared with the Rust structs field by field). The hand-written model the
  theorems of C07 / C03 / C04 are stated on (`Model/FlexLine.lean`) works on the main-axis projection `FlexItemM`; the flex program
  (`Model/Flex.lean`) goes through `toM` / `zipBack`. The theorems here:

    * `resolve_flexible_lengths_eq` — for every `[Num α]`, fuel, line, constants:
        `Gen.FlexLine.resolve_flexible_lengths fuel line k =
           (FlexLine.resolveFlexibleLengths (line.items.map (toM k.dir)) … fuel).map (fun ms => { line with items := zipBack k.dir line.items ms })`
      (same result on the projection, every other field of every item and of the line untouched, `none` on the same inputs);
      `resolveFlexibleLengthsLine_eq`: the flex program's per-line step is the translated function run with fuel `n + 1`.
    * `distribute_remaining_free_space_eq` — under `k.isRow = k.dir.isRow` (established by `compute_constants`,
      `computeConstants_isRow`): the translated function is `FlexModel.distributeLine k` on every line.

  How: `loop_body_spec`, `rfl_spec`, `distribute_spec` state by `rfl` that the generated definitions are compositions of the pieces
  named `g…` below (copies of sub-terms of the generated text: renaming locals / re-wrapping in the Rust source leaves `rfl` intact,
  a changed operator, operand, guard or order of writes does not). Each piece is then related to the model through `toM`
  (`…_toM`) and shown to write only the fields `fromM` writes back (`…_frame`); the loop is an induction on the fuel (`loop_eq`).
-/
import TaffyVerif.Generated.FlexLine
import TaffyVerif.Props.TieAxes
import TaffyVerif.Props.TieMaybeMath
import TaffyVerif.Props.TieAlignment
import TaffyVerif.Props.TieStyle

namespace TieFlexLine
open FlexModel FlexLine
variable {α : Type} [Num α]

theorem sum_f32_eq : Gen.FlexLine.sum_f32 (α := α) = FlexLine.sumF := rfl

theorem sum_axis_gaps_eq : Gen.FlexLine.sum_axis_gaps (α := α) = FlexLine.sumAxisGaps := by
  funext gap n
  unfold Gen.FlexLine.sum_axis_gaps FlexLine.sumAxisGaps Gen.usizeSubTrunc
  by_cases h : n ≤ 1 <;> simp [h]

theorem is_scroll_container_eq : Gen.FlexLine.FlexItem.is_scroll_container (α := α) = FlexItem.isScrollContainer := by
  funext i
  unfold Gen.FlexLine.FlexItem.is_scroll_container FlexItem.isScrollContainer
  rw [TieStyle.is_scroll_container_eq]

/-- the mutating fold over a filtered view, when the update of an element does not depend on the accumulator: a `map` of the
    elements in the view and a fold over them -/
theorem fold_mut_where_split {β γ : Type} (p : β → Bool) (f : γ → β → β × γ) (hf : ∀ a a' x, (f a x).1 = (f a' x).1)
    (a0 a : γ) (l : List β) :
    Gen.FlexLine.fold_mut_where p f a l =
      (l.map (fun x => if p x then (f a0 x).1 else x), (l.filter p).foldl (fun a x => (f a x).2) a) := by
  induction l generalizing a with
  | nil => rfl
  | cons x xs ih =>
    unfold Gen.FlexLine.fold_mut_where
    by_cases h : p x
    · simp only [h, if_true, List.map_cons, List.filter_cons_of_pos, List.foldl_cons, ih, hf a a0 x]
    · simp only [h, List.map_cons, List.filter_cons, ih, Bool.false_eq_true, if_false]

/-- a fold with a pair accumulator is the pair of the two folds -/
theorem foldl_pair {β : Type} (g h : β → α) (l : List β) (a b : α) :
    l.foldl (fun (acc : α × α) x => match acc with | (u, v) => (u + g x, v + h x)) (a, b) =
      (l.foldl (fun u x => u + g x) a, l.foldl (fun v x => v + h x) b) := by
  induction l generalizing a b with
  | nil => rfl
  | cons x xs ih => simp only [List.foldl_cons, ih]

/-! ### the frame: what the main-axis functions leave alone -/

omit [Num α] in
theorem fromM_fromM (d : FlexDirection) (i : FlexItem α) (m0 m : FlexItemM α) :
    fromM d (fromM d i m0) m = fromM d i m := by
  cases d <;> rfl

omit [Num α] in
theorem fromM_toM (d : FlexDirection) (i : FlexItem α) : fromM d i (toM d i) = i := by
  cases d <;> rfl

/-- `is'` is `is` up to the fields the main-axis functions write -/
def Fr (d : FlexDirection) (is is' : List (FlexItem α)) : Prop := zipBack d is (is'.map (toM d)) = is'

omit [Num α] in
theorem Fr_refl (d : FlexDirection) (is : List (FlexItem α)) : Fr d is is := by
  unfold Fr
  induction is with
  | nil => rfl
  | cons i is ih => simp only [List.map_cons, zipBack, fromM_toM, ih]

omit [Num α] in
theorem Fr_map (d : FlexDirection) (g : FlexItem α → FlexItem α) (hg : ∀ i, fromM d i (toM d (g i)) = g i)
    (is is' : List (FlexItem α)) (h : Fr d is is') : Fr d is (is'.map g) := by
  unfold Fr at *
  induction is generalizing is' with
  | nil => cases is' <;> simp_all [zipBack]
  | cons i is ih =>
    cases is' with
    | nil => simp [zipBack] at h
    | cons i' is' =>
      simp only [List.map_cons, zipBack, List.cons.injEq] at h ⊢
      refine ⟨?_, ih is' h.2⟩
      calc fromM d i (toM d (g i')) = fromM d (fromM d i (toM d i')) (toM d (g i')) := (fromM_fromM d i _ _).symm
        _ = fromM d i' (toM d (g i')) := by rw [h.1]
        _ = g i' := hg i'


/-! ### `resolve_flexible_lengths`: the pieces of the generated definition, named

The definitions `g…` below repeat sub-terms of `Gen.FlexLine.resolve_flexible_lengths{,.loop_body}` (with the generated helper
functions, so that `loop_body_spec` / `rfl_spec` hold by `rfl`: unfolding `let`s and renaming bound variables only). -/

section pieces
variable (k : AlgoConstants α)

/-- `used_space` (steps 3 and 4b) -/
def gUsed (tg : α) (items : List (FlexItem α)) : α :=
  tg + Gen.FlexLine.sum_f32 (items.map fun child =>
    if child.frozen then Gen.Axes.Size.main child.outerTargetSize k.dir
    else child.flexBasis + Gen.Axes.Rect.main_axis_sum child.margin k.dir)

/-- `(sum_flex_grow, sum_flex_shrink)` -/
def gSums (items : List (FlexItem α)) : α × α :=
  List.foldl (fun (acc : α × α) (item : FlexItem α) =>
      match acc with
      | (flex_grow, flex_shrink) => (flex_grow + item.flexGrow, flex_shrink + item.flexShrink))
    (0, 0) (List.filter (fun child => !child.frozen) items)

/-- `free_space` -/
def gFree (tg ifs uff : α) (gr sh : Bool) (used sumGrow sumShrink : α) : α :=
  if gr && Num.flt sumGrow 1 then
    Gen.MaybeMath.fo_maybe_min (ifs * sumGrow - tg) (Gen.MaybeMath.of_maybe_sub (Gen.Axes.Size.main k.nodeInnerSize k.dir) used)
  else if sh && Num.flt sumShrink 1 then
    Gen.MaybeMath.fo_maybe_max (ifs * sumShrink - tg) (Gen.MaybeMath.of_maybe_sub (Gen.Axes.Size.main k.nodeInnerSize k.dir) used)
  else
    Option.getD (Gen.MaybeMath.of_maybe_sub (Gen.Axes.Size.main k.nodeInnerSize k.dir) used) (uff - used)

/-- step 4c, growing, one item of the view -/
def gGrowItem (free sum : α) (child : FlexItem α) : FlexItem α :=
  if !child.frozen then
    { child with targetSize := Gen.Axes.Size.set_main child.targetSize k.dir (child.flexBasis + free * (child.flexGrow / sum)) }
  else child

/-- step 4c, shrinking, one item of the view -/
def gShrinkItem (free sumScaled : α) (child : FlexItem α) : FlexItem α :=
  if !child.frozen then
    let scaled_shrink_factor := child.innerFlexBasis * child.flexShrink
    { child with targetSize := Gen.Axes.Size.set_main child.targetSize k.dir (child.flexBasis + free * (scaled_shrink_factor / sumScaled)) }
  else child

/-- step 4c on the line -/
def gDistLine [NumX α] (gr sh : Bool) (free sumGrow sumShrink : α) (line : FlexLineS α) : FlexLineS α :=
  if NumX.isNormal free then
    if gr && Num.fgt sumGrow 0 then
      { line with items := line.items.map (gGrowItem k free sumGrow) }
    else if sh && Num.fgt sumShrink 0 then
      let sum_scaled_shrink_factor :=
        Gen.FlexLine.sum_f32 (List.map (fun child => child.innerFlexBasis * child.flexShrink) (List.filter (fun child => !child.frozen) line.items))
      if Num.fgt sum_scaled_shrink_factor 0 then
        { line with items := line.items.map (gShrinkItem k free sum_scaled_shrink_factor) }
      else line
    else line
  else line

/-- step 4d: the closure of `unfrozen.iter_mut().fold(0.0, …)` -/
def gClampF (acc : α) (child : FlexItem α) : FlexItem α × α :=
  let resolved_min_main := some child.resolvedMinimumMainSize
  let max_main := Gen.Axes.Size.main child.maxSize k.dir
  let clamped := Num.fmax (Gen.MaybeMath.fo_maybe_clamp (Gen.Axes.Size.main child.targetSize k.dir) resolved_min_main max_main) 0
  let child := { child with violation := clamped - Gen.Axes.Size.main child.targetSize k.dir }
  let child := { child with targetSize := Gen.Axes.Size.set_main child.targetSize k.dir clamped }
  let child := { child with outerTargetSize := Gen.Axes.Size.set_main child.outerTargetSize k.dir (Gen.Axes.Size.main child.targetSize k.dir + Gen.Axes.Rect.main_axis_sum child.margin k.dir) }
  (child, acc + child.violation)

/-- step 4e, one item of the line -/
def gFreezeItem (total : α) (child : FlexItem α) : FlexItem α :=
  if !child.frozen then
    if Num.fgt total 0 then { child with frozen := Num.fgt child.violation 0 }
    else if Num.flt total 0 then { child with frozen := Num.flt child.violation 0 }
    else { child with frozen := true }
  else child

/-- step 2, one item -/
def gInitItem (ex gr sh : Bool) (child : FlexItem α) : FlexItem α :=
  let inner_target_size := Gen.Axes.Size.main child.hypotheticalInnerSize k.dir
  let child := { child with targetSize := Gen.Axes.Size.set_main child.targetSize k.dir inner_target_size }
  if ex || (Num.feq child.flexGrow 0 && Num.feq child.flexShrink 0)
      || (gr && Num.fgt child.flexBasis (Gen.Axes.Size.main child.hypotheticalInnerSize k.dir))
      || (sh && Num.flt child.flexBasis (Gen.Axes.Size.main child.hypotheticalInnerSize k.dir)) then
    let child := { child with frozen := true }
    let outer_target_size := inner_target_size + Gen.Axes.Rect.main_axis_sum child.margin k.dir
    { child with outerTargetSize := Gen.Axes.Size.set_main child.outerTargetSize k.dir outer_target_size }
  else child

end pieces

/-! ### each piece, seen through the main-axis projection `toM`, is the model's -/

section proj
variable (k : AlgoConstants α)

omit [Num α] in
theorem map_toM_map (d : FlexDirection) (g : FlexItem α → FlexItem α) (f : FlexItemM α → FlexItemM α)
    (h : ∀ i, toM d (g i) = f (toM d i)) (l : List (FlexItem α)) : (l.map g).map (toM d) = (l.map (toM d)).map f := by
  simp only [List.map_map]; apply List.map_congr_left; intro i _; exact h i

theorem gUsed_eq (tg : α) (items : List (FlexItem α)) : gUsed k tg items = usedSpace tg (items.map (toM k.dir)) := by
  unfold gUsed usedSpace
  simp only [sum_f32_eq, TieAxes.size_main_eq, TieAxes.main_axis_sum_eq, List.map_map]
  congr 2
  apply List.map_congr_left; intro child _
  generalize k.dir = d
  cases d <;> cases hf : child.frozen <;> simp [toM, hf, FlexItemM.marginSum, Rect.mainAxisSum, Rect.horizontalAxisSum,
    Rect.verticalAxisSum, AbsPos.Dir.mainStart, AbsPos.Dir.mainEnd, FlexDirection.isRow, Size.main]

omit [Num α] in
theorem filter_toM (d : FlexDirection) (items : List (FlexItem α)) :
    (items.map (toM d)).filter (fun c => !c.frozen) = (items.filter fun i => !i.frozen).map (toM d) := by
  induction items with
  | nil => rfl
  | cons i is ih =>
    have : (toM d i).frozen = i.frozen := rfl
    cases h : i.frozen <;> simp_all

omit [Num α] in
theorem all_frozen_toM (d : FlexDirection) (items : List (FlexItem α)) :
    (items.map (toM d)).all (·.frozen) = items.all (fun child => child.frozen) := by
  induction items with
  | nil => rfl
  | cons i is ih => simp only [List.map_cons, List.all_cons, ih]; rfl

theorem gSums_eq (d : FlexDirection) (items : List (FlexItem α)) :
    gSums items = (((items.map (toM d)).filter fun c => !c.frozen).foldl (fun a c => a + c.flexGrow) (0 : α),
      ((items.map (toM d)).filter fun c => !c.frozen).foldl (fun a c => a + c.flexShrink) (0 : α)) := by
  unfold gSums
  rw [foldl_pair, filter_toM, List.foldl_map, List.foldl_map]
  rfl

theorem gFree_eq (tg ifs uff : α) (gr sh : Bool) (used sg ss : α) :
    gFree k tg ifs uff gr sh used sg ss = freeSpace ⟨k.nodeInnerSize.main k.dir, tg, uff, gr, sh, ifs⟩ used sg ss := by
  unfold gFree freeSpace
  simp only [TieAxes.size_main_eq, TieMaybeMath.fo_min_eq, TieMaybeMath.fo_max_eq, TieMaybeMath.of_sub_eq]

/-- step 4c on one projected item -/
def mDist (dist : Dist α) (c : FlexItemM α) : FlexItemM α := if c.frozen then c else { c with targetMain := distTarget dist c }
/-- step 4d on one projected item -/
def mClamp (c : FlexItemM α) : FlexItemM α := if c.frozen then c else clampItem c c.targetMain
/-- step 4e on one projected item -/
def mFreeze (total : α) (c : FlexItemM α) : FlexItemM α := if c.frozen then c else freezeItem total c

theorem mDist_keep (c : FlexItemM α) : mDist .keep c = c := by
  obtain ⟨_, _, _, _, _, _, _, _, _, _, _, _, _, _, fr, _, _, _, _⟩ := c
  cases fr <;> rfl

theorem mClamp_mDist (dist : Dist α) (c : FlexItemM α) :
    mClamp (mDist dist c) = if c.frozen then c else clampItem c (distTarget dist c) := by
  obtain ⟨_, _, _, _, _, _, _, _, _, _, _, _, _, _, fr, _, _, _, _⟩ := c
  cases fr <;> rfl

theorem gGrowItem_toM (free sum : α) (i : FlexItem α) :
    toM k.dir (gGrowItem k free sum i) = mDist (.grow free sum) (toM k.dir i) := by
  unfold gGrowItem mDist distTarget
  simp only [TieAxes.set_main_eq]
  generalize k.dir = d
  rw [show (toM d i).frozen = i.frozen from rfl]
  cases i.frozen <;> cases d <;> rfl

theorem gShrinkItem_toM (free sum : α) (i : FlexItem α) :
    toM k.dir (gShrinkItem k free sum i) = mDist (.shrink free sum) (toM k.dir i) := by
  unfold gShrinkItem mDist distTarget
  simp only [TieAxes.set_main_eq]
  generalize k.dir = d
  rw [show (toM d i).frozen = i.frozen from rfl]
  cases i.frozen <;> cases d <;> rfl

theorem gClampItem_toM (a : α) (i : FlexItem α) :
    toM k.dir (if (!i.frozen) = true then (gClampF k a i).1 else i) = mClamp (toM k.dir i) := by
  unfold gClampF mClamp clampItem clampMain
  simp only [TieAxes.set_main_eq, TieAxes.size_main_eq, TieAxes.main_axis_sum_eq, TieMaybeMath.fo_clamp_eq]
  generalize k.dir = d
  rw [show (toM d i).frozen = i.frozen from rfl]
  cases i.frozen <;> cases d <;> rfl

theorem gClampF_snd (a : α) (i : FlexItem α) :
    (gClampF k a i).2 = a + (toM k.dir (gClampF k 0 i).1).violation := rfl

theorem gFreezeItem_toM (d : FlexDirection) (total : α) (i : FlexItem α) :
    toM d (gFreezeItem total i) = mFreeze total (toM d i) := by
  unfold gFreezeItem mFreeze freezeItem
  rw [show (toM d i).frozen = i.frozen from rfl]
  cases i.frozen <;> cases Num.fgt total 0 <;> cases Num.flt total 0 <;> rfl

theorem gInitItem_toM (ex gr sh : Bool) (i : FlexItem α) :
    toM k.dir (gInitItem k ex gr sh i) = initFreeze ex gr sh (toM k.dir i) := by
  unfold gInitItem initFreeze
  simp only [TieAxes.set_main_eq, TieAxes.size_main_eq, TieAxes.main_axis_sum_eq]
  generalize k.dir = d
  rw [apply_ite (toM d)]
  cases d <;> exact ite_congr rfl (fun _ => rfl) (fun _ => rfl)

end proj

variable [NumX α]

theorem gDistLine_toM (k : AlgoConstants α) (im : Option α) (tg uff ifs : α) (gr sh : Bool) (free sg ss : α) (line : FlexLineS α) :
    (gDistLine k gr sh free sg ss line).items.map (toM k.dir) =
      (line.items.map (toM k.dir)).map
        (mDist (chooseDist ⟨im, tg, uff, gr, sh, ifs⟩ ((line.items.map (toM k.dir)).filter fun c => !c.frozen) free sg ss)) := by
  have hkeep : mDist (Dist.keep : Dist α) = id := funext mDist_keep
  have hs : Gen.FlexLine.sum_f32 (List.map (fun child => child.innerFlexBasis * child.flexShrink)
        (List.filter (fun child => !child.frozen) line.items)) =
      sumF (((line.items.map (toM k.dir)).filter fun c => !c.frozen).map fun c => c.innerFlexBasis * c.flexShrink) := by
    rw [filter_toM, List.map_map]; rfl
  unfold gDistLine chooseDist
  rw [hs]
  generalize sumF (((line.items.map (toM k.dir)).filter fun c => !c.frozen).map fun c => c.innerFlexBasis * c.flexShrink) = sc
  by_cases h1 : NumX.isNormal free = true
  · simp only [h1, if_true]
    by_cases h2 : (gr && Num.fgt sg 0) = true
    · simp only [h2, if_true]; exact map_toM_map _ _ _ (gGrowItem_toM k free sg) _
    · simp only [h2, Bool.false_eq_true, if_false]
      by_cases h3 : (sh && Num.fgt ss 0) = true
      · simp only [h3, if_true]
        by_cases h4 : Num.fgt sc 0 = true
        · simp only [h4, if_true]; exact map_toM_map _ _ _ (gShrinkItem_toM k free sc) _
        · simp only [h4, Bool.false_eq_true, if_false, hkeep, List.map_id]
      · simp only [h3, Bool.false_eq_true, if_false, hkeep, List.map_id]
  · simp only [h1, Bool.false_eq_true, if_false, hkeep, List.map_id]

/-- the generated loop body IS the composition of the named pieces (`rfl`) -/
theorem loop_body_spec (tg : α) (k : AlgoConstants α) (gr : Bool) (ifs : α) (sh : Bool) (uff : α) (line : FlexLineS α) :
    Gen.FlexLine.resolve_flexible_lengths.loop_body tg k gr ifs sh uff line =
      (let (sg, ss) := gSums line.items
       let free := gFree k tg ifs uff gr sh (gUsed k tg line.items) sg ss
       let line1 := gDistLine k gr sh free sg ss line
       let r := Gen.FlexLine.fold_mut_where (fun child => !child.frozen) (gClampF k) 0 line1.items
       { line1 with items := r.1.map (gFreezeItem r.2) }) := by
  rfl

theorem filter_map_if {β : Type} (p : β → Bool) (g : β → β) (hp : ∀ x, p (g x) = p x) (l : List β) :
    (l.map (fun x => if p x then g x else x)).filter p = (l.filter p).map g := by
  induction l with
  | nil => rfl
  | cons x xs ih =>
    by_cases h : p x = true
    · simp only [List.map_cons, h, if_true, List.filter_cons, hp, ih]
    · simp only [List.map_cons, h, Bool.false_eq_true, if_false, List.filter_cons, ih]

/-- one pass of the generated loop body, seen through `toM`, is the model's `iter` -/
theorem loop_body_toM (tg : α) (k : AlgoConstants α) (gr : Bool) (ifs : α) (sh : Bool) (uff : α) (line : FlexLineS α) :
    (Gen.FlexLine.resolve_flexible_lengths.loop_body tg k gr ifs sh uff line).items.map (toM k.dir) =
      FlexLine.iter ⟨k.nodeInnerSize.main k.dir, tg, uff, gr, sh, ifs⟩ (line.items.map (toM k.dir)) := by
  rw [loop_body_spec, gSums_eq k.dir, gUsed_eq]
  dsimp only
  rw [gFree_eq]
  unfold iter
  dsimp only
  generalize (List.foldl (fun a c => a + c.flexGrow) 0 (List.filter (fun c => !c.frozen) (List.map (toM k.dir) line.items))) = sg
  generalize (List.foldl (fun a c => a + c.flexShrink) 0 (List.filter (fun c => !c.frozen) (List.map (toM k.dir) line.items))) = ss
  generalize freeSpace _ (usedSpace tg _) sg ss = free
  have h1 := gDistLine_toM k (k.nodeInnerSize.main k.dir) tg uff ifs gr sh free sg ss line
  generalize chooseDist _ _ free sg ss = dist at h1 ⊢
  generalize gDistLine k gr sh free sg ss line = line1 at h1 ⊢
  rw [fold_mut_where_split _ _ (fun _ _ _ => rfl) 0]
  dsimp only
  have hr1 : List.map (toM k.dir) (List.map (fun x => if (!x.frozen) = true then (gClampF k 0 x).fst else x) line1.items)
      = List.map (fun c => if c.frozen = true then c else clampItem c (distTarget dist c)) (List.map (toM k.dir) line.items) := by
    rw [map_toM_map _ _ mClamp (gClampItem_toM k 0), h1, List.map_map]
    apply List.map_congr_left; intro c _; exact mClamp_mDist dist c
  have hr2 : List.foldl (fun a x => (gClampF k a x).snd) 0 (List.filter (fun child => !child.frozen) line1.items)
      = List.foldl (fun a c => a + c.violation) 0 (List.filter (fun c => !c.frozen) (List.map (toM k.dir)
          (List.map (fun x => if (!x.frozen) = true then (gClampF k 0 x).fst else x) line1.items))) := by
    rw [filter_toM, filter_map_if (fun x : FlexItem α => !x.frozen) (fun x => (gClampF k 0 x).fst) (fun _ => rfl),
      List.map_map, List.foldl_map]
    rfl
  rw [map_toM_map _ _ (mFreeze _) (gFreezeItem_toM k.dir _), hr2, hr1]
  rfl

/-- the generated function IS: step 2 on every item, then (unless exactly sized) the loop (`rfl`) -/
theorem rfl_spec (fuel : Nat) (line : FlexLineS α) (k : AlgoConstants α) :
    Gen.FlexLine.resolve_flexible_lengths fuel line k =
      (let tg := Gen.FlexLine.sum_axis_gaps (Gen.Axes.Size.main k.gap k.dir) line.items.length
       let uff := tg + Gen.FlexLine.sum_f32 (line.items.map fun child => Gen.Axes.Size.main child.hypotheticalOuterSize k.dir)
       let gr := Num.flt uff (Option.getD (Gen.Axes.Size.main k.nodeInnerSize k.dir) 0)
       let sh := Num.fgt uff (Option.getD (Gen.Axes.Size.main k.nodeInnerSize k.dir) 0)
       let ex := !gr && !sh
       let line1 := { line with items := line.items.map (gInitItem k ex gr sh) }
       if ex then some line1
       else
         let ifs := Option.getD (Gen.MaybeMath.of_maybe_sub (Gen.Axes.Size.main k.nodeInnerSize k.dir) (gUsed k tg line1.items)) 0
         Gen.FlexLine.resolve_flexible_lengths.loop tg k gr ifs sh uff fuel line1) := by
  rfl

/-! ### the frame: every per-item function of the generated code writes only the fields `fromM` writes back -/

omit [NumX α] in
theorem gGrowItem_frame (k : AlgoConstants α) (free sum : α) (i : FlexItem α) :
    fromM k.dir i (toM k.dir (gGrowItem k free sum i)) = gGrowItem k free sum i := by
  unfold gGrowItem
  simp only [TieAxes.set_main_eq]
  generalize k.dir = d
  cases i.frozen <;> cases d <;> rfl

omit [NumX α] in
theorem gShrinkItem_frame (k : AlgoConstants α) (free sum : α) (i : FlexItem α) :
    fromM k.dir i (toM k.dir (gShrinkItem k free sum i)) = gShrinkItem k free sum i := by
  unfold gShrinkItem
  simp only [TieAxes.set_main_eq]
  generalize k.dir = d
  cases i.frozen <;> cases d <;> rfl

omit [NumX α] in
theorem gClampItem_frame (k : AlgoConstants α) (a : α) (i : FlexItem α) :
    fromM k.dir i (toM k.dir (if (!i.frozen) = true then (gClampF k a i).1 else i)) =
      (if (!i.frozen) = true then (gClampF k a i).1 else i) := by
  unfold gClampF
  simp only [TieAxes.set_main_eq, TieAxes.size_main_eq, TieAxes.main_axis_sum_eq, TieMaybeMath.fo_clamp_eq]
  generalize k.dir = d
  cases i.frozen <;> cases d <;> rfl

omit [NumX α] in
theorem gFreezeItem_frame (d : FlexDirection) (total : α) (i : FlexItem α) :
    fromM d i (toM d (gFreezeItem total i)) = gFreezeItem total i := by
  unfold gFreezeItem
  cases i.frozen <;> cases Num.fgt total 0 <;> cases Num.flt total 0 <;> cases d <;> rfl

omit [NumX α] in
theorem gInitItem_frame (k : AlgoConstants α) (ex gr sh : Bool) (i : FlexItem α) :
    fromM k.dir i (toM k.dir (gInitItem k ex gr sh i)) = gInitItem k ex gr sh i := by
  unfold gInitItem
  simp only [TieAxes.set_main_eq, TieAxes.size_main_eq, TieAxes.main_axis_sum_eq]
  generalize k.dir = d
  rw [apply_ite (toM d), apply_ite (fromM d i)]
  cases d <;> exact ite_congr rfl (fun _ => rfl) (fun _ => rfl)

theorem gDistLine_with (k : AlgoConstants α) (gr sh : Bool) (free sg ss : α) (line : FlexLineS α) :
    gDistLine k gr sh free sg ss line = { line with items := (gDistLine k gr sh free sg ss line).items } := by
  unfold gDistLine
  dsimp only
  repeat' split
  all_goals rfl

theorem gDistLine_Fr (k : AlgoConstants α) (gr sh : Bool) (free sg ss : α) (is0 : List (FlexItem α)) (line : FlexLineS α)
    (h : Fr k.dir is0 line.items) : Fr k.dir is0 (gDistLine k gr sh free sg ss line).items := by
  unfold gDistLine
  dsimp only
  repeat' split
  · exact Fr_map _ _ (gGrowItem_frame k free sg) _ _ h
  · exact Fr_map _ _ (gShrinkItem_frame k free _) _ _ h
  all_goals exact h

/-- the loop body leaves `cross_size` / `offset_cross` of the line alone -/
theorem loop_body_with (tg : α) (k : AlgoConstants α) (gr : Bool) (ifs : α) (sh : Bool) (uff : α) (line : FlexLineS α) :
    Gen.FlexLine.resolve_flexible_lengths.loop_body tg k gr ifs sh uff line =
      { line with items := (Gen.FlexLine.resolve_flexible_lengths.loop_body tg k gr ifs sh uff line).items } := by
  rw [loop_body_spec]
  dsimp only
  generalize gFree (α := α) _ _ _ _ _ _ _ _ _ = free
  rw [gDistLine_with]

/-- … and writes, in every item, only the fields `fromM` writes back -/
theorem loop_body_Fr (tg : α) (k : AlgoConstants α) (gr : Bool) (ifs : α) (sh : Bool) (uff : α) (is0 : List (FlexItem α))
    (line : FlexLineS α) (h : Fr k.dir is0 line.items) :
    Fr k.dir is0 (Gen.FlexLine.resolve_flexible_lengths.loop_body tg k gr ifs sh uff line).items := by
  rw [loop_body_spec]
  dsimp only
  generalize gFree (α := α) _ _ _ _ _ _ _ _ _ = free
  rw [fold_mut_where_split _ _ (fun _ _ _ => rfl) 0]
  dsimp only
  exact Fr_map _ _ (gFreezeItem_frame _ _) _ _ (Fr_map _ _ (gClampItem_frame k 0) _ _ (gDistLine_Fr k gr sh free _ _ is0 line h))

/-- the generated loop, for every fuel and every state that is the original line up to the written fields: the model's loop
    on the projection, written back -/
theorem loop_eq (tg : α) (k : AlgoConstants α) (gr : Bool) (ifs : α) (sh : Bool) (uff : α) (is0 : List (FlexItem α))
    (fuel : Nat) (line : FlexLineS α) (h : Fr k.dir is0 line.items) :
    Gen.FlexLine.resolve_flexible_lengths.loop tg k gr ifs sh uff fuel line =
      (FlexLine.loop ⟨k.nodeInnerSize.main k.dir, tg, uff, gr, sh, ifs⟩ fuel (line.items.map (toM k.dir))).map
        (fun ms => { line with items := zipBack k.dir is0 ms }) := by
  induction fuel generalizing line with
  | zero =>
    unfold Gen.FlexLine.resolve_flexible_lengths.loop FlexLine.loop
    rw [all_frozen_toM]
    by_cases hall : line.items.all (fun child => child.frozen) = true
    · simp only [hall, if_true, Option.map_some]
      have h' : zipBack k.dir is0 (line.items.map (toM k.dir)) = line.items := h
      rw [h']
    · simp only [hall, Bool.false_eq_true, if_false, Option.map_none]
  | succ n ih =>
    unfold Gen.FlexLine.resolve_flexible_lengths.loop FlexLine.loop
    rw [all_frozen_toM]
    by_cases hall : line.items.all (fun child => child.frozen) = true
    · simp only [hall, if_true, Option.map_some]
      have h' : zipBack k.dir is0 (line.items.map (toM k.dir)) = line.items := h
      rw [h']
    · simp only [hall, Bool.false_eq_true, if_false]
      rw [ih _ (loop_body_Fr tg k gr ifs sh uff is0 line h), loop_body_toM]
      congr 1
      funext ms
      rw [loop_body_with]

/-- **Tie for `resolve_flexible_lengths`.** For every `[Num α]`, fuel, line and constants: the definition translated from
    src/compute/flexbox.rs computes, on the full `FlexItem`s, exactly what `FlexLine.resolveFlexibleLengths` (the model C07 / C03 / C04
    are stated on) computes on their main-axis projection, written back into the items (`zipBack`); `none` (the loop did not finish
    within `fuel` iterations) on the same inputs. -/
theorem resolve_flexible_lengths_eq (fuel : Nat) (line : FlexLineS α) (k : AlgoConstants α) :
    Gen.FlexLine.resolve_flexible_lengths fuel line k =
      (FlexLine.resolveFlexibleLengths (line.items.map (toM k.dir)) (k.nodeInnerSize.main k.dir) (k.gap.main k.dir) fuel).map
        (fun ms => { line with items := zipBack k.dir line.items ms }) := by
  rw [rfl_spec]
  unfold FlexLine.resolveFlexibleLengths
  simp only [sum_axis_gaps_eq, TieAxes.size_main_eq, sum_f32_eq, TieMaybeMath.of_sub_eq, gUsed_eq, List.length_map, List.map_map]
  have hhyp : (fun child : FlexItem α => child.hypotheticalOuterSize.main k.dir) = ((fun c : FlexItemM α => c.hypOuter) ∘ toM k.dir) := rfl
  rw [hhyp]
  generalize sumAxisGaps (k.gap.main k.dir) line.items.length = tg
  generalize tg + sumF (List.map ((fun c : FlexItemM α => c.hypOuter) ∘ toM k.dir) line.items) = uff
  generalize Num.flt uff ((k.nodeInnerSize.main k.dir).getD 0) = gr
  generalize Num.fgt uff ((k.nodeInnerSize.main k.dir).getD 0) = sh
  generalize (!gr && !sh) = ex
  have hinit : (toM k.dir ∘ gInitItem k ex gr sh) = (initFreeze ex gr sh ∘ toM k.dir) := by
    funext i; exact gInitItem_toM k _ _ _ i
  have hfr : Fr k.dir line.items (line.items.map (gInitItem k ex gr sh)) :=
    Fr_map _ _ (gInitItem_frame k _ _ _) _ _ (Fr_refl _ _)
  rw [hinit]
  cases ex
  · simp only [Bool.false_eq_true, if_false]
    rw [loop_eq _ _ _ _ _ _ line.items _ _ hfr]
    simp only [List.map_map, hinit]
  · simp only [if_true, Option.map_some]
    have h' := hfr
    unfold Fr at h'
    rw [List.map_map, hinit] at h'
    rw [h']

/-- the hypothesis of `loop_eq` is met by the line itself (and, by `Fr_map`, after step 2) -/
example (d : FlexDirection) (is : List (FlexItem α)) : Fr d is is := Fr_refl d is

/-- the flex program's per-line step (`FlexModel.resolveFlexibleLengthsLine`, fuel `n + 1`) IS the translated function run with
    that fuel (`none`, which `C03Flex.freeze_loop_terminates` excludes, is "leave the line as it is" in the program) -/
theorem resolveFlexibleLengthsLine_eq (k : AlgoConstants α) (line : FlexLineS α) :
    FlexModel.resolveFlexibleLengthsLine k line =
      (Gen.FlexLine.resolve_flexible_lengths (line.items.length + 1) line k).getD line := by
  unfold FlexModel.resolveFlexibleLengthsLine
  rw [resolve_flexible_lengths_eq]
  simp only [List.length_map]
  cases FlexLine.resolveFlexibleLengths (line.items.map (toM k.dir)) (k.nodeInnerSize.main k.dir) (k.gap.main k.dir)
    (line.items.length + 1) <;> rfl

/-! ### `distribute_remaining_free_space`

The Rust writes the auto margins through `constants.is_row` (`child.margin.left = …` / `.top`), the model through the direction
(`setMainStart … k.dir`): the two agree under `k.isRow = k.dir.isRow`, which `compute_constants` establishes
(`FlexModel.computeConstants`: `isRow := dir.isRow`). -/

section distribute
omit [NumX α]
variable (k : AlgoConstants α)

/-- `num_auto_margins` after the counting loop -/
def gNumAuto (items : List (FlexItem α)) : Nat :=
  List.foldl (fun (num_auto_margins : Nat) (child : FlexItem α) =>
      let num_auto_margins := if Gen.Axes.Rect.main_start child.marginIsAuto k.dir then num_auto_margins + 1 else num_auto_margins
      let num_auto_margins := if Gen.Axes.Rect.main_end child.marginIsAuto k.dir then num_auto_margins + 1 else num_auto_margins
      num_auto_margins) 0 items

/-- the auto-margin loop, one item -/
def gAutoItem (margin : α) (child : FlexItem α) : FlexItem α :=
  let child := if Gen.Axes.Rect.main_start child.marginIsAuto k.dir then
      (if k.isRow then { child with margin := { child.margin with left := margin } }
       else { child with margin := { child.margin with top := margin } })
    else child
  let child := if Gen.Axes.Rect.main_end child.marginIsAuto k.dir then
      (if k.isRow then { child with margin := { child.margin with right := margin } }
       else { child with margin := { child.margin with bottom := margin } })
    else child
  child

/-- the closure `justify_item` -/
def gJustifyItem (free : α) (n : Nat) (gap : α) (mode : AlignContent) (rev : Bool) (i : Nat) (child : FlexItem α) : FlexItem α :=
  { child with offsetMain := Gen.Alignment.compute_alignment_offset free n gap mode rev (i == 0) }

/-- the body of `for line in flex_lines { … }` -/
def gDistributeLine (line : FlexLineS α) : FlexLineS α :=
  let total_main_axis_gap := Gen.FlexLine.sum_axis_gaps (Gen.Axes.Size.main k.gap k.dir) line.items.length
  let used_space := total_main_axis_gap + Gen.FlexLine.sum_f32 (line.items.map fun child => Gen.Axes.Size.main child.outerTargetSize k.dir)
  let free_space := Gen.Axes.Size.main k.innerContainerSize k.dir - used_space
  let num_auto_margins := gNumAuto k line.items
  if Num.fgt free_space 0 && decide (num_auto_margins > 0) then
    { line with items := line.items.map (gAutoItem k (free_space / Num.ofNat num_auto_margins)) }
  else
    let num_items := line.items.length
    let layout_reverse := Gen.Axes.FlexDirection.is_reverse k.dir
    let gap := Gen.Axes.Size.main k.gap k.dir
    let mode := Gen.Alignment.apply_alignment_fallback free_space num_items (Option.getD k.justifyContent AlignContent.flexStart) false
    if layout_reverse then
      { line with items := List.reverse (List.mapIdx (gJustifyItem free_space num_items gap mode layout_reverse) (List.reverse line.items)) }
    else
      { line with items := List.mapIdx (gJustifyItem free_space num_items gap mode layout_reverse) line.items }

/-- the generated function IS the map of the named per-line body over the lines (`rfl`) -/
theorem distribute_spec (lines : List (FlexLineS α)) :
    Gen.FlexLine.distribute_remaining_free_space lines k = lines.map (gDistributeLine k) := by
  rfl

theorem apply_alignment_fallback_eq : Gen.Alignment.apply_alignment_fallback (α := α) = FlexLine.applyAlignmentFallback := by
  funext fs n m s
  unfold Gen.Alignment.apply_alignment_fallback FlexLine.applyAlignmentFallback
  cases m <;> cases h1 : (decide (n ≤ 1) || Num.fle fs 0) <;> cases h2 : Num.fle fs 0 <;> cases s <;> simp_all

theorem compute_alignment_offset_eq : Gen.Alignment.compute_alignment_offset (α := α) = FlexLine.computeAlignmentOffset := by
  funext fs n gap m rev first
  unfold Gen.Alignment.compute_alignment_offset FlexLine.computeAlignmentOffset
  cases first <;> cases m <;> rfl

omit [Num α] in
theorem gNumAuto_eq (items : List (FlexItem α)) : gNumAuto k items = numAutoMargins (items.map (toM k.dir)) := by
  unfold gNumAuto numAutoMargins
  rw [List.foldl_map]
  congr 1
  funext n child
  simp only [TieAxes.main_start_eq, TieAxes.main_end_eq]
  show _ = n + (if AbsPos.Dir.mainStart child.marginIsAuto k.dir = true then 1 else 0) +
    (if AbsPos.Dir.mainEnd child.marginIsAuto k.dir = true then 1 else 0)
  cases AbsPos.Dir.mainStart child.marginIsAuto k.dir <;> cases AbsPos.Dir.mainEnd child.marginIsAuto k.dir <;> rfl

/-- the auto-margin step on one projected item -/
def mAuto (m : α) (c : FlexItemM α) : FlexItemM α :=
  { c with marginStart := if c.marginStartAuto then m else c.marginStart, marginEnd := if c.marginEndAuto then m else c.marginEnd }

omit [Num α] in
theorem gAutoItem_toM (hrow : k.isRow = k.dir.isRow) (m : α) (i : FlexItem α) :
    toM k.dir (gAutoItem k m i) = mAuto m (toM k.dir i) := by
  unfold gAutoItem mAuto
  simp only [TieAxes.main_start_eq, TieAxes.main_end_eq, hrow]
  generalize k.dir = d
  obtain ⟨_, _, _, _, _, _, _, _, _, _, _, _, _, ⟨l, r, t, b⟩, _, _, _, _, _, _, _, _, _, _, _, _, _, _⟩ := i
  cases d <;> cases l <;> cases r <;> cases t <;> cases b <;> rfl

omit [Num α] in
theorem gAutoItem_frame (hrow : k.isRow = k.dir.isRow) (m : α) (i : FlexItem α) :
    fromM k.dir i (toM k.dir (gAutoItem k m i)) = gAutoItem k m i := by
  unfold gAutoItem
  simp only [TieAxes.main_start_eq, TieAxes.main_end_eq, hrow]
  generalize k.dir = d
  obtain ⟨_, _, _, _, _, _, _, _, _, _, _, _, _, ⟨l, r, t, b⟩, _, _, _, _, _, _, _, _, _, _, _, _, _, _⟩ := i
  cases d <;> cases l <;> cases r <;> cases t <;> cases b <;> rfl

theorem gJustifyItem_toM (d : FlexDirection) (free : α) (n : Nat) (gap : α) (mode : AlignContent) (rev : Bool) (j : Nat) (i : FlexItem α) :
    toM d (gJustifyItem free n gap mode rev j i) =
      { toM d i with offsetMain := FlexLine.computeAlignmentOffset free n gap mode rev (j == 0) } := by
  unfold gJustifyItem; rw [compute_alignment_offset_eq]; rfl

theorem gJustifyItem_frame (d : FlexDirection) (free : α) (n : Nat) (gap : α) (mode : AlignContent) (rev : Bool) (j : Nat) (i : FlexItem α) :
    fromM d i (toM d (gJustifyItem free n gap mode rev j i)) = gJustifyItem free n gap mode rev j i := by
  unfold gJustifyItem; cases d <;> rfl

omit [Num α] in
theorem map_mapIdx {β γ δ : Type} (f : γ → δ) (g : Nat → β → γ) (l : List β) :
    (l.mapIdx g).map f = l.mapIdx (fun i x => f (g i x)) := by
  induction l generalizing g with
  | nil => rfl
  | cons x xs ih => simp only [List.mapIdx_cons, List.map_cons, ih]

omit [Num α] in
theorem mapIdx_map {β γ δ : Type} (f : β → γ) (g : Nat → γ → δ) (l : List β) :
    (l.map f).mapIdx g = l.mapIdx (fun i x => g i (f x)) := by
  induction l generalizing g with
  | nil => rfl
  | cons x xs ih => simp only [List.map_cons, List.mapIdx_cons, ih]

omit [Num α] in
theorem mapIdx_const {β γ : Type} (g : β → γ) (l : List β) : l.mapIdx (fun _ x => g x) = l.map g := by
  induction l with
  | nil => rfl
  | cons x xs ih => simp only [List.mapIdx_cons, List.map_cons, ih]

omit [Num α] in
/-- `iter_mut().enumerate().for_each(justify_item)`: the item with index 0 is the first -/
theorem mapIdx_justifyForward (f : Bool → α) (l : List (FlexItemM α)) :
    l.mapIdx (fun i c => { c with offsetMain := f (i == 0) }) = justifyForward f l := by
  cases l with
  | nil => rfl
  | cons c rest =>
    rw [List.mapIdx_cons]
    show _ :: List.mapIdx (fun i c => { c with offsetMain := f (i + 1 == 0) }) rest = _
    have : (fun (i : Nat) (c : FlexItemM α) => { c with offsetMain := f (i + 1 == 0) }) = fun _ c => { c with offsetMain := f false } := by
      funext i c; rfl
    rw [this, mapIdx_const]; rfl

omit [Num α] in
theorem Fr_mapIdx (d : FlexDirection) (g : Nat → FlexItem α → FlexItem α) (hg : ∀ n i, fromM d i (toM d (g n i)) = g n i)
    (is is' : List (FlexItem α)) (h : Fr d is is') : Fr d is (is'.mapIdx g) := by
  unfold Fr at *
  induction is generalizing is' g with
  | nil => cases is' <;> simp_all [zipBack]
  | cons i is ih =>
    cases is' with
    | nil => simp [zipBack] at h
    | cons i' is' =>
      simp only [List.map_cons, List.mapIdx_cons, zipBack, List.cons.injEq] at h ⊢
      refine ⟨?_, ih _ (fun n i => hg (n + 1) i) is' h.2⟩
      calc fromM d i (toM d (g 0 i')) = fromM d (fromM d i (toM d i')) (toM d (g 0 i')) := (fromM_fromM d i _ _).symm
        _ = fromM d i' (toM d (g 0 i')) := by rw [h.1]
        _ = g 0 i' := hg 0 i'

/-- one line: through `toM`, the model's `FlexLine.distributeRemainingFreeSpace` -/
theorem gDistributeLine_toM (hrow : k.isRow = k.dir.isRow) (line : FlexLineS α) :
    (gDistributeLine k line).items.map (toM k.dir) =
      FlexLine.distributeRemainingFreeSpace (line.items.map (toM k.dir)) (k.innerContainerSize.main k.dir) (k.gap.main k.dir)
        k.justifyContent k.dir := by
  unfold gDistributeLine FlexLine.distributeRemainingFreeSpace
  simp only [sum_axis_gaps_eq, TieAxes.size_main_eq, sum_f32_eq, gNumAuto_eq, apply_alignment_fallback_eq, TieAxes.is_reverse_eq,
    List.length_map, List.map_map]
  have hot : (fun child : FlexItem α => child.outerTargetSize.main k.dir) = ((fun c : FlexItemM α => c.outerTargetMain) ∘ toM k.dir) := rfl
  rw [hot]
  generalize k.innerContainerSize.main k.dir - (sumAxisGaps (k.gap.main k.dir) line.items.length +
    sumF (List.map ((fun c : FlexItemM α => c.outerTargetMain) ∘ toM k.dir) line.items)) = free
  generalize numAutoMargins (List.map (toM k.dir) line.items) = na
  generalize FlexLine.applyAlignmentFallback free line.items.length (k.justifyContent.getD AlignContent.flexStart) false = mode
  rw [apply_ite FlexLineS.items, apply_ite (List.map (toM k.dir))]
  refine ite_congr rfl (fun _ => ?_) (fun _ => ?_)
  · rw [← List.map_map]
    exact map_toM_map _ _ _ (gAutoItem_toM k hrow _) _
  · rw [apply_ite FlexLineS.items, apply_ite (List.map (toM k.dir))]
    refine ite_congr rfl (fun _ => ?_) (fun _ => ?_)
    · dsimp only
      rw [List.map_reverse, map_mapIdx, ← mapIdx_justifyForward, ← List.map_reverse, mapIdx_map]
      congr 2
      funext j i; exact gJustifyItem_toM _ _ _ _ _ _ _ _
    · dsimp only
      rw [map_mapIdx, ← mapIdx_justifyForward, mapIdx_map]
      congr 1
      funext j i; exact gJustifyItem_toM _ _ _ _ _ _ _ _

theorem gDistributeLine_Fr (hrow : k.isRow = k.dir.isRow) (line : FlexLineS α) :
    Fr k.dir line.items (gDistributeLine k line).items := by
  unfold gDistributeLine
  dsimp only
  split
  · exact Fr_map _ _ (gAutoItem_frame k hrow _) _ _ (Fr_refl _ _)
  · split
    · dsimp only
      rw [List.mapIdx_reverse, List.reverse_reverse]
      exact Fr_mapIdx _ _ (fun n i => gJustifyItem_frame _ _ _ _ _ _ _ _) _ _ (Fr_refl _ _)
    · exact Fr_mapIdx _ _ (fun n i => gJustifyItem_frame _ _ _ _ _ _ _ _) _ _ (Fr_refl _ _)

theorem gDistributeLine_with (line : FlexLineS α) :
    gDistributeLine k line = { line with items := (gDistributeLine k line).items } := by
  unfold gDistributeLine
  dsimp only
  repeat' split
  all_goals rfl

/-- **Tie for `distribute_remaining_free_space`.** Under `k.isRow = k.dir.isRow` (what `compute_constants` sets): the translated
    function is the flex program's `distributeLine` (= `FlexLine.distributeRemainingFreeSpace` on the main-axis projection, written
    back) on every line. -/
theorem distribute_remaining_free_space_eq (hrow : k.isRow = k.dir.isRow) (lines : List (FlexLineS α)) :
    Gen.FlexLine.distribute_remaining_free_space lines k = lines.map (FlexModel.distributeLine k) := by
  rw [distribute_spec]
  apply List.map_congr_left
  intro line _
  unfold FlexModel.distributeLine
  dsimp only
  rw [← gDistributeLine_toM k hrow line, gDistributeLine_Fr k hrow line]
  exact gDistributeLine_with k line

/-- the hypothesis is met by a concrete column container … -/
example : ({ (default : AlgoConstants Rat) with dir := .column, isRow := false }).isRow =
    ({ (default : AlgoConstants Rat) with dir := .column, isRow := false }).dir.isRow := rfl

/-- … and holds for the constants the flex program computes, whatever the style -/
theorem computeConstants_isRow (style : Style α) (kd ps : Size (Option α)) :
    (FlexModel.computeConstants style kd ps).isRow = (FlexModel.computeConstants style kd ps).dir.isRow := rfl

end distribute

/-! ### the hypothesis `k.isRow = k.dir.isRow` is needed

On constants that `compute_constants` never produces (a column direction with `is_row = true`) the Rust writes the resolved auto
margin to `margin.left`, the model (which goes through the direction) to `margin.top`. -/

def witnessConstants : AlgoConstants Rat :=
  { (default : AlgoConstants Rat) with dir := .column, isRow := true, innerContainerSize := ⟨0, 10⟩ }
def witnessLine : FlexLineS Rat :=
  { items := [{ (default : FlexItem Rat) with marginIsAuto := ⟨false, false, true, false⟩ }], crossSize := 0, offsetCross := 0 }

/-- without `k.isRow = k.dir.isRow` the equality `distribute_remaining_free_space_eq` fails: (left, top) margins of the one item -/
theorem distribute_needs_isRow_witness :
    ((Gen.FlexLine.distribute_remaining_free_space [witnessLine] witnessConstants).map fun l =>
        l.items.map fun i => (i.margin.left, i.margin.top)) = [[(10, 0)]] ∧
    (([FlexModel.distributeLine witnessConstants witnessLine]).map fun l =>
        l.items.map fun i => (i.margin.left, i.margin.top)) = [[(0, 10)]] ∧
    witnessConstants.isRow ≠ witnessConstants.dir.isRow := by
  refine ⟨by decide +kernel, by decide +kernel, by decide⟩

end TieFlexLine
