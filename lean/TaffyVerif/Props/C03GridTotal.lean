/-
  C03 (grid placement part) — **placement_total**: for every input within an explicit, decidable size bound the whole
  placement run returns: no `panic`, no `overflow`, no `outOfFuel`.

  Model: `GridPlacement.run` (Model/GridPlacement.lean), every machine-integer operation checked
  (`ok result | panic msg | overflow | outOfFuel`; a lossy `as` cast counts as `overflow` too).

  The bound (`withinBound B N`): explicit track counts `0 ≤ · ≤ B`, every grid line `|n| ≤ B`, every span `≤ B`, at most
  `N` children; and `(N + 5)·(B + 2) ≤ 16000` (e.g. `B = N = 100`, or `B = 30, N = 495`, or `B = 1000, N = 10`).

  Proof (Lemmas/GridPlacementTotal{WP,Matrix,Search,Run}.lean): a weakest-precondition predicate `WP x P` ("`x`
  neither panics nor overflows and its result satisfies `P`") is pushed through the run with the invariant
  `Bd m K` — the occupancy matrix is well-formed, all track counts are non-negative, the negative implicit count and
  the implicit end line of both axes are `≤ K`.  The estimate starts it at `K₀ = 3·(B+1)`; every recorded item moves it
  by at most `B + 2`: a definite placement lies inside the estimated tracks (`estimate_covers_definite`), a search
  stops at the latest one step past the implicit end line because an area that starts there is out of range and
  therefore unoccupied, and an indefinite span is at most the estimated number of tracks (`estimate_spans`; the span
  part of the estimate — without it the third loop would not stop).  The structural facts: every search starts at or
  after the implicit start line, `last_of_type` indexes an existing track of a matrix with ≥ 1 track per axis, every
  area handed to `mark_area_as` starts inside the implicit grid (so `mark_area_never_panics` applies).
  `outOfFuel` is excluded by `fuel_suffices` (Props/C03Grid), for every input.
-/
import TaffyVerif.Lemmas.GridPlacementTotalRun
import TaffyVerif.Props.C03Grid
import TaffyVerif.Props.C08

namespace C03Grid
open GridPlacement Outcome

/-! ### the decidable input bound -/

/-- a raw (CSS) placement is within `B`: a line number `|n| ≤ B`, a span `≤ B` -/
def placementWithin (B : Int) : Placement → Bool
  | .auto => true
  | .line n => decide (-B ≤ n) && decide (n ≤ B)
  | .span s => decide (s ≤ B)

def childWithin (B : Int) (c : Child) : Bool :=
  placementWithin B c.row.start && placementWithin B c.row.«end» &&
  placementWithin B c.column.start && placementWithin B c.column.«end»

/-- the size bound of `placement_total`: explicit track counts in `0..B`, at most `N` children, each within `B` -/
def withinBound (B N : Nat) (explicitCols explicitRows : Int) (children : List Child) : Bool :=
  decide (0 ≤ explicitCols) && decide (explicitCols ≤ (B : Int)) &&
  decide (0 ≤ explicitRows) && decide (explicitRows ≤ (B : Int)) &&
  decide (children.length ≤ N) && children.all (childWithin (B : Int))

theorem placementWithin_raw {B : Int} {p : Placement} (h : placementWithin B p = true) : PlRaw B p := by
  cases p <;> simp_all [placementWithin, PlRaw]

theorem childWithin_raw {B : Int} {c : Child} (h : childWithin B c = true) : ChildRaw B c := by
  simp only [childWithin, Bool.and_eq_true] at h
  obtain ⟨⟨⟨h1, h2⟩, h3⟩, h4⟩ := h
  exact ⟨⟨placementWithin_raw h1, placementWithin_raw h2⟩, ⟨placementWithin_raw h3, placementWithin_raw h4⟩⟩

/-! ### the theorems -/

/-- **placement_total**, with what it also establishes about the answer: for every input within the bound and every
fuel ≥ `defaultFuel` the run returns some result `r`, and the final track counts of both axes are non-negative with the
negative implicit count and the implicit end line at most `(N + 5)·(B + 2)` (so every line and track index that occurred
is far inside i16). -/
theorem placement_total_counts (B N : Nat) (hBN : (N + 5) * (B + 2) ≤ 16000) (fuel : Nat) (hf : defaultFuel ≤ fuel)
    (explicitCols explicitRows : Int) (flow : AutoFlow) (children : List Child)
    (hin : withinBound B N explicitCols explicitRows children = true) :
    ∃ r, run fuel explicitCols explicitRows flow children = .ok r ∧
      TB r.columns (((N : Int) + 5) * ((B : Int) + 2)) ∧ TB r.rows (((N : Int) + 5) * ((B : Int) + 2)) := by
  simp only [withinBound, Bool.and_eq_true, decide_eq_true_eq, List.all_eq_true] at hin
  obtain ⟨⟨⟨⟨⟨h1, h2⟩, h3⟩, h4⟩, h5⟩, h6⟩ := hin
  have hBN' : ((N : Int) + 5) * ((B : Int) + 2) ≤ 16000 := by
    have := Int.ofNat_le.2 hBN
    simp only [Int.natCast_mul, Int.natCast_add] at this
    exact this
  exact wp_total
    (wp_run (B := (B : Int)) (N := (N : Int)) (by omega) (by omega) hBN' fuel flow h1 h2 h3 h4 (by omega)
      (fun c hc => childWithin_raw (h6 c hc)))
    (run_nf hf explicitCols explicitRows flow children)

/-- **placement_total**: for every input within the bound, `run … defaultFuel` is `ok r` for some `r` — neither `panic`
nor `overflow` nor `outOfFuel`.  In terms of the implementation (tied to the model by `./check C08`): with inputs of
this size `place_grid_items` (after `compute_grid_size_estimate` and `CellOccupancyMatrix::with_track_counts`) returns
in a debug build, and a release build performs no wrapping arithmetic and no lossy cast. -/
theorem placement_total (B N : Nat) (hBN : (N + 5) * (B + 2) ≤ 16000)
    (explicitCols explicitRows : Int) (flow : AutoFlow) (children : List Child)
    (hin : withinBound B N explicitCols explicitRows children = true) :
    ∃ r, run defaultFuel explicitCols explicitRows flow children = .ok r := by
  obtain ⟨r, hr, _⟩ := placement_total_counts B N hBN defaultFuel (Nat.le_refl _) explicitCols explicitRows flow
    children hin
  exact ⟨r, hr⟩

/-- the same in the three-negations form: none of the failure outcomes is possible -/
theorem placement_never_fails (B N : Nat) (hBN : (N + 5) * (B + 2) ≤ 16000)
    (explicitCols explicitRows : Int) (flow : AutoFlow) (children : List Child)
    (hin : withinBound B N explicitCols explicitRows children = true) :
    (∀ msg, run defaultFuel explicitCols explicitRows flow children ≠ .panic msg) ∧
    run defaultFuel explicitCols explicitRows flow children ≠ .overflow ∧
    run defaultFuel explicitCols explicitRows flow children ≠ .outOfFuel := by
  obtain ⟨r, hr⟩ := placement_total B N hBN explicitCols explicitRows flow children hin
  rw [hr]
  refine ⟨fun _ h => ?_, fun h => ?_, fun h => ?_⟩ <;> cases h

/-- totality together with the partial-correctness theorems of C08: within the bound the run returns, every recorded
item is non-empty, inside the reported tracks, and honours its child's style -/
theorem placement_total_correct (B N : Nat) (hBN : (N + 5) * (B + 2) ≤ 16000)
    (explicitCols explicitRows : Int) (flow : AutoFlow) (children : List Child)
    (hin : withinBound B N explicitCols explicitRows children = true) :
    ∃ r, run defaultFuel explicitCols explicitRows flow children = .ok r ∧
      (∀ it ∈ r.items, it.nonempty = true ∧ it.inRange r.columns r.rows = true) ∧
      (∀ it ∈ r.items, ∃ c, children[it.index]? = some c ∧
        axisHonoured c.row explicitRows it.row = true ∧ axisHonoured c.column explicitCols it.column = true) := by
  obtain ⟨r, hr⟩ := placement_total B N hBN explicitCols explicitRows flow children hin
  exact ⟨r, hr, C08.area_nonempty_in_range hr, C08.explicit_lines_honoured hr⟩

/-! ### the intermediate results, as statements about the model functions

(the lemma files prove them in `WP` form; these are the most useful ones restated) -/

/-- `mark_area_as` under the bound `Bd m K` (`K ≤ 16000`): for an area with `start ≤ end` whose lines are within
`±16000` and which does not start before the implicit grid, no panic and no overflow; the new matrix is bounded by the
larger of `K` and the area's end lines. -/
theorem mark_area_total {m : Matrix} {K : Int} (bd : Bd m K) (hK : K ≤ 16000) {ax : Axis} {p s : Line Int} {v : Cell}
    (hv : v ≠ .unoccupied)
    (hc : -m.columns.negativeImplicit ≤ (colOf ax p s).start) (hc1 : (colOf ax p s).start ≤ (colOf ax p s).«end»)
    (hcb : AB (colOf ax p s))
    (hr : -m.rows.negativeImplicit ≤ (rowOf ax p s).start) (hr1 : (rowOf ax p s).start ≤ (rowOf ax p s).«end»)
    (hrb : AB (rowOf ax p s)) :
    ∃ m', m.markAreaAs ax p s v = .ok m' ∧ Bd m' (max K (max (colOf ax p s).«end» (rowOf ax p s).«end»)) :=
  match wp_total (wp_markAreaAs bd hK hv hc hc1 hcb hr hr1 hrb) inferInstance with
  | ⟨m', h, hb, _, _⟩ => ⟨m', h, hb⟩

/-- "out of bounds cells are considered unoccupied": an area that starts at or after the implicit end line of the
primary or of the secondary axis is reported free — the reason every search loop stops one step past the grid at
the latest -/
theorem area_beyond_grid_is_free {m : Matrix} {K : Int} (bd : Bd m K) (hK : K ≤ 16000) (ax : Axis) {p s : Line Int}
    (hp : AB p) (hs : AB s)
    (h : (m.trackCounts ax).explicit + (m.trackCounts ax).positiveImplicit ≤ p.start ∨
         (m.trackCounts ax.other).explicit + (m.trackCounts ax.other).positiveImplicit ≤ s.start) :
    m.lineAreaIsUnoccupied ax p s = .ok true := by
  obtain ⟨b, hb, hq⟩ := wp_total (wp_lineArea bd hK ax hp hs) inferInstance
  rw [hb, hq h]

/-- the span half of the grid size estimate (`estimate_covers_definite` is the line half): an indefinite placement
spans at most as many tracks as the estimate provides -/
theorem estimate_covers_spans {ec er : Int} {children : List Child} {cols rows : TrackCounts}
    (hec : 0 ≤ ec) (her : 0 ≤ er) (h : computeGridSizeEstimate ec er children = .ok (cols, rows)) :
    ∀ c ∈ children,
      (∀ oz s, intoOriginZero c.column ec = .ok oz → isDefiniteOz oz = false → indefiniteSpan oz = .ok s →
        s ≤ cols.total) ∧
      (∀ oz s, intoOriginZero c.row er = .ok oz → isDefiniteOz oz = false → indefiniteSpan oz = .ok s →
        s ≤ rows.total) :=
  estimate_spans hec her h

/-! ### non-vacuity: the witnesses of the four repaired defects (and a larger problem) meet the bound `B = N = 100` -/

/-- defect 2 (`grid-row: auto / -1`, no explicit rows), defect 3 (`grid-column: 0 / span 5` in a 2-column grid),
defect 4 (`last_of_type` with negative implicit tracks in the other axis; three variants), defect 5 (`span 0`) -/
def totalWitnesses : List (Int × Int × AutoFlow × List Child) := [
  (0, 0, .row, [⟨⟨.auto, .line (-1)⟩, ⟨.auto, .auto⟩⟩]),
  (1, 0, .column, [⟨⟨.auto, .auto⟩, ⟨.auto, .line (-1)⟩⟩, ⟨⟨.auto, .auto⟩, ⟨.auto, .auto⟩⟩]),
  (2, 1, .row, [⟨⟨.auto, .auto⟩, ⟨.line 0, .span 5⟩⟩]),
  (2, 1, .column, [⟨⟨.line 0, .span 5⟩, ⟨.auto, .auto⟩⟩, ⟨⟨.auto, .auto⟩, ⟨.auto, .auto⟩⟩]),
  (1, 1, .row, [⟨⟨.line 1, .auto⟩, ⟨.line (-4), .auto⟩⟩, ⟨⟨.line 1, .auto⟩, ⟨.auto, .auto⟩⟩,
                ⟨⟨.line 1, .auto⟩, ⟨.auto, .auto⟩⟩, ⟨⟨.line 1, .auto⟩, ⟨.auto, .span 2⟩⟩]),
  (1, 1, .column, [⟨⟨.line (-4), .auto⟩, ⟨.line 1, .auto⟩⟩, ⟨⟨.auto, .auto⟩, ⟨.line 1, .auto⟩⟩,
                   ⟨⟨.auto, .auto⟩, ⟨.line 1, .auto⟩⟩, ⟨⟨.auto, .span 2⟩, ⟨.line 1, .auto⟩⟩]),
  (2, 0, .row, [⟨⟨.line (-3), .auto⟩, ⟨.line (-5), .auto⟩⟩, ⟨⟨.line 2, .auto⟩, ⟨.auto, .auto⟩⟩,
                ⟨⟨.line 2, .auto⟩, ⟨.span 2, .auto⟩⟩, ⟨⟨.line (-2), .line 2⟩, ⟨.auto, .auto⟩⟩]),
  (1, 1, .row, [⟨⟨.span 0, .auto⟩, ⟨.auto, .auto⟩⟩]),
  (0, 2, .rowDense, [⟨⟨.line 2, .span 0⟩, ⟨.span 0, .span 0⟩⟩, ⟨⟨.span 0, .line (-1)⟩, ⟨.auto, .auto⟩⟩]),
  -- lines at the bound, a span at the bound, in a grid with the maximal explicit counts
  (100, 100, .columnDense, [⟨⟨.line (-100), .span 100⟩, ⟨.line 100, .auto⟩⟩, ⟨⟨.auto, .span 100⟩, ⟨.span 100, .auto⟩⟩,
                            ⟨⟨.auto, .auto⟩, ⟨.line (-100), .line 100⟩⟩]) ]

/-- **placement_total_example**: every witness is inside the bound, hence (by `placement_total`) its run returns -/
theorem placement_total_example :
    ∀ w ∈ totalWitnesses, withinBound 100 100 w.1 w.2.1 w.2.2.2 = true ∧
      ∃ r, run defaultFuel w.1 w.2.1 w.2.2.1 w.2.2.2 = .ok r := by
  have hall : totalWitnesses.all (fun w => withinBound 100 100 w.1 w.2.1 w.2.2.2) = true := by decide
  intro w hw
  have hin := List.all_eq_true.1 hall w hw
  exact ⟨hin, placement_total 100 100 (by decide) _ _ _ _ hin⟩

/-- the first witness, evaluated: the item lands in the track before the explicit grid's end line -/
example : run defaultFuel 0 0 .row [⟨⟨.auto, .line (-1)⟩, ⟨.auto, .auto⟩⟩] =
    .ok ⟨[⟨0, ⟨-1, 0⟩, ⟨0, 1⟩, true⟩], ⟨0, 0, 1⟩, ⟨1, 0, 0⟩⟩ := by decide

/-- a bound is needed: a span that does not fit an i16 overflows in `resolve_indefinite_grid_tracks`
(`OriginZeroLine + u16` casts the span `as i16`), and a line close to `i16::MAX` overflows the end line -/
example : run defaultFuel 0 0 .row [⟨⟨.auto, .auto⟩, ⟨.auto, .span 40000⟩⟩] = .overflow := by decide
example : run defaultFuel 0 0 .row [⟨⟨.auto, .auto⟩, ⟨.line 32767, .span 2⟩⟩] = .overflow := by decide

end C03Grid

/-
  Audit list (all in this file unless noted; `#print axioms` of each: propext, Classical.choice, Quot.sound at most):

    C03Grid.placement_total            ∀ inputs with withinBound B N … = true, (N+5)(B+2) ≤ 16000:
                                       ∃ r, run defaultFuel ec er flow children = .ok r
    C03Grid.placement_total_counts     the same for every fuel ≥ defaultFuel, plus the bound on the final track counts
    C03Grid.placement_never_fails      ≠ panic msg, ≠ overflow, ≠ outOfFuel
    C03Grid.placement_total_correct    totality + C08.area_nonempty_in_range + C08.explicit_lines_honoured
    C03Grid.placement_total_example    the defect witnesses (and an at-the-bound problem) meet the bound
    C03Grid.mark_area_total            mark_area_as returns, new bound = max K (area end)
    C03Grid.area_beyond_grid_is_free   out-of-range area ⇒ line_area_is_unoccupied = ok true
    C03Grid.estimate_covers_spans      indefinite span ≤ estimated track count
  Lemmas (namespace GridPlacement): wp_run, wp_placeGridItems, wp_phase1/2/4, wp_record, wp_placeDefiniteSecondary,
    wp_placeIndefinitely, wp_searchSecondary, wp_searchFixedPrimary, wp_searchBoth, wp_lastOfType, wp_markAreaAs,
    wp_lineArea, wp_estimate, estimate_spans, phases_partition, wp_total.
  Used from earlier files: run_nf (= fuel_suffices), markAreaAs_np (= mark_area_never_panics), markAreaAs_cells,
    markAreaAs_counts, estimate_spec (= estimate_covers_definite), withTrackCounts_wf.
  Nothing is assumed; no sorry / axiom / native_decide.
-/
