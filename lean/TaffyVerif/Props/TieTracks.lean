/-
  Tie (tier T) for the pure functions of src/compute/grid/track_sizing.rs that are translated so far:
  `flush_planned_base_size_increases`, `flush_planned_growth_limit_increases`, `initialize_track_sizes`, `stretch_auto_tracks`,
  together with the `f32::INFINITY`-valued helpers they (and `maximise_tracks`) use: `AvailableSpace::compute_free_space`,
  `GridTrack::fit_content_limit`, `GridTrack::fit_content_limited_growth_limit`.

  `Gen.TrackSizing.*` / `Gen.TrackFns.*` are regenerated from the Rust source on every run (extract/src/{slices,tracksmod,gridinit}.rs);
  each theorem states that the generated definition IS the hand-written one of Model/FrSize.lean — for every argument and every
  `[Num α]`.  `growth_limit` and the results of the three helpers are `GridTracks.Ext` (finite | +∞) on both sides; the generated code
  uses the generic operations `Slice.Ext.*` (Model/SliceOps.lean), the model its specialised ones (`Ext.ltF`, `Ext.ofOption`, …).
  `stretch_auto_tracks` divides the free space: the generated code first demands that it is finite (`Slice.Ext.toFinite`, an explicit
  outcome); `stretch_auto_tracks_eq` shows that this never fails (the free space is only infinite for a non-definite available
  space, which the function excludes before it calls `compute_free_space`).
-/
import TaffyVerif.Generated.TrackSizing
import TaffyVerif.Model.FrSize
import TaffyVerif.Lemmas.SliceOps
import TaffyVerif.Props.TieTrackFns
import TaffyVerif.Props.TieLayout

set_option linter.unusedSectionVars false

namespace TieTracks
open GridTracks
variable {α : Type} [Num α]

/-! ### helpers whose result can be `f32::INFINITY` -/

/-- `compute_free_space`: `+∞` under a max-content constraint, `0` under min-content, the difference otherwise -/
theorem compute_free_space_eq (av : AvailableSpace α) (used : α) :
    Gen.TrackFns.AvailableSpace.compute_free_space av used =
      match av with
      | .maxContent => Ext.inf
      | .minContent => .fin 0
      | .definite a => .fin (a - used) := by
  cases av <;> rfl

theorem fit_content_limit_eq : Gen.TrackFns.GridTrack.fit_content_limit (α := α) = GridTrack.fitContentLimit := by
  funext t p
  unfold Gen.TrackFns.GridTrack.fit_content_limit GridTrack.fitContentLimit
  cases t.maxFn <;> first | rfl | (cases p <;> rfl)

theorem ext_min_eq (a b : Ext α) : Slice.Ext.min a b = Ext.min a b := by
  cases a <;> cases b <;> rfl

theorem fit_content_limited_growth_limit_eq :
    Gen.TrackFns.GridTrack.fit_content_limited_growth_limit (α := α) = GridTrack.fitContentLimitedGrowthLimit := by
  funext t p
  unfold Gen.TrackFns.GridTrack.fit_content_limited_growth_limit GridTrack.fitContentLimitedGrowthLimit
  rw [fit_content_limit_eq, ext_min_eq]

/-! ### the flush functions and `initialize_track_sizes` -/

theorem flush_planned_base_size_increases_eq :
    Gen.TrackSizing.flush_planned_base_size_increases (α := α) = flushPlannedBaseSizeIncreases := rfl

theorem flush_planned_growth_limit_increases_eq :
    Gen.TrackSizing.flush_planned_growth_limit_increases (α := α) = flushPlannedGrowthLimitIncreases := by
  funext tracks b
  unfold Gen.TrackSizing.flush_planned_growth_limit_increases flushPlannedGrowthLimitIncreases
  refine List.map_congr_left (fun t _ => ?_)
  have hfg : Num.fgt t.growthLimitPlannedIncrease 0 = Num.flt 0 t.growthLimitPlannedIncrease := rfl
  rw [hfg]
  cases Num.flt 0 t.growthLimitPlannedIncrease
  · rfl
  · cases hg : t.growthLimit <;> simp [Slice.Ext.feq, Slice.Ext.add]

theorem initialize_track_sizes_eq :
    Gen.TrackSizing.initialize_track_sizes (α := α) = initializeTrackSizes := by
  funext tracks p
  unfold Gen.TrackSizing.initialize_track_sizes initializeTrackSizes
  refine List.map_congr_left (fun t _ => ?_)
  unfold initializeTrackSize
  rw [TieTrackFns.min_definite_value_eq, TieTrackFns.max_definite_value_eq]
  cases hd : t.maxFn.definiteValue p with
  | none => simp [hd, Slice.Ext.lt, Ext.ofOption, Ext.ltF]
  | some v =>
    simp only [hd, Option.map_some, Option.getD_some, Slice.Ext.lt, Ext.ofOption, Ext.ltF]
    by_cases h : Num.flt v ((t.minFn.definiteValue p).getD 0) = true <;> simp [h]

/-! ### `find_size_of_fr` -/

/-- the model writes the hypothetical fr size as an `Option` (`none` = `f32::INFINITY`) -/
def toOpt : Ext α → Option α
  | .fin x => some x
  | .inf => none

theorem ofOption_toOpt (e : Ext α) : Ext.ofOption (toOpt e) = e := by cases e <;> rfl

theorem mulGe_eq (v : α) (e : Ext α) (base : α) : Slice.Ext.mulGe v e base = frGe v (toOpt e) base := by cases e <;> rfl
theorem mulLt_eq (v : α) (e : Ext α) (base : α) : Slice.Ext.mulLt v e base = frLt v (toOpt e) base := by cases e <;> rfl

/-- the body of the `for track in tracks.iter()` loop: `(used_space, naive_flex_factor_sum)` -/
def accStep (hyp : Option α) (acc : α × α) (t : GridTrack α) : α × α :=
  match t.maxFn with
  | .fr v => if frGe v hyp t.baseSize then (acc.1, acc.2 + v) else (acc.1 + t.baseSize, acc.2)
  | _ => (acc.1 + t.baseSize, acc.2)

theorem frAccumulate_eq_foldl (hyp : Option α) (tracks : List (GridTrack α)) :
    ∀ acc, frAccumulate hyp tracks acc = tracks.foldl (accStep hyp) acc := by
  induction tracks with
  | nil => intro acc; rfl
  | cons t rest ih =>
    intro acc
    obtain ⟨used, sum⟩ := acc
    rw [List.foldl_cons, ← ih]
    cases hm : t.maxFn <;> simp only [frAccumulate, accStep, hm]
    split <;> rfl

theorem acc_fold (hyp : Option α) (tracks : List (GridTrack α)) (G : α × α → GridTrack α → α × α)
    (hG : ∀ acc t, G acc t = accStep hyp acc t) (acc : α × α) :
    List.foldl G acc tracks = frAccumulate hyp tracks acc := by
  have : G = accStep hyp := funext fun a => funext fun t => hG a t
  subst this
  exact (frAccumulate_eq_foldl hyp tracks acc).symm

/-- one iteration of the `loop`: the new `(hypothetical_fr_size, previous_iter_hypothetical_fr_size)` and whether to `break` -/
def frStep (tracks : List (GridTrack α)) (space : α) (s : Ext α × Ext α) : (Ext α × Ext α) × Bool :=
  let acc := frAccumulate (toOpt s.1) tracks (0, 0)
  let hyp' := (space - acc.1) / Num.fmax acc.2 1
  ((.fin hyp', s.1), frIsValid tracks (some hyp') (toOpt s.1))

theorem loop_spec (tracks : List (GridTrack α)) (space : α) (F : Ext α × Ext α → (Ext α × Ext α) × Bool)
    (hF : ∀ s, F s = frStep tracks space s) (n : Nat) :
    ∀ s, (Slice.loop n s F).1 = Ext.ofOption (findSizeOfFrLoop n tracks space (toOpt s.1)) := by
  have : F = frStep tracks space := funext hF
  subst this
  induction n with
  | zero => intro s; simp [Slice.loop, findSizeOfFrLoop, ofOption_toOpt]
  | succ n ih =>
    intro s
    unfold Slice.loop findSizeOfFrLoop
    cases hv : frIsValid tracks (some ((space - (frAccumulate (toOpt s.1) tracks (0, 0)).1) /
        Num.fmax (frAccumulate (toOpt s.1) tracks (0, 0)).2 1)) (toOpt s.1) with
    | true => simp [frStep, hv, Ext.ofOption]
    | false =>
      simp only [frStep, hv, Bool.false_eq_true, ↓reduceIte]
      exact ih _

theorem loop_isSome (tracks : List (GridTrack α)) (space : α) (n : Nat) :
    ∀ hyp, ∃ x, findSizeOfFrLoop (n + 1) tracks space hyp = some x := by
  induction n with
  | zero =>
    intro hyp
    unfold findSizeOfFrLoop
    simp only []
    split
    · exact ⟨_, rfl⟩
    · exact ⟨_, rfl⟩
  | succ n ih =>
    intro hyp
    unfold findSizeOfFrLoop
    simp only []
    split
    · exact ⟨_, rfl⟩
    · exact ih _

theorem find_size_of_fr_eq (tracks : List (GridTrack α)) (space : α) :
    Gen.TrackSizing.find_size_of_fr tracks space = .ok (findSizeOfFr tracks space) := by
  unfold Gen.TrackSizing.find_size_of_fr findSizeOfFr
  by_cases h0 : Num.feq space 0 = true
  · simp only [h0, ↓reduceIte]; rfl
  simp only [h0, Bool.false_eq_true, ↓reduceIte, TieLayout.f32_max_eq, TieTrackFns.max_is_fr_eq, mulGe_eq, mulLt_eq]
  rw [loop_spec tracks space]
  rotate_left
  · intro s
    simp only [frStep]
    rw [acc_fold (toOpt s.1)]
    rotate_left
    · intro acc t
      unfold accStep
      cases hm : t.maxFn <;> simp [MaxTrack.isFr, Slice.MaxTrack.payload]
    unfold frIsValid
    congr 2
    funext t
    cases hm : t.maxFn <;> simp [MaxTrack.isFr, Slice.MaxTrack.payload, toOpt]
  obtain ⟨x, hx⟩ := loop_isSome tracks space (tracks.length + 1) (toOpt Ext.inf)
  simp only [toOpt] at hx ⊢
  rw [hx]
  rfl

/-- two `1fr` tracks of base size 0 share 100 equally: an fr is 50 (exact arithmetic) -/
example : Gen.TrackSizing.find_size_of_fr (α := Rat)
    [{ GridTrack.new ⟨.auto, .fr 1⟩ with baseSize := 0 }, { GridTrack.new ⟨.auto, .fr 1⟩ with baseSize := 0 }] 100 = .ok 50 := by
  rw [find_size_of_fr_eq]
  congr 1
  decide +kernel

/-! ### `stretch_auto_tracks` -/

theorem stretch_auto_tracks_eq (tracks : List (GridTrack α)) (axisMinSize : Option α) (av : AvailableSpace α) :
    Gen.TrackSizing.stretch_auto_tracks tracks axisMinSize av = .ok (stretchAutoTracks tracks axisMinSize av) := by
  unfold Gen.TrackSizing.stretch_auto_tracks stretchAutoTracks
  simp only [TieTrackFns.max_is_auto_eq, TieLayout.is_definite_eq, compute_free_space_eq, Slice.sumF32_eq_sumF]
  have hf : (fun (t : GridTrack α) => t.maxFn.isAuto) = (fun t => MaxTrack.isAuto t.maxFn) := rfl
  by_cases hn : (List.filter (fun (t : GridTrack α) => MaxTrack.isAuto t.maxFn) tracks).length > 0
  · simp only [hn, decide_true, ↓reduceIte]
    cases av with
    | definite a =>
      simp only [AvailableSpace.isDefinite, ↓reduceIte, Slice.Ext.lt]
      cases Num.flt 0 (a - sumF (List.map (fun t => t.baseSize) tracks)) <;> rfl
    | minContent =>
      cases axisMinSize with
      | none =>
        simp only [AvailableSpace.isDefinite, Bool.false_eq_true, ↓reduceIte, Slice.Ext.lt]
        cases Num.flt (0 : α) 0 <;> rfl
      | some size =>
        simp only [AvailableSpace.isDefinite, Bool.false_eq_true, ↓reduceIte, Slice.Ext.lt]
        cases Num.flt 0 (size - sumF (List.map (fun t => t.baseSize) tracks)) <;> rfl
    | maxContent =>
      cases axisMinSize with
      | none =>
        simp only [AvailableSpace.isDefinite, Bool.false_eq_true, ↓reduceIte, Slice.Ext.lt]
        cases Num.flt (0 : α) 0 <;> rfl
      | some size =>
        simp only [AvailableSpace.isDefinite, Bool.false_eq_true, ↓reduceIte, Slice.Ext.lt]
        cases Num.flt 0 (size - sumF (List.map (fun t => t.baseSize) tracks)) <;> rfl
  · simp only [hn, decide_false, Bool.false_eq_true, ↓reduceIte]
    rfl

/-- under a max-content constraint and without a definite minimum size there is no free space to hand out (exact arithmetic) -/
example (ts : List (GridTrack Rat)) : Gen.TrackSizing.stretch_auto_tracks ts none .maxContent = .ok ts := by
  rw [stretch_auto_tracks_eq]
  simp [stretchAutoTracks, Num.flt]

/-- a track `minmax(10px, auto)`: base size 10, growth limit `f32::INFINITY` -/
example : Gen.TrackSizing.initialize_track_sizes (α := Rat) [GridTrack.new ⟨.length 10, .auto⟩] (some 300) =
    [{ GridTrack.new ⟨.length 10, .auto⟩ with baseSize := 10, growthLimit := .inf }] := by
  rw [initialize_track_sizes_eq]
  simp [initializeTrackSizes, initializeTrackSize, GridTrack.new, GridTrack.newWithKind, MinTrack.definiteValue,
    MaxTrack.definiteValue, Ext.ofOption, Ext.ltF]

end TieTracks
