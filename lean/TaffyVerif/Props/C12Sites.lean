/-
  C12 — `StyleReadsThroughSites`, discharged on the current source.

  `C12.tree_equiv…` speaks about the model; the model applies the content-box adjustment at the sites where the Rust does.
  What ties the two is that the Rust reads `size / min_size / max_size / flex_basis / box_sizing` NOWHERE ELSE and in no
  other way.  `Generated/Sites.lean` lists every such read of `src/compute/**` as data (regenerated from the working tree
  by every `./check C12`); here:

    * `sites_recognised`  every read in the table is of a recognised shape (`Sites.classify`, Model/SiteTable.lean):
                          adjusted by the same node's padding+border on the same axis BEFORE any clamp / max / min / other
                          use, or tag-only, or a raw copy all of whose reads are, or the guard of such an adjustment.
                          The quantifier is the finite table, so `decide` is a proof.
    * `sites_covered`     every read's (file, function, property) occurs in the hand-written list `covered`, which names
                          the model function that contains the site and the theorem that proves it equivalent — both
                          checked to exist (``…`` name literals).  A read in a new place fails this theorem.
    * facts about the classifier itself, for ALL sites (not just the table): what `adjusted` guarantees, and that the
      three shapes of the seeded changes C12-1/2/3 are never accepted.
-/
import TaffyVerif.Generated.Sites
import TaffyVerif.Props.C12
import TaffyVerif.Props.EvalFlexBox
import TaffyVerif.Props.EvalGridBox

namespace C12Sites
open Sites

/-- the table of the current source -/
def table : Table := ⟨Gen.Sites.all, Gen.Sites.copies⟩

/-- a read is in order (see `Sites.siteOk`) -/
def SiteOk (s : Site) : Bool := siteOk table s

/-! ### 1. every read is recognised -/

/-- **sites_recognised**: every read of the five properties (and of their raw copies) in `src/compute/**` has a
recognised shape -/
theorem sites_recognised : Gen.Sites.all.all SiteOk = true := by decide +kernel

/-- nothing to report (the list printed in the build log when `sites_recognised` fails) -/
theorem report_empty : report table = [] := by decide +kernel

/-- the reads of every raw copy (`GridItem.size / min_size / max_size / box_sizing`) are adjusted, tag-only or guards -/
theorem raw_copies_read_through_sites :
    (Gen.Sites.all.filter fun s => classify table s == .rawCopy).all (fun s =>
      match s.ctx with
      | .structField S f => !(copyReads table S f).isEmpty && (copyReads table S f).all fun r => readOk (classify table r)
      | _ => false) = true := by decide +kernel

/-- the table is not vacuous: it has adjusted reads, tag-only reads, raw copies, guards, and the scan covered the four
algorithms' files -/
example :
    (Gen.Sites.all.filter fun s => classify table s == .adjusted).length ≥ 40
    ∧ (Gen.Sites.all.filter fun s => classify table s == .tagOnly).length ≥ 3
    ∧ (Gen.Sites.all.filter fun s => classify table s == .rawCopy).length ≥ 4
    ∧ (Gen.Sites.all.filter fun s => classify table s == .adjCondition).length ≥ 16
    ∧ ["src/compute/leaf.rs", "src/compute/block.rs", "src/compute/flexbox.rs", "src/compute/grid/mod.rs",
        "src/compute/grid/types/grid_item.rs"].all (Gen.Sites.files.contains ·) = true := by decide +kernel

/-! ### 2. every read is covered by a model site and its theorem -/

/-- the model function that contains a site, and the theorem that proves the site equivalent under `toBorderBox` -/
structure ModelSite where
  model : Lean.Name
  thm : Lean.Name
deriving Repr, DecidableEq

section
open BoxSizingModel Eval C12L FlexModel FlexStages GridModel GridRel GridTracks

private def leaf : ModelSite := ⟨``LeafModel.computeLeafLayout, ``C12.leaf_site_equiv⟩
private def root : ModelSite := ⟨``RootModel.rootKnownDimensions, ``C12.root_site_equiv⟩
private def blockC : ModelSite := ⟨``BlockModel.computeBlockLayout, ``C12.block_container_site_equiv⟩
private def blockI : ModelSite := ⟨``BlockModel.computeBlockLayout, ``C12.block_item_site_equiv⟩
private def blockA : ModelSite := ⟨``AbsPos.absBlock, ``C12.abs_site_equiv_block⟩
private def flexC : ModelSite := ⟨``styledBasedKnownDimensions, ``C12Flex.flex_container_site_equiv⟩
private def flexK : ModelSite := ⟨``computeConstants, ``C12L.computeConstants_tbb⟩
private def flexI : ModelSite := ⟨``generateItem, ``C12Flex.flex_item_site_equiv⟩
private def flexB : ModelSite := ⟨``fbDefinite, ``C12L.fbDefinite_tbb⟩
private def flexX : ModelSite := ⟨``usedCrossItem, ``C12L.usedCrossItem_tbb⟩
private def flexA : ModelSite := ⟨``AbsPos.absFlex, ``C12.abs_site_equiv_flex⟩
private def gridC : ModelSite := ⟨``mkCtx, ``C12L.mkCtx_tbb⟩
private def gridE : ModelSite := ⟨``computeExplicitGridSizeInAxis, ``C12L.computeExplicit_bump⟩
private def gridA : ModelSite := ⟨``AbsPos.absGrid, ``C12.abs_site_equiv_grid⟩
private def gridN : ModelSite := ⟨``GItem.new, ``C12L.itemNew_tbb⟩
private def gridK : ModelSite := ⟨``GItem.knownDimensions, ``C12L.knownDimensions_bump⟩
private def gridM : ModelSite := ⟨``mcFromStyle, ``C12L.mcFromStyle_bump⟩
private def gridCap : ModelSite := ⟨``mcCap, ``C12L.mcCap_bump⟩

private def four (file fn : String) (m : ModelSite) : List (String × String × String × ModelSite) :=
  ["size", "min_size", "max_size", "box_sizing"].map fun p => (file, fn, p, m)

/-- **the coverage list** (hand-written): (file, function, property) ↦ model function + theorem.  A read at a key that is
not listed here fails `sites_covered`. -/
def covered : List (String × String × String × ModelSite) :=
  four "src/compute/mod.rs" "compute_root_layout" root
  ++ four "src/compute/leaf.rs" "compute_leaf_layout" leaf
  ++ four "src/compute/block.rs" "compute_block_layout" blockC
  ++ four "src/compute/block.rs" "compute_inner" blockC
  ++ four "src/compute/block.rs" "generate_item_list" blockI
  ++ four "src/compute/block.rs" "perform_absolute_layout_on_absolute_children" blockA
  ++ four "src/compute/flexbox.rs" "compute_flexbox_layout" flexC
  ++ [("src/compute/flexbox.rs", "compute_constants", "min_size", flexK),
      ("src/compute/flexbox.rs", "compute_constants", "max_size", flexK),
      ("src/compute/flexbox.rs", "compute_constants", "box_sizing", flexK)]
  ++ four "src/compute/flexbox.rs" "generate_anonymous_flex_items" flexI
  ++ [("src/compute/flexbox.rs", "determine_flex_base_size", "flex_basis", flexB),
      ("src/compute/flexbox.rs", "determine_flex_base_size", "box_sizing", flexB),
      -- `size().cross(dir).is_auto()` (tag only: `C12.isAuto_invariant`) and the max-size clamp of a stretched item
      ("src/compute/flexbox.rs", "determine_used_cross_size", "size", flexX),
      ("src/compute/flexbox.rs", "determine_used_cross_size", "max_size", flexX),
      ("src/compute/flexbox.rs", "determine_used_cross_size", "box_sizing", flexX)]
  ++ four "src/compute/flexbox.rs" "perform_absolute_layout_on_absolute_children" flexA
  ++ four "src/compute/grid/mod.rs" "compute_grid_layout" gridC
  ++ four "src/compute/grid/alignment.rs" "align_and_position_item" gridA
  ++ [-- definiteness only (`bumpDim_isSome` inside `computeExplicit_bump`)
      ("src/compute/grid/explicit_grid.rs", "compute_explicit_grid_size_in_axis", "size", gridE),
      ("src/compute/grid/explicit_grid.rs", "compute_explicit_grid_size_in_axis", "max_size", gridE)]
  ++ four "src/compute/grid/types/grid_item.rs" "GridItem::new_with_placement_style_and_order" gridN
  ++ four "src/compute/grid/types/grid_item.rs" "GridItem::known_dimensions" gridK
  ++ [("src/compute/grid/types/grid_item.rs", "GridItem::minimum_contribution", "size", gridM),
      ("src/compute/grid/types/grid_item.rs", "GridItem::minimum_contribution", "min_size", gridM),
      -- the cap of compressible replaced items (repaired by 7c9e4be; `C12.grid_compressible_cap_repaired_equiv`)
      ("src/compute/grid/types/grid_item.rs", "GridItem::minimum_contribution", "max_size", gridCap),
      ("src/compute/grid/types/grid_item.rs", "GridItem::minimum_contribution", "box_sizing", gridM)]
end

def isCovered (s : Site) : Bool :=
  covered.any fun c => c.1 == s.file && c.2.1 == s.fn && c.2.2.1 == s.prop

/-- **sites_covered**: every style read of the table occurs, by (file, function, property), in the coverage list -/
theorem sites_covered : (Gen.Sites.all.filter (isStyleRead table)).all isCovered = true := by decide +kernel

/-- the converse, so that the list carries no dead entries: every listed key is a read of the current source -/
example : covered.all (fun c => Gen.Sites.all.any fun s => c.1 == s.file && c.2.1 == s.fn && c.2.2.1 == s.prop) = true := by
  decide +kernel

/-! ### 3. what the classifier guarantees, for every site -/

theorem firstAdd_decomp : ∀ (c pre post : List Step) (use : List Proj), firstAdd c = some (pre, use, post) →
    c = pre ++ .addAdj use :: post ∧ ∀ st ∈ pre, ∀ u, st ≠ .addAdj u
  | [], _, _, _, h => by simp [firstAdd] at h
  | .addAdj ps :: rest, pre, post, use, h => by
      simp only [firstAdd, Option.some.injEq, Prod.mk.injEq] at h
      obtain ⟨rfl, rfl, rfl⟩ := h
      exact ⟨rfl, by simp⟩
  | .call n :: rest, pre, post, use, h => by
      simp only [firstAdd, Option.map_eq_some_iff] at h
      obtain ⟨⟨p, u, q⟩, h1, h2⟩ := h
      simp only [Prod.mk.injEq] at h2
      obtain ⟨rfl, rfl, rfl⟩ := h2
      obtain ⟨e, hn⟩ := firstAdd_decomp rest p q u h1
      refine ⟨by rw [e]; rfl, ?_⟩
      intro st hst v
      rcases List.mem_cons.mp hst with rfl | hst
      · simp
      · exact hn st hst v
  | .field n :: rest, pre, post, use, h => by
      simp only [firstAdd, Option.map_eq_some_iff] at h
      obtain ⟨⟨p, u, q⟩, h1, h2⟩ := h
      simp only [Prod.mk.injEq] at h2
      obtain ⟨rfl, rfl, rfl⟩ := h2
      obtain ⟨e, hn⟩ := firstAdd_decomp rest p q u h1
      refine ⟨by rw [e]; rfl, ?_⟩
      intro st hst v
      rcases List.mem_cons.mp hst with rfl | hst
      · simp
      · exact hn st hst v
  | .proj n :: rest, pre, post, use, h => by
      simp only [firstAdd, Option.map_eq_some_iff] at h
      obtain ⟨⟨p, u, q⟩, h1, h2⟩ := h
      simp only [Prod.mk.injEq] at h2
      obtain ⟨rfl, rfl, rfl⟩ := h2
      obtain ⟨e, hn⟩ := firstAdd_decomp rest p q u h1
      refine ⟨by rw [e]; rfl, ?_⟩
      intro st hst v
      rcases List.mem_cons.mp hst with rfl | hst
      · simp
      · exact hn st hst v

example : firstAdd [.call "maybe_resolve", .addAdj [], .call "maybe_clamp"]
    = some ([.call "maybe_resolve"], [], [.call "maybe_clamp"]) := by decide

/-- **adjusted_sound** (every table, every site): a read classified `adjusted` has the chain
`pre ++ maybe_add(adjustment) :: post` where `pre` consists only of axis projections, `maybe_resolve` and
`maybe_apply_aspect_ratio` (with a `maybe_resolve` among them), the adjustment is a well-formed binding on the read's own
node, and it is projected to the axis of the value -/
theorem adjusted_sound (t : Table) (s : Site) (h : classify t s = .adjusted) :
    ∃ pre use post b, s.chain = pre ++ .addAdj use :: post ∧ s.adj = some b
      ∧ (∀ st ∈ pre, preStepOk st = true) ∧ Step.call "maybe_resolve" ∈ pre
      ∧ bindingOk t.copies s.source b = true ∧ projsMatch s.prop pre b use = true := by
  unfold classify at h
  split at h
  · simp at h
  · split at h <;> simp at h
  · rename_i src hs1 hs2
    split at h
    · simp at h
    split at h
    · split at h
      · split at h <;> simp at h
      · split at h <;> simp at h
      · simp at h
    split at h
    · split at h
      · rename_i pre use post b hfa hadj
        split at h
        · simp at h
        split at h
        · simp at h
        split at h
        · simp at h
        rename_i h1 h2 h3
        obtain ⟨e, _⟩ := firstAdd_decomp _ _ _ _ hfa
        simp only [Bool.not_eq_eq_eq_not, Bool.not_true] at h1 h2 h3
        simp only [Bool.not_eq_false] at h1 h2 h3
        have hp : preOk pre = true := by simpa using h1
        unfold preOk at hp
        rw [Bool.and_eq_true] at hp
        refine ⟨pre, use, post, b, e, hadj, ?_, ?_, by simpa using h2, by simpa using h3⟩
        · exact fun st hst => List.all_eq_true.mp hp.1 st hst
        · exact List.contains_iff_mem.mp hp.2
      · simp at h
      · split at h
        · simp at h
        split at h <;> simp at h
    · simp at h

/-- **used_before_adjustment_not_adjusted** (the shape of seeded change C12-3): whatever the table and the rest of the site,
a chain in which a call other than `maybe_resolve` / `maybe_apply_aspect_ratio` — `maybe_clamp`, `maybe_max`, `maybe_min`,
`or`, … — comes before the first `maybe_add(adjustment)` is never classified `adjusted` -/
theorem used_before_adjustment_not_adjusted (t : Table) (s : Site) (pre post : List Step) (use : List Proj) (n : String)
    (hc : s.chain = pre ++ .addAdj use :: post) (hpre : ∀ st ∈ pre, ∀ u, st ≠ .addAdj u)
    (hn : Step.call n ∈ pre) (hbad : preAddCalls.contains n = false) : classify t s ≠ .adjusted := by
  intro h
  obtain ⟨pre', use', post', b, e, _, hall, _, _, _⟩ := adjusted_sound t s h
  -- the first `addAdj` of a list is unique
  have key : ∀ (p p' : List Step) (u u' : List Proj) (q q' : List Step),
      p ++ Step.addAdj u :: q = p' ++ Step.addAdj u' :: q' → (∀ st ∈ p, ∀ v, st ≠ .addAdj v) →
      (∀ st ∈ p', preStepOk st = true) → p = p' := by
    intro p
    induction p with
    | nil =>
      intro p' u u' q q' he _ hp'
      cases p' with
      | nil => rfl
      | cons a p'' =>
        simp only [List.nil_append, List.cons_append, List.cons.injEq] at he
        have := hp' a (by simp)
        rw [← he.1] at this
        simp [preStepOk] at this
    | cons a p ih =>
      intro p' u u' q q' he hp hp'
      cases p' with
      | nil =>
        simp only [List.nil_append, List.cons_append, List.cons.injEq] at he
        exact absurd he.1 (hp a (by simp) u')
      | cons a' p'' =>
        simp only [List.cons_append, List.cons.injEq] at he
        rw [he.1, ih p'' u u' q q' he.2 (fun st hst => hp st (by simp [hst])) (fun st hst => hp' st (by simp [hst]))]
  have : pre = pre' := key pre pre' use use' post post' (hc ▸ e) hpre hall
  subst this
  have := hall _ hn
  simp only [preStepOk] at this
  rw [hbad] at this
  exact Bool.false_ne_true this

/-- **unadjusted_not_accepted** (the shape of seeded change C12-2): a read of `size` / `min_size` / `max_size` (through the
getter or through a raw copy) whose chain is non-empty, has no `maybe_add(adjustment)` at all and is not tag-only is
unrecognised -/
theorem unadjusted_not_accepted (t : Table) (s : Site) (hsrc : ∀ o f, s.source ≠ .fieldOf o f)
    (hno : firstAdd s.chain = none) (hp : sizeProps.contains s.prop = true) (htag : tagOnly s.chain = false)
    (hne : s.chain ≠ []) : ∃ why, classify t s = .unrecognised why := by
  have hbs : (s.prop == "box_sizing") = false := by
    simp only [sizeProps, List.contains_cons, List.contains_nil, Bool.or_false, Bool.or_eq_true, beq_iff_eq] at hp
    rcases hp with h | h | h <;> rw [h] <;> decide
  have hemp : s.chain.isEmpty = false := by
    cases hc : s.chain with
    | nil => exact absurd hc hne
    | cons _ _ => rfl
  unfold classify
  split
  · exact ⟨_, rfl⟩
  · rename_i o f hs
    exact absurd hs (hsrc o f)
  · split
    · exact ⟨_, rfl⟩
    · rw [hbs]
      simp only [Bool.false_eq_true, if_false, hp, Bool.true_or, if_true, hno, htag, hemp, Bool.false_and]
      exact ⟨_, rfl⟩

/-! ### 4. the three seeded shapes, on concrete sites (cut from the tables the extractor produces for those changes) -/

private def okBinding : AdjBinding :=
  { condSrc := .method 0 "box_sizing", condOp := "==", condRhs := "BoxSizing::ContentBox",
    thenSum := .sumAxes (.add (.resolved (.method 0 "padding") "resolve_or_zero" 0) (.resolved (.method 0 "border") "resolve_or_zero" 0)),
    els := "Size::ZERO", projs := [] }

/-- C12-3 (`flexbox.rs` container size): `.maybe_clamp(min_size, max_size).maybe_add(box_sizing_adjustment)` -/
def seededClampFirst : Site :=
  { file := "src/compute/flexbox.rs", fn := "compute_flexbox_layout", prop := "size", source := .method 0 "size",
    chain := [.call "maybe_resolve", .call "maybe_apply_aspect_ratio", .call "maybe_clamp", .addAdj []],
    ctx := .blockTail, adj := some okBinding }

/-- the same read in the unchanged order -/
def unchangedClampLast : Site :=
  { seededClampFirst with
    chain := [.call "maybe_resolve", .call "maybe_apply_aspect_ratio", .addAdj [], .call "maybe_clamp"] }

/-- C12-1 (`determine_used_cross_size`): `max_size().cross(dir).maybe_resolve(..).maybe_add(adjustment.main(dir))` -/
def seededWrongAxis : Site :=
  { file := "src/compute/flexbox.rs", fn := "determine_used_cross_size", prop := "max_size", source := .method 0 "max_size",
    chain := [.proj ⟨"cross", some 0⟩, .call "maybe_resolve", .addAdj [⟨"main", some 0⟩]],
    ctx := .letBind, adj := some okBinding }

/-- C12-2 (`GridItem::known_dimensions`): `self.max_size.maybe_resolve(..).maybe_apply_aspect_ratio(..)`, `maybe_add` dropped -/
def seededNoAdjustment : Site :=
  { file := "src/compute/grid/types/grid_item.rs", fn := "GridItem::known_dimensions", prop := "max_size",
    source := .copyField "GridItem" "max_size", chain := [.call "maybe_resolve", .call "maybe_apply_aspect_ratio"],
    ctx := .letBind, adj := none }

/-- the adjustment of ANOTHER node: the container's `box_sizing()` guarding the child's size -/
def otherNodesAdjustment : Site :=
  { file := "src/compute/block.rs", fn := "generate_item_list", prop := "size", source := .method 0 "size",
    chain := [.call "maybe_resolve", .call "maybe_apply_aspect_ratio", .addAdj []], ctx := .letBind,
    adj := some { okBinding with condSrc := .method 1 "box_sizing" } }

/-- clamped against adjusted bounds before the adjustment: unrecognised; the unchanged order is `adjusted` -/
example :
    classify table seededClampFirst
      = .unrecognised "the value is used (clamped, compared, combined) before the adjustment is added"
    ∧ classify table unchangedClampLast = .adjusted := by decide +kernel

/-- the adjustment of the other axis: unrecognised -/
example : classify table seededWrongAxis = .unrecognised "the adjustment is taken on another axis than the value" := by
  decide +kernel

/-- no adjustment at all: unrecognised -/
example : classify table seededNoAdjustment = .unrecognised "the value is used without the box-sizing adjustment" := by
  decide +kernel

example : classify table otherNodesAdjustment
    = .unrecognised "the adjustment is not `if <same node>.box_sizing() == ContentBox { its padding+border sums } else { ZERO }`" := by
  decide +kernel

/-- the hypotheses of `adjusted_sound` / `used_before_adjustment_not_adjusted` are met by sites of the current table:
the first is the root's `size` read; the second theorem applies to the C12-3 shape above with `n = "maybe_clamp"` -/
example : ∃ s ∈ Gen.Sites.all, classify table s = .adjusted ∧ s.fn = "compute_root_layout" ∧ s.prop = "size" := by
  decide +kernel

example : classify table seededClampFirst ≠ .adjusted :=
  used_before_adjustment_not_adjusted table _ [.call "maybe_resolve", .call "maybe_apply_aspect_ratio", .call "maybe_clamp"]
    [] [] "maybe_clamp" rfl (by intro st hst u; simp at hst; rcases hst with rfl | rfl | rfl <;> simp) (by decide) (by decide)

example : ∃ why, classify table seededNoAdjustment = .unrecognised why :=
  unadjusted_not_accepted table _ (by intro o f h; cases h) (by decide) (by decide) (by decide) (by decide)

/-- printed in the build log: one line per read that is not in order (nothing on the unchanged tree) -/
def reportLines : List String :=
  report table ++ ((Gen.Sites.all.filter (isStyleRead table)).filter (fun s => !isCovered s)).map
    fun s => s!"NOT COVERED {s.file} fn {s.fn} {s.prop}: no model site / theorem listed in C12Sites.covered"

#eval reportLines.forM IO.println

end C12Sites
