/-
  The named hypotheses of the evaluator-level theorems (C05, C01/C17, C16), discharged for the concrete flexbox algorithm
  `FlexModel.computeFlexboxLayout` (Model/Flex.lean = src/compute/flexbox.rs), and the theorems instantiated at
  `EvalConcrete.algs FlexModel.computeFlexboxLayout grid` (concrete leaf, block AND flexbox; grid stays a parameter).

  For every number type `α` (`[Num α] [FlexLine.NumX α]`).  Either the grid hypothesis stays as the only assumption
  (use `EvalBlock.…_algs` with `flex_PHZ`, `flex_HiddenBlind`, `flex_PLCovers`), or the tree contains no grid container
  with children outside `display:none` subtrees (`EvalFlex.NoGrid`), and then the theorems hold unconditionally
  (`…_block_flex_leaf_trees`).

  Helper lemmas: Lemmas/EvalFlex.lean (program shape, the measuring prefix, the index skeleton of the flex lines),
  Lemmas/EvalFlexLay.lean (the laying-out stages), Lemmas/EvalFlexHidden.lean (PHZ, AgreeH), Lemmas/EvalFlexFlags.lean
  (call counts, coverage flags), Lemmas/EvalFlexTrees.lean (`NoGrid`, `FanNoGrid`, stand-ins).
  (`AlgAbsBlind` — C06 — for flexbox is not in this file.)
-/
import TaffyVerif.Lemmas.EvalFlexTrees
import TaffyVerif.Props.EvalBlock

set_option linter.unusedSectionVars false

namespace EvalFlex
open Eval FlexModel Gen.Facts EvalBlock
variable {α : Type} [Num α] [FlexLine.NumX α] {C : Type}

/-! ## C05 — hidden children -/

/-- **flex_PHZ**: every layout `compute_flexbox_layout` assigns to a `display:none` child is all-zero
(`Layout::with_order(order)`): the final layout pass only addresses flex items (`generate_anonymous_flex_items` filters
`box_generation_mode != None`; every later stage keeps the items' child indices, `collect_flex_lines` loses none), the
absolute pass skips children with `box_generation_mode == None`, and the hidden-children loop writes
`Layout::with_order(order)`. -/
theorem flex_PHZ : AlgPHZ (flexAlg : ContainerAlg α) :=
  fun style cs inp => PHZ_computeFlexboxLayout style cs inp

/-- **flex_HiddenBlind**: `compute_flexbox_layout` reads nothing of a `display:none` child's style but `display`: for
child-style lists that agree except where both styles are `display:none` the two programs are EQUAL.  (The two later
style reads — `box_sizing`/`flex_basis` in `determine_flex_base_size`, `size`/`max_size`/… in
`determine_used_cross_size` — are by the items' child indices, which are never those of `display:none` children.) -/
theorem flex_HiddenBlind : AlgHiddenBlind (flexAlg : ContainerAlg α) :=
  fun style xs ys inp h => computeFlexboxLayout_agree style xs ys inp h

/-- `AlgsPHZ` / `HiddenBlind` for concrete leaf, block, flexbox: only the grid hypothesis remains -/
theorem algs_PHZ_flex (grid : ContainerAlg α) (hg : AlgPHZ grid) : C05.AlgsPHZ (EvalConcrete.algs flexAlg grid) :=
  algs_PHZ flexAlg grid flex_PHZ hg

theorem algs_HiddenBlind_flex (grid : ContainerAlg α) (hg : AlgHiddenBlind grid) :
    C05.HiddenBlind (EvalConcrete.algs flexAlg grid) :=
  algs_HiddenBlind flexAlg grid flex_HiddenBlind hg

/-! ### trees without grid containers: unconditional -/

/-- **eval_block_flex_leaf_trees**: on a `NoGrid` tree the evaluator does not depend on the grid parameter -/
theorem eval_block_flex_leaf_trees (ci : CacheImpl α C) (flex grid grid' : ContainerAlg α)
    (fuel : Nat) (t : STree α) (ns : NS α C) (inp : LayoutInput α) (h : NoGrid t) :
    evalNode ci (EvalConcrete.algs flex grid) fuel t ns inp = evalNode ci (EvalConcrete.algs flex grid') fuel t ns inp :=
  eval_agree ci _ _ _ fuel t ns inp (NoGrid_agree _ docSel_real flex grid grid' t h)

/-- **hidden_zero_block_flex_leaf_trees** (unconditional): on a tree of block containers, flexbox containers and leaves,
`compute_child_layout` (any cache, any input, any state) preserves "every `display:none` child of a visible node has an
all-zero layout and everything below a `display:none` node is all-zero" -/
theorem hidden_zero_block_flex_leaf_trees (ci : CacheImpl α C) (grid : ContainerAlg α)
    (fuel : Nat) (t : STree α) (ns : NS α C) (inp : LayoutInput α) (hb : NoGrid t) (hz : C05.HZ t ns) :
    C05.HZ t (evalNode ci (EvalConcrete.algs flexAlg grid) fuel t ns inp).2 := by
  rw [eval_block_flex_leaf_trees ci flexAlg grid EvalConcrete.idle fuel t ns inp hb]
  exact hidden_zero_algs ci _ _ flex_PHZ idle_PHZ fuel t ns inp hz

/-- **hidden_zero_pass_block_flex_leaf_trees** (unconditional): after a pass over a freshly built tree of block
containers, flexbox containers and leaves every node at or below a `display:none` node has an all-zero layout -/
theorem hidden_zero_pass_block_flex_leaf_trees (ci : CacheImpl α C) (grid : ContainerAlg α)
    (fuel : Nat) (t : STree α) (inp : LayoutInput α) (hb : NoGrid t) (p : List Nat) (k : NS α C) (hne : p ≠ [])
    (hh : C05.HiddenOnPath t p)
    (hk : C05.nsAt (evalNode ci (EvalConcrete.algs flexAlg grid) fuel t (NS.init ci t) inp).2 p = some k) :
    C05.zeroFields k.layout :=
  C05.HZ_at p t _ k (hidden_zero_block_flex_leaf_trees ci grid fuel t _ inp hb (C05.HZ_init ci t)) hne hh hk

/-- **hidden_invisible_block_flex_leaf_trees** (unconditional): two trees of block containers, flexbox containers and
leaves that differ only inside `display:none` subtrees, states agreeing outside the hidden subtrees: same output, states
again agreeing -/
theorem hidden_invisible_block_flex_leaf_trees (ci : CacheImpl α C) (grid : ContainerAlg α)
    (fuel : Nat) (tA tB : STree α) (nsA nsB : NS α C) (inp : LayoutInput α)
    (hA : NoGrid tA) (hB : NoGrid tB) (hr : C05.HidRel tA tB) (hs : C05.SimNS tA nsA nsB) :
    (evalNode ci (EvalConcrete.algs flexAlg grid) fuel tA nsA inp).1 =
      (evalNode ci (EvalConcrete.algs flexAlg grid) fuel tB nsB inp).1 ∧
    C05.SimNS tA (evalNode ci (EvalConcrete.algs flexAlg grid) fuel tA nsA inp).2
      (evalNode ci (EvalConcrete.algs flexAlg grid) fuel tB nsB inp).2 := by
  rw [eval_block_flex_leaf_trees ci flexAlg grid EvalConcrete.idle fuel tA nsA inp hA,
    eval_block_flex_leaf_trees ci flexAlg grid EvalConcrete.idle fuel tB nsB inp hB]
  exact hidden_invisible_algs ci _ _ flex_HiddenBlind idle_HiddenBlind fuel tA tB nsA nsB inp hr hs

/-- **hidden_invisible_pass_block_flex_leaf_trees** (unconditional): whole passes from freshly built trees: same output
and the same layout at every node that is not strictly inside a hidden subtree -/
theorem hidden_invisible_pass_block_flex_leaf_trees (ci : CacheImpl α C) (grid : ContainerAlg α)
    (fuel : Nat) (tA tB : STree α) (inp : LayoutInput α) (hA : NoGrid tA) (hB : NoGrid tB)
    (hr : C05.HidRel tA tB) :
    (evalNode ci (EvalConcrete.algs flexAlg grid) fuel tA (NS.init ci tA) inp).1 =
      (evalNode ci (EvalConcrete.algs flexAlg grid) fuel tB (NS.init ci tB) inp).1 ∧
    ∀ p, C05.VisibleTo tA p →
      (C05.nsAt (evalNode ci (EvalConcrete.algs flexAlg grid) fuel tA (NS.init ci tA) inp).2 p).map NS.layout =
      (C05.nsAt (evalNode ci (EvalConcrete.algs flexAlg grid) fuel tB (NS.init ci tB) inp).2 p).map NS.layout := by
  obtain ⟨h1, h2⟩ := hidden_invisible_block_flex_leaf_trees ci grid fuel tA tB _ _ inp hA hB hr
    (C05.SimNS_init ci tA tB hr)
  exact ⟨h1, fun p hv => (C05.SimNS_at p tA _ _ h2 hv).1⟩

/-- **hidden_invisible_replace_block_flex_leaf_trees** (C05 as worded, unconditional): in a tree of block containers,
flexbox containers and leaves take any `display:none` node (at path `q`) and replace it with its whole subtree by a bare
`display:none` leaf: a pass over the original and a pass over the modified tree (fresh states) return the same output
and give the same layout to every node that is not strictly inside a hidden subtree -/
theorem hidden_invisible_replace_block_flex_leaf_trees (ci : CacheImpl α C) (grid : ContainerAlg α)
    (fuel : Nat) (t h : STree α) (q : List Nat) (inp : LayoutInput α) (hb : NoGrid t)
    (ht : treeAt t q = some h) (hd : h.style.display = .none) :
    (evalNode ci (EvalConcrete.algs flexAlg grid) fuel t (NS.init ci t) inp).1 =
      (evalNode ci (EvalConcrete.algs flexAlg grid) fuel (replaceAt t q C05.bareHidden)
        (NS.init ci (replaceAt t q C05.bareHidden)) inp).1 ∧
    ∀ p, C05.VisibleTo t p →
      (C05.nsAt (evalNode ci (EvalConcrete.algs flexAlg grid) fuel t (NS.init ci t) inp).2 p).map NS.layout =
      (C05.nsAt (evalNode ci (EvalConcrete.algs flexAlg grid) fuel (replaceAt t q C05.bareHidden)
        (NS.init ci (replaceAt t q C05.bareHidden)) inp).2 p).map NS.layout :=
  hidden_invisible_pass_block_flex_leaf_trees ci grid fuel t _ inp hb
    (NoGrid_replaceAt q t _ hb (by simp [C05.bareHidden, NoGrid, NoGridList]))
    (C05.HidRel_replaceAt q t h C05.bareHidden ht hd rfl)

/-! ### example trees -/

def flexStyle : Style α := { (Style.default : Style α) with display := .flex }
def wrapStyle : Style α :=
  { (Style.default : Style α) with display := .flex, flexWrap := .wrapReverse, flexDirection := .rowReverse }
def baseStyle : Style α := { (Style.default : Style α) with display := .block, alignSelf := some .baseline }
def absStyle : Style α := { (Style.default : Style α) with display := .block, position := .absolute }

/-- a wrap-reverse/row-reverse flexbox root with: a leaf, a `display:none` child with a subtree of its own (a flexbox
container with two leaves), an absolutely positioned leaf, and a nested flexbox container holding two baseline-aligned
leaves and a block container -/
def exA : STree α :=
  .node wrapStyle none
    [.node C05.blockStyle (some (.fixed (Num.ofNat 10) (Num.ofNat 10))) [],
     .node C05.hiddenStyle none [.node flexStyle none [.node C05.blockStyle none [], .node C05.blockStyle none []]],
     .node absStyle (some (.fixed (Num.ofNat 5) (Num.ofNat 5))) [],
     .node flexStyle none
       [.node baseStyle (some (.wrap (Num.ofNat 40) (Num.ofNat 10))) [], .node baseStyle (some (.fixed (Num.ofNat 8) (Num.ofNat 12))) [],
        .node C05.blockStyle none [.node C05.blockStyle (some (.fixed (Num.ofNat 3) (Num.ofNat 4))) []]]]

/-- the children whose layout is assigned, in order, along the run in which every child answers `o` -/
def setsOn {β : Type} (o : LayoutOutput α) : ProgM α β → List Nat
  | .pure _ => []
  | .call _ _ k => setsOn o (k o)
  | .setLayout i _ k => i :: setsOn o (k ())

/-- non-vacuity of `flex_PHZ` / `flex_PLCovers` (at `Rat`): on the child list [flex item, `display:none`, absolutely
positioned, flex item] of a row-reverse wrap-reverse container the PerformLayout program assigns a layout to every child,
the hidden one (index 1) included and last: final pass (reversed: 3, 0), absolute pass (2), hidden loop (1) -/
example : setsOn LayoutOutput.hidden (computeFlexboxLayout (wrapStyle : Style Rat)
    [C05.blockStyle, C05.hiddenStyle, absStyle, baseStyle] plIn) = [3, 0, 2, 1] := by
  decide +kernel

/-- non-vacuity of `flex_HiddenBlind`: two child lists that differ in the `display:none` child's style (a bare hidden
leaf style vs. a hidden style with size, margin and `position: absolute`) give the same program -/
example (style : Style α) (inp : LayoutInput α) :
    computeFlexboxLayout style [C05.blockStyle, C05.hiddenStyle, absStyle] inp =
      computeFlexboxLayout style [C05.blockStyle,
        { (C05.hiddenStyle : Style α) with position := .absolute, flexGrow := 1, alignSelf := some .baseline }, absStyle] inp :=
  flex_HiddenBlind style _ _ inp (by simp [C05.AgreeH, C05.hiddenStyle])

/-- the same with the hidden subtree replaced by a bare `display:none` leaf -/
def exB : STree α := replaceAt exA [1] C05.bareHidden

theorem exA_NoGrid : NoGrid (exA : STree α) := by
  simp [exA, NoGrid, NoGridList, wrapStyle, flexStyle, baseStyle, absStyle, C05.blockStyle, C05.hiddenStyle]

/-- non-vacuity: the example tree is `NoGrid` (and not `BlockOnly`), the hidden node sits at path `[1]` -/
example : NoGrid (exA : STree α) ∧ ¬ BlockOnly (exA : STree α) ∧
    (treeAt (exA : STree α) [1]).map (·.style.display) = some .none := by
  refine ⟨exA_NoGrid, ?_, rfl⟩
  simp [exA, BlockOnly, BlockOnlyList, wrapStyle]

example (ci : CacheImpl α C) (grid : ContainerAlg α) (fuel : Nat) (inp : LayoutInput α) :
    (evalNode ci (EvalConcrete.algs flexAlg grid) fuel exA (NS.init ci exA) inp).1 =
      (evalNode ci (EvalConcrete.algs flexAlg grid) fuel exB (NS.init ci exB) inp).1 :=
  (hidden_invisible_replace_block_flex_leaf_trees ci grid fuel exA _ [1] inp exA_NoGrid rfl rfl).1

example (ci : CacheImpl α C) (grid : ContainerAlg α) (fuel : Nat) (inp : LayoutInput α) (k : NS α C)
    (hk : C05.nsAt (evalNode ci (EvalConcrete.algs flexAlg grid) fuel exA (NS.init ci exA) inp).2 [1, 0, 1] = some k) :
    C05.zeroFields k.layout :=
  hidden_zero_pass_block_flex_leaf_trees ci grid fuel exA inp exA_NoGrid [1, 0, 1] k (by simp)
    (by simp [exA, C05.HiddenOnPath, C05.hiddenStyle, C05.blockStyle, wrapStyle]) hk

/-! ## C01 / C17 — `PLCovers`

In PerformLayout mode `compute_flexbox_layout` ends with the final layout pass (every flex item: `perform_child_layout`
then `set_unrounded_layout`), `perform_absolute_layout_on_absolute_children` (the same pair for every absolutely
positioned box) and the hidden-children loop (the same pair for every `display:none` child, in this order since the
repair 452a387).  All earlier child queries (ComputeSize measurements, and the PerformLayout baseline queries of
`calculate_children_base_lines`) are addressed to flex items, each of which is visited again by the final pass. -/

/-- **flex_PLCovers**: in PerformLayout mode the flexbox program `Covers` all its children, for every child-style list
(absolutely positioned and hidden children included) -/
theorem flex_PLCovers : AlgPLCovers (flexAlg : ContainerAlg α) :=
  fun style cs inp hm => flex_covers style cs inp hm

/-- `PLCovers` for concrete leaf, block, flexbox: only the grid hypothesis remains -/
theorem algs_PLCovers_flex (grid : ContainerAlg α) (hg : AlgPLCovers grid) :
    EvalMemo.PLCovers (EvalConcrete.algs flexAlg grid) :=
  algs_PLCovers flexAlg grid flex_PLCovers hg

/-- **single_pass_layouts_quiet_block_flex_leaf_trees** (C01 §4 for trees of block containers, flexbox containers and
leaves, `display:none` subtrees allowed and arbitrary; only the trace condition `QuietRun` remains): one PerformLayout pass
over a freshly built tree — the exact-memo evaluator and the cache-free evaluator store the same layouts at every node -/
theorem single_pass_layouts_quiet_block_flex_leaf_trees [DecidableEq α] (grid : ContainerAlg α)
    (fuel : Nat) (t : STree α) (inp : LayoutInput α) (hb : NoGrid t) (hd : STree.depth t ≤ fuel)
    (hmode : inp.runMode ≠ .computeSize)
    (hq : EvalMemo.QuietRun (Dispatch.select dispatchArms) (EvalConcrete.algs flexAlg grid) fuel t
      (NS.init exactMemo t) inp) :
    EvalMemo.erase (evalNode exactMemo (EvalConcrete.algs flexAlg grid) fuel t (NS.init exactMemo t) inp).2
      = (evalNode noCache (EvalConcrete.algs flexAlg grid) fuel t (NS.init noCache t) inp).2 := by
  have ha := NoGrid_agree _ docSel_real flexAlg grid coverAlg t hb
  unfold evalNode
  rw [eval_agree exactMemo _ _ _ fuel t _ inp ha, eval_agree noCache _ _ _ fuel t _ inp ha]
  exact C01.single_pass_layouts_quiet _ algsCovF C01.selOK_real algsCovF_PLCovers fuel t inp hd hmode
    ((QuietRun_agree _ _ _ fuel t _ inp ha).1 hq)

/-- **history_layouts_quiet_block_flex_leaf_trees** (C01 for stored layouts, exact-memo mode, trees of block containers,
flexbox containers and leaves; only the trace conditions remain): after any history of (edit, pass) steps from a freshly
built tree in which every tree is `NoGrid` and every pass was quiet, a further quiet PerformLayout pass stores, below the
root, exactly the layouts a cache-free pass over a freshly built copy of the final tree stores. -/
theorem history_layouts_quiet_block_flex_leaf_trees [DecidableEq α] (grid : ContainerAlg α)
    (t0 : STree α) (h : List (EvalMemo.Step α)) (hb : NoGridHist t0 h)
    (hqh : EvalMemo.QuietHistory (Dispatch.select dispatchArms) (EvalConcrete.algs flexAlg grid)
      (t0, NS.init exactMemo t0) h)
    (inp : LayoutInput α) (fuel : Nat)
    (hd : STree.depth (EvalMemo.runHistory exactMemo (Dispatch.select dispatchArms) (EvalConcrete.algs flexAlg grid)
      (t0, NS.init exactMemo t0) h).1 ≤ fuel)
    (hmode : inp.runMode ≠ .computeSize)
    (hq : EvalMemo.QuietRun (Dispatch.select dispatchArms) (EvalConcrete.algs flexAlg grid) fuel
      (EvalMemo.runHistory exactMemo (Dispatch.select dispatchArms) (EvalConcrete.algs flexAlg grid)
        (t0, NS.init exactMemo t0) h).1
      (EvalMemo.runHistory exactMemo (Dispatch.select dispatchArms) (EvalConcrete.algs flexAlg grid)
        (t0, NS.init exactMemo t0) h).2 inp) :
    let s := EvalMemo.runHistory exactMemo (Dispatch.select dispatchArms) (EvalConcrete.algs flexAlg grid)
      (t0, NS.init exactMemo t0) h
    EvalMemo.eraseList (evalNode exactMemo (EvalConcrete.algs flexAlg grid) fuel s.1 s.2 inp).2.kids
      = (evalNode noCache (EvalConcrete.algs flexAlg grid) fuel s.1 (NS.init noCache s.1) inp).2.kids := by
  have hA := NoGridHist_agree _ docSel_real flexAlg grid coverAlg h t0 hb
  have hr := runHistory_agree exactMemo _ _ _ h (t0, NS.init exactMemo t0) hA
  have hfin := AgreeHist_final exactMemo _ _ _ algsCovF h (t0, NS.init exactMemo t0) hA
  rw [hr] at hd hq ⊢
  have hqh' := (QuietHistory_agree _ _ _ h (t0, NS.init exactMemo t0) hA).1 hqh
  intro s
  unfold evalNode
  rw [eval_agree exactMemo _ _ _ fuel s.1 _ inp hfin, eval_agree noCache _ _ _ fuel s.1 _ inp hfin]
  exact C01.history_layouts_quiet _ algsCovF C01.selOK_real algsCovF_PLCovers t0 h hqh' inp fuel hd hmode
    ((QuietRun_agree _ _ _ fuel _ _ inp hfin).1 hq)

/-- non-vacuity: a one-step history on the example tree: replace the hidden subtree by a flexbox container, lay out -/
example : NoGridHist (exA : STree α) [⟨.replace [1] (.node flexStyle none [.node C05.blockStyle none []]), plIn, 0⟩] := by
  refine ⟨exA_NoGrid, ?_⟩
  simp [NoGridHist, EvalMemo.Edit.applyTree, EvalMemo.Edit.path, EvalMemo.Edit.onTree, EvalMemo.treeModifyAt,
    exA, NoGrid, NoGridList, wrapStyle, flexStyle, baseStyle, absStyle, C05.blockStyle, C05.hiddenStyle]

/-! ### a concrete quiet run (at `Rat`) -/
section quietExample

/-- like `exA`, with flexbox containers and leaves only and no baseline alignment -/
def exQ : STree Rat :=
  .node wrapStyle none
    [.node C05.blockStyle (some (.fixed 10 10)) [],
     .node C05.hiddenStyle none [.node flexStyle none [.node C05.blockStyle none [], .node C05.blockStyle none []]],
     .node absStyle (some (.fixed 5 5)) [],
     .node flexStyle none
       [.node C05.blockStyle (some (.wrap 40 10)) [], .node C05.blockStyle (some (.fixed 8 12)) [],
        .node flexStyle none [.node C05.blockStyle (some (.fixed 3 4)) []]]]

theorem exQ_NoGrid : NoGrid exQ := by
  simp [exQ, NoGrid, NoGridList, wrapStyle, flexStyle, absStyle, C05.blockStyle, C05.hiddenStyle]

/-- the PerformLayout pass over the fresh tree `exQ` with the concrete algorithms is quiet (executable monitor) -/
theorem exQ_quiet (grid : ContainerAlg Rat) :
    EvalMemo.QuietRun (Dispatch.select dispatchArms) (EvalConcrete.algs flexAlg grid) 5 exQ (NS.init exactMemo exQ) plIn := by
  have ha := NoGrid_agree (Dispatch.select dispatchArms) docSel_real flexAlg grid EvalConcrete.idle exQ exQ_NoGrid
  rw [QuietRun_agree _ _ _ 5 exQ _ plIn ha]
  exact EvalMemo.quietRunB_sound _ _ _ _ _ _ (by decide +kernel)

/-- hence (C01 §4 on a concrete flexbox tree, any grid algorithm): the exact-memo pass and the cache-free pass store the
same layouts at every node of `exQ` -/
example (grid : ContainerAlg Rat) :
    EvalMemo.erase (evalNode exactMemo (EvalConcrete.algs flexAlg grid) 5 exQ (NS.init exactMemo exQ) plIn).2
      = (evalNode noCache (EvalConcrete.algs flexAlg grid) 5 exQ (NS.init noCache exQ) plIn).2 :=
  single_pass_layouts_quiet_block_flex_leaf_trees grid 5 exQ plIn exQ_NoGrid (by decide) (by decide) (exQ_quiet grid)

/-- the layouts of that pass: the wrap-reverse/row-reverse root puts the 10×10 leaf right of the nested container; the
`display:none` child (index 1) is all-zero with `order = 1`; the absolutely positioned 5×5 leaf is laid out -/
example : ((C05.nsAt (evalNode noCache (EvalConcrete.algs flexAlg EvalConcrete.idle) 5 exQ (NS.init noCache exQ) plIn).2
      [1]).map (·.layout) = some (Layout.withOrder 1)) ∧
    ((C05.nsAt (evalNode noCache (EvalConcrete.algs flexAlg EvalConcrete.idle) 5 exQ (NS.init noCache exQ) plIn).2
      [2]).map (fun k => (k.layout.order, k.layout.size)) = some (2, ⟨5, 5⟩)) ∧
    ((C05.nsAt (evalNode noCache (EvalConcrete.algs flexAlg EvalConcrete.idle) 5 exQ (NS.init noCache exQ) plIn).2
      [0]).map (fun k => (k.layout.size, k.layout.location)) = some (⟨10, 12⟩, ⟨51, 0⟩)) := by
  decide +kernel

/-- REMARK (`QuietRun` is restrictive): the simplest block-in-flexbox tree — flexbox ▸ block ▸ leaf — is NOT quiet:
`compute_block_layout` issues PerformLayout calls to its children in every run, ComputeSize runs included, and a flexbox
parent measures its block child several times before laying it out. -/
theorem block_in_flex_not_quiet :
    ¬ EvalMemo.QuietRun (Dispatch.select dispatchArms) (EvalConcrete.algs flexAlg EvalConcrete.idle) 4
      (.node flexStyle none [.node C05.blockStyle none [.node C05.blockStyle (some (.fixed 8 12)) []]] : STree Rat)
      (NS.init exactMemo (.node flexStyle none [.node C05.blockStyle none [.node C05.blockStyle (some (.fixed 8 12)) []]]))
      plIn := by
  intro h
  have := EvalMemo.quietRunB_complete _ _ _ _ _ _ h
  revert this
  decide +kernel

end quietExample

/-! ## C16 — call counts -/

/-- **flex_CallsAtMost**: every run of `compute_flexbox_layout` on `n` children makes at most `6·n` child calls in total -/
theorem flex_CallsAtMost (style : Style α) (cs : List (Style α)) (inp : LayoutInput α) :
    C16.CallsAtMost (6 * cs.length) (computeFlexboxLayout style cs inp) :=
  callsLe_computeFlexboxLayout style cs inp

/-- **flex_CallsAtMost_fine**: at most 6 calls per flex item (flex basis, min-content contribution, intrinsic main size
contribution, hypothetical cross size, baseline, final layout), 1 per absolutely positioned box, 1 per `display:none`
child -/
theorem flex_CallsAtMost_fine (style : Style α) (cs : List (Style α)) (inp : LayoutInput α) :
    C16.CallsAtMost (6 * nFlow cs + nAbsV cs + nHid cs) (computeFlexboxLayout style cs inp) :=
  callsLe_computeFlexboxLayout_fine style cs inp

/-- **flex_calls_tight** (at `Rat`): the constant 6 cannot be lowered.  A row flexbox container of unknown size with two
baseline-aligned, growing children of automatic size queries each child 6 times (when every child answers zero): no bound
below `12 = 6·2` holds for this run. -/
theorem flex_calls_tight :
    ∀ q, C16.CallsAtMost q (computeFlexboxLayout (flexStyle : Style Rat)
      [{ (baseStyle : Style Rat) with flexGrow := 1 }, { (baseStyle : Style Rat) with flexGrow := 1 }] plIn) → 12 ≤ q := by
  intro q h
  have := callsOn_le LayoutOutput.hidden _ q h
  have e : callsOn LayoutOutput.hidden (computeFlexboxLayout (flexStyle : Style Rat)
      [{ (baseStyle : Style Rat) with flexGrow := 1 }, { (baseStyle : Style Rat) with flexGrow := 1 }] plIn) = 12 := by
    decide +kernel
  omega

/-- the fine bound is attained on a mixed child list: three such flex items, a `display:none` child, an absolutely
positioned child: `6·3 + 1 + 1 = 20` calls -/
example : callsOn LayoutOutput.hidden (computeFlexboxLayout (flexStyle : Style Rat)
    [{ (baseStyle : Style Rat) with flexGrow := 1 }, { (baseStyle : Style Rat) with flexGrow := 1 },
     { (baseStyle : Style Rat) with flexGrow := 1 }, C05.hiddenStyle, absStyle] plIn) = 20 ∧
    6 * nFlow ([{ (baseStyle : Style Rat) with flexGrow := 1 }, { (baseStyle : Style Rat) with flexGrow := 1 },
     { (baseStyle : Style Rat) with flexGrow := 1 }, C05.hiddenStyle, absStyle] : List (Style Rat)) +
      nAbsV ([{ (baseStyle : Style Rat) with flexGrow := 1 }, { (baseStyle : Style Rat) with flexGrow := 1 },
     { (baseStyle : Style Rat) with flexGrow := 1 }, C05.hiddenStyle, absStyle] : List (Style Rat)) +
      nHid ([{ (baseStyle : Style Rat) with flexGrow := 1 }, { (baseStyle : Style Rat) with flexGrow := 1 },
     { (baseStyle : Style Rat) with flexGrow := 1 }, C05.hiddenStyle, absStyle] : List (Style Rat)) = 20 := by
  decide +kernel

/-- **leaf_calls_le_pow_block_flex_leaf_trees** (C16 §3 for trees of leaves and block/flexbox containers with at most `b`
children, hidden subtrees arbitrary; unconditional): in one pass over a freshly built tree, with any cache (in particular
none), the body of the node at `path` — for a leaf: the measure function — is evaluated at most `(6·b)^|path|` times -/
theorem leaf_calls_le_pow_block_flex_leaf_trees (ci : CacheImpl α C) (grid : ContainerAlg α) (b : Nat)
    (fuel : Nat) (t : STree α) (inp : LayoutInput α) (hb : FanNoGrid b t) (path : List Nat)
    (r : STree α × NS α (C × List (Option (LayoutInput α))))
    (h : C16.nodeAt path t (evalNode (C16.logged ci) (EvalConcrete.algs flexAlg grid) fuel t
      (NS.init (C16.logged ci) t) inp).2 = some r) :
    C16.evals r.2.cache.2 ≤ (6 * b) ^ path.length := by
  have ha := FanNoGrid_agree b _ docSel_real grid t hb
  unfold evalNode at h
  rw [eval_agree (C16.logged ci) _ _ _ fuel t _ inp ha] at h
  exact C16.leaf_calls_le_pow ci _ (algsFanF b) (6 * b) (algsFanF_callsAtMost b) fuel t inp path r h

/-- non-vacuity: the example tree is `FanNoGrid 4` -/
example : FanNoGrid 4 (exA : STree α) := by
  simp [exA, FanNoGrid, FanNoGridList, wrapStyle, flexStyle, baseStyle, absStyle, C05.blockStyle, C05.hiddenStyle]

end EvalFlex

/-
  Obligations to audit (`#print axioms`; all depend on [propext, Classical.choice, Quot.sound] at most):
  EVALFLEX_THEOREMS = [
    -- C05
    "EvalFlex.flex_PHZ", "EvalFlex.flex_HiddenBlind", "EvalFlex.algs_PHZ_flex", "EvalFlex.algs_HiddenBlind_flex",
    "EvalFlex.eval_block_flex_leaf_trees",
    "EvalFlex.hidden_zero_block_flex_leaf_trees", "EvalFlex.hidden_zero_pass_block_flex_leaf_trees",
    "EvalFlex.hidden_invisible_block_flex_leaf_trees", "EvalFlex.hidden_invisible_pass_block_flex_leaf_trees",
    "EvalFlex.hidden_invisible_replace_block_flex_leaf_trees",
    -- C01 / C17
    "EvalFlex.flex_PLCovers", "EvalFlex.algs_PLCovers_flex", "EvalFlex.single_pass_layouts_quiet_block_flex_leaf_trees",
    "EvalFlex.history_layouts_quiet_block_flex_leaf_trees", "EvalFlex.exQ_quiet", "EvalFlex.block_in_flex_not_quiet",
    -- C16
    "EvalFlex.flex_CallsAtMost", "EvalFlex.flex_CallsAtMost_fine", "EvalFlex.flex_calls_tight",
    "EvalFlex.leaf_calls_le_pow_block_flex_leaf_trees",
    -- supporting lemmas worth auditing by name
    "EvalFlex.computePreliminary_eq", "EvalFlex.Meas_flexPrefix", "EvalFlex.idxs_collectFlexLines",
    "EvalFlex.Lays_finalLayoutPass", "EvalFlex.Track_computeFlexboxLayout", "EvalFlex.NoGrid_agree",
    "EvalFlex.NoGridHist_agree", "EvalFlex.algsCovF_PLCovers", "EvalFlex.algsFanF_callsAtMost", "EvalFlex.FanNoGrid_agree",
  ]
-/
