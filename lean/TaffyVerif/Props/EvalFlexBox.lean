/-
  C12 for the flexbox algorithm: `BoxSizingModel.ContainerBlind` — the named hypothesis of `C12.tree_equiv` — discharged
  for the whole of src/compute/flexbox.rs (`FlexModel.computeFlexboxLayout`, Model/Flex.lean), at `Rat`.

  A flex container or flex item with `box-sizing: content-box`, lengths (or `auto`) for size / min-size / max-size /
  flex-basis, length-valued padding and border and no aspect ratio (`Eligible`) gives the SAME interaction program —
  same child queries in the same order, same layouts set, same output for all child answers — as the node with
  `box-sizing: border-box` and each of those lengths increased by the node's padding+border on that axis (`toBorderBox`;
  the flex-basis along the container's main axis).  The conversion sites of flexbox.rs, all inside the whole program:
      own style    compute_flexbox_layout (styled known dimensions: size/min/max)   compute_constants (min/max)
      child style  generate_anonymous_flex_items (size/min/max)    determine_flex_base_size (flex-basis, main axis)
                   determine_used_cross_size (max-size, aspect ratio ignored; `size.cross.is_auto()`)
                   perform_absolute_layout_on_absolute_children (size/min/max)
  No flexbox site is non-equivalent.  Grid remains a hypothesis (and is false of the real grid for compressible replaced
  items, `C12.grid_compressible_cap_site_not_equiv`); on trees without grid containers the tree theorem is unconditional.

  Helper lemmas: Lemmas/FlexBoxSizing.lean (sites), Lemmas/FlexStages.lean, FlexItemStages.lean (program cut into named
  pieces, `rfl`), Lemmas/FlexNoGrid.lean (`NoGrid`, `eval_algs_congr_grid`).
-/
import TaffyVerif.Lemmas.FlexBoxSizing
import TaffyVerif.Lemmas.FlexNoGrid
import TaffyVerif.Props.C12
import TaffyVerif.Props.C17
import TaffyVerif.Model.EvalConcrete

set_option linter.unusedSectionVars false

namespace C12Flex
open BoxSizingModel Eval C12L FlexModel FlexStages FlexTrees Gen.Facts

abbrev ContainerAlg := Style Rat → List (Style Rat) → LayoutInput Rat → ProgM Rat (LayoutOutput Rat)

/-! ### sites inside the whole program -/

/-- **flex_container_site_equiv** (`compute_flexbox_layout` + `compute_constants`): the container's own style switched
gives the same interaction program -/
theorem flex_container_site_equiv (s : Style Rat) (h : Eligible s) (m : Bool) (cs : List (Style Rat))
    (inp : LayoutInput Rat) : computeFlexboxLayout s cs inp = computeFlexboxLayout (toBorderBox m s) cs inp :=
  flexContainer_site h m cs inp

/-- **flex_item_site_equiv** (`generate_anonymous_flex_items`, `determine_flex_base_size`, `determine_used_cross_size`,
the absolute pass, the hidden loop): any subset of eligible child styles switched — the flex-basis rewritten along the
container's main axis — gives the same interaction program -/
theorem flex_item_site_equiv (s : Style Rat) (cs cs' : List (Style Rat))
    (hr : StylesRel s.flexDirection.isRow cs cs') (inp : LayoutInput Rat) :
    computeFlexboxLayout s cs inp = computeFlexboxLayout s cs' inp :=
  flexItems_site s cs cs' hr inp

/-- the per-site facts, each for an arbitrary state of the algorithm -/
theorem flex_sites (c : Style Rat) (h : Eligible c) (m : Bool) (k : AlgoConstants Rat) :
    (∀ idx, FlexModel.generateItem k idx (toBorderBox m c) = FlexModel.generateItem k idx c) ∧
    (∀ av child, flexBaseSizeItem k av (toBorderBox k.dir.isRow c) child = flexBaseSizeItem k av c child) ∧
    (∀ lcs child, usedCrossItem k lcs (toBorderBox m c) child = usedCrossItem k lcs c child) ∧
    (∀ order acc, FlexModel.absItem k order (toBorderBox m c) acc = FlexModel.absItem k order c acc) ∧
    (∀ kd ps, computeConstants (toBorderBox m c) kd ps = computeConstants c kd ps) ∧
    (∀ inp, FlexModel.styledBasedKnownDimensions (toBorderBox m c) inp = FlexModel.styledBasedKnownDimensions c inp) :=
  ⟨flexGenerateItem_tbb h k, fun av child => flexBaseSizeItem_tbb h k av child,
   fun lcs child => usedCrossItem_tbb h k lcs child, fun order acc => flexAbsItem_tbb h k order acc,
   fun kd ps => computeConstants_tbb h kd ps, fun inp => flexStyledKnown_tbb h inp⟩

/-- **flex_ContainerBlind**: `compute_flexbox_layout` is blind to the rewriting of its own style and of any subset of
child styles -/
theorem flex_ContainerBlind : ContainerBlind (computeFlexboxLayout (α := Rat)) := flex_containerBlind

/-! ### the tree -/

/-- **boxBlind_flex**: with the modelled leaf, block and flexbox algorithms `BoxBlind` reduces to the hypothesis about
grid -/
theorem boxBlind_flex (grid : ContainerAlg) (hg : ContainerBlind grid) :
    BoxBlind (algsWith computeFlexboxLayout grid) :=
  C12.boxBlind_modelled _ grid flex_containerBlind hg

/-- **tree_equiv_flex**: `C12.tree_equiv` with the modelled leaf, block and flexbox; only grid is assumed -/
theorem tree_equiv_flex {C : Type} (ci : CacheImpl Rat C) (sel : Display → Bool → Option Gen.Facts.Callee)
    (grid : ContainerAlg) (hg : ContainerBlind grid) (fuel : Nat) (m : Bool) (tA tB : STree Rat)
    (hr : BoxRel m tA tB) (ns : NS Rat C) (inp : LayoutInput Rat) :
    evalNodeWith ci sel (algsWith computeFlexboxLayout grid) fuel tA ns inp =
      evalNodeWith ci sel (algsWith computeFlexboxLayout grid) fuel tB ns inp :=
  C12.tree_equiv ci sel _ (boxBlind_flex grid hg) fuel m tA tB hr ns inp

/-- **tree_equiv_block_flex_leaf_trees** (unconditional): two `BoxRel`-related trees of block containers, flexbox
containers and leaves are evaluated identically (same output, same node states: caches and unrounded layouts of every
node) with `TaffyTree`'s own dispatch, for every cache implementation, fuel, state and input, WHATEVER the grid algorithm -/
theorem tree_equiv_block_flex_leaf_trees {C : Type} (ci : CacheImpl Rat C) (grid : ContainerAlg) (fuel : Nat) (m : Bool)
    (tA tB : STree Rat) (hA : NoGrid tA) (hB : NoGrid tB) (hr : BoxRel m tA tB) (ns : NS Rat C)
    (inp : LayoutInput Rat) :
    evalNode ci (algsWith computeFlexboxLayout grid) fuel tA ns inp =
      evalNode ci (algsWith computeFlexboxLayout grid) fuel tB ns inp := by
  have hsel : ∀ d b, Dispatch.select dispatchArms d b = some (match d with
      | .none => Gen.Facts.Callee.hidden
      | .block => if b then Gen.Facts.Callee.block else Gen.Facts.Callee.leaf
      | .flex => if b then Gen.Facts.Callee.flex else Gen.Facts.Callee.leaf
      | .grid => if b then Gen.Facts.Callee.grid else Gen.Facts.Callee.leaf) :=
    fun d b => by rw [C17.dispatch_eq]; cases d <;> rfl
  unfold evalNode
  rw [eval_algs_congr_grid ci _ (algsWith computeFlexboxLayout grid)
      (algsWith computeFlexboxLayout BlockModel.computeBlockLayout) rfl rfl rfl fuel tA ns inp (NoGrid_NoG _ hsel tA hA),
    eval_algs_congr_grid ci _ (algsWith computeFlexboxLayout grid)
      (algsWith computeFlexboxLayout BlockModel.computeBlockLayout) rfl rfl rfl fuel tB ns inp (NoGrid_NoG _ hsel tB hB)]
  exact tree_equiv_flex ci _ _ block_containerBlind fuel m tA tB hr ns inp

/-- from the root: `compute_root_layout` on freshly built related trees without grid containers -/
theorem tree_equiv_root_block_flex_leaf_trees {C : Type} (ci : CacheImpl Rat C) (grid : ContainerAlg) (fuel : Nat)
    (m : Bool) (tA tB : STree Rat) (hA : NoGrid tA) (hB : NoGrid tB) (hr : BoxRel m tA tB)
    (av : Size (AvailableSpace Rat)) :
    evalNode ci (algsWith computeFlexboxLayout grid) fuel tA (NS.init ci tA) (RootModel.rootInput tA.style av) =
      evalNode ci (algsWith computeFlexboxLayout grid) fuel tB (NS.init ci tB) (RootModel.rootInput tB.style av) := by
  have h1 := (C12.tree_equiv_root ci (algsWith computeFlexboxLayout BlockModel.computeBlockLayout)
    (boxBlind_flex _ block_containerBlind) fuel m tA tB hr av).1
  have hin : RootModel.rootInput tA.style av = RootModel.rootInput tB.style av := by
    cases tA with
    | node sA cA kA =>
      cases tB with
      | node sB cB kB =>
        have hs : StyleRel m sA sB := by
          simp only [BoxRel] at hr
          exact hr.1
        rcases hs with h | ⟨he, h⟩
        · rw [STree.style, STree.style, h]
        · rw [STree.style, STree.style, h]; exact rootInput_site he m av
  rw [C12.tree_equiv_init ci m tA tB hr, hin]
  exact tree_equiv_block_flex_leaf_trees ci grid fuel m tA tB hA hB hr _ _

/-! ### non-vacuity -/

section examples

/-- a content-box flex item: `width: 40; min-width: 10; max-height: 30; flex-basis: 25`, padding 3/5/2/2, border 1 -/
def exItem : Style Rat :=
  { (Style.default : Style Rat) with
    display := .block, boxSizing := .contentBox, size := ⟨.length 40, .auto⟩, minSize := ⟨.length 10, .auto⟩,
    maxSize := ⟨.auto, .length 30⟩, flexBasis := .length 25, flexGrow := 1,
    padding := ⟨.length 3, .length 5, .length 2, .length 2⟩,
    border := ⟨.length 1, .length 1, .length 1, .length 1⟩ }

example : Eligible exItem := by decide

/-- its border-box description in a row container (`flex-basis` along the width): every length grows by the
padding+border of its axis (10 horizontally, 6 vertically) -/
example : (toBorderBox true exItem).boxSizing = .borderBox ∧ (toBorderBox true exItem).size = ⟨.length 50, .auto⟩ ∧
    (toBorderBox true exItem).minSize = ⟨.length 20, .auto⟩ ∧ (toBorderBox true exItem).maxSize = ⟨.auto, .length 36⟩ ∧
    (toBorderBox true exItem).flexBasis = .length 35 := by decide +kernel

/-- … and in a column container (`flex-basis` along the height) -/
example : (toBorderBox false exItem).flexBasis = .length 31 := by decide +kernel

/-- a content-box flex container with an absolutely positioned content-box child -/
def exRoot : Style Rat :=
  { (Style.default : Style Rat) with
    display := .flex, boxSizing := .contentBox, size := ⟨.length 100, .auto⟩, minSize := ⟨.auto, .length 20⟩,
    padding := ⟨.length 4, .length 4, .length 4, .length 4⟩, flexWrap := .wrap }
def exAbs : Style Rat := { exItem with position := .absolute, inset := ⟨.length 1, .auto, .length 2, .auto⟩ }
def exPlain : Style Rat := { (Style.default : Style Rat) with display := .block, flexShrink := 2 }

example : StylesRel exRoot.flexDirection.isRow [exItem, exPlain, exAbs]
    [toBorderBox true exItem, exPlain, toBorderBox true exAbs] := by
  refine ⟨Or.inr ⟨by decide, rfl⟩, Or.inl rfl, Or.inr ⟨by decide, rfl⟩, trivial⟩

/-- the container and two of its three children switched: the same program -/
example (inp : LayoutInput Rat) :
    computeFlexboxLayout exRoot [exItem, exPlain, exAbs] inp =
      computeFlexboxLayout (toBorderBox false exRoot) [toBorderBox true exItem, exPlain, toBorderBox true exAbs] inp :=
  flex_containerBlind.both (m := false) (sA := exRoot) (sB := toBorderBox false exRoot)
    (cs := [exItem, exPlain, exAbs]) (cs' := [toBorderBox true exItem, exPlain, toBorderBox true exAbs])
    (Or.inr ⟨by decide, rfl⟩) ⟨Or.inr ⟨by decide, rfl⟩, Or.inl rfl, Or.inr ⟨by decide, rfl⟩, trivial⟩ inp

/-- trees: a flex root with a content-box leaf, a nested content-box column flex container with a content-box leaf
(flex-basis rewritten along the height there) and an absolutely positioned content-box leaf -/
def exColumn : Style Rat := { exRoot with flexDirection := .column, size := ⟨.auto, .length 60⟩, flexGrow := 1 }
def treeA : STree Rat :=
  .node exRoot none [.node exItem (some (.wrap 120 10)) [], .node exColumn none [.node exItem (some (.fixed 7 9)) []],
    .node exAbs none []]
def treeB : STree Rat :=
  .node (toBorderBox true exRoot) none
    [.node (toBorderBox true exItem) (some (.wrap 120 10)) [],
     .node (toBorderBox true exColumn) none [.node (toBorderBox false exItem) (some (.fixed 7 9)) []],
     .node (toBorderBox true exAbs) none []]

theorem treeAB_rel : BoxRel true treeA treeB := by
  simp only [treeA, treeB, BoxRel, BoxRelList, and_true, true_and]
  refine ⟨Or.inr ⟨by decide, rfl⟩, Or.inr ⟨by decide, rfl⟩, ⟨Or.inr ⟨by decide, rfl⟩, ?_⟩, Or.inr ⟨by decide, rfl⟩⟩
  exact Or.inr ⟨by decide, rfl⟩

theorem treeA_noGrid : NoGrid treeA := by
  simp [treeA, NoGrid, NoGridList, exRoot, exColumn, exItem, exAbs, Style.default]
theorem treeB_noGrid : NoGrid treeB := by
  simp [treeB, NoGrid, NoGridList, toBorderBox, exRoot, exColumn, exItem, exAbs, Style.default]

example (grid : ContainerAlg) (av : Size (AvailableSpace Rat)) :
    evalNode realCache (algsWith computeFlexboxLayout grid) 4 treeA (NS.init realCache treeA)
        (RootModel.rootInput treeA.style av) =
      evalNode realCache (algsWith computeFlexboxLayout grid) 4 treeB (NS.init realCache treeB)
        (RootModel.rootInput treeB.style av) :=
  tree_equiv_root_block_flex_leaf_trees realCache grid 4 true treeA treeB treeA_noGrid treeB_noGrid treeAB_rel av

def kidBoxes (r : LayoutOutput Rat × NS Rat Unit) : Size Rat × List (Point Rat × Size Rat) :=
  (r.1.size, r.2.kids.map fun n => (n.layout.location, n.layout.size))

/-- what both evaluate to, under a 300-wide definite constraint: the content-box root `width: 100` + padding 4+4 is 108
wide; the shrunk items; the absolutely positioned child 40 + 10 = 50 wide -/
example : kidBoxes (evalNode noCache (algsWith computeFlexboxLayout EvalConcrete.idle) 4 treeA (NS.init noCache treeA)
      (RootModel.rootInput treeA.style ⟨.definite 300, .maxContent⟩)) =
    (⟨108, 76⟩, [(⟨4, 4⟩, ⟨77/2, 36⟩), (⟨85/2, 4⟩, ⟨123/2, 68⟩), (⟨1, 2⟩, ⟨50, 6⟩)]) := by decide +kernel
example : kidBoxes (evalNode noCache (algsWith computeFlexboxLayout EvalConcrete.idle) 4 treeB (NS.init noCache treeB)
      (RootModel.rootInput treeB.style ⟨.definite 300, .maxContent⟩)) =
    (⟨108, 76⟩, [(⟨4, 4⟩, ⟨77/2, 36⟩), (⟨85/2, 4⟩, ⟨123/2, 68⟩), (⟨1, 2⟩, ⟨50, 6⟩)]) := by decide +kernel

end examples

end C12Flex

/-
  Obligations to audit (`#print axioms`; all depend on [propext, Classical.choice, Quot.sound] at most):
  EVALFLEX_C12 = [
    "C12Flex.flex_container_site_equiv", "C12Flex.flex_item_site_equiv", "C12Flex.flex_sites",
    "C12Flex.flex_ContainerBlind", "C12Flex.boxBlind_flex", "C12Flex.tree_equiv_flex",
    "C12Flex.tree_equiv_block_flex_leaf_trees", "C12Flex.tree_equiv_root_block_flex_leaf_trees",
    "C12Flex.treeAB_rel", "C12Flex.treeA_noGrid", "C12Flex.treeB_noGrid",
    "C12L.flex_containerBlind", "C12L.fbDefinite_tbb", "C12L.usedCrossItem_tbb", "C12L.computeConstants_tbb",
  ]
-/
