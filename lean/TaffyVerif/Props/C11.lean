/-
  C11 — Absolutely positioned boxes satisfy the inset/margin/size equation.

  Three separately transliterated copies of the code (Model/AbsPos.lean: `absBlock`, `absFlex`, `absGrid`), each fed by
  its call site (`blockCallSite`, `flexCallSite`, `gridCallSite`).  All theorems are at ℚ, hold for EVERY child sizing
  oracle `o` (whatever `perform_child_layout` answers), every container style `cst`, every child style `st`, and are
  expressed in the container's REPORTED layout `C` (`Reported.padStartX C = C.border.left`,
  `Reported.padEndX C = C.size.width − C.border.right − C.scrollbarSize.width`, `padW = padEndX − padStartX`, same for Y).

  Hypotheses used throughout
    * `BlockReported cst C` / `Reported' cst ps C`: the container's reported border and scrollbar size are what the
      copy itself computes from the container's style.  The scrollbar part always holds.  For flex and grid the border
      part always holds too (both resolve percentages against the parent's width `ps.width`); for block it holds
      whenever the border has no percentage (block.rs re-resolves the border against the container's own width).
    * percentages of insets resolve against the padding-box extent of the same axis, percentages of ALL FOUR margins
      against the padding-box WIDTH (`hl`, `hml`, … are stated as "this style value resolves to this number").

  Theorems (X ∈ {block, flex, grid}, both axes each)
    X_start_inset_eq_{x,y}      start inset set ⇒ location − margin.start = padStart + inset
    X_end_inset_eq_{x,y}        start inset auto, end inset set ⇒ padEnd − inset = location + size + margin.end
                                (grid: for padStart ≤ padEnd; `grid_end_inset_eq_needs_nonneg_extent` shows why)
    X_stretch_size_eq_{x,y}     both insets set, size auto, no aspect ratio, margins not auto ⇒
                                size = clamp(max(padExtent − margins − insets, 0), min, max);  X_min_floor: min ≥ padding+border
    block_single_auto_margin_absorbs_{left,right,top,bottom}
    block_two_auto_margins_split_partial_{x,y}  +  block_two_auto_margins_not_split (the planned "equal halves" is false)
    X_monitor_sound             the predicate ./check evaluates on the implementation is implied by the above
    blockReported_of_length_border, *CallSite_* : what the call sites hand to the three copies, in reported terms
-/
import TaffyVerif.Lemmas.AbsPos

namespace C11
open AbsPos AbsPosLemmas MaybeMath

/-- the container's reported border/scrollbar agree with what block.rs computes from the container's style -/
structure BlockReported (cst : Style Rat) (C : Layout Rat) : Prop where
  border : C.border = Resolve.rectLPOrZero cst.border (some C.size.width)
  scrollbar : C.scrollbarSize = scrollbarSize cst

theorem blockCallSite_area {cst : Style Rat} {C : Layout Rat} (h : BlockReported cst C) (n : Nat) :
    (blockCallSite cst C.size n).areaSize.width = Reported.padW C ∧
    (blockCallSite cst C.size n).areaSize.height = Reported.padH C ∧
    (blockCallSite cst C.size n).areaOffset.x = Reported.padStartX C ∧
    (blockCallSite cst C.size n).areaOffset.y = Reported.padStartY C := by
  simp only [blockCallSite, Reported.padW, Reported.padH, Reported.padStartX, Reported.padStartY, Reported.padEndX,
    Reported.padEndY, h.border, h.scrollbar, scrollbarSize, scrollbarGutter, Rect.add, Size.sub, Rect.sumAxes,
    Rect.horizontalAxisSum, Rect.verticalAxisSum]
  refine ⟨?_, ?_, ?_, ?_⟩ <;> ring


/-! ## block copy (block.rs) -/

section block
variable (cst st : Style Rat) (C : Layout Rat) (n : Nat) (o : Oracle Rat)

/-- **start_inset_eq** (block, x): left inset set ⇒ the child's margin-box left edge sits exactly `l` from the left edge
of the container's padding box.  (Holds for auto margins too: the reported margin is the resolved one.) -/
theorem block_start_inset_eq_x {l : Rat} (hC : BlockReported cst C)
    (hl : st.inset.left.maybeResolve (some (Reported.padW C)) = some l) :
    let L := absBlock (blockCallSite cst C.size n) st o
    L.location.x - L.margin.left = Reported.padStartX C + l := by
  obtain ⟨hw, -, hx, -⟩ := blockCallSite_area hC n
  intro L
  have hr : (blockResolve (blockCallSite cst C.size n) st).left = some l := by
    show st.inset.left.maybeResolve (some (blockCallSite cst C.size n).areaSize.width) = some l
    rw [hw]; exact hl
  show (blockLocation _ _ _ _).x - (blockResolvedMargin _ _ _).left = _
  rw [blockLocation_x_start _ _ _ _ hr, hx]; ring

theorem block_start_inset_eq_y {t : Rat} (hC : BlockReported cst C)
    (ht : st.inset.top.maybeResolve (some (Reported.padH C)) = some t) :
    let L := absBlock (blockCallSite cst C.size n) st o
    L.location.y - L.margin.top = Reported.padStartY C + t := by
  obtain ⟨-, hh, -, hy⟩ := blockCallSite_area hC n
  intro L
  have hr : (blockResolve (blockCallSite cst C.size n) st).top = some t := by
    show st.inset.top.maybeResolve (some (blockCallSite cst C.size n).areaSize.height) = some t
    rw [hh]; exact ht
  show (blockLocation _ _ _ _).y - (blockResolvedMargin _ _ _).top = _
  rw [blockLocation_y_start _ _ _ _ hr, hy]; ring

/-- **end_inset_eq** (block, x): left inset auto, right inset set ⇒ the margin-box right edge sits `e` before the right
edge of the padding box, the scrollbar gutter excluded. -/
theorem block_end_inset_eq_x {e : Rat} (hC : BlockReported cst C) (hl : st.inset.left = .auto)
    (he : st.inset.right.maybeResolve (some (Reported.padW C)) = some e) :
    let L := absBlock (blockCallSite cst C.size n) st o
    Reported.padEndX C - e = L.location.x + L.size.width + L.margin.right := by
  obtain ⟨hw, -, hx, -⟩ := blockCallSite_area hC n
  intro L
  have hr1 : (blockResolve (blockCallSite cst C.size n) st).left = none := by
    show st.inset.left.maybeResolve _ = none
    rw [hl]; rfl
  have hr2 : (blockResolve (blockCallSite cst C.size n) st).right = some e := by
    show st.inset.right.maybeResolve (some (blockCallSite cst C.size n).areaSize.width) = some e
    rw [hw]; exact he
  show _ = (blockLocation _ _ _ _).x + (blockFinalSize _ _ _).width + (blockResolvedMargin _ _ _).right
  rw [blockLocation_x_end _ _ _ _ hr1 hr2, hx, hw]
  simp only [Reported.padW]; ring

theorem block_end_inset_eq_y {e : Rat} (hC : BlockReported cst C) (ht : st.inset.top = .auto)
    (he : st.inset.bottom.maybeResolve (some (Reported.padH C)) = some e) :
    let L := absBlock (blockCallSite cst C.size n) st o
    Reported.padEndY C - e = L.location.y + L.size.height + L.margin.bottom := by
  obtain ⟨-, hh, -, hy⟩ := blockCallSite_area hC n
  intro L
  have hr1 : (blockResolve (blockCallSite cst C.size n) st).top = none := by
    show st.inset.top.maybeResolve _ = none
    rw [ht]; rfl
  have hr2 : (blockResolve (blockCallSite cst C.size n) st).bottom = some e := by
    show st.inset.bottom.maybeResolve (some (blockCallSite cst C.size n).areaSize.height) = some e
    rw [hh]; exact he
  show _ = (blockLocation _ _ _ _).y + (blockFinalSize _ _ _).height + (blockResolvedMargin _ _ _).bottom
  rw [blockLocation_y_end _ _ _ _ hr1 hr2, hy, hh]
  simp only [Reported.padH]; ring


/-- **stretch_size_eq** (block, x): both insets set, width auto, no aspect ratio, margins not auto ⇒ the width is the
padding-box width minus insets and margins, floored at 0, then clamped by the resolved min/max width
(`minSize.width` is never `none`: it is floored at the child's padding+border, see `block_min_floor_x`). -/
theorem block_stretch_size_eq_x {l e ml mr : Rat} (hC : BlockReported cst C)
    (hl : st.inset.left.maybeResolve (some (Reported.padW C)) = some l)
    (he : st.inset.right.maybeResolve (some (Reported.padW C)) = some e)
    (hml : st.margin.left.resolveToOption (Reported.padW C) = some ml)
    (hmr : st.margin.right.resolveToOption (Reported.padW C) = some mr)
    (hsz : st.size.width = .auto) (har : st.aspectRatio = none) :
    let a := blockCallSite cst C.size n
    (absBlock a st o).size.width =
      fo_clamp (max (Reported.padW C - ml - mr - l - e) 0) (blockResolve a st).minSize.width (blockResolve a st).maxSize.width := by
  obtain ⟨hw, -, -, -⟩ := blockCallSite_area hC n
  intro a
  have h1 : (blockResolve a st).left = some l := by
    show st.inset.left.maybeResolve (some a.areaSize.width) = some l
    rw [hw]; exact hl
  have h2 : (blockResolve a st).right = some e := by
    show st.inset.right.maybeResolve (some a.areaSize.width) = some e
    rw [hw]; exact he
  have h3 : (blockResolve a st).margin.left = some ml := by
    show st.margin.left.resolveToOption a.areaSize.width = some ml
    rw [hw]; exact hml
  have h4 : (blockResolve a st).margin.right = some mr := by
    show st.margin.right.resolveToOption a.areaSize.width = some mr
    rw [hw]; exact hmr
  have h5 : (Size.oo_clamp (blockResolve a st).styleSize (blockResolve a st).minSize (blockResolve a st).maxSize).width = none := by
    simp [blockResolve, Size.oo_clamp, Size.of_add, Resolve.sizeMaybe, har, size_apply_aspect_none, hsz, LPA.maybeResolve,
      of_add, oo_clamp_none]
  show (blockFinalSize (blockResolve a st) (blockKnown a (blockResolve a st) st.aspectRatio) _).width = _
  rw [har, ← hw]
  apply blockFinalSize_width
  unfold blockKnown
  apply blockFillHeight_width
  exact blockFillWidth_stretch a _ _ h5 h1 h2 h3 h4

theorem block_stretch_size_eq_y {t b mt mb : Rat} (hC : BlockReported cst C)
    (ht : st.inset.top.maybeResolve (some (Reported.padH C)) = some t)
    (hb : st.inset.bottom.maybeResolve (some (Reported.padH C)) = some b)
    (hmt : st.margin.top.resolveToOption (Reported.padW C) = some mt)
    (hmb : st.margin.bottom.resolveToOption (Reported.padW C) = some mb)
    (hsz : st.size.height = .auto) (har : st.aspectRatio = none) :
    let a := blockCallSite cst C.size n
    (absBlock a st o).size.height =
      fo_clamp (max (Reported.padH C - mt - mb - t - b) 0) (blockResolve a st).minSize.height (blockResolve a st).maxSize.height := by
  obtain ⟨hw, hh, -, -⟩ := blockCallSite_area hC n
  intro a
  have h1 : (blockResolve a st).top = some t := by
    show st.inset.top.maybeResolve (some a.areaSize.height) = some t
    rw [hh]; exact ht
  have h2 : (blockResolve a st).bottom = some b := by
    show st.inset.bottom.maybeResolve (some a.areaSize.height) = some b
    rw [hh]; exact hb
  have h3 : (blockResolve a st).margin.top = some mt := by
    show st.margin.top.resolveToOption a.areaSize.width = some mt
    rw [hw]; exact hmt
  have h4 : (blockResolve a st).margin.bottom = some mb := by
    show st.margin.bottom.resolveToOption a.areaSize.width = some mb
    rw [hw]; exact hmb
  have h5 : (Size.oo_clamp (blockResolve a st).styleSize (blockResolve a st).minSize (blockResolve a st).maxSize).height = none := by
    simp [blockResolve, Size.oo_clamp, Size.of_add, Resolve.sizeMaybe, har, size_apply_aspect_none, hsz, LPA.maybeResolve,
      of_add, oo_clamp_none]
  show (blockFinalSize (blockResolve a st) (blockKnown a (blockResolve a st) st.aspectRatio) _).height = _
  rw [har, ← hh]
  apply blockFinalSize_height
  unfold blockKnown
  exact blockFillHeight_stretch a _ _ (blockFillWidth_height a _ _ h5) h1 h2 h3 h4

/-- the resolved minimum size is never `none` and never below the child's own padding + border (what "floored at
padding+border" means in `stretch_size_eq`) -/
theorem block_min_floor (a : BlockArgs Rat) :
    let r := blockResolve a st
    (∃ m, r.minSize.width = some m ∧ (Rect.add r.padding r.border).sumAxes.width ≤ m) ∧
    (∃ m, r.minSize.height = some m ∧ (Rect.add r.padding r.border).sumAxes.height ≤ m) :=
  ⟨min_floor_lemma _ _, min_floor_lemma _ _⟩


/-! ### auto margins (block copy only) -/

/-- **single_auto_margin_absorbs** (block, left): both horizontal insets set, `margin-left: auto`, `margin-right` not auto
⇒ the left margin is exactly what remains of the padding-box width (may be negative).  No hypothesis on the size: it
holds for the final width whatever it comes from. -/
theorem block_single_auto_margin_absorbs_left {l e mr : Rat} (hC : BlockReported cst C)
    (hl : st.inset.left.maybeResolve (some (Reported.padW C)) = some l)
    (he : st.inset.right.maybeResolve (some (Reported.padW C)) = some e)
    (hml : st.margin.left = .auto)
    (hmr : st.margin.right.resolveToOption (Reported.padW C) = some mr) :
    let L := absBlock (blockCallSite cst C.size n) st o
    L.margin.left = Reported.padW C - l - e - L.size.width - mr := by
  obtain ⟨hw, -, -, -⟩ := blockCallSite_area hC n
  intro L
  have h1 : (blockResolve (blockCallSite cst C.size n) st).left = some l := by
    show st.inset.left.maybeResolve (some (blockCallSite cst C.size n).areaSize.width) = some l
    rw [hw]; exact hl
  have h2 : (blockResolve (blockCallSite cst C.size n) st).right = some e := by
    show st.inset.right.maybeResolve (some (blockCallSite cst C.size n).areaSize.width) = some e
    rw [hw]; exact he
  have h3 : (blockResolve (blockCallSite cst C.size n) st).margin.left = none := by
    show st.margin.left.resolveToOption _ = none
    rw [hml]; rfl
  have h4 : (blockResolve (blockCallSite cst C.size n) st).margin.right = some mr := by
    show st.margin.right.resolveToOption (blockCallSite cst C.size n).areaSize.width = some mr
    rw [hw]; exact hmr
  show (blockResolvedMargin _ _ _).left = _ - (blockFinalSize _ _ _).width - _
  rw [blockResolvedMargin_left_auto _ _ _ h1 h2 h3 h4, hw]; ring

theorem block_single_auto_margin_absorbs_right {l e ml : Rat} (hC : BlockReported cst C)
    (hl : st.inset.left.maybeResolve (some (Reported.padW C)) = some l)
    (he : st.inset.right.maybeResolve (some (Reported.padW C)) = some e)
    (hml : st.margin.left.resolveToOption (Reported.padW C) = some ml)
    (hmr : st.margin.right = .auto) :
    let L := absBlock (blockCallSite cst C.size n) st o
    L.margin.right = Reported.padW C - l - e - L.size.width - ml := by
  obtain ⟨hw, -, -, -⟩ := blockCallSite_area hC n
  intro L
  have h1 : (blockResolve (blockCallSite cst C.size n) st).left = some l := by
    show st.inset.left.maybeResolve (some (blockCallSite cst C.size n).areaSize.width) = some l
    rw [hw]; exact hl
  have h2 : (blockResolve (blockCallSite cst C.size n) st).right = some e := by
    show st.inset.right.maybeResolve (some (blockCallSite cst C.size n).areaSize.width) = some e
    rw [hw]; exact he
  have h3 : (blockResolve (blockCallSite cst C.size n) st).margin.left = some ml := by
    show st.margin.left.resolveToOption (blockCallSite cst C.size n).areaSize.width = some ml
    rw [hw]; exact hml
  have h4 : (blockResolve (blockCallSite cst C.size n) st).margin.right = none := by
    show st.margin.right.resolveToOption _ = none
    rw [hmr]; rfl
  show (blockResolvedMargin _ _ _).right = _ - (blockFinalSize _ _ _).width - _
  rw [blockResolvedMargin_right_auto _ _ _ h1 h2 h3 h4, hw]; ring

/-- (block, top) — this is the statement that failed before the fix `37e5268` (the bottom margin was read from
`margin.left`); witness of that defect: `example` below. -/
theorem block_single_auto_margin_absorbs_top {t b mb : Rat} (hC : BlockReported cst C)
    (ht : st.inset.top.maybeResolve (some (Reported.padH C)) = some t)
    (hb : st.inset.bottom.maybeResolve (some (Reported.padH C)) = some b)
    (hmt : st.margin.top = .auto)
    (hmb : st.margin.bottom.resolveToOption (Reported.padW C) = some mb) :
    let L := absBlock (blockCallSite cst C.size n) st o
    L.margin.top = Reported.padH C - t - b - L.size.height - mb := by
  obtain ⟨hw, hh, -, -⟩ := blockCallSite_area hC n
  intro L
  have h1 : (blockResolve (blockCallSite cst C.size n) st).top = some t := by
    show st.inset.top.maybeResolve (some (blockCallSite cst C.size n).areaSize.height) = some t
    rw [hh]; exact ht
  have h2 : (blockResolve (blockCallSite cst C.size n) st).bottom = some b := by
    show st.inset.bottom.maybeResolve (some (blockCallSite cst C.size n).areaSize.height) = some b
    rw [hh]; exact hb
  have h3 : (blockResolve (blockCallSite cst C.size n) st).margin.top = none := by
    show st.margin.top.resolveToOption _ = none
    rw [hmt]; rfl
  have h4 : (blockResolve (blockCallSite cst C.size n) st).margin.bottom = some mb := by
    show st.margin.bottom.resolveToOption (blockCallSite cst C.size n).areaSize.width = some mb
    rw [hw]; exact hmb
  show (blockResolvedMargin _ _ _).top = _ - (blockFinalSize _ _ _).height - _
  rw [blockResolvedMargin_top_auto _ _ _ h1 h2 h3 h4, hh]; ring

theorem block_single_auto_margin_absorbs_bottom {t b mt : Rat} (hC : BlockReported cst C)
    (ht : st.inset.top.maybeResolve (some (Reported.padH C)) = some t)
    (hb : st.inset.bottom.maybeResolve (some (Reported.padH C)) = some b)
    (hmt : st.margin.top.resolveToOption (Reported.padW C) = some mt)
    (hmb : st.margin.bottom = .auto) :
    let L := absBlock (blockCallSite cst C.size n) st o
    L.margin.bottom = Reported.padH C - t - b - L.size.height - mt := by
  obtain ⟨hw, hh, -, -⟩ := blockCallSite_area hC n
  intro L
  have h1 : (blockResolve (blockCallSite cst C.size n) st).top = some t := by
    show st.inset.top.maybeResolve (some (blockCallSite cst C.size n).areaSize.height) = some t
    rw [hh]; exact ht
  have h2 : (blockResolve (blockCallSite cst C.size n) st).bottom = some b := by
    show st.inset.bottom.maybeResolve (some (blockCallSite cst C.size n).areaSize.height) = some b
    rw [hh]; exact hb
  have h3 : (blockResolve (blockCallSite cst C.size n) st).margin.top = some mt := by
    show st.margin.top.resolveToOption (blockCallSite cst C.size n).areaSize.width = some mt
    rw [hw]; exact hmt
  have h4 : (blockResolve (blockCallSite cst C.size n) st).margin.bottom = none := by
    show st.margin.bottom.resolveToOption _ = none
    rw [hmb]; rfl
  show (blockResolvedMargin _ _ _).bottom = _ - (blockFinalSize _ _ _).height - _
  rw [blockResolvedMargin_bottom_auto _ _ _ h1 h2 h3 h4, hh]; ring

/-- **two_auto_margins_split_partial** (block, x): both insets set, both horizontal margins auto, the style's width `sz`
set.  What block.rs does: the two margins are equal halves of the remaining space `free` ONLY IF `sz < free`; otherwise
both are 0.  (CSS 2.1 §10.3.7 asks for equal halves whenever `free ≥ 0`; see `block_two_auto_margins_not_split`.) -/
theorem block_two_auto_margins_split_partial_x {l e sz : Rat} (hC : BlockReported cst C)
    (hl : st.inset.left.maybeResolve (some (Reported.padW C)) = some l)
    (he : st.inset.right.maybeResolve (some (Reported.padW C)) = some e)
    (hml : st.margin.left = .auto) (hmr : st.margin.right = .auto)
    (hsz : (blockResolve (blockCallSite cst C.size n) st).styleSize.width = some sz) :
    let L := absBlock (blockCallSite cst C.size n) st o
    let free := Reported.padW C - l - e - L.size.width
    L.margin.left = (if free ≤ sz then 0 else free / 2) ∧ L.margin.right = (if free ≤ sz then 0 else free / 2) := by
  obtain ⟨hw, -, -, -⟩ := blockCallSite_area hC n
  intro L free
  have h1 : (blockResolve (blockCallSite cst C.size n) st).left = some l := by
    show st.inset.left.maybeResolve (some (blockCallSite cst C.size n).areaSize.width) = some l
    rw [hw]; exact hl
  have h2 : (blockResolve (blockCallSite cst C.size n) st).right = some e := by
    show st.inset.right.maybeResolve (some (blockCallSite cst C.size n).areaSize.width) = some e
    rw [hw]; exact he
  have h3 : (blockResolve (blockCallSite cst C.size n) st).margin.left = none := by
    show st.margin.left.resolveToOption _ = none
    rw [hml]; rfl
  have h4 : (blockResolve (blockCallSite cst C.size n) st).margin.right = none := by
    show st.margin.right.resolveToOption _ = none
    rw [hmr]; rfl
  have key := blockResolvedMargin_x_two_auto (blockCallSite cst C.size n) _ L.size h1 h2 h3 h4 hsz
  have hf : (blockCallSite cst C.size n).areaSize.width - e - l - L.size.width - (0 + 0) = free := by
    rw [hw]; simp only [free]; ring
  simp only [hf] at key
  exact key

theorem block_two_auto_margins_split_partial_y {t b sz : Rat} (hC : BlockReported cst C)
    (ht : st.inset.top.maybeResolve (some (Reported.padH C)) = some t)
    (hb : st.inset.bottom.maybeResolve (some (Reported.padH C)) = some b)
    (hmt : st.margin.top = .auto) (hmb : st.margin.bottom = .auto)
    (hsz : (blockResolve (blockCallSite cst C.size n) st).styleSize.height = some sz) :
    let L := absBlock (blockCallSite cst C.size n) st o
    let free := Reported.padH C - t - b - L.size.height
    L.margin.top = (if free ≤ sz then 0 else free / 2) ∧ L.margin.bottom = (if free ≤ sz then 0 else free / 2) := by
  obtain ⟨-, hh, -, -⟩ := blockCallSite_area hC n
  intro L free
  have h1 : (blockResolve (blockCallSite cst C.size n) st).top = some t := by
    show st.inset.top.maybeResolve (some (blockCallSite cst C.size n).areaSize.height) = some t
    rw [hh]; exact ht
  have h2 : (blockResolve (blockCallSite cst C.size n) st).bottom = some b := by
    show st.inset.bottom.maybeResolve (some (blockCallSite cst C.size n).areaSize.height) = some b
    rw [hh]; exact hb
  have h3 : (blockResolve (blockCallSite cst C.size n) st).margin.top = none := by
    show st.margin.top.resolveToOption _ = none
    rw [hmt]; rfl
  have h4 : (blockResolve (blockCallSite cst C.size n) st).margin.bottom = none := by
    show st.margin.bottom.resolveToOption _ = none
    rw [hmb]; rfl
  have key := blockResolvedMargin_y_two_auto (blockCallSite cst C.size n) _ L.size h1 h2 h3 h4 hsz
  have hf : (blockCallSite cst C.size n).areaSize.height - b - t - L.size.height - (0 + 0) = free := by
    rw [hh]; simp only [free]; ring
  simp only [hf] at key
  exact key

end block


/-! ## flex copy (flexbox.rs) and grid copy (grid/alignment.rs + grid/mod.rs) -/

/-- flex and grid containers: the parent (or `compute_root_layout`) resolves the container's border against the
parent's width `ps.width`, which is what both copies do themselves; the scrollbar size is read off the style. -/
structure ParentReported (cst : Style Rat) (ps : Size (Option Rat)) (C : Layout Rat) : Prop where
  border : C.border = Resolve.rectLPOrZero cst.border ps.width
  scrollbar : C.scrollbarSize = scrollbarSize cst

/-- a border without percentages resolves to the same numbers against any basis: what the parent reported is then what
block.rs recomputes, i.e. `BlockReported` holds for every block container whose border is given in lengths -/
theorem blockReported_of_length_border {cst : Style Rat} {ps : Size (Option Rat)} {C : Layout Rat}
    (h : ParentReported cst ps C)
    (hb : ∃ a b c d : Rat, cst.border = ⟨.length a, .length b, .length c, .length d⟩) : BlockReported cst C := by
  obtain ⟨a, b, c, d, hb⟩ := hb
  refine ⟨?_, h.scrollbar⟩
  rw [h.border, hb]; rfl

theorem flexCallSite_facts {cst : Style Rat} {ps : Size (Option Rat)} {C : Layout Rat} (h : ParentReported cst ps C)
    (kd : Size (Option Rat)) (n : Nat) :
    let a := flexCallSite cst ps kd C.size n
    a.containerSize = C.size ∧ a.border = C.border ∧ a.scrollbarGutter.x = C.scrollbarSize.width ∧
    a.scrollbarGutter.y = C.scrollbarSize.height ∧
    (flexInsetRelativeSize a).width = Reported.padW C ∧ (flexInsetRelativeSize a).height = Reported.padH C := by
  intro a
  have h1 : a.containerSize = C.size := rfl
  have h2 : a.border = C.border := by rw [h.border]; rfl
  have h3 : a.scrollbarGutter.x = C.scrollbarSize.width := by rw [h.scrollbar]; rfl
  have h4 : a.scrollbarGutter.y = C.scrollbarSize.height := by rw [h.scrollbar]; rfl
  refine ⟨h1, h2, h3, h4, ?_, ?_⟩
  · simp only [flexInsetRelativeSize, Size.sub, Rect.sumAxes, Rect.horizontalAxisSum, h1, h2, h3, Reported.padW,
      Reported.padEndX, Reported.padStartX]
    ring
  · simp only [flexInsetRelativeSize, Size.sub, Rect.sumAxes, Rect.verticalAxisSum, h1, h2, h4, Reported.padH,
      Reported.padEndY, Reported.padStartY]
    ring

section flex
variable (cst st : Style Rat) (ps kd : Size (Option Rat)) (C : Layout Rat) (n : Nat) (o : Oracle Rat)

/-- **start_inset_eq** (flex, x; every flex-direction, wrap and alignment) -/
theorem flex_start_inset_eq_x {l : Rat} (hC : ParentReported cst ps C)
    (hl : st.inset.left.maybeResolve (some (Reported.padW C)) = some l) :
    let L := absFlex (flexCallSite cst ps kd C.size n) st o
    L.location.x - L.margin.left = Reported.padStartX C + l := by
  obtain ⟨-, hb, -, -, hw, -⟩ := flexCallSite_facts hC kd n
  intro L
  have hr : (flexResolve (flexCallSite cst ps kd C.size n) st).left = some l := by
    show st.inset.left.maybeResolve (some (flexInsetRelativeSize _).width) = some l
    rw [hw]; exact hl
  show (flexLocation _ _ _ _).x - (flexResolvedMargin _ _ _).left = _
  rw [flexLocation_x_start _ _ _ _ hr, hb]; simp only [Reported.padStartX]; ring

theorem flex_start_inset_eq_y {t : Rat} (hC : ParentReported cst ps C)
    (ht : st.inset.top.maybeResolve (some (Reported.padH C)) = some t) :
    let L := absFlex (flexCallSite cst ps kd C.size n) st o
    L.location.y - L.margin.top = Reported.padStartY C + t := by
  obtain ⟨-, hb, -, -, -, hh⟩ := flexCallSite_facts hC kd n
  intro L
  have hr : (flexResolve (flexCallSite cst ps kd C.size n) st).top = some t := by
    show st.inset.top.maybeResolve (some (flexInsetRelativeSize _).height) = some t
    rw [hh]; exact ht
  show (flexLocation _ _ _ _).y - (flexResolvedMargin _ _ _).top = _
  rw [flexLocation_y_start _ _ _ _ hr, hb]; simp only [Reported.padStartY]; ring

/-- **end_inset_eq** (flex, x) -/
theorem flex_end_inset_eq_x {e : Rat} (hC : ParentReported cst ps C) (hl : st.inset.left = .auto)
    (he : st.inset.right.maybeResolve (some (Reported.padW C)) = some e) :
    let L := absFlex (flexCallSite cst ps kd C.size n) st o
    Reported.padEndX C - e = L.location.x + L.size.width + L.margin.right := by
  obtain ⟨hs, hb, hgx, -, hw, -⟩ := flexCallSite_facts hC kd n
  intro L
  have hr1 : (flexResolve (flexCallSite cst ps kd C.size n) st).left = none := by
    show st.inset.left.maybeResolve _ = none
    rw [hl]; rfl
  have hr2 : (flexResolve (flexCallSite cst ps kd C.size n) st).right = some e := by
    show st.inset.right.maybeResolve (some (flexInsetRelativeSize _).width) = some e
    rw [hw]; exact he
  show _ = (flexLocation _ _ _ _).x + (flexFinalSize _ _ _).width + (flexResolvedMargin _ _ _).right
  rw [flexLocation_x_end _ _ _ _ hr1 hr2, hs, hb, hgx]
  simp only [Reported.padEndX]; ring

theorem flex_end_inset_eq_y {e : Rat} (hC : ParentReported cst ps C) (ht : st.inset.top = .auto)
    (he : st.inset.bottom.maybeResolve (some (Reported.padH C)) = some e) :
    let L := absFlex (flexCallSite cst ps kd C.size n) st o
    Reported.padEndY C - e = L.location.y + L.size.height + L.margin.bottom := by
  obtain ⟨hs, hb, -, hgy, -, hh⟩ := flexCallSite_facts hC kd n
  intro L
  have hr1 : (flexResolve (flexCallSite cst ps kd C.size n) st).top = none := by
    show st.inset.top.maybeResolve _ = none
    rw [ht]; rfl
  have hr2 : (flexResolve (flexCallSite cst ps kd C.size n) st).bottom = some e := by
    show st.inset.bottom.maybeResolve (some (flexInsetRelativeSize _).height) = some e
    rw [hh]; exact he
  show _ = (flexLocation _ _ _ _).y + (flexFinalSize _ _ _).height + (flexResolvedMargin _ _ _).bottom
  rw [flexLocation_y_end _ _ _ _ hr1 hr2, hs, hb, hgy]
  simp only [Reported.padEndY]; ring

/-- **stretch_size_eq** (flex, x) -/
theorem flex_stretch_size_eq_x {l e ml mr : Rat} (hC : ParentReported cst ps C)
    (hl : st.inset.left.maybeResolve (some (Reported.padW C)) = some l)
    (he : st.inset.right.maybeResolve (some (Reported.padW C)) = some e)
    (hml : st.margin.left.resolveToOption (Reported.padW C) = some ml)
    (hmr : st.margin.right.resolveToOption (Reported.padW C) = some mr)
    (hsz : st.size.width = .auto) (har : st.aspectRatio = none) :
    let a := flexCallSite cst ps kd C.size n
    (absFlex a st o).size.width =
      fo_clamp (max (Reported.padW C - ml - mr - l - e) 0) (flexResolve a st).minSize.width (flexResolve a st).maxSize.width := by
  obtain ⟨-, -, -, -, hw, -⟩ := flexCallSite_facts hC kd n
  intro a
  have h1 : (flexResolve a st).left = some l := by
    show st.inset.left.maybeResolve (some (flexInsetRelativeSize a).width) = some l
    rw [hw]; exact hl
  have h2 : (flexResolve a st).right = some e := by
    show st.inset.right.maybeResolve (some (flexInsetRelativeSize a).width) = some e
    rw [hw]; exact he
  have h3 : (flexResolve a st).margin.left = some ml := by
    show st.margin.left.resolveToOption (flexInsetRelativeSize a).width = some ml
    rw [hw]; exact hml
  have h4 : (flexResolve a st).margin.right = some mr := by
    show st.margin.right.resolveToOption (flexInsetRelativeSize a).width = some mr
    rw [hw]; exact hmr
  have h5 : (Size.oo_clamp (flexResolve a st).styleSize (flexResolve a st).minSize (flexResolve a st).maxSize).width = none := by
    simp [flexResolve, Size.oo_clamp, Size.of_add, Resolve.sizeMaybe, har, size_apply_aspect_none, hsz, LPA.maybeResolve,
      of_add, oo_clamp_none]
  show (flexFinalSize (flexResolve a st) (flexKnown a (flexResolve a st) st.aspectRatio) _).width = _
  rw [har, ← hw]
  apply flexFinalSize_width
  unfold flexKnown
  apply flexFillHeight_width
  exact flexFillWidth_stretch a _ _ h5 h1 h2 h3 h4

theorem flex_stretch_size_eq_y {t b mt mb : Rat} (hC : ParentReported cst ps C)
    (ht : st.inset.top.maybeResolve (some (Reported.padH C)) = some t)
    (hb : st.inset.bottom.maybeResolve (some (Reported.padH C)) = some b)
    (hmt : st.margin.top.resolveToOption (Reported.padW C) = some mt)
    (hmb : st.margin.bottom.resolveToOption (Reported.padW C) = some mb)
    (hsz : st.size.height = .auto) (har : st.aspectRatio = none) :
    let a := flexCallSite cst ps kd C.size n
    (absFlex a st o).size.height =
      fo_clamp (max (Reported.padH C - mt - mb - t - b) 0) (flexResolve a st).minSize.height (flexResolve a st).maxSize.height := by
  obtain ⟨-, -, -, -, hw, hh⟩ := flexCallSite_facts hC kd n
  intro a
  have h1 : (flexResolve a st).top = some t := by
    show st.inset.top.maybeResolve (some (flexInsetRelativeSize a).height) = some t
    rw [hh]; exact ht
  have h2 : (flexResolve a st).bottom = some b := by
    show st.inset.bottom.maybeResolve (some (flexInsetRelativeSize a).height) = some b
    rw [hh]; exact hb
  have h3 : (flexResolve a st).margin.top = some mt := by
    show st.margin.top.resolveToOption (flexInsetRelativeSize a).width = some mt
    rw [hw]; exact hmt
  have h4 : (flexResolve a st).margin.bottom = some mb := by
    show st.margin.bottom.resolveToOption (flexInsetRelativeSize a).width = some mb
    rw [hw]; exact hmb
  have h5 : (Size.oo_clamp (flexResolve a st).styleSize (flexResolve a st).minSize (flexResolve a st).maxSize).height = none := by
    simp [flexResolve, Size.oo_clamp, Size.of_add, Resolve.sizeMaybe, har, size_apply_aspect_none, hsz, LPA.maybeResolve,
      of_add, oo_clamp_none]
  show (flexFinalSize (flexResolve a st) (flexKnown a (flexResolve a st) st.aspectRatio) _).height = _
  rw [har, ← hh]
  apply flexFinalSize_height
  unfold flexKnown
  exact flexFillHeight_stretch a _ _ (flexFillWidth_height a _ _ h5) h1 h2 h3 h4

theorem flex_min_floor (a : FlexArgs Rat) :
    let r := flexResolve a st
    (∃ m, r.minSize.width = some m ∧ (Rect.add r.padding r.border).sumAxes.width ≤ m) ∧
    (∃ m, r.minSize.height = some m ∧ (Rect.add r.padding r.border).sumAxes.height ≤ m) :=
  ⟨min_floor_lemma _ _, min_floor_lemma _ _⟩

end flex


theorem gridCallSite_facts {cst : Style Rat} {ps : Size (Option Rat)} {C : Layout Rat} (h : ParentReported cst ps C)
    (n : Nat) :
    let a := gridCallSite cst ps C.size n
    a.gridArea.left = Reported.padStartX C ∧ a.gridArea.right = Reported.padEndX C ∧
    a.gridArea.top = Reported.padStartY C ∧ a.gridArea.bottom = Reported.padEndY C ∧ a.baselineShim = 0 ∧
    (gridResolve a st).gridAreaSize.width = Reported.padW C ∧ (gridResolve a st).gridAreaSize.height = Reported.padH C := by
  intro a
  have h1 : a.gridArea.left = Reported.padStartX C := by
    show (Resolve.rectLPOrZero cst.border ps.width).left = C.border.left
    rw [h.border]
  have h2 : a.gridArea.right = Reported.padEndX C := by
    show C.size.width - (Resolve.rectLPOrZero cst.border ps.width).right - (scrollbarGutter cst).x = _
    simp only [Reported.padEndX, h.border, h.scrollbar]; rfl
  have h3 : a.gridArea.top = Reported.padStartY C := by
    show (Resolve.rectLPOrZero cst.border ps.width).top = C.border.top
    rw [h.border]
  have h4 : a.gridArea.bottom = Reported.padEndY C := by
    show C.size.height - (Resolve.rectLPOrZero cst.border ps.width).bottom - (scrollbarGutter cst).y = _
    simp only [Reported.padEndY, h.border, h.scrollbar]; rfl
  refine ⟨h1, h2, h3, h4, rfl, ?_, ?_⟩
  · show a.gridArea.right - a.gridArea.left = _
    rw [h1, h2]; rfl
  · show a.gridArea.bottom - a.gridArea.top = _
    rw [h3, h4]; rfl

section grid
variable (cst st : Style Rat) (ps : Size (Option Rat)) (C : Layout Rat) (n : Nat) (o : Oracle Rat)

/-- **start_inset_eq** (grid, x).  Unlike block/flex the grid copy positions with the NON-auto part of the margin, so
the hypothesis "margins not auto" is needed here. -/
theorem grid_start_inset_eq_x {l ml mr : Rat} (hC : ParentReported cst ps C) (hp : st.position = .absolute)
    (hl : st.inset.left.resolveToOption (Reported.padW C) = some l)
    (hml : st.margin.left.resolveToOption (Reported.padW C) = some ml)
    (hmr : st.margin.right.resolveToOption (Reported.padW C) = some mr) :
    let L := absGrid (gridCallSite cst ps C.size n) st o
    L.location.x - L.margin.left = Reported.padStartX C + l := by
  obtain ⟨h1, -, -, -, -, hw, -⟩ := gridCallSite_facts (st := st) hC n
  intro L
  have e1 : (gridResolve (gridCallSite cst ps C.size n) st).insetH.start = some l := by
    show st.inset.left.resolveToOption (gridResolve _ st).gridAreaSize.width = some l
    rw [hw]; exact hl
  have e2 : (gridResolve (gridCallSite cst ps C.size n) st).margin.left = some ml := by
    show st.margin.left.resolveToOption (gridResolve _ st).gridAreaSize.width = some ml
    rw [hw]; exact hml
  have e3 : (gridResolve (gridCallSite cst ps C.size n) st).margin.right = some mr := by
    show st.margin.right.resolveToOption (gridResolve _ st).gridAreaSize.width = some mr
    rw [hw]; exact hmr
  simp only [L, absGrid, hp]
  rw [alignItemWithinArea_start _ _ _ _ _ 0 l ml mr e1 e2 e3]
  simp only [h1]; ring

theorem grid_start_inset_eq_y {t mt mb : Rat} (hC : ParentReported cst ps C) (hp : st.position = .absolute)
    (ht : st.inset.top.resolveToOption (Reported.padH C) = some t)
    (hmt : st.margin.top.resolveToOption (Reported.padW C) = some mt)
    (hmb : st.margin.bottom.resolveToOption (Reported.padW C) = some mb) :
    let L := absGrid (gridCallSite cst ps C.size n) st o
    L.location.y - L.margin.top = Reported.padStartY C + t := by
  obtain ⟨-, -, h3, -, -, hw, hh⟩ := gridCallSite_facts (st := st) hC n
  intro L
  have e1 : (gridResolve (gridCallSite cst ps C.size n) st).insetV.start = some t := by
    show st.inset.top.resolveToOption (gridResolve _ st).gridAreaSize.height = some t
    rw [hh]; exact ht
  have e2 : (gridResolve (gridCallSite cst ps C.size n) st).margin.top = some mt := by
    show st.margin.top.resolveToOption (gridResolve _ st).gridAreaSize.width = some mt
    rw [hw]; exact hmt
  have e3 : (gridResolve (gridCallSite cst ps C.size n) st).margin.bottom = some mb := by
    show st.margin.bottom.resolveToOption (gridResolve _ st).gridAreaSize.width = some mb
    rw [hw]; exact hmb
  simp only [L, absGrid, hp]
  rw [alignItemWithinArea_start _ _ _ _ _ _ t mt mb e1 e2 e3]
  simp only [h3]; ring

/-- **end_inset_eq** (grid, x), for a padding box of non-negative width (`hext`).  Without `hext` the grid copy is
different from the other two: see `grid_end_inset_eq_needs_nonneg_extent`. -/
theorem grid_end_inset_eq_x {e ml mr : Rat} (hC : ParentReported cst ps C) (hp : st.position = .absolute)
    (hext : Reported.padStartX C ≤ Reported.padEndX C)
    (hl : st.inset.left = .auto)
    (he : st.inset.right.resolveToOption (Reported.padW C) = some e)
    (hml : st.margin.left.resolveToOption (Reported.padW C) = some ml)
    (hmr : st.margin.right.resolveToOption (Reported.padW C) = some mr) :
    let L := absGrid (gridCallSite cst ps C.size n) st o
    Reported.padEndX C - e = L.location.x + L.size.width + L.margin.right := by
  obtain ⟨h1, h2, -, -, -, hw, -⟩ := gridCallSite_facts (st := st) hC n
  intro L
  have e0 : (gridResolve (gridCallSite cst ps C.size n) st).insetH.start = none := by
    show st.inset.left.resolveToOption _ = none
    rw [hl]; rfl
  have e1 : (gridResolve (gridCallSite cst ps C.size n) st).insetH.«end» = some e := by
    show st.inset.right.resolveToOption (gridResolve _ st).gridAreaSize.width = some e
    rw [hw]; exact he
  have e2 : (gridResolve (gridCallSite cst ps C.size n) st).margin.left = some ml := by
    show st.margin.left.resolveToOption (gridResolve _ st).gridAreaSize.width = some ml
    rw [hw]; exact hml
  have e3 : (gridResolve (gridCallSite cst ps C.size n) st).margin.right = some mr := by
    show st.margin.right.resolveToOption (gridResolve _ st).gridAreaSize.width = some mr
    rw [hw]; exact hmr
  simp only [L, absGrid, hp]
  rw [alignItemWithinArea_end _ _ _ _ _ 0 e ml mr e0 e1 e2 e3]
  simp only [h1, h2]
  rw [max_eq_left (by linarith)]; ring

theorem grid_end_inset_eq_y {e mt mb : Rat} (hC : ParentReported cst ps C) (hp : st.position = .absolute)
    (hext : Reported.padStartY C ≤ Reported.padEndY C)
    (ht : st.inset.top = .auto)
    (he : st.inset.bottom.resolveToOption (Reported.padH C) = some e)
    (hmt : st.margin.top.resolveToOption (Reported.padW C) = some mt)
    (hmb : st.margin.bottom.resolveToOption (Reported.padW C) = some mb) :
    let L := absGrid (gridCallSite cst ps C.size n) st o
    Reported.padEndY C - e = L.location.y + L.size.height + L.margin.bottom := by
  obtain ⟨-, -, h3, h4, -, hw, hh⟩ := gridCallSite_facts (st := st) hC n
  intro L
  have e0 : (gridResolve (gridCallSite cst ps C.size n) st).insetV.start = none := by
    show st.inset.top.resolveToOption _ = none
    rw [ht]; rfl
  have e1 : (gridResolve (gridCallSite cst ps C.size n) st).insetV.«end» = some e := by
    show st.inset.bottom.resolveToOption (gridResolve _ st).gridAreaSize.height = some e
    rw [hh]; exact he
  have e2 : (gridResolve (gridCallSite cst ps C.size n) st).margin.top = some mt := by
    show st.margin.top.resolveToOption (gridResolve _ st).gridAreaSize.width = some mt
    rw [hw]; exact hmt
  have e3 : (gridResolve (gridCallSite cst ps C.size n) st).margin.bottom = some mb := by
    show st.margin.bottom.resolveToOption (gridResolve _ st).gridAreaSize.width = some mb
    rw [hw]; exact hmb
  simp only [L, absGrid, hp]
  rw [alignItemWithinArea_end _ _ _ _ _ _ e mt mb e0 e1 e2 e3]
  simp only [h3, h4]
  rw [max_eq_left (by linarith)]; ring


/-- **stretch_size_eq** (grid, x) -/
theorem grid_stretch_size_eq_x {l e ml mr : Rat} (hC : ParentReported cst ps C) (hp : st.position = .absolute)
    (hl : st.inset.left.resolveToOption (Reported.padW C) = some l)
    (he : st.inset.right.resolveToOption (Reported.padW C) = some e)
    (hml : st.margin.left.resolveToOption (Reported.padW C) = some ml)
    (hmr : st.margin.right.resolveToOption (Reported.padW C) = some mr)
    (hsz : st.size.width = .auto) (har : st.aspectRatio = none) :
    let a := gridCallSite cst ps C.size n
    (absGrid a st o).size.width =
      fo_clamp (max (Reported.padW C - ml - mr - l - e) 0) (gridResolve a st).minSize.width (gridResolve a st).maxSize.width := by
  obtain ⟨-, -, -, -, -, hw, -⟩ := gridCallSite_facts (st := st) hC n
  intro a
  have e0 : (gridResolve a st).insetH.start = some l := by
    show st.inset.left.resolveToOption (gridResolve a st).gridAreaSize.width = some l
    rw [hw]; exact hl
  have e1 : (gridResolve a st).insetH.«end» = some e := by
    show st.inset.right.resolveToOption (gridResolve a st).gridAreaSize.width = some e
    rw [hw]; exact he
  have e2 : (gridResolve a st).margin.left = some ml := by
    show st.margin.left.resolveToOption (gridResolve a st).gridAreaSize.width = some ml
    rw [hw]; exact hml
  have e3 : (gridResolve a st).margin.right = some mr := by
    show st.margin.right.resolveToOption (gridResolve a st).gridAreaSize.width = some mr
    rw [hw]; exact hmr
  have e4 : (gridResolve a st).inherentSize.width = none := by
    simp [gridResolve, Size.of_add, Resolve.sizeMaybe, har, size_apply_aspect_none, hsz, LPA.maybeResolve, of_add]
  have e5 : (gridResolve a st).areaMinusMargins.width = Reported.padW C - ml - mr := by
    show fo_sub (fo_sub (gridResolve a st).gridAreaSize.width (gridResolve a st).margin.left) (gridResolve a st).margin.right = _
    rw [e2, e3, hw]; rfl
  show (gridFinalSize (gridResolve a st) (gridKnown (gridResolve a st) st.position st.aspectRatio) _).width = _
  rw [hp, har, ← e5]
  apply gridFinalSize_width
  exact gridKnown_width_stretch _ e4 e0 e1

theorem grid_stretch_size_eq_y {t b mt mb : Rat} (hC : ParentReported cst ps C) (hp : st.position = .absolute)
    (ht : st.inset.top.resolveToOption (Reported.padH C) = some t)
    (hb : st.inset.bottom.resolveToOption (Reported.padH C) = some b)
    (hmt : st.margin.top.resolveToOption (Reported.padW C) = some mt)
    (hmb : st.margin.bottom.resolveToOption (Reported.padW C) = some mb)
    (hsz : st.size.height = .auto) (har : st.aspectRatio = none) :
    let a := gridCallSite cst ps C.size n
    (absGrid a st o).size.height =
      fo_clamp (max (Reported.padH C - mt - mb - t - b) 0) (gridResolve a st).minSize.height (gridResolve a st).maxSize.height := by
  obtain ⟨-, -, -, -, -, hw, hh⟩ := gridCallSite_facts (st := st) hC n
  intro a
  have e0 : (gridResolve a st).insetV.start = some t := by
    show st.inset.top.resolveToOption (gridResolve a st).gridAreaSize.height = some t
    rw [hh]; exact ht
  have e1 : (gridResolve a st).insetV.«end» = some b := by
    show st.inset.bottom.resolveToOption (gridResolve a st).gridAreaSize.height = some b
    rw [hh]; exact hb
  have e2 : (gridResolve a st).margin.top = some mt := by
    show st.margin.top.resolveToOption (gridResolve a st).gridAreaSize.width = some mt
    rw [hw]; exact hmt
  have e3 : (gridResolve a st).margin.bottom = some mb := by
    show st.margin.bottom.resolveToOption (gridResolve a st).gridAreaSize.width = some mb
    rw [hw]; exact hmb
  have e4 : (gridResolve a st).inherentSize.height = none := by
    simp [gridResolve, Size.of_add, Resolve.sizeMaybe, har, size_apply_aspect_none, hsz, LPA.maybeResolve, of_add]
  have e5 : (gridResolve a st).areaMinusMargins.height = Reported.padH C - mt - mb := by
    show fo_sub (fo_sub (gridResolve a st).gridAreaSize.height (gridResolve a st).margin.top) (gridResolve a st).margin.bottom
      - (0 : Rat) = _
    rw [e2, e3, hh]; simp [fo_sub]
  show (gridFinalSize (gridResolve a st) (gridKnown (gridResolve a st) st.position st.aspectRatio) _).height = _
  rw [hp, har, ← e5]
  apply gridFinalSize_height
  exact gridKnown_height_stretch _ e4 e0 e1

theorem grid_min_floor (a : GridArgs Rat) (har : st.aspectRatio = none) :
    let r := gridResolve a st
    (∃ m, r.minSize.width = some m ∧ (Rect.add r.padding r.border).sumAxes.width ≤ m) ∧
    (∃ m, r.minSize.height = some m ∧ (Rect.add r.padding r.border).sumAxes.height ≤ m) := by
  intro r
  have : r.minSize = Size.of_max (Size.orOpt (Size.of_add (Resolve.sizeMaybe st.minSize
      ⟨some r.gridAreaSize.width, some r.gridAreaSize.height⟩)
      (if st.boxSizing == .contentBox then (Rect.add r.padding r.border).sumAxes else Size.zero))
      ((Rect.add r.padding r.border).sumAxes.map some)) (Rect.add r.padding r.border).sumAxes := by
    simp only [r, gridResolve, har, size_apply_aspect_none]
  rw [this]
  exact ⟨min_floor_lemma _ _, min_floor_lemma _ _⟩

end grid


/-! ## the monitor's predicate

`./check` evaluates `Spec.failures` (Model/AbsPosSpec.lean) at ℚ on the implementation's answer, with the hypotheses side
(`Spec.*Facts*`) computed by the copy's own resolution stage.  These theorems say that the predicate is nothing but the
equations above: on the model's answer it never reports a failure. -/

section monitor
variable (cst st : Style Rat) (ps kd : Size (Option Rat)) (C : Layout Rat) (n : Nat) (o : Oracle Rat)

theorem block_monitor_sound (hC : BlockReported cst C) :
    let a := blockCallSite cst C.size n
    Spec.failures true false 0 (Spec.blockFactsX C (blockResolve a st) st.aspectRatio) (Spec.obsX (absBlock a st o)) = [] ∧
    Spec.failures true false 0 (Spec.blockFactsY C (blockResolve a st) st.aspectRatio) (Spec.obsY (absBlock a st o)) = [] := by
  obtain ⟨hw, hh, -, -⟩ := blockCallSite_area hC n
  intro a
  have ins_l : ∀ {v}, (blockResolve a st).left = some v → st.inset.left.maybeResolve (some (Reported.padW C)) = some v :=
    fun h => by rw [← hw]; exact h
  have ins_r : ∀ {v}, (blockResolve a st).right = some v → st.inset.right.maybeResolve (some (Reported.padW C)) = some v :=
    fun h => by rw [← hw]; exact h
  have ins_t : ∀ {v}, (blockResolve a st).top = some v → st.inset.top.maybeResolve (some (Reported.padH C)) = some v :=
    fun h => by rw [← hh]; exact h
  have ins_b : ∀ {v}, (blockResolve a st).bottom = some v → st.inset.bottom.maybeResolve (some (Reported.padH C)) = some v :=
    fun h => by rw [← hh]; exact h
  have m_l : ∀ {v}, (blockResolve a st).margin.left = some v → st.margin.left.resolveToOption (Reported.padW C) = some v :=
    fun h => by rw [← hw]; exact h
  have m_r : ∀ {v}, (blockResolve a st).margin.right = some v → st.margin.right.resolveToOption (Reported.padW C) = some v :=
    fun h => by rw [← hw]; exact h
  have m_t : ∀ {v}, (blockResolve a st).margin.top = some v → st.margin.top.resolveToOption (Reported.padW C) = some v :=
    fun h => by rw [← hw]; exact h
  have m_b : ∀ {v}, (blockResolve a st).margin.bottom = some v → st.margin.bottom.resolveToOption (Reported.padW C) = some v :=
    fun h => by rw [← hw]; exact h
  have szw : (blockResolve a st).styleSize.width = none → st.aspectRatio.isNone = true → st.size.width = .auto ∧ st.aspectRatio = none := by
    intro h1 h2
    have har : st.aspectRatio = none := by simpa using h2
    refine ⟨?_, har⟩
    have h3 : st.size.width.maybeResolve (some a.areaSize.width) = none := by
      have := h1
      simp only [blockResolve, har, size_apply_aspect_none, Size.of_add, Resolve.sizeMaybe] at this
      exact of_add_none this
    exact lpa_auto_of_maybeResolve_none h3
  have szh : (blockResolve a st).styleSize.height = none → st.aspectRatio.isNone = true → st.size.height = .auto ∧ st.aspectRatio = none := by
    intro h1 h2
    have har : st.aspectRatio = none := by simpa using h2
    refine ⟨?_, har⟩
    have h3 : st.size.height.maybeResolve (some a.areaSize.height) = none := by
      have := h1
      simp only [blockResolve, har, size_apply_aspect_none, Size.of_add, Resolve.sizeMaybe] at this
      exact of_add_none this
    exact lpa_auto_of_maybeResolve_none h3
  constructor
  · have c1 := startOk_of (Spec.blockFactsX C (blockResolve a st) st.aspectRatio) (Spec.obsX (absBlock a st o))
      (fun s _ _ h1 _ _ => block_start_inset_eq_x cst st C n o hC (ins_l h1))
    have c2 := endOk_of false (Spec.blockFactsX C (blockResolve a st) st.aspectRatio) (Spec.obsX (absBlock a st o))
      (fun e _ _ h0 h1 _ _ _ =>
        block_end_inset_eq_x cst st C n o hC (lpa_auto_of_maybeResolve_none h0) (ins_r h1))
    have c3 := stretchOk_of (Spec.blockFactsX C (blockResolve a st) st.aspectRatio) (Spec.obsX (absBlock a st o))
      (fun s e ms me h1 h2 h3 h4 h5 h6 =>
        block_stretch_size_eq_x cst st C n o hC (ins_l h1) (ins_r h2) (m_l h3) (m_r h4) (szw h5 h6).1 (szw h5 h6).2)
    have c4 := autoMarginOk_of (Spec.blockFactsX C (blockResolve a st) st.aspectRatio) (Spec.obsX (absBlock a st o))
      (fun s e me h1 h2 h3 h4 =>
        block_single_auto_margin_absorbs_left cst st C n o hC (ins_l h1) (ins_r h2) (lpa_auto_of_resolveToOption_none h3) (m_r h4))
      (fun s e ms h1 h2 h3 h4 =>
        block_single_auto_margin_absorbs_right cst st C n o hC (ins_l h1) (ins_r h2) (m_l h3) (lpa_auto_of_resolveToOption_none h4))
    have c5 := splitPartialOk_of (Spec.blockFactsX C (blockResolve a st) st.aspectRatio) (Spec.obsX (absBlock a st o))
      (fun s e sz h1 h2 h3 h4 h5 =>
        block_two_auto_margins_split_partial_x cst st C n o hC (ins_l h1) (ins_r h2) (lpa_auto_of_resolveToOption_none h3)
          (lpa_auto_of_resolveToOption_none h4) h5)
    simp [Spec.failures, c1, c2, c3, c4, c5]
  · have c1 := startOk_of (Spec.blockFactsY C (blockResolve a st) st.aspectRatio) (Spec.obsY (absBlock a st o))
      (fun s _ _ h1 _ _ => block_start_inset_eq_y cst st C n o hC (ins_t h1))
    have c2 := endOk_of false (Spec.blockFactsY C (blockResolve a st) st.aspectRatio) (Spec.obsY (absBlock a st o))
      (fun e _ _ h0 h1 _ _ _ =>
        block_end_inset_eq_y cst st C n o hC (lpa_auto_of_maybeResolve_none h0) (ins_b h1))
    have c3 := stretchOk_of (Spec.blockFactsY C (blockResolve a st) st.aspectRatio) (Spec.obsY (absBlock a st o))
      (fun s e ms me h1 h2 h3 h4 h5 h6 =>
        block_stretch_size_eq_y cst st C n o hC (ins_t h1) (ins_b h2) (m_t h3) (m_b h4) (szh h5 h6).1 (szh h5 h6).2)
    have c4 := autoMarginOk_of (Spec.blockFactsY C (blockResolve a st) st.aspectRatio) (Spec.obsY (absBlock a st o))
      (fun s e me h1 h2 h3 h4 =>
        block_single_auto_margin_absorbs_top cst st C n o hC (ins_t h1) (ins_b h2) (lpa_auto_of_resolveToOption_none h3) (m_b h4))
      (fun s e ms h1 h2 h3 h4 =>
        block_single_auto_margin_absorbs_bottom cst st C n o hC (ins_t h1) (ins_b h2) (m_t h3) (lpa_auto_of_resolveToOption_none h4))
    have c5 := splitPartialOk_of (Spec.blockFactsY C (blockResolve a st) st.aspectRatio) (Spec.obsY (absBlock a st o))
      (fun s e sz h1 h2 h3 h4 h5 =>
        block_two_auto_margins_split_partial_y cst st C n o hC (ins_t h1) (ins_b h2) (lpa_auto_of_resolveToOption_none h3)
          (lpa_auto_of_resolveToOption_none h4) h5)
    simp [Spec.failures, c1, c2, c3, c4, c5]

theorem flex_monitor_sound (hC : ParentReported cst ps C) :
    let a := flexCallSite cst ps kd C.size n
    Spec.failures false false 0 (Spec.flexFactsX C (flexResolve a st) st.aspectRatio) (Spec.obsX (absFlex a st o)) = [] ∧
    Spec.failures false false 0 (Spec.flexFactsY C (flexResolve a st) st.aspectRatio) (Spec.obsY (absFlex a st o)) = [] := by
  obtain ⟨-, -, -, -, hw, hh⟩ := flexCallSite_facts hC kd n
  intro a
  have ins_l : ∀ {v}, (flexResolve a st).left = some v → st.inset.left.maybeResolve (some (Reported.padW C)) = some v :=
    fun h => by rw [← hw]; exact h
  have ins_r : ∀ {v}, (flexResolve a st).right = some v → st.inset.right.maybeResolve (some (Reported.padW C)) = some v :=
    fun h => by rw [← hw]; exact h
  have ins_t : ∀ {v}, (flexResolve a st).top = some v → st.inset.top.maybeResolve (some (Reported.padH C)) = some v :=
    fun h => by rw [← hh]; exact h
  have ins_b : ∀ {v}, (flexResolve a st).bottom = some v → st.inset.bottom.maybeResolve (some (Reported.padH C)) = some v :=
    fun h => by rw [← hh]; exact h
  have m_l : ∀ {v}, (flexResolve a st).margin.left = some v → st.margin.left.resolveToOption (Reported.padW C) = some v :=
    fun h => by rw [← hw]; exact h
  have m_r : ∀ {v}, (flexResolve a st).margin.right = some v → st.margin.right.resolveToOption (Reported.padW C) = some v :=
    fun h => by rw [← hw]; exact h
  have m_t : ∀ {v}, (flexResolve a st).margin.top = some v → st.margin.top.resolveToOption (Reported.padW C) = some v :=
    fun h => by rw [← hw]; exact h
  have m_b : ∀ {v}, (flexResolve a st).margin.bottom = some v → st.margin.bottom.resolveToOption (Reported.padW C) = some v :=
    fun h => by rw [← hw]; exact h
  have szw : (flexResolve a st).styleSize.width = none → st.aspectRatio.isNone = true → st.size.width = .auto ∧ st.aspectRatio = none := by
    intro h1 h2
    have har : st.aspectRatio = none := by simpa using h2
    refine ⟨?_, har⟩
    have h3 : st.size.width.maybeResolve (some (flexInsetRelativeSize a).width) = none := by
      have := h1
      simp only [flexResolve, har, size_apply_aspect_none, Size.of_add, Resolve.sizeMaybe] at this
      exact of_add_none this
    exact lpa_auto_of_maybeResolve_none h3
  have szh : (flexResolve a st).styleSize.height = none → st.aspectRatio.isNone = true → st.size.height = .auto ∧ st.aspectRatio = none := by
    intro h1 h2
    have har : st.aspectRatio = none := by simpa using h2
    refine ⟨?_, har⟩
    have h3 : st.size.height.maybeResolve (some (flexInsetRelativeSize a).height) = none := by
      have := h1
      simp only [flexResolve, har, size_apply_aspect_none, Size.of_add, Resolve.sizeMaybe] at this
      exact of_add_none this
    exact lpa_auto_of_maybeResolve_none h3
  constructor
  · have c1 := startOk_of (Spec.flexFactsX C (flexResolve a st) st.aspectRatio) (Spec.obsX (absFlex a st o))
      (fun s _ _ h1 _ _ => flex_start_inset_eq_x cst st ps kd C n o hC (ins_l h1))
    have c2 := endOk_of false (Spec.flexFactsX C (flexResolve a st) st.aspectRatio) (Spec.obsX (absFlex a st o))
      (fun e _ _ h0 h1 _ _ _ =>
        flex_end_inset_eq_x cst st ps kd C n o hC (lpa_auto_of_maybeResolve_none h0) (ins_r h1))
    have c3 := stretchOk_of (Spec.flexFactsX C (flexResolve a st) st.aspectRatio) (Spec.obsX (absFlex a st o))
      (fun s e ms me h1 h2 h3 h4 h5 h6 =>
        flex_stretch_size_eq_x cst st ps kd C n o hC (ins_l h1) (ins_r h2) (m_l h3) (m_r h4) (szw h5 h6).1 (szw h5 h6).2)
    simp [Spec.failures, c1, c2, c3]
  · have c1 := startOk_of (Spec.flexFactsY C (flexResolve a st) st.aspectRatio) (Spec.obsY (absFlex a st o))
      (fun s _ _ h1 _ _ => flex_start_inset_eq_y cst st ps kd C n o hC (ins_t h1))
    have c2 := endOk_of false (Spec.flexFactsY C (flexResolve a st) st.aspectRatio) (Spec.obsY (absFlex a st o))
      (fun e _ _ h0 h1 _ _ _ =>
        flex_end_inset_eq_y cst st ps kd C n o hC (lpa_auto_of_maybeResolve_none h0) (ins_b h1))
    have c3 := stretchOk_of (Spec.flexFactsY C (flexResolve a st) st.aspectRatio) (Spec.obsY (absFlex a st o))
      (fun s e ms me h1 h2 h3 h4 h5 h6 =>
        flex_stretch_size_eq_y cst st ps kd C n o hC (ins_t h1) (ins_b h2) (m_t h3) (m_b h4) (szh h5 h6).1 (szh h5 h6).2)
    simp [Spec.failures, c1, c2, c3]

theorem grid_monitor_sound (hC : ParentReported cst ps C) (hp : st.position = .absolute) :
    let a := gridCallSite cst ps C.size n
    Spec.failures false true 0 (Spec.gridFactsX C (gridResolve a st) st.aspectRatio) (Spec.obsX (absGrid a st o)) = [] ∧
    Spec.failures false true 0 (Spec.gridFactsY C (gridResolve a st) st.aspectRatio) (Spec.obsY (absGrid a st o)) = [] := by
  obtain ⟨-, -, -, -, -, hw, hh⟩ := gridCallSite_facts (st := st) hC n
  intro a
  have ins_l : ∀ {v}, (gridResolve a st).insetH.start = some v → st.inset.left.resolveToOption (Reported.padW C) = some v :=
    fun h => by rw [← hw]; exact h
  have ins_r : ∀ {v}, (gridResolve a st).insetH.«end» = some v → st.inset.right.resolveToOption (Reported.padW C) = some v :=
    fun h => by rw [← hw]; exact h
  have ins_t : ∀ {v}, (gridResolve a st).insetV.start = some v → st.inset.top.resolveToOption (Reported.padH C) = some v :=
    fun h => by rw [← hh]; exact h
  have ins_b : ∀ {v}, (gridResolve a st).insetV.«end» = some v → st.inset.bottom.resolveToOption (Reported.padH C) = some v :=
    fun h => by rw [← hh]; exact h
  have m_l : ∀ {v}, (gridResolve a st).margin.left = some v → st.margin.left.resolveToOption (Reported.padW C) = some v :=
    fun h => by rw [← hw]; exact h
  have m_r : ∀ {v}, (gridResolve a st).margin.right = some v → st.margin.right.resolveToOption (Reported.padW C) = some v :=
    fun h => by rw [← hw]; exact h
  have m_t : ∀ {v}, (gridResolve a st).margin.top = some v → st.margin.top.resolveToOption (Reported.padW C) = some v :=
    fun h => by rw [← hw]; exact h
  have m_b : ∀ {v}, (gridResolve a st).margin.bottom = some v → st.margin.bottom.resolveToOption (Reported.padW C) = some v :=
    fun h => by rw [← hw]; exact h
  have szw : (gridResolve a st).inherentSize.width = none → st.aspectRatio.isNone = true → st.size.width = .auto ∧ st.aspectRatio = none := by
    intro h1 h2
    have har : st.aspectRatio = none := by simpa using h2
    refine ⟨?_, har⟩
    have h3 : st.size.width.maybeResolve (some (gridResolve a st).gridAreaSize.width) = none := by
      have := h1
      simp only [gridResolve, har, size_apply_aspect_none, Size.of_add, Resolve.sizeMaybe] at this
      exact of_add_none this
    exact lpa_auto_of_maybeResolve_none h3
  have szh : (gridResolve a st).inherentSize.height = none → st.aspectRatio.isNone = true → st.size.height = .auto ∧ st.aspectRatio = none := by
    intro h1 h2
    have har : st.aspectRatio = none := by simpa using h2
    refine ⟨?_, har⟩
    have h3 : st.size.height.maybeResolve (some (gridResolve a st).gridAreaSize.height) = none := by
      have := h1
      simp only [gridResolve, har, size_apply_aspect_none, Size.of_add, Resolve.sizeMaybe] at this
      exact of_add_none this
    exact lpa_auto_of_maybeResolve_none h3
  constructor
  · have c1 := startOk_of (Spec.gridFactsX C (gridResolve a st) st.aspectRatio) (Spec.obsX (absGrid a st o))
      (fun s _ _ h1 h2 h3 => grid_start_inset_eq_x cst st ps C n o hC hp (ins_l h1) (m_l h2) (m_r h3))
    have c2 := endOk_of true (Spec.gridFactsX C (gridResolve a st) st.aspectRatio) (Spec.obsX (absGrid a st o))
      (fun e _ _ h0 h1 h2 h3 hext =>
        grid_end_inset_eq_x cst st ps C n o hC hp (hext rfl) (lpa_auto_of_resolveToOption_none h0) (ins_r h1) (m_l h2) (m_r h3))
    have c3 := stretchOk_of (Spec.gridFactsX C (gridResolve a st) st.aspectRatio) (Spec.obsX (absGrid a st o))
      (fun s e ms me h1 h2 h3 h4 h5 h6 =>
        grid_stretch_size_eq_x cst st ps C n o hC hp (ins_l h1) (ins_r h2) (m_l h3) (m_r h4) (szw h5 h6).1 (szw h5 h6).2)
    simp [Spec.failures, c1, c2, c3]
  · have c1 := startOk_of (Spec.gridFactsY C (gridResolve a st) st.aspectRatio) (Spec.obsY (absGrid a st o))
      (fun s _ _ h1 h2 h3 => grid_start_inset_eq_y cst st ps C n o hC hp (ins_t h1) (m_t h2) (m_b h3))
    have c2 := endOk_of true (Spec.gridFactsY C (gridResolve a st) st.aspectRatio) (Spec.obsY (absGrid a st o))
      (fun e _ _ h0 h1 h2 h3 hext =>
        grid_end_inset_eq_y cst st ps C n o hC hp (hext rfl) (lpa_auto_of_resolveToOption_none h0) (ins_b h1) (m_t h2) (m_b h3))
    have c3 := stretchOk_of (Spec.gridFactsY C (gridResolve a st) st.aspectRatio) (Spec.obsY (absGrid a st o))
      (fun s e ms me h1 h2 h3 h4 h5 h6 =>
        grid_stretch_size_eq_y cst st ps C n o hC hp (ins_t h1) (ins_b h2) (m_t h3) (m_b h4) (szh h5 h6).1 (szh h5 h6).2)
    simp [Spec.failures, c1, c2, c3]

end monitor

/-! ## concrete inputs: non-vacuity of the hypotheses, and the witnesses of what does NOT hold -/

namespace Ex
def sd : Style Rat := Style.default
def ld : Layout Rat := Layout.new
/-- an oracle that answers 0×0 to everything (the children below have their sizes fixed by style or insets) -/
def o0 : Oracle Rat := fun _ => LayoutOutput.hidden
/-- an oracle that answers 20×10 -/
def o1 : Oracle Rat := fun _ => LayoutOutput.fromOuterSize ⟨20, 10⟩
def ps : Size (Option Rat) := ⟨some 400, some 300⟩

/-- 200×100 container, borders 3/5/2/4, both scrollbars (15) -/
def cont (d : Display) : Style Rat :=
  { sd with
    display := d
    size := ⟨.length 200, .length 100⟩
    border := ⟨.length 3, .length 5, .length 2, .length 4⟩
    padding := ⟨.length 1, .length 1, .percent (1/8), .length 1⟩
    overflow := ⟨.scroll, .scroll⟩
    scrollbarWidth := 15
    flexDirection := .columnReverse
    flexWrap := .wrapReverse }
def contL : Layout Rat :=
  { ld with
    size := ⟨200, 100⟩
    border := ⟨3, 5, 2, 4⟩
    scrollbarSize := ⟨15, 15⟩ }
-- padding box: x from 3 to 180 (width 177), y from 2 to 81 (height 79)

/-- x: both insets (10, 25 %), width auto; y: top auto, bottom 20, height 30; margins 7 / −3 / 12.5 % / 5 -/
def childA : Style Rat :=
  { sd with
    position := .absolute
    inset := ⟨.length 10, .percent (1/4), .auto, .length 20⟩
    size := ⟨.auto, .length 30⟩
    maxSize := ⟨.length 100, .auto⟩
    margin := ⟨.length 7, .length (-3), .percent (1/8), .length 5⟩
    padding := ⟨.length 2, .length 2, .length 2, .length 2⟩ }
/-- x: left auto, right 8; y: both insets, height auto -/
def childB : Style Rat :=
  { sd with
    position := .absolute
    inset := ⟨.auto, .length 8, .length (-4), .percent (1/2)⟩
    size := ⟨.length 50, .auto⟩
    minSize := ⟨.auto, .length 45⟩
    margin := ⟨.length 7, .length (-3), .length 6, .length 5⟩ }

theorem blockRep : BlockReported (cont .block) contL := ⟨by decide +kernel, by decide +kernel⟩
theorem parentRep (d : Display) : ParentReported (cont d) ps contL := ⟨by cases d <;> decide +kernel, by cases d <;> decide +kernel⟩

end Ex
open Ex

-- block
example : let L := absBlock (blockCallSite (cont .block) contL.size 0) childA o1
    L.location.x - L.margin.left = Reported.padStartX contL + 10 :=
  block_start_inset_eq_x _ _ _ 0 o1 blockRep (by decide +kernel)
example : let L := absBlock (blockCallSite (cont .block) contL.size 0) childB o1
    L.location.y - L.margin.top = Reported.padStartY contL + (-4) :=
  block_start_inset_eq_y _ _ _ 0 o1 blockRep (by decide +kernel)
example : let L := absBlock (blockCallSite (cont .block) contL.size 0) childB o1
    Reported.padEndX contL - 8 = L.location.x + L.size.width + L.margin.right :=
  block_end_inset_eq_x _ _ _ 0 o1 blockRep rfl (by decide +kernel)
example : let L := absBlock (blockCallSite (cont .block) contL.size 0) childA o1
    Reported.padEndY contL - 20 = L.location.y + L.size.height + L.margin.bottom :=
  block_end_inset_eq_y _ _ _ 0 o1 blockRep rfl (by decide +kernel)
/-- 177 − 7 + 3 − 10 − 44.25 = 118.75, clamped by max-width 100 -/
example : (absBlock (blockCallSite (cont .block) contL.size 0) childA o1).size.width = 100 := by
  have h := block_stretch_size_eq_x (cont .block) childA contL 0 o1 (l := 10) (e := 177/4) (ml := 7) (mr := -3) blockRep
    (by decide +kernel) (by decide +kernel) (by decide +kernel) (by decide +kernel) rfl rfl
  rw [h]; decide +kernel
/-- 79 − 6 − 5 + 4 − 39.5 = 32.5, raised to min-height 45 -/
example : (absBlock (blockCallSite (cont .block) contL.size 0) childB o1).size.height = 45 := by
  have h := block_stretch_size_eq_y (cont .block) childB contL 0 o1 (t := -4) (b := 79/2) (mt := 6) (mb := 5) blockRep
    (by decide +kernel) (by decide +kernel) (by decide +kernel) (by decide +kernel) rfl rfl
  rw [h]; decide +kernel

namespace Ex
/-- the witness of the defect repaired by commit 37e5268 (`fix: block absolute layout read the left margin as the bottom
margin …`): 100-high block, top 10, bottom 20, height 30, margins left 40 / bottom 5 / top auto -/
def witC : Style Rat :=
  { sd with
    display := .block
    size := ⟨.length 200, .length 100⟩ }
def witL : Layout Rat :=
  { ld with
    size := ⟨200, 100⟩ }
def witChild : Style Rat :=
  { sd with
    display := .block
    position := .absolute
    inset := ⟨.auto, .auto, .length 10, .length 20⟩
    size := ⟨.length 50, .length 30⟩
    margin := ⟨.length 40, .length 0, .auto, .length 5⟩ }
theorem witRep : BlockReported witC witL := ⟨by decide +kernel, by decide +kernel⟩
/-- every margin auto, every inset 0, size w×w -/
def centreChild (w : Rat) : Style Rat :=
  { sd with
    display := .block
    position := .absolute
    inset := ⟨.length 0, .length 0, .length 0, .length 0⟩
    size := ⟨.length w, .length w⟩
    margin := ⟨.auto, .auto, .auto, .auto⟩ }
def sqC (d : Display) : Style Rat :=
  { sd with
    display := d
    size := ⟨.length 100, .length 100⟩ }
def sqL : Layout Rat :=
  { ld with
    size := ⟨100, 100⟩ }
theorem sqRep : BlockReported (sqC .block) sqL := ⟨by decide +kernel, by decide +kernel⟩
/-- left/right 5, width 50, margin-left auto, margin-right 4; top 10, bottom 20, height 30, margin-top 6, margin-bottom auto -/
def oneAuto (leftAuto topAuto : Bool) : Style Rat :=
  { sd with
    display := .block
    position := .absolute
    inset := ⟨.length 5, .length 5, .length 10, .length 20⟩
    size := ⟨.length 50, .length 30⟩
    margin := ⟨if leftAuto then .auto else .length 4, if leftAuto then .length 4 else .auto,
               if topAuto then .auto else .length 6, if topAuto then .length 6 else .auto⟩ }
end Ex

/-- the historic witness now satisfies the theorem: the top margin is 100 − 10 − 20 − 30 − 5 = 35 -/
example : (absBlock (blockCallSite witC witL.size 0) witChild o0).margin.top = 35 := by
  have h := block_single_auto_margin_absorbs_top witC witChild witL 0 o0 (t := 10) (b := 20) (mb := 5) witRep
    (by decide +kernel) (by decide +kernel) rfl (by decide +kernel)
  simp only at h
  rw [h]; decide +kernel
example : let L := absBlock (blockCallSite (sqC .block) sqL.size 0) (oneAuto true true) o0
    L.margin.left = Reported.padW sqL - 5 - 5 - L.size.width - 4 :=
  block_single_auto_margin_absorbs_left _ _ _ 0 o0 sqRep (by decide +kernel) (by decide +kernel) rfl (by decide +kernel)
example : let L := absBlock (blockCallSite (sqC .block) sqL.size 0) (oneAuto false false) o0
    L.margin.right = Reported.padW sqL - 5 - 5 - L.size.width - 4 :=
  block_single_auto_margin_absorbs_right _ _ _ 0 o0 sqRep (by decide +kernel) (by decide +kernel) (by decide +kernel) rfl
example : let L := absBlock (blockCallSite (sqC .block) sqL.size 0) (oneAuto false false) o0
    L.margin.bottom = Reported.padH sqL - 10 - 20 - L.size.height - 6 :=
  block_single_auto_margin_absorbs_bottom _ _ _ 0 o0 sqRep (by decide +kernel) (by decide +kernel) (by decide +kernel) rfl
/-- a 40-wide child in a 100-wide block is centred (30 / 30) … -/
example : let L := absBlock (blockCallSite (sqC .block) sqL.size 0) (centreChild 40) o0
    L.margin.left = 30 ∧ L.margin.right = 30 ∧ L.margin.top = 30 ∧ L.margin.bottom = 30 := by decide +kernel

-- flex (column-reverse, wrap-reverse container)
example : let L := absFlex (flexCallSite (cont .flex) ps (flexStyledKnownDimensions (cont .flex) ps) contL.size 0) childA o1
    L.location.x - L.margin.left = Reported.padStartX contL + 10 :=
  flex_start_inset_eq_x _ _ _ _ _ 0 o1 (parentRep .flex) (by decide +kernel)
example : let L := absFlex (flexCallSite (cont .flex) ps (flexStyledKnownDimensions (cont .flex) ps) contL.size 0) childB o1
    L.location.y - L.margin.top = Reported.padStartY contL + (-4) :=
  flex_start_inset_eq_y _ _ _ _ _ 0 o1 (parentRep .flex) (by decide +kernel)
example : let L := absFlex (flexCallSite (cont .flex) ps (flexStyledKnownDimensions (cont .flex) ps) contL.size 0) childB o1
    Reported.padEndX contL - 8 = L.location.x + L.size.width + L.margin.right :=
  flex_end_inset_eq_x _ _ _ _ _ 0 o1 (parentRep .flex) rfl (by decide +kernel)
example : let L := absFlex (flexCallSite (cont .flex) ps (flexStyledKnownDimensions (cont .flex) ps) contL.size 0) childA o1
    Reported.padEndY contL - 20 = L.location.y + L.size.height + L.margin.bottom :=
  flex_end_inset_eq_y _ _ _ _ _ 0 o1 (parentRep .flex) rfl (by decide +kernel)
example : (absFlex (flexCallSite (cont .flex) ps (flexStyledKnownDimensions (cont .flex) ps) contL.size 0) childA o1).size.width = 100 := by
  have h := flex_stretch_size_eq_x (cont .flex) childA ps (flexStyledKnownDimensions (cont .flex) ps) contL 0 o1
    (l := 10) (e := 177/4) (ml := 7) (mr := -3) (parentRep .flex)
    (by decide +kernel) (by decide +kernel) (by decide +kernel) (by decide +kernel) rfl rfl
  rw [h]; decide +kernel
example : (absFlex (flexCallSite (cont .flex) ps (flexStyledKnownDimensions (cont .flex) ps) contL.size 0) childB o1).size.height = 45 := by
  have h := flex_stretch_size_eq_y (cont .flex) childB ps (flexStyledKnownDimensions (cont .flex) ps) contL 0 o1
    (t := -4) (b := 79/2) (mt := 6) (mb := 5) (parentRep .flex)
    (by decide +kernel) (by decide +kernel) (by decide +kernel) (by decide +kernel) rfl rfl
  rw [h]; decide +kernel

-- grid
example : let L := absGrid (gridCallSite (cont .grid) ps contL.size 0) childA o1
    L.location.x - L.margin.left = Reported.padStartX contL + 10 :=
  grid_start_inset_eq_x _ _ _ _ 0 o1 (ml := 7) (mr := -3) (parentRep .grid) rfl (by decide +kernel) (by decide +kernel)
    (by decide +kernel)
example : let L := absGrid (gridCallSite (cont .grid) ps contL.size 0) childB o1
    L.location.y - L.margin.top = Reported.padStartY contL + (-4) :=
  grid_start_inset_eq_y _ _ _ _ 0 o1 (mt := 6) (mb := 5) (parentRep .grid) rfl (by decide +kernel) (by decide +kernel)
    (by decide +kernel)
example : let L := absGrid (gridCallSite (cont .grid) ps contL.size 0) childB o1
    Reported.padEndX contL - 8 = L.location.x + L.size.width + L.margin.right :=
  grid_end_inset_eq_x _ _ _ _ 0 o1 (ml := 7) (mr := -3) (parentRep .grid) rfl (by decide +kernel) rfl (by decide +kernel)
    (by decide +kernel) (by decide +kernel)
example : let L := absGrid (gridCallSite (cont .grid) ps contL.size 0) childA o1
    Reported.padEndY contL - 20 = L.location.y + L.size.height + L.margin.bottom :=
  grid_end_inset_eq_y _ _ _ _ 0 o1 (mt := 177/8) (mb := 5) (parentRep .grid) rfl (by decide +kernel) rfl (by decide +kernel)
    (by decide +kernel) (by decide +kernel)
example : (absGrid (gridCallSite (cont .grid) ps contL.size 0) childA o1).size.width = 100 := by
  have h := grid_stretch_size_eq_x (cont .grid) childA ps contL 0 o1 (l := 10) (e := 177/4) (ml := 7) (mr := -3)
    (parentRep .grid) rfl (by decide +kernel) (by decide +kernel) (by decide +kernel) (by decide +kernel) rfl rfl
  rw [h]; decide +kernel
example : (absGrid (gridCallSite (cont .grid) ps contL.size 0) childB o1).size.height = 45 := by
  have h := grid_stretch_size_eq_y (cont .grid) childB ps contL 0 o1 (t := -4) (b := 79/2) (mt := 6) (mb := 5)
    (parentRep .grid) rfl (by decide +kernel) (by decide +kernel) (by decide +kernel) (by decide +kernel) rfl rfl
  rw [h]; decide +kernel

namespace Ex
/-- 10×10 container with borders 4 and both scrollbars (15): its padding box runs from 4 to −9 (extent −13);
taffy floors a container's size at padding+border but not at padding+border+gutter -/
def negC (d : Display) : Style Rat :=
  { sd with
    display := d
    size := ⟨.length 10, .length 10⟩
    border := ⟨.length 4, .length 4, .length 4, .length 4⟩
    overflow := ⟨.scroll, .scroll⟩
    scrollbarWidth := 15 }
def negL : Layout Rat :=
  { ld with
    size := ⟨10, 10⟩
    border := ⟨4, 4, 4, 4⟩
    scrollbarSize := ⟨15, 15⟩ }
def negChild : Style Rat :=
  { sd with
    display := .block
    position := .absolute
    inset := ⟨.auto, .length 1, .auto, .length 1⟩
    size := ⟨.length 2, .length 2⟩ }
end Ex

/-- the hypothesis `hext` of `grid_end_inset_eq_*` cannot be dropped: with a padding box of negative extent the grid
copy (which floors the extent of its area at 0 in `align_item_within_area`) puts the margin-box end edge at 3, the
block and flex copies put it at padEnd − 1 = −10.  Replayed as the fixed cases `negative-extent-*`. -/
theorem grid_end_inset_eq_needs_nonneg_extent :
    ParentReported (negC .grid) ps negL ∧ BlockReported (negC .block) negL ∧ Reported.padEndX negL - 1 = -10 ∧
    (let L := absGrid (gridCallSite (negC .grid) ps negL.size 0) negChild o0
     L.location.x + L.size.width + L.margin.right = 3) ∧
    (let L := absBlock (blockCallSite (negC .block) negL.size 0) negChild o0
     L.location.x + L.size.width + L.margin.right = -10) ∧
    (let L := absFlex (flexCallSite (negC .flex) ps (flexStyledKnownDimensions (negC .flex) ps) negL.size 0) negChild o0
     L.location.x + L.size.width + L.margin.right = -10) :=
  ⟨⟨by decide +kernel, by decide +kernel⟩, ⟨by decide +kernel, by decide +kernel⟩, by decide +kernel, by decide +kernel,
    by decide +kernel, by decide +kernel⟩

/-- **two auto margins do NOT split the remaining space** in the block copy: a 60-wide child with `left: 0; right: 0;
margin: auto` in a 100-wide block gets margins 0 / 0 instead of 20 / 20 (block.rs l.705/717 compares the style size with
the space that is left AFTER the size has been subtracted).  The flex and grid copies give 20 / 20.  Replayed on the
implementation as the fixed cases `centre-60-block/flex/grid` of harness/src/c11.rs. -/
theorem block_two_auto_margins_not_split :
    ∃ (cst st : Style Rat) (C : Layout Rat) (o : Oracle Rat), BlockReported cst C ∧
      st.inset.left = .length 0 ∧ st.inset.right = .length 0 ∧ st.margin.left = .auto ∧ st.margin.right = .auto ∧
      st.size.width = .length 60 ∧ Reported.padW C = 100 ∧
      (let L := absBlock (blockCallSite cst C.size 0) st o
       L.size.width = 60 ∧ L.location.x = 0 ∧ L.margin.left = 0 ∧ L.margin.right = 0 ∧
       L.margin.left ≠ (Reported.padW C - 0 - 0 - L.size.width) / 2) ∧
      (let L := absFlex (flexCallSite cst ⟨some 400, some 300⟩ (flexStyledKnownDimensions cst ⟨some 400, some 300⟩) C.size 0) st o
       L.margin.left = 20 ∧ L.margin.right = 20) ∧
      (let L := absGrid (gridCallSite cst ⟨some 400, some 300⟩ C.size 0) st o
       L.margin.left = 20 ∧ L.margin.right = 20) :=
  ⟨sqC .block, centreChild 60, sqL, o0, sqRep, rfl, rfl, rfl, rfl, rfl, by decide +kernel, by decide +kernel,
    by decide +kernel, by decide +kernel⟩

end C11
