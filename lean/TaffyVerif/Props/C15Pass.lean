/-
  C15, part B — every resolution of a layout pass preserves the dirtiness invariant and cleans what it reaches.
  (rose-tree model `Model/DirtyPass.lean`; all theorems quantify over every choice stream)
-/
import TaffyVerif.Model.DirtyPass

namespace C15Pass
open DirtyPass

/-! ### predicates -/

def allFin : List FT → Prop
  | [] => True
  | t :: ts => t.fin = true ∧ allFin ts

mutual
/-- (a) everywhere: a measure entry implies a final entry -/
def A : FT → Prop
  | .node _ f m kids => (m = true → f = true) ∧ AList kids
def AList : List FT → Prop
  | [] => True
  | t :: ts => A t ∧ AList ts
end

mutual
/-- (b) everywhere: below a clean box-generating node every child is clean -/
def B : FT → Prop
  | .node h f _ kids => (f = true → h = false → allFin kids) ∧ BList kids
def BList : List FT → Prop
  | [] => True
  | t :: ts => B t ∧ BList ts
end

mutual
/-- mid-pass weakening of (a): it may fail only strictly below nodes that have no final entry -/
def AO : FT → Prop
  | .node _ f m kids => (f = true → (m = true → f = true) ∧ AList kids) ∧ (f = false → AOList kids)
def AOList : List FT → Prop
  | [] => True
  | t :: ts => AO t ∧ AOList ts
end

mutual
/-- clean all the way down to (and including) the first `display:none` nodes -/
def Clean : FT → Prop
  | .node h f _ kids => f = true ∧ (h = false → CleanList kids)
def CleanList : List FT → Prop
  | [] => True
  | t :: ts => Clean t ∧ CleanList ts
end

/-- the between-passes invariant (= `Dirty.K` on rose trees) -/
def KT (t : FT) : Prop := A t ∧ B t

/-! ### small facts -/

mutual
theorem A_to_AO : ∀ t, A t → AO t
  | .node _ _ _ kids, ha => by
    simp only [A] at ha
    simp only [AO]
    exact ⟨fun _ => ha, fun _ => AList_to_AOList kids ha.2⟩
theorem AList_to_AOList : ∀ l, AList l → AOList l
  | [], _ => trivial
  | t :: ts, h => ⟨A_to_AO t h.1, AList_to_AOList ts h.2⟩
end

theorem AO_fin_A (t : FT) (h : AO t) (hf : t.fin = true) : A t := by
  cases t with
  | node hd f m kids =>
    simp only [FT.fin] at hf
    simp only [AO] at h
    simp only [A]
    exact h.1 hf

theorem AOList_allFin_AList : ∀ l, AOList l → allFin l → AList l
  | [], _, _ => trivial
  | t :: ts, h1, h2 => ⟨AO_fin_A t h1.1 h2.1, AOList_allFin_AList ts h1.2 h2.2⟩

mutual
theorem hvisit_facts : ∀ t, A (hvisit t) ∧ B (hvisit t) ∧ depth (hvisit t) = depth t
  | .node h f m kids => by
    have ih := hvisitList_facts kids
    simp only [hvisit, A, B, depth]
    exact ⟨⟨(by simp), ih.1⟩, ⟨(by simp), ih.2.1⟩, (by rw [ih.2.2])⟩
theorem hvisitList_facts : ∀ l, AList (hvisitList l) ∧ BList (hvisitList l) ∧ depthList (hvisitList l) = depthList l
  | [] => ⟨trivial, trivial, rfl⟩
  | t :: ts => by
    have h := hvisit_facts t
    have ih := hvisitList_facts ts
    simp only [hvisitList, AList, BList, depthList]
    exact ⟨⟨h.1, ih.1⟩, ⟨h.2.1, ih.2.1⟩, (by rw [h.2.2, ih.2.2])⟩
end

/-- what one visit may do to a (sub)tree, seen from outside -/
def R (a b : FT) : Prop := b.hidden = a.hidden ∧ (a.fin = true → b.fin = true) ∧ depth b = depth a

def Rel : List FT → List FT → Prop
  | [], [] => True
  | a :: as, b :: bs => R a b ∧ Rel as bs
  | _, _ => False

theorem R.refl (a : FT) : R a a := ⟨rfl, id, rfl⟩
theorem R.trans {a b c : FT} (h1 : R a b) (h2 : R b c) : R a c :=
  ⟨h2.1.trans h1.1, fun h => h2.2.1 (h1.2.1 h), h2.2.2.trans h1.2.2⟩

theorem Rel.refl : ∀ l, Rel l l
  | [] => trivial
  | a :: as => ⟨R.refl a, Rel.refl as⟩

theorem Rel.trans : ∀ {a b c : List FT}, Rel a b → Rel b c → Rel a c
  | [], [], [], _, _ => trivial
  | _ :: _, _ :: _, _ :: _, h1, h2 => ⟨h1.1.trans h2.1, Rel.trans h1.2 h2.2⟩
  | [], [], _ :: _, _, h2 => h2.elim
  | [], _ :: _, _, h1, _ => h1.elim
  | _ :: _, [], _, h1, _ => h1.elim
  | _ :: _, _ :: _, [], _, h2 => h2.elim

theorem Rel_allFin : ∀ {a b : List FT}, Rel a b → allFin a → allFin b
  | [], [], _, _ => trivial
  | _ :: _, _ :: _, h, hf => ⟨h.1.2.1 hf.1, Rel_allFin h.2 hf.2⟩
  | [], _ :: _, h, _ => h.elim
  | _ :: _, [], h, _ => h.elim

theorem Rel_depth : ∀ {a b : List FT}, Rel a b → depthList b = depthList a
  | [], [], _ => rfl
  | _ :: _, _ :: _, h => by simp only [depthList]; rw [h.1.2.2, Rel_depth h.2]
  | [], _ :: _, h => h.elim
  | _ :: _, [], h => h.elim

/-- list predicates survive replacing one element by a related good one -/
theorem set_facts : ∀ (l : List FT) (i : Nat) (k k' : FT), l[i]? = some k → R k k' → B k' → AO k' →
    BList l → AOList l → Rel l (l.set i k') ∧ BList (l.set i k') ∧ AOList (l.set i k')
  | [], _, _, _, h, _, _, _, _, _ => by simp at h
  | a :: as, 0, k, k', h, hr, hb, ha, hbl, hal => by
    simp only [List.getElem?_cons_zero, Option.some.injEq] at h
    subst h
    exact ⟨⟨hr, Rel.refl as⟩, ⟨hb, hbl.2⟩, ⟨ha, hal.2⟩⟩
  | a :: as, i + 1, k, k', h, hr, hb, ha, hbl, hal => by
    simp only [List.getElem?_cons_succ] at h
    obtain ⟨h1, h2, h3⟩ := set_facts as i k k' h hr hb ha hbl.2 hal.2
    exact ⟨⟨R.refl a, h1⟩, ⟨hbl.1, h2⟩, ⟨hal.1, h3⟩⟩

theorem getElem_facts : ∀ (l : List FT) (i : Nat) (k : FT), l[i]? = some k → BList l → AOList l →
    B k ∧ AO k ∧ depth k ≤ depthList l
  | [], _, _, h, _, _ => by simp at h
  | a :: as, 0, k, h, hb, ha => by
    simp only [List.getElem?_cons_zero, Option.some.injEq] at h
    subst h
    exact ⟨hb.1, ha.1, by simp only [depthList]; omega⟩
  | a :: as, i + 1, k, h, hb, ha => by
    simp only [List.getElem?_cons_succ] at h
    obtain ⟨h1, h2, h3⟩ := getElem_facts as i k h hb.2 ha.2
    exact ⟨h1, h2, by simp only [depthList]; omega⟩

/-- the contract of a visit function on trees of depth ≤ `d` -/
def Good (d : Nat) (visitF : Mode → FT → List Choice → FT × List Choice) : Prop :=
  ∀ m t cs, depth t ≤ d → B t → AO t → (m = .S → t.hidden = false) →
    B (visitF m t cs).1 ∧ AO (visitF m t cs).1 ∧ R t (visitF m t cs).1 ∧ (m = .L → (visitF m t cs).1.fin = true)

theorem steps_facts (d : Nat) (visitF : Mode → FT → List Choice → FT × List Choice) (hg : Good d visitF) :
    ∀ (n : Nat) (cs : List Choice), cs.length ≤ n → ∀ (kids : List FT), depthList kids ≤ d → BList kids → AOList kids →
      Rel kids (steps visitF kids cs).1 ∧ BList (steps visitF kids cs).1 ∧ AOList (steps visitF kids cs).1 := by
  intro n
  induction n with
  | zero =>
    intro cs hl kids hd hb ha
    cases cs with
    | nil => unfold steps; exact ⟨Rel.refl _, hb, ha⟩
    | cons c cs => simp at hl
  | succ n ih =>
    intro cs hl kids hd hb ha
    cases cs with
    | nil => unfold steps; exact ⟨Rel.refl _, hb, ha⟩
    | cons c cs =>
      have hlen : cs.length ≤ n := by simp at hl; omega
      cases c with
      | hit => unfold steps; exact ⟨Rel.refl _, hb, ha⟩
      | miss => unfold steps; exact ⟨Rel.refl _, hb, ha⟩
      | done => unfold steps; exact ⟨Rel.refl _, hb, ha⟩
      | step i m =>
        unfold steps
        cases hk : kids[i]? with
        | none => exact ih cs hlen kids hd hb ha
        | some k =>
          simp only
          split
          · exact ih cs hlen kids hd hb ha
          · rename_i hcond
            obtain ⟨hbk, hak, hdk⟩ := getElem_facts kids i k hk hb ha
            have hS : m = .S → k.hidden = false := by
              intro hm
              cases hh : k.hidden with
              | false => rfl
              | true => exact absurd ⟨hm, hh⟩ hcond
            obtain ⟨g1, g2, g3, _⟩ := hg m k cs (by omega) hbk hak hS
            obtain ⟨s1, s2, s3⟩ := set_facts kids i k _ hk g3 g1 g2 hb ha
            split
            · rename_i hle
              have hd' : depthList (kids.set i (visitF m k cs).1) ≤ d := by rw [Rel_depth s1]; exact hd
              obtain ⟨r1, r2, r3⟩ := ih (visitF m k cs).2 (by omega) _ hd' s2 s3
              exact ⟨s1.trans r1, r2, r3⟩
            · exact ⟨s1, s2, s3⟩

theorem visitAllL_facts (d : Nat) (visitF : Mode → FT → List Choice → FT × List Choice) (hg : Good d visitF) :
    ∀ (kids : List FT) (cs : List Choice), depthList kids ≤ d → BList kids → AOList kids →
      Rel kids (visitAllL visitF kids cs).1 ∧ BList (visitAllL visitF kids cs).1 ∧
      AOList (visitAllL visitF kids cs).1 ∧ allFin (visitAllL visitF kids cs).1 := by
  intro kids
  induction kids with
  | nil => intro cs _ _ _; exact ⟨trivial, trivial, trivial, trivial⟩
  | cons k ks ih =>
    intro cs hd hb ha
    simp only [depthList] at hd
    simp only [visitAllL]
    obtain ⟨g1, g2, g3, g4⟩ := hg .L k cs (by omega) hb.1 ha.1 (by intro h; cases h)
    obtain ⟨r1, r2, r3, r4⟩ := ih (visitF .L k cs).2 (by omega) hb.2 ha.2
    exact ⟨⟨g3, r1⟩, ⟨g1, r2⟩, ⟨g2, r3⟩, ⟨g4 rfl, r4⟩⟩

theorem store_hidden (m : Mode) (t : FT) : (store m t).hidden = t.hidden := by
  cases t; cases m <;> rfl
theorem store_depth (m : Mode) (t : FT) : depth (store m t) = depth t := by
  cases t; cases m <;> rfl

/-- the children of a recomputed box-generating node -/
theorem recompute_facts (d : Nat) (visitF : Mode → FT → List Choice → FT × List Choice) (hg : Good d visitF)
    (m : Mode) (kids : List FT) (cs : List Choice) (hd : depthList kids ≤ d) (hb : BList kids) (ha : AOList kids) :
    Rel kids (recompute visitF m kids cs).1 ∧ BList (recompute visitF m kids cs).1 ∧
    AOList (recompute visitF m kids cs).1 ∧ (m = .L → allFin (recompute visitF m kids cs).1) := by
  unfold recompute
  simp only
  obtain ⟨p1, p2, p3⟩ := steps_facts d visitF hg _ cs (Nat.le_refl _) kids hd hb ha
  have hd1 : depthList (steps visitF kids cs).1 ≤ d := by rw [Rel_depth p1]; exact hd
  cases m with
  | S =>
    simp only [finalPhase]
    obtain ⟨q1, q2, q3⟩ := steps_facts d visitF hg _ (dropDone (steps visitF kids cs).2) (Nat.le_refl _) _ hd1 p2 p3
    exact ⟨p1.trans q1, q2, q3, (by intro h; cases h)⟩
  | L =>
    simp only [finalPhase]
    obtain ⟨v1, v2, v3, v4⟩ := visitAllL_facts d visitF hg (steps visitF kids cs).1 (steps visitF kids cs).2 hd1 p2 p3
    have hd2 : depthList (visitAllL visitF (steps visitF kids cs).1 (steps visitF kids cs).2).1 ≤ d := by
      rw [Rel_depth v1]; exact hd1
    obtain ⟨q1, q2, q3⟩ := steps_facts d visitF hg _
      (dropDone (visitAllL visitF (steps visitF kids cs).1 (steps visitF kids cs).2).2) (Nat.le_refl _) _ hd2 v2 v3
    exact ⟨(p1.trans v1).trans q1, q2, q3, fun _ => Rel_allFin q1 v4⟩

/-- **the visit function meets its contract at every fuel** -/
theorem visit_good : ∀ fuel, Good fuel (visit fuel) := by
  intro fuel
  induction fuel with
  | zero =>
    intro m t cs hd _ _ _
    cases t with
    | node h f ms kids => simp [depth] at hd
  | succ fuel ih =>
    intro m t cs hd hb ha hS
    unfold visit
    split
    · -- hit
      rename_i hhit
      refine ⟨hb, ha, R.refl t, ?_⟩
      intro hm; subst hm
      simpa [canHit] using hhit.1
    · cases t with
      | node h f ms kids =>
        simp only [depth] at hd
        have hdk : depthList kids ≤ fuel := by omega
        simp only [B] at hb
        simp only [AO] at ha
        cases h with
        | true =>
          -- display:none: only reachable in PerformLayout mode
          have hm : m = .L := by
            cases m with
            | L => rfl
            | S => have := hS rfl; simp [FT.hidden] at this
          subst hm
          have hv := hvisitList_facts kids
          simp only [store]
          refine ⟨?_, ?_, ⟨rfl, fun _ => rfl, ?_⟩, fun _ => rfl⟩
          · simp only [B]; exact ⟨(by intro _ h; cases h), hv.2.1⟩
          · simp only [AO]; exact ⟨fun _ => ⟨(by simp), hv.1⟩, (by intro h; cases h)⟩
          · simp only [depth]; rw [hv.2.2]
        | false =>
          simp only
          have ha0 : AOList kids := by
            cases f with
            | true => exact AList_to_AOList kids (ha.1 rfl).2
            | false => exact ha.2 rfl
          obtain ⟨r1, r2, r3, r4⟩ := recompute_facts fuel (visit fuel) ih m kids (dropDecision cs) hdk hb.2 ha0
          cases m with
          | S =>
            simp only [store]
            refine ⟨?_, ?_, ⟨rfl, fun h => h, ?_⟩, (by intro h; cases h)⟩
            · simp only [B]
              exact ⟨fun hf _ => Rel_allFin r1 (hb.1 hf rfl), r2⟩
            · simp only [AO]
              refine ⟨fun hf => ⟨fun _ => hf, ?_⟩, fun _ => r3⟩
              exact AOList_allFin_AList _ r3 (Rel_allFin r1 (hb.1 hf rfl))
            · simp only [depth]; rw [Rel_depth r1]
          | L =>
            simp only [store]
            refine ⟨?_, ?_, ⟨rfl, fun _ => rfl, ?_⟩, fun _ => rfl⟩
            · simp only [B]; exact ⟨fun _ _ => r4 rfl, r2⟩
            · simp only [AO]
              exact ⟨fun _ => ⟨(by simp), AOList_allFin_AList _ r3 (r4 rfl)⟩, (by intro h; cases h)⟩
            · simp only [depth]; rw [Rel_depth r1]

/-! ### the property theorems -/

mutual
theorem KT_fin_Clean : ∀ t, B t → t.fin = true → Clean t
  | .node h f m kids, hb, hf => by
    simp only [FT.fin] at hf
    simp only [B] at hb
    simp only [Clean]
    exact ⟨hf, fun hh => allFin_CleanList kids hb.2 (hb.1 hf hh)⟩
theorem allFin_CleanList : ∀ l, BList l → allFin l → CleanList l
  | [], _, _ => trivial
  | t :: ts, hb, hf => ⟨KT_fin_Clean t hb.1 hf.1, allFin_CleanList ts hb.2 hf.2⟩
end

/-- **pass_preserves_K / pass_cleans**: for every choice stream, a pass from a root in a state satisfying the
invariant ends in a state satisfying the invariant in which the root and every node reachable from it without
passing *through* a `display:none` node has a final-layout entry, i.e. is clean; `display` flags are untouched. -/
theorem pass_cleans (t : FT) (cs : List Choice) (k : KT t) :
    KT (pass t cs) ∧ Clean (pass t cs) ∧ (pass t cs).hidden = t.hidden := by
  obtain ⟨g1, g2, g3, g4⟩ :=
    visit_good (depth t) .L t cs (Nat.le_refl _) k.2 (A_to_AO t k.1) (by intro h; cases h)
  unfold pass
  have hf := g4 rfl
  exact ⟨⟨AO_fin_A _ g2 hf, g1⟩, KT_fin_Clean _ g1 hf, g3.1⟩

/-- a clean node is not dirty -/
theorem Clean_not_dirty (t : FT) (h : Clean t) : t.dirty = false := by
  cases t with
  | node hd f m kids =>
    simp only [Clean] at h
    simp [FT.dirty, FT.fin, h.1]

/-- a pass on a clean root that hits is the identity: nothing below is visited (laziness) -/
theorem hit_is_identity (t : FT) (cs : List Choice) (hf : t.fin = true) :
    pass t (.hit :: cs) = t := by
  unfold pass
  cases t with
  | node h f m kids =>
    simp only [depth, visit, canHit, FT.fin] at hf ⊢
    simp [hf]

/-! ### non-vacuity -/
def exT : FT := .node false false false [.node false true true [], .node true false false [.node false true false []]]
example : KT exT := by
  simp only [KT, exT, A, AList, B, BList, allFin]
  decide
example : (pass exT [.miss, .step 0 .S, .done]).fin = true := by decide

end C15Pass
