/-
  C08 — Grid placement honours explicit lines and never overlaps auto-placed items.

  All theorems are about `GridPlacement.run` (Model/GridPlacement.lean): grid size estimate → occupancy matrix →
  `place_grid_items`, for **every** explicit track count, auto-flow mode, number of children and placement, and every
  fuel.  They are partial-correctness statements: *if* the run returns (`.ok r`) *then* the conclusion holds for `r`.
  That the run does return for inputs inside machine-integer range is the subject of C03 (Props/C03Grid.lean).
  Item areas are in origin-zero lines; `r.items` is in placement-record order.
-/
import TaffyVerif.Lemmas.GridPlacementCells

namespace C08
open GridPlacement Outcome

theorem estimateAxis_explicit {mn mx sp e : Int} {t : TrackCounts} (h : estimateAxis mn mx sp e = .ok t) :
    t.explicit = e := by
  simp only [estimateAxis, bind_eq, bind_eq_ok, pure_eq] at h
  obtain ⟨_, _, _, _, _, _, _, _, h⟩ := h
  simp only [Outcome.ok.injEq] at h
  rw [← h]

/-- unfolding of `run`: the initial matrix carries the given explicit counts -/
theorem run_unfold {fuel : Nat} {ec er : Int} {flow : AutoFlow} {children : List Child} {r : Result}
    (h : run fuel ec er flow children = .ok r) :
    ∃ (m : Matrix) (st : State), m.columns.explicit = ec ∧ m.rows.explicit = er ∧ MatrixWF m ∧
      placeGridItems fuel m (enumFrom 0 children) flow = .ok st ∧
      r = ⟨st.items.reverse, st.matrix.columns, st.matrix.rows⟩ := by
  simp only [run, bind_eq, bind_eq_ok, pure_eq] at h
  obtain ⟨⟨estCols, estRows⟩, hest, m, hm, st, hst, hr⟩ := h
  simp only [Outcome.ok.injEq] at hr
  simp only [computeGridSizeEstimate, bind_eq, bind_eq_ok, pure_eq, Outcome.ok.injEq, Prod.mk.injEq] at hest
  obtain ⟨k, _, cols, hc, rows, hr', rfl, rfl⟩ := hest
  obtain ⟨wf, hmc, hmr, _⟩ := withTrackCounts_wf hm
  refine ⟨m, st, ?_, ?_, wf, hst, hr.symm⟩
  · rw [hmc]; exact estimateAxis_explicit hc
  · rw [hmr]; exact estimateAxis_explicit hr'

/-- **area_nonempty_in_range**: every recorded item spans at least one track in each axis and lies inside the
final (reported) track counts of both axes. -/
theorem area_nonempty_in_range {fuel : Nat} {ec er : Int} {flow : AutoFlow} {children : List Child} {r : Result}
    (h : run fuel ec er flow children = .ok r) :
    ∀ it ∈ r.items, it.nonempty = true ∧ it.inRange r.columns r.rows = true := by
  obtain ⟨m, st, hec, her, wf, hst, rfl⟩ := run_unfold h
  have inv := invB_final hst
  intro it hit
  have hit' : it ∈ st.items := by simpa using hit
  obtain ⟨ch, oc, hfc, _, hc, hr⟩ := inv.honoured it hit'
  obtain ⟨⟨c1, c2⟩, ⟨r1, r2⟩⟩ := inv.inRange it hit'
  have l1 := axisOK_lt (intoOriginZero_spec hfc.2.1).1 hc
  have l2 := axisOK_lt (intoOriginZero_spec hfc.2.2).1 hr
  constructor
  · simp only [Item.nonempty, Bool.and_eq_true, decide_eq_true_eq]; exact ⟨l2, l1⟩
  · simp only [Item.inRange, Bool.and_eq_true, decide_eq_true_eq]; exact ⟨⟨⟨r1, r2⟩, c1⟩, c2⟩

/-- **explicit_lines_honoured**: every recorded item belongs to a child of the container and its area is, in each
axis, exactly what that child's style asks for: for a definite axis (a non-zero start or end line) both boundaries are
the ones `resolve_definite_grid_lines` derives from the lines / the span; for an indefinite axis the number of tracks
is the requested span (`span 0` counting as `span 1`, a missing span as 1). -/
theorem explicit_lines_honoured {fuel : Nat} {ec er : Int} {flow : AutoFlow} {children : List Child} {r : Result}
    (h : run fuel ec er flow children = .ok r) :
    ∀ it ∈ r.items, ∃ c, children[it.index]? = some c ∧
      axisHonoured c.row er it.row = true ∧ axisHonoured c.column ec it.column = true := by
  obtain ⟨m, st, hec, her, wf, hst, rfl⟩ := run_unfold h
  have inv := invB_final hst
  intro it hit
  have hit' : it ∈ st.items := by simpa using hit
  obtain ⟨ch, oc, hfc, hidx, hc, hr⟩ := inv.honoured it hit'
  obtain ⟨_, hget⟩ := mem_enumFrom hfc.1
  refine ⟨ch, by simpa [hidx] using hget, ?_, ?_⟩
  · rw [axisHonoured_iff]; exact ⟨_, her ▸ hfc.2.2, hr⟩
  · rw [axisHonoured_iff]; exact ⟨_, hec ▸ hfc.2.1, hc⟩

/-- the model-only `auto` flag of an item says whether its child needed auto-placement, i.e. is not definite in
both axes (phase 1 items carry `false`, phase 2 and 4 items `true`) -/
theorem auto_flag_spec {fuel : Nat} {ec er : Int} {flow : AutoFlow} {children : List Child} {r : Result}
    (h : run fuel ec er flow children = .ok r) :
    ∀ it ∈ r.items, ∃ c, children[it.index]? = some c ∧ it.auto = isAutoPlaced c := by
  obtain ⟨m, st, hec, her, wf, hst, rfl⟩ := run_unfold h
  have inv := invC_final wf hst
  intro it hit
  have hit' : it ∈ st.items := by simpa using hit
  obtain ⟨ch, hmem, hflag⟩ := inv.autoFlag it hit'
  obtain ⟨_, hget⟩ := mem_enumFrom hmem
  exact ⟨ch, by simpa using hget, hflag⟩

/-- **auto_items_disjoint**: the area of an auto-placed item (any item that is not definite in both axes) shares no
cell with the area of any other recorded item — whether that one was placed before or after it, definitely or
automatically.  Proved through the matrix invariant "every cell covered by a recorded item is marked occupied" and
the fact that an auto-placed item is only recorded on an area `line_area_is_unoccupied` reported free. -/
theorem auto_items_disjoint {fuel : Nat} {ec er : Int} {flow : AutoFlow} {children : List Child} {r : Result}
    (h : run fuel ec er flow children = .ok r) :
    ∀ (i j : Nat) (a b : Item), i ≠ j → r.items[i]? = some a → r.items[j]? = some b → a.auto = true →
      (∀ row col, InArea a.row a.column row col → ¬ InArea b.row b.column row col) ∧ a.overlaps b = false := by
  have hne := area_nonempty_in_range h
  obtain ⟨m, st, hec, her, wf, hst, rfl⟩ := run_unfold h
  have inv := invC_final wf hst
  have hp : st.items.reverse.Pairwise (fun older newer => Rel newer older) := List.pairwise_reverse.2 inv.pairwise
  rw [List.pairwise_iff_getElem] at hp
  intro i j a b hij ha hb hauto
  dsimp only at ha hb hne
  obtain ⟨hi, ha'⟩ := List.getElem?_eq_some_iff.1 ha
  obtain ⟨hj, hb'⟩ := List.getElem?_eq_some_iff.1 hb
  have cells : ∀ row col, InArea a.row a.column row col → ¬ InArea b.row b.column row col := by
    rcases Nat.lt_or_gt_of_ne hij with hlt | hgt
    · have := hp i j hi hj hlt
      rw [ha', hb'] at this
      intro row col h1 h2
      exact this.1 (this.2 hauto) row col h2 h1
    · have := hp j i hj hi hgt
      rw [ha', hb'] at this
      exact this.1 hauto
  refine ⟨cells, ?_⟩
  cases hov : a.overlaps b with
  | false => rfl
  | true =>
    obtain ⟨row, col, h1, h2⟩ := (overlaps_iff (hne a (List.mem_of_getElem? ha)).1
      (hne b (List.mem_of_getElem? hb)).1).1 hov
    exact absurd h2 (cells row col h1)

/-! #### what `axisHonoured` means for explicitly given lines -/

/-- a non-zero start line, with no non-zero end line, is exactly the start boundary -/
theorem start_line_exact {pl : Line Placement} {e n : Int} {a : Line Int} (h : axisHonoured pl e a = true)
    (hs : pl.start = .line n) (hn : n ≠ 0) (he : isNonzeroLine pl.«end» = false) :
    intoOriginZeroLine n e = .ok a.start := by
  obtain ⟨oz, hoz, hok⟩ := axisHonoured_iff.1 h
  obtain ⟨st, en⟩ := pl
  simp only at hs he
  subst hs
  simp only [intoOriginZero, intoOriginZeroPlacement, hn, ↓reduceIte, bind_eq, bind_eq_ok, pure_eq,
    Outcome.ok.injEq] at hoz
  obtain ⟨s, ⟨l, hl, rfl⟩, en', hen, rfl⟩ := hoz
  rw [hl]
  have hen' : ∀ k, en' ≠ .line k := by
    intro k hk
    have := (intoOriginZeroPlacement_spec hen).2
    rw [hk, he] at this
    simp [Placement.isLine] at this
  rcases hok with ⟨_, hres⟩ | ⟨hdef, _⟩
  · cases en' <;> simp only [resolveDefiniteGridLines, bind_eq, bind_eq_ok, pure_eq, Outcome.ok.injEq] at hres
    · obtain ⟨_, _, rfl⟩ := hres; rfl
    · exact absurd rfl (hen' _)
    · obtain ⟨_, _, rfl⟩ := hres; rfl
  · simp [isDefiniteOz] at hdef

/-- a non-zero end line, with no non-zero start line, is exactly the end boundary -/
theorem end_line_exact {pl : Line Placement} {e n : Int} {a : Line Int} (h : axisHonoured pl e a = true)
    (he : pl.«end» = .line n) (hn : n ≠ 0) (hs : isNonzeroLine pl.start = false) :
    intoOriginZeroLine n e = .ok a.«end» := by
  obtain ⟨oz, hoz, hok⟩ := axisHonoured_iff.1 h
  obtain ⟨st, en⟩ := pl
  simp only at hs he
  subst he
  simp only [intoOriginZero, intoOriginZeroPlacement, hn, ↓reduceIte, bind_eq, bind_eq_ok, pure_eq,
    Outcome.ok.injEq] at hoz
  obtain ⟨st', hst, en', ⟨l, hl, rfl⟩, rfl⟩ := hoz
  rw [hl]
  have hst' : ∀ k, st' ≠ .line k := by
    intro k hk
    have := (intoOriginZeroPlacement_spec hst).2
    rw [hk, hs] at this
    simp [Placement.isLine] at this
  rcases hok with ⟨_, hres⟩ | ⟨hdef, _⟩
  · cases st' <;> simp only [resolveDefiniteGridLines, bind_eq, bind_eq_ok, pure_eq, Outcome.ok.injEq] at hres
    · obtain ⟨_, _, rfl⟩ := hres; rfl
    · exact absurd rfl (hst' _)
    · obtain ⟨_, _, rfl⟩ := hres; rfl
  · cases st' <;> simp [isDefiniteOz] at hdef

/-- two non-zero lines are the two boundaries (swapped when the start line lies after the end line; the end line is
dropped when both coincide) -/
theorem both_lines_boundaries {pl : Line Placement} {e n1 n2 : Int} {a : Line Int} (h : axisHonoured pl e a = true)
    (hs : pl.start = .line n1) (he : pl.«end» = .line n2) (h1 : n1 ≠ 0) (h2 : n2 ≠ 0) :
    ∃ l1 l2, intoOriginZeroLine n1 e = .ok l1 ∧ intoOriginZeroLine n2 e = .ok l2 ∧
      a.start = min l1 l2 ∧ a.«end» = (if l1 = l2 then l1 + 1 else max l1 l2) := by
  obtain ⟨oz, hoz, hok⟩ := axisHonoured_iff.1 h
  obtain ⟨st, en⟩ := pl
  simp only at hs he
  subst hs he
  simp only [intoOriginZero, intoOriginZeroPlacement, h1, h2, ↓reduceIte, bind_eq, bind_eq_ok, pure_eq,
    Outcome.ok.injEq] at hoz
  obtain ⟨_, ⟨l1, hl1, rfl⟩, _, ⟨l2, hl2, rfl⟩, rfl⟩ := hoz
  refine ⟨l1, l2, hl1, hl2, ?_⟩
  rcases hok with ⟨_, hres⟩ | ⟨hdef, _⟩
  · simp only [resolveDefiniteGridLines] at hres
    split at hres
    · rename_i heq
      simp only [bind_eq, bind_eq_ok, pure_eq, Outcome.ok.injEq, ozAdd_eq_ok] at hres
      obtain ⟨_, ⟨rfl, _⟩, rfl⟩ := hres
      subst heq
      simp
    · rename_i hne
      simp only [pure_eq, Outcome.ok.injEq] at hres
      subst hres
      simp [hne]
  · simp [isDefiniteOz] at hdef

/-! ### non-vacuity: a concrete problem with items before and after the explicit grid, a swapped pair of lines,
`span 0`, line 0 and automatic items, placed under the sparse row flow -/

def exChildren : List Child := [
  ⟨⟨.line 3, .line 1⟩, ⟨.line (-4), .auto⟩⟩,      -- rows 1..3 (swapped), column before the explicit grid
  ⟨⟨.line 1, .auto⟩, ⟨.auto, .span 2⟩⟩,           -- definite row, automatic column, 2 wide
  ⟨⟨.span 0, .auto⟩, ⟨.line 0, .auto⟩⟩,           -- fully automatic (span 0 ⇒ 1, line 0 ⇒ auto)
  ⟨⟨.auto, .auto⟩, ⟨.line 4, .auto⟩⟩ ]            -- definite column after the explicit grid

def exResult : Result :=
  { items := [⟨0, ⟨0, 2⟩, ⟨-1, 0⟩, false⟩, ⟨1, ⟨0, 1⟩, ⟨0, 2⟩, true⟩, ⟨2, ⟨0, 1⟩, ⟨2, 3⟩, true⟩,
              ⟨3, ⟨0, 1⟩, ⟨3, 4⟩, true⟩],
    columns := ⟨1, 2, 2⟩, rows := ⟨0, 1, 1⟩ }

example : run 100 2 1 .row exChildren = .ok exResult := by decide
example : specFailure 2 1 exChildren exResult = none := by decide

end C08
