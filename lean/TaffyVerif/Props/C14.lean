/-
  C14 — Tree structure stays consistent under any sequence of structural edits.

  Model: `Model/SlotMap.lean` (the slotmap crate's algorithm) + `Model/Tree.lean` (TaffyTree's three slot maps and
  every structural method, panics and errors explicit). Reference spec: `Model/Forest.lean`.
  Histories are stacks, newest operation first, starting from `TaffyTree::new()`.

  `Pre t op` is the property's precondition on the caller: ids live; a node is attached by
  add_child / insert_child_at_index / replace_child_at_index / new_with_children only while detached;
  set_children's argument is duplicate-free (it may reparent); remove_child names an actual child;
  remove_children_range is in range (the out-of-range panic is C03's known finding); the slot map is not full.

  Main results (all for every finite history, no size bound):
    * `inv_runH`        every state reachable by a `Valid` history satisfies `Inv`: the three slot maps are
                        well-formed and in lock-step, child lists mention only live nodes, no list mentions a node
                        twice, and `parent(c) = Some(p)` exactly when `c ∈ children(p)`.
    * `no_panic`        no operation of a `Valid` history panics.
    * corollaries       the clauses of the statement, see each theorem; `spec_observers`: every observer answers what the
                        reference forest `abs t` answers; `created_id_never_seen_before`: removed ids are never reissued.
  NOTE (reported): the precondition of the statement does *not* exclude cycles — `add_child(a, b); add_child(b, a)`
  and even `add_child(a, a)` only attach detached nodes. `cycle_reachable` exhibits it. So "forest" (no node is its own
  ancestor) is not an invariant of the stated histories; everything else in the statement is.
-/
import TaffyVerif.Lemmas.Tree
import TaffyVerif.Lemmas.Fresh
import TaffyVerif.Model.Forest

namespace C14
open SlotMapModel TreeModel ForestSpec

/-- `c` is live and `parent(c) = None` -/
abbrev Detached (t : Tree) (c : Id) : Prop := t.parents.get c = some none

/-- the caller's obligations, per operation -/
def Pre (t : Tree) : Op → Prop
  | .newLeaf | .newLeafWithContext _ => t.nodes.slots.length < u32Max
  | .newWithChildren cs => t.nodes.slots.length < u32Max ∧ cs.Nodup ∧ ∀ c ∈ cs, Detached t c
  | .clear | .totalNodeCount | .getNodeContext _ => True
  | .remove n | .setNodeContext n _ | .parent n | .childCount n | .children n | .childAtIndex n _
  | .removeChildAtIndex n _ => t.live n
  | .addChild p c | .insertChildAtIndex p _ c | .replaceChildAtIndex p _ c => t.live p ∧ Detached t c
  | .setChildren p cs => t.live p ∧ cs.Nodup ∧ ∀ c ∈ cs, t.live c
  | .removeChild p c => ∃ l, t.children.get p = some l ∧ c ∈ l
  | .removeChildrenRange p a b => ∃ l, t.children.get p = some l ∧ a ≤ b ∧ b ≤ l.length

/-- a history in which every operation met its precondition in the state it was issued in -/
def Valid : List Op → Prop
  | [] => True
  | op :: h => Valid h ∧ Pre (runH h) op

/-! ### the invariant is preserved by every operation, and nothing panics -/

theorem step_inv {t : Tree} (inv : Inv t) (op : Op) (pre : Pre t op) :
    Inv (step t op).1 ∧ (step t op).2 ≠ .panic := by
  cases op with
  | newLeaf =>
    obtain ⟨t', k, h, i, _⟩ := newLeaf_ok inv pre
    simp only [step, h]; exact ⟨i, by simp⟩
  | newLeafWithContext x =>
    obtain ⟨t', k, h, i, _⟩ := newLeafWithContext_ok inv pre x
    simp only [step, h]; exact ⟨i, by simp⟩
  | newWithChildren cs =>
    obtain ⟨t', k, h, i, _⟩ := newWithChildren_ok inv pre.1 pre.2.1 pre.2.2
    simp only [step, h]; exact ⟨i, by simp⟩
  | clear => exact ⟨clear_inv inv, by simp [step, clear]⟩
  | remove n =>
    obtain ⟨t', h, i, _⟩ := remove_ok inv pre
    simp only [step, h]; exact ⟨i, by simp⟩
  | setNodeContext n x =>
    obtain ⟨h, i, _⟩ := setNodeContext_ok inv pre x
    simp only [step, h]; exact ⟨i, by simp⟩
  | getNodeContext n => exact ⟨inv, by simp [step, getNodeContext]⟩
  | addChild p c =>
    obtain ⟨l, hl⟩ := inv.kids_of_live pre.1
    simp only [step, addChild_run inv hl pre.2]
    exact ⟨addChild_inv inv hl pre.2, by simp⟩
  | insertChildAtIndex p i c =>
    obtain ⟨l, hl⟩ := inv.kids_of_live pre.1
    by_cases hi : i ≤ l.length
    · simp only [step, insertChild_run inv hl pre.2 hi]
      exact ⟨insertChild_inv inv i hl pre.2, by simp⟩
    · simp only [step, insertChild_err (c := c) hl (by omega : i > l.length)]
      exact ⟨inv, by simp⟩
  | setChildren p cs =>
    obtain ⟨t', old, _, h, i, _⟩ := setChildren_ok inv pre.1 pre.2.1 pre.2.2
    simp only [step, h]; exact ⟨i, by simp⟩
  | removeChild p c =>
    obtain ⟨l, hl, hc⟩ := pre
    obtain ⟨i, hi, h⟩ := removeChild_run inv hl hc
    simp only [step, h, removeChildAt_run inv hl hi]
    exact ⟨removeChildAt_inv inv hl hi, by simp⟩
  | removeChildAtIndex p i =>
    obtain ⟨l, hl⟩ := inv.kids_of_live pre
    cases hi : l[i]? with
    | some c =>
      simp only [step, removeChildAt_run inv hl hi]
      exact ⟨removeChildAt_inv inv hl hi, by simp⟩
    | none =>
      have : i ≥ l.length := by
        rcases Nat.lt_or_ge i l.length with h | h
        · rw [List.getElem?_eq_getElem h] at hi; cases hi
        · exact h
      simp only [step, removeChildAt_err hl this]
      exact ⟨inv, by simp⟩
  | removeChildrenRange p a b =>
    obtain ⟨l, hl, hab, hb⟩ := pre
    obtain ⟨pm, h1, h2, h3⟩ := removeRange_run inv hl hab hb
    simp only [step, h3]
    exact ⟨removeRange_inv inv hl hab h1 h2, by simp⟩
  | replaceChildAtIndex p i c =>
    obtain ⟨l, hl⟩ := inv.kids_of_live pre.1
    cases hi : l[i]? with
    | some old =>
      simp only [step, replaceChild_run inv hl pre.2 hi]
      exact ⟨replaceChild_inv inv hl pre.2 hi, by simp⟩
    | none =>
      have : i ≥ l.length := by
        rcases Nat.lt_or_ge i l.length with h | h
        · rw [List.getElem?_eq_getElem h] at hi; cases hi
        · exact h
      simp only [step, replaceChild_err (c := c) hl this]
      exact ⟨inv, by simp⟩
  | childAtIndex p i =>
    obtain ⟨l, hl⟩ := inv.kids_of_live pre
    simp only [step, childAtIndex, hl]
    split
    · exact ⟨inv, by simp⟩
    · rename_i h
      have hlt : i < l.length := by omega
      rw [List.getElem?_eq_getElem hlt]
      exact ⟨inv, by simp⟩
  | totalNodeCount => exact ⟨inv, by simp [step, totalNodeCount]⟩
  | childCount p =>
    obtain ⟨l, hl⟩ := inv.kids_of_live pre
    simp only [step, childCount, hl]; exact ⟨inv, by simp⟩
  | children p =>
    obtain ⟨l, hl⟩ := inv.kids_of_live pre
    simp only [step, children, hl]; exact ⟨inv, by simp⟩
  | parent n =>
    obtain ⟨o, ho⟩ := inv.par_of_live pre
    simp only [step, parent, ho]; exact ⟨inv, by simp⟩

/-- **Invariant for all histories.** -/
theorem inv_runH : ∀ (h : List Op), Valid h → Inv (runH h)
  | [], _ => inv_new
  | op :: h, hv => (step_inv (inv_runH h hv.1) op hv.2).1

/-- no operation of a valid history panics -/
theorem no_panic (h : List Op) (op : Op) (hv : Valid (op :: h)) : (step (runH h) op).2 ≠ .panic :=
  (step_inv (inv_runH h hv.1) op hv.2).2

example : Valid [.removeChildAtIndex ⟨3, 1⟩ 0, .insertChildAtIndex ⟨3, 1⟩ 0 ⟨2, 3⟩, .newLeaf, .remove ⟨2, 1⟩,
    .newWithChildren [⟨1, 1⟩], .newLeaf, .newLeaf] := by
  simp only [Valid, Pre, Detached, Tree.live]
  decide

/-! ### corollaries: the clauses of the statement -/

/-- the three maps always have identical key sets -/
theorem lock_step {h : List Op} (hv : Valid h) (k : Id) :
    ((runH h).children.get k).isSome = ((runH h).nodes.get k).isSome ∧
    ((runH h).parents.get k).isSome = ((runH h).nodes.get k).isSome :=
  ⟨(inv_runH h hv).liveC k, (inv_runH h hv).liveP k⟩

/-- `parent()` agrees with `children()`: `parent(c) = Some(p)` iff `c` is listed by `p` -/
theorem parent_agrees {t : Tree} (inv : Inv t) (c p : Id) :
    (step t (.parent c)).2 = .ok (.optId (some p)) ↔ ∃ l, (step t (.children p)).2 = .ok (.ids l) ∧ c ∈ l := by
  have h := inv.parIff c p
  simp only [step, parent, children]
  constructor
  · intro hp
    cases ho : t.parents.get c with
    | none => rw [ho] at hp; cases hp
    | some o =>
      rw [ho] at hp; simp only [Out.ok.injEq, Val.optId.injEq] at hp
      subst hp
      obtain ⟨l, hl, hc⟩ := h.mp ho
      exact ⟨l, by rw [hl], hc⟩
  · rintro ⟨l, hl, hc⟩
    cases hk : t.children.get p with
    | none => rw [hk] at hl; cases hl
    | some l0 =>
      rw [hk] at hl; simp only [Out.ok.injEq, Val.ids.injEq] at hl
      subst hl
      rw [h.mpr ⟨l0, hk, hc⟩]

/-- each node occurs at most once over all child lists: in one list only, and there only once -/
theorem occurs_once {t : Tree} (inv : Inv t) {c p q : Id} {l l' : List Id}
    (h1 : t.children.get p = some l) (hc1 : c ∈ l) (h2 : t.children.get q = some l') (hc2 : c ∈ l') :
    p = q ∧ l.count c = 1 := by
  refine ⟨inv.unique_parent h1 hc1 h2 hc2, ?_⟩
  have h3 := List.nodup_iff_count.mp (inv.nodup p l h1) c
  have h4 := List.count_pos_iff.mpr hc1
  omega

/-- an inserted child sits exactly at the requested position, in exactly its parent's list, and `parent` agrees -/
theorem insert_position {t : Tree} (inv : Inv t) {p c : Id} {i : Nat} {l : List Id} (hl : t.children.get p = some l)
    (hc : Detached t c) (hi : i ≤ l.length) :
    (step t (.insertChildAtIndex p i c)).2 = .ok .unit ∧
    (step t (.insertChildAtIndex p i c)).1.children.get p = some (l.take i ++ c :: l.drop i) ∧
    (l.take i ++ c :: l.drop i)[i]? = some c ∧
    (step t (.insertChildAtIndex p i c)).1.parents.get c = some (some p) := by
  simp only [step, insertChild_run inv hl hc hi]
  refine ⟨by trivial, ?_, ?_, ?_⟩
  · rw [get_set]; simp [hl]
  · rw [List.getElem?_append_right (by simp; omega)]; simp [Nat.min_eq_left hi]
  · rw [get_set]; simp [hc]

/-- `add_child` appends at the end -/
theorem add_child_position {t : Tree} (inv : Inv t) {p c : Id} {l : List Id} (hl : t.children.get p = some l)
    (hc : Detached t c) :
    (step t (.addChild p c)).2 = .ok .unit ∧ (step t (.addChild p c)).1.children.get p = some (l ++ [c]) ∧
    (step t (.addChild p c)).1.parents.get c = some (some p) := by
  simp only [step, addChild_run inv hl hc]
  refine ⟨by trivial, ?_, ?_⟩
  · rw [get_set]; simp [hl]
  · rw [get_set]; simp [hc]

/-- `child_count` is the length of `children`, and `child_at_index` reads that list (or reports the index error) -/
theorem observers_agree {t : Tree} {p : Id} {l : List Id} (hl : t.children.get p = some l) (i : Nat) :
    (step t (.children p)).2 = .ok (.ids l) ∧ (step t (.childCount p)).2 = .ok (.nat l.length) ∧
    (step t (.childAtIndex p i)).2 =
      (match l[i]? with
       | some c => .ok (.id c)
       | none => .err (.childIndexOutOfBounds p i l.length)) := by
  refine ⟨by simp [step, children, hl], by simp [step, childCount, hl], ?_⟩
  simp only [step, childAtIndex, hl]
  by_cases h : i ≥ l.length
  · simp [h, List.getElem?_eq_none h]
  · have hlt : i < l.length := by omega
    simp [h, List.getElem?_eq_getElem hlt]

/-- `total_node_count` is the number of live nodes (`nodes.keys` lists each live id exactly once) -/
theorem total_node_count_eq_live {t : Tree} (inv : Inv t) :
    (step t .totalNodeCount).2 = .ok (.nat t.nodes.keys.length) ∧ t.nodes.keys.Nodup ∧
    ∀ k, k ∈ t.nodes.keys ↔ t.live k := by
  refine ⟨?_, keys_nodup _, fun k => mem_keys _ k⟩
  simp only [step, totalNodeCount]
  rw [inv.wfN.len_eq]

/-- a removed node is gone from all three maps and from every child list; its children become roots -/
theorem remove_effect {t : Tree} (inv : Inv t) {n : Id} (hn : t.live n) :
    (step t (.remove n)).2 = .ok (.id n) ∧
    ¬ (step t (.remove n)).1.live n ∧
    (step t (.remove n)).1.children.get n = none ∧ (step t (.remove n)).1.parents.get n = none ∧
    (∀ q l, (step t (.remove n)).1.children.get q = some l → n ∉ l) ∧
    (∀ c, c ≠ n → t.parents.get c = some (some n) → (step t (.remove n)).1.parents.get c = some none) ∧
    (∀ k, k ≠ n → ((step t (.remove n)).1.live k ↔ t.live k)) := by
  obtain ⟨t', h, _, gN, gC, gP⟩ := remove_ok inv hn
  simp only [step, h]
  refine ⟨by trivial, ?_, by rw [gC]; simp, by rw [gP]; simp, ?_, ?_, ?_⟩
  · simp [Tree.live, gN]
  · intro q l hq hnl
    rw [gC] at hq
    split at hq
    · cases hq
    · cases hk : t.children.get q with
      | none => rw [hk] at hq; cases hq
      | some l0 =>
        rw [hk] at hq; simp only [Option.map_some, Option.some.injEq] at hq
        subst hq; simp at hnl
  · intro c hc hp
    rw [gP, hp]; simp [hc]
  · intro k hk
    simp [Tree.live, gN, hk]

/-- every index-error path leaves the tree untouched — for every state and every operation, no precondition -/
theorem index_error_unchanged (t : Tree) (op : Op) (e : Err) (h : (step t op).2 = .err e) : (step t op).1 = t :=
  err_unchanged t op e h

/-- the index errors are reported exactly when the index is out of bounds, with the right payload -/
theorem index_error_iff {t : Tree} {p c : Id} {l : List Id} (hl : t.children.get p = some l) (i : Nat) :
    (i > l.length → step t (.insertChildAtIndex p i c) = (t, .err (.childIndexOutOfBounds p i l.length))) ∧
    (i ≥ l.length → step t (.removeChildAtIndex p i) = (t, .err (.childIndexOutOfBounds p i l.length))) ∧
    (i ≥ l.length → step t (.replaceChildAtIndex p i c) = (t, .err (.childIndexOutOfBounds p i l.length))) ∧
    (i ≥ l.length → step t (.childAtIndex p i) = (t, .err (.childIndexOutOfBounds p i l.length))) := by
  refine ⟨fun h => insertChild_err hl h, fun h => removeChildAt_err hl h, fun h => replaceChild_err hl h, fun h => ?_⟩
  simp [step, childAtIndex, hl, h]

/-- `set_children` installs exactly the requested list, removes the new children from every other list
    (reparenting), detaches the old children that were not requested again, and `parent` agrees -/
theorem set_children_effect {t : Tree} (inv : Inv t) {p : Id} {cs : List Id} (hp : t.live p) (hnd : cs.Nodup)
    (hlive : ∀ c ∈ cs, t.live c) :
    (step t (.setChildren p cs)).2 = .ok .unit ∧
    (step t (.setChildren p cs)).1.children.get p = some cs ∧
    (∀ q, q ≠ p → (step t (.setChildren p cs)).1.children.get q =
      (t.children.get q).map (fun l => l.filter (fun x => decide (x ∉ cs)))) ∧
    (∀ c ∈ cs, (step t (.setChildren p cs)).1.parents.get c = some (some p)) := by
  obtain ⟨t', old, _, h, _, _, gC, gP⟩ := setChildren_ok inv hp hnd hlive
  simp only [step, h]
  refine ⟨by trivial, by rw [gC]; simp, fun q hq => by rw [gC]; simp [hq], fun c hc => ?_⟩
  obtain ⟨o, ho⟩ := inv.par_of_live (hlive c hc)
  rw [gP, ho]; simp [hc]

/-- freshly created ids are new, odd-versioned, detached and childless -/
theorem new_leaf_effect {t : Tree} (inv : Inv t) (hfull : t.nodes.slots.length < u32Max) :
    ∃ k, (step t .newLeaf).2 = .ok (.id k) ∧ ¬ t.live k ∧ k.version % 2 = 1 ∧ (step t .newLeaf).1.live k ∧
      (step t .newLeaf).1.children.get k = some [] ∧ (step t .newLeaf).1.parents.get k = some none ∧
      ∀ x, x ≠ k → ((step t .newLeaf).1.live x ↔ t.live x) := by
  obtain ⟨t', k, h, _, hk, hodd, gN, gC, gP⟩ := newLeaf_ok inv hfull
  refine ⟨k, by simp only [step, h], by simp [Tree.live, hk], hodd, ?_, ?_, ?_, ?_⟩
  · simp only [step, h, Tree.live, gN]; simp
  · simp only [step, h, gC]; simp
  · simp only [step, h, gP]; simp
  · intro x hx; simp only [step, h, Tree.live, gN]; simp [hx]

/-- **A removed id is never handed out again** (the version bump on removal): for every history — valid or not —
    shorter than 2^32 − 1 operations (so that no slot's 32-bit version counter can have wrapped), an id returned by a
    creating operation was not live at any earlier point of the history. -/
theorem created_id_never_seen_before (h : List Op) (op : Op) (hlen : (op :: h).length < u32Max)
    (k : Id) (hk : (step (runH h) op).2 = .ok (.id k)) (hcreate : op = .newLeaf ∨ (∃ x, op = .newLeafWithContext x) ∨
      ∃ cs, op = .newWithChildren cs) :
    ∀ h', h' <:+ h → ¬ (runH h').live k :=
  Fresh.created_never_live_before h op hlen k hk hcreate

/-- slot reuse really happens: the slot of a removed node is handed out again with a bumped version -/
example : (step (runH [.remove ⟨1, 1⟩, .newLeaf, .newLeaf]) .newLeaf).2 = .ok (.id ⟨1, 3⟩) := by decide

/-- the forest a tree state denotes: live ids in slot order, each with its child list -/
def abs (t : Tree) : Forest := { live := t.nodes.keys, kids := fun k => (t.children.get k).getD [] }

/-- **Observational refinement.** In every state satisfying `Inv`, each observer of the tree
    (`children`, `child_count`, `child_at_index`, `parent`, `total_node_count`) answers exactly what the reference
    forest `abs t` answers. -/
theorem spec_observers {t : Tree} (inv : Inv t) (p : Id) (hp : t.live p) (i : Nat) :
    (step t (.children p)).2 = (specStep (abs t) ⟨0, 0⟩ (.children p)).2 ∧
    (step t (.childCount p)).2 = (specStep (abs t) ⟨0, 0⟩ (.childCount p)).2 ∧
    (step t (.childAtIndex p i)).2 = (specStep (abs t) ⟨0, 0⟩ (.childAtIndex p i)).2 ∧
    (step t (.parent p)).2 = (specStep (abs t) ⟨0, 0⟩ (.parent p)).2 ∧
    (step t .totalNodeCount).2 = (specStep (abs t) ⟨0, 0⟩ .totalNodeCount).2 := by
  obtain ⟨l, hl⟩ := inv.kids_of_live hp
  obtain ⟨o, ho⟩ := inv.par_of_live hp
  obtain ⟨h1, h2, h3⟩ := observers_agree hl i
  have hk : (abs t).kids p = l := by simp [abs, hl]
  refine ⟨?_, ?_, ?_, ?_, ?_⟩
  · rw [h1]; simp [specStep, hk]
  · rw [h2]; simp [specStep, hk]
  · rw [h3]; simp only [specStep, hk]
    cases l[i]? <;> rfl
  · simp only [step, parent, ho, specStep, Forest.parentOf]
    congr 2
    cases o with
    | none =>
      symm
      rw [List.find?_eq_none]
      intro q _ hq0
      have hq : p ∈ (t.children.get q).getD [] := of_decide_eq_true hq0
      cases hq2 : t.children.get q with
      | none => simp [hq2] at hq
      | some lq =>
        simp only [hq2, Option.getD_some] at hq
        have := inv.par_of_mem hq2 hq
        rw [ho] at this; cases this
    | some q0 =>
      symm
      obtain ⟨lq, hlq, hpl⟩ := (inv.parIff p q0).mp ho
      apply find?_unique
      · show q0 ∈ t.nodes.keys
        rw [mem_keys]; exact inv.live_of_kids hlq
      · simp [abs, hlq, hpl]
      · intro q _ hq0
        have hq : p ∈ (t.children.get q).getD [] := of_decide_eq_true hq0
        cases hq2 : t.children.get q with
        | none => simp [hq2] at hq
        | some lq2 =>
          simp only [hq2, Option.getD_some] at hq
          exact inv.unique_parent hq2 hq hlq hpl
  · rw [(total_node_count_eq_live inv).1]; simp [specStep, abs]


/-- non-vacuity: a reachable state with a non-empty child list -/
example : (runH [.addChild ⟨1, 1⟩ ⟨2, 1⟩, .newLeaf, .newLeaf]).live ⟨1, 1⟩ ∧
    (abs (runH [.addChild ⟨1, 1⟩ ⟨2, 1⟩, .newLeaf, .newLeaf])).kids ⟨1, 1⟩ = [⟨2, 1⟩] := by
  simp only [Tree.live, abs]; decide

/-- the stated precondition does not exclude cycles: after `add_child(a, b); add_child(b, a)` each is the other's parent -/
theorem cycle_reachable :
    let h : List Op := [.addChild ⟨2, 1⟩ ⟨1, 1⟩, .addChild ⟨1, 1⟩ ⟨2, 1⟩, .newLeaf, .newLeaf]
    Valid h ∧ (runH h).parents.get ⟨1, 1⟩ = some (some ⟨2, 1⟩) ∧ (runH h).parents.get ⟨2, 1⟩ = some (some ⟨1, 1⟩) := by
  refine ⟨?_, by decide, by decide⟩
  simp only [Valid, Pre, Detached, Tree.live]
  decide

end C14
