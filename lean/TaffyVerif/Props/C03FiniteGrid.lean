/-
  C03 — finiteness at the extended numbers `ER`, part 3: the GRID program (`Model/Grid.lean` = src/compute/grid/mod.rs with
  `GridItem`, `GridSizing`, `GridTracksInit`, `FrSize`, `Alignment`, `AbsPos.absGrid`).

  State of this file (see the report of task Y): the grid program is walked stage by stage
  (`EvalGrid.gridSetupK ▸ gridMain ▸ gridStep7 ▸ gridTail`).  PROVED, for all inputs:
    * step 1 (`mkCtx`); steps 2–5 (`initialize_grid_tracks`: `grid_initialize_tracks_finite`; `GridItem::new`, the track
      indexes, the crossing flags); the item layer (available space, known dimensions, `min/max_content_contribution` and
      their caches); step 7's re-run tests (`minContentChanged`, `clearCaches`, the re-resolution of percentage tracks);
      steps 8–9 (`align_tracks`, `align_and_position_item`, both positioning loops, the container baseline, the output);
    * of one run of `track_sizing_algorithm`: 11.4 `initialize_track_sizes`, 11.5.1 `resolve_item_baselines`, the gutter
      adjustment, 11.7 `expand_flexible_tracks` (with `find_size_of_fr` and the max-content queries), 11.8
      `stretch_auto_tracks` (`grid_sizing_finite_of_parts`);
    * the assembly of `compute_grid_layout` from all of this: `grid_finite_partial`, `algFin_grid_partial`.
    * 11.6 `maximise_tracks` (`grid_maximise_tracks_finite`) and every distribution function:
      `distribute_space_up_to_limits` (generic in its closures), `distribute_item_space_to_base_size`,
      `distribute_item_space_to_growth_limit`, their application to an item's slice (`distBase`, `distGrowth`), the flushes.
      With this EVERY DIVISION of the grid program is covered.
    * 11.5 `resolve_intrinsic_track_sizes` (`grid_intrinsic_sizes_finite`): the `IntrisicSizeMeasurer` queries with
      `GridItem::minimum_contribution`, the span-1 fast path, the general path of a batch, the `ItemBatcher` loop.
  So NOTHING of the grid program is left as a hypothesis: `grid_finite_partial` is unconditional in the algorithm.
  Goal 2, the all-trees theorems (every style tree: leaf, block, flexbox, grid): `eval_finite_all_trees_partial`,
  `root_pass_finite_all_trees_partial`, `relayout_finite_all_trees_partial`, under `TreeFin` and `TreeGridOK` (the grid
  fields of every node finite; no `space-between` content alignment — asked of every node, used at grid containers only).
  `GridCalm` is NOT needed: a panicking grid run is the hidden output in the model and sets no further layout.

  Side conditions the proofs force, beyond `StyleFin` of C03Finite.lean:
    * the grid fields of the container (`GridStyleFin` / `GridExtFin`): every length, percentage and flex factor of every
      track sizing function finite.  (Without it the statement is trivially false: `grid-template-columns: ∞px`.)
    * growth limits are `Ext` values (`+∞` explicit, `ExtFin`): they never enter arithmetic in the model, and steps 8–9
      read only `offset` and `base_size`.
    * NEITHER `align-content` NOR `justify-content` IS `space-between` (`GridStyleFin.alignNSB/justifyNSB`).  This is what the
      gutter adjustment forces (below): for `space-between` the divisor is 0 exactly when the other axis' track vector has
      3 entries (harmless: the value is dropped) or 4 entries (it would be written).  A vector of 4 entries does not exist in
      a real run — `initialize_grid_tracks` creates `2·n + 1` (`grid_initialize_tracks_odd`) and every step of track sizing
      keeps the length PROVIDED every item's track range is non-empty and inside the vector (`EvalGrid`'s
      `GSafe_trackSizingAlgorithmM`, `RunQ`, under `AllR`) — but that length invariant needs the item-index invariant of the
      `GridCalm` theorems threaded through the four runs, which is NOT done here; `grid_gutter_step_finite` is the lemma
      that will consume it.  So `space-between` grids are outside `grid_finite_partial` for now (no witness of a defect:
      `grid_gutter_adjustment_division_by_zero_dropped` is the only division by zero found, and it is harmless).
  Divisions met so far:
    * `compute_alignment_offset` (`/2`, `/n`, `/(n−1)`, `/(n+1)`): safe, because `apply_alignment_fallback` leaves a
      distributed mode in place only with ≥ 2 tracks (`C03Fin.fallback_space`);
    * `align_item_within_area` (`/ num_auto_margins`, `/2`): as for block/flex;
    * `compute_alignment_gutter_adjustment`: `free_space / weighted_track_count` IS a division by zero for a one-track axis
      with `space-between` (`weighted_track_count = ((3−3)/2)·1 + 2·0 = 0`): the real code computes `x / 0.0 = ∞` (or
      `0/0 = NaN`) there, but the value is only written to the gutters of an axis with more than one track
      (`tracks.len() > 3`): it reaches nothing — `grid_gutter_adjustment_division_by_zero_dropped`.  (For a vector of 4
      entries the zero divisor WOULD be written; such a vector does not exist: odd length.)
    * `find_size_of_fr`: `leftover / max(flex_factor_sum, 1)`; `expand_flexible_tracks`: `base_size / flex_factor` only
      under `flex_factor > 1`; `stretch_auto_tracks`: `free / n` under `n > 0`.
    * percentage tracks against an indefinite size resolve to `None` (treated as `auto`), `fit-content(%)` to the explicit
      `+∞` limit: no number is produced.
-/
import TaffyVerif.Lemmas.FiniteGridEval
import TaffyVerif.Props.C03FiniteFlex

namespace C03Finite
open C03Fin GridModel GridTracks EvalGrid

/-- the container view of a finite style: the shared fields and every track sizing function finite -/
structure GridStyleFin (g : GridStyle ER) : Prop where
  base : StyleFin g.base
  templateRows : ∀ d ∈ g.gridTemplateRows, TrackDefFin d
  templateColumns : ∀ d ∈ g.gridTemplateColumns, TrackDefFin d
  autoRows : ∀ f ∈ g.gridAutoRows, TrackFnFin f
  autoColumns : ∀ f ∈ g.gridAutoColumns, TrackFnFin f
  /-- neither `align-content` nor `justify-content` is `space-between` (see the header: the gutter adjustment) -/
  alignNSB : g.base.alignContent ≠ some .spaceBetween
  justifyNSB : g.base.justifyContent ≠ some .spaceBetween

theorem getD_ne_spaceBetween {o : Option AlignContent} (h : o ≠ some .spaceBetween) :
    o.getD .stretch ≠ .spaceBetween := by
  intro e
  apply h
  cases o with
  | none => cases e
  | some v => simp only [Option.getD_some] at e; rw [e]

theorem fin_style_default : StyleFin (Style.default : Style ER) := by
  constructor <;> simp [Style.default, fin_simp, RLPAFin, RLPFin, SLPAFin, SLPFin, zero_def, one_def]

section
variable [NumCast ER]

/-- `compute_grid_layout` before the panic is mapped away: relative to `SizingFin` and `InitTracksFin` -/
theorem grid_finiteE_of_sizing_partial (hT : SizingFin) (hI : InitTracksFin) (style : GridStyle ER)
    (cs : List (GridChildStyle ER)) (inputs : LayoutInput ER) (hs : GridStyleFin style)
    (hcs : ∀ c ∈ cs, StyleFin c.base) (hi : InFin inputs) : FinG OutFin (computeGridLayoutE style cs inputs) := by
  have hctx := fin_mkCtx hs.base hi
  unfold computeGridLayoutE
  simp only []
  split
  · rename_i width height e1 e2 e3
    exact FinG_pure (fin_fromOuterSize ⟨OFin.of_some hctx.outerNodeSize.1 e2, OFin.of_some hctx.outerNodeSize.2 e3⟩)
  · show FinG OutFin (gridSetupK style cs inputs (gridMain style cs inputs))
    exact FinG_gridSetupK hI hs.base hs.templateRows hs.templateColumns hs.autoRows hs.autoColumns hcs fin_style_default
      fun su hsu => FinG_gridMain hT hs.base hcs hi
        ⟨getD_ne_spaceBetween hs.alignNSB, getD_ne_spaceBetween hs.justifyNSB⟩ hsu

/-- **grid_finite_of_sizing_partial**: `compute_grid_layout` for a finite container style (grid fields included), finite
child styles and a finite input, the children's answers universally quantified over finite outputs: every `LayoutInput`
passed to a child, every `Layout` set and the output are finite on every run — GIVEN that one run of
`track_sizing_algorithm` keeps tracks and items finite (`SizingFin`) and that `initialize_grid_tracks` produces finite
tracks (`InitTracksFin`).  Everything else of the grid program is walked. -/
theorem grid_finite_of_sizing_partial (hT : SizingFin) (hI : InitTracksFin) (style : GridStyle ER)
    (cs : List (GridChildStyle ER)) (inputs : LayoutInput ER) (hs : GridStyleFin style)
    (hcs : ∀ c ∈ cs, StyleFin c.base) (hi : InFin inputs) : FinP OutFin (computeGridLayout style cs inputs) := by
  unfold computeGridLayout
  refine FinP_bind (fun r hr => ?_) (grid_finiteE_of_sizing_partial hT hI style cs inputs hs hcs hi)
  cases r with
  | ok out => exact hr out rfl
  | error e => exact fin_out_hidden

/-- the same for `gridAlg` (the grid fields read from `Style.grid`) -/
theorem algFin_grid_of_sizing_partial (hT : SizingFin) (hI : InitTracksFin) (s : Style ER) (cs : List (Style ER))
    (inp : LayoutInput ER) (hs : StyleFin s) (hg : GridExtFin s.grid) (ha : s.alignContent ≠ some .spaceBetween)
    (hj : s.justifyContent ≠ some .spaceBetween) (hcs : StylesFin cs) (hi : InFin inp) :
    FinP OutFin (gridAlg s cs inp) := by
  unfold gridAlg
  refine grid_finite_of_sizing_partial hT hI _ _ inp ⟨hs, hg.templateRows, hg.templateColumns, hg.autoRows,
    hg.autoColumns, ha, hj⟩ ?_ hi
  intro c hc
  obtain ⟨s', hs', rfl⟩ := List.mem_map.mp hc
  exact hcs s' hs'

end

/-- **grid_sizing_finite_of_parts**: one run of `track_sizing_algorithm` keeps tracks and items finite and asks only finite
queries, given its two parts with distribution loops (11.5, 11.6) -/
theorem grid_sizing_finite_of_parts (hI : IntrinsicFin) (hM : MaximiseFin) : SizingFin := sizingFin_of_parts hI hM

/-- **grid_maximise_tracks_finite**: 11.6 `maximise_tracks` (with `distribute_space_up_to_limits`) -/
theorem grid_maximise_tracks_finite : MaximiseFin := maximiseFin

/-- one run of `track_sizing_algorithm`, relative to 11.5 only -/
theorem grid_sizing_finite_of_intrinsic (hI : IntrinsicFin) : SizingFin := sizingFin_of_parts hI maximiseFin

/-- **grid_intrinsic_sizes_finite**: 11.5 `resolve_intrinsic_track_sizes` -/
theorem grid_intrinsic_sizes_finite : IntrinsicFin := intrinsicFin

/-- **grid_sizing_finite**: one run of `track_sizing_algorithm` (the other axis' alignment not `space-between`): finite
arguments, tracks and items ⇒ only finite queries, finite tracks and items -/
theorem grid_sizing_finite : SizingFin := sizingFin_of_parts intrinsicFin maximiseFin

/-- **grid_initialize_tracks_finite**: `initialize_grid_tracks` creates finite tracks, `2·n + 1` of them -/
theorem grid_initialize_tracks_finite : InitTracksFin := initTracksFin

/-- … and the vector has `2·n + 1` entries -/
theorem grid_initialize_tracks_odd (counts : TrackCounts) (tpl : List (TrackDef ER)) (autoTracks : List (TrackFn ER))
    (gap : LP ER) (has : Nat → Bool) (ts : List (GridTrack ER)) (htpl : ∀ d ∈ tpl, TrackDefFin d)
    (hauto : ∀ f ∈ autoTracks, TrackFnFin f) (hg : LPFin gap)
    (h : initializeGridTracks counts tpl autoTracks gap has = Except.ok ts) : TracksFin ts ∧ ts.length % 2 = 1 :=
  initTracksFin_odd counts tpl autoTracks gap has ts htpl hauto hg h

section
variable [NumCast ER]

/-- **grid_finite_partial**: `compute_grid_layout` for a finite container style (grid fields included), finite child
styles and a finite input, the children's answers universally quantified over finite outputs: every `LayoutInput` passed to
a child, every `Layout` set and the output are finite on every run (a panicking run sets nothing further and returns the
hidden output).  `_partial`: the aspect ratios are non-zero (`StyleFin`, the finding of C03Finite.lean) and neither content
alignment is `space-between` (see the header) -/
theorem grid_finite_partial (style : GridStyle ER)
    (cs : List (GridChildStyle ER)) (inputs : LayoutInput ER) (hs : GridStyleFin style)
    (hcs : ∀ c ∈ cs, StyleFin c.base) (hi : InFin inputs) : FinP OutFin (computeGridLayout style cs inputs) :=
  grid_finite_of_sizing_partial grid_sizing_finite initTracksFin style cs inputs hs hcs hi

/-- **algFin_grid_partial**: the same for `gridAlg` (the evaluator's grid algorithm; grid fields read from `Style.grid`) -/
theorem algFin_grid_partial (s : Style ER) (cs : List (Style ER))
    (inp : LayoutInput ER) (hs : StyleFin s) (hg : GridExtFin s.grid) (ha : s.alignContent ≠ some .spaceBetween)
    (hj : s.justifyContent ≠ some .spaceBetween) (hcs : StylesFin cs) (hi : InFin inp) :
    FinP OutFin (gridAlg s cs inp) :=
  algFin_grid_of_sizing_partial grid_sizing_finite initTracksFin s cs inp hs hg ha hj hcs hi

end

/-! ### the stages that are walked, as statements of their own -/

/-- step 1: the container's own sizes -/
theorem grid_ctx_finite (s : Style ER) (inputs : LayoutInput ER) (hs : StyleFin s) (hi : InFin inputs) :
    CtxFin (mkCtx s inputs) := fin_mkCtx hs hi

/-- `align_tracks` -/
theorem grid_align_tracks_finite (cb ps bs : ER) (ts : List (GridTrack ER)) (style : AlignContent) (hcb : IsFin cb)
    (hps : IsFin ps) (hbs : IsFin bs) (h : TracksFin ts) : TracksFin (alignTracks cb ps bs ts style) :=
  fin_alignTracks hcb hps hbs h

/-- alignment.rs `align_and_position_item` as an interaction program (in-flow and absolutely positioned children) -/
theorem grid_align_and_position_item_finite (node order : Nat) (cs : Style ER) (ga : Rect ER)
    (ji ai : Option AlignItems) (shim : ER) (hs : StyleFin cs) (hga : RFin ga) (hshim : IsFin shim) :
    FinG (fun r => SFin r.1 ∧ IsFin r.2.1 ∧ IsFin r.2.2) (alignAndPositionItem node cs order ga ji ai shim) :=
  FinG_alignAndPositionItem hs hga hshim

/-- steps 8–9 -/
theorem grid_tail_finite (c : Ctx ER) (cs : List (GridChildStyle ER)) (bb cb : Size ER)
    (cc rc : GridPlacement.TrackCounts) (cols rows : List (GridTrack ER)) (items : List (GItem ER))
    (hctx : CtxFin c) (hcs : ∀ s ∈ cs, StyleFin s.base) (hbb : SFin bb) (hcb : SFin cb) (hcols : TracksFin cols)
    (hrows : TracksFin rows) (hitems : GItemsFin items) : FinG OutFin (gridTail c cs bb cb cc rc cols rows items) :=
  FinG_gridTail hctx.tail hcs hbb hcb hcols hrows fun it hit => ⟨(hitems it hit).baseline, (hitems it hit).baselineShim⟩

/-- step 7 and everything after it, relative to `SizingFin` -/
theorem grid_step7_finite_of_sizing (hT : SizingFin) (c : Ctx ER) (cs : List (GridChildStyle ER))
    (av : Size (AvailableSpace ER)) (colArgs rowArgs : RunArgs ER) (inner : Size (Option ER)) (bb cb : Size ER)
    (cc rc : GridPlacement.TrackCounts) (cols rows : List (GridTrack ER)) (items : List (GItem ER)) (hctx : CtxFin c)
    (hcs : ∀ s ∈ cs, StyleFin s.base) (hca : RunArgsFin colArgs) (hra : RunArgsFin rowArgs) (hin : SOFin inner)
    (hbb : SFin bb) (hcb : SFin cb) (hcols : TracksFin cols) (hrows : TracksFin rows) (hitems : GItemsFin items) :
    FinG OutFin (gridStep7 c cs av colArgs rowArgs inner bb cb cc rc cols rows items) :=
  FinG_gridStep7 hT hctx hcs hca hra hin hbb hcb hcols hrows hitems

/-- the contribution queries of a grid item (`min_content_contribution_cached`, `max_content_contribution_cached`) -/
theorem grid_item_contributions_finite (it : GItem ER) (ax : Ax) (av inner : Size (Option ER)) (hit : GItemFin it)
    (hav : SOFin av) (hin : SOFin inner) :
    FinG (fun r => IsFin r.1 ∧ GItemFin r.2) (it.minContentContributionCached ax av inner) ∧
    FinG (fun r => IsFin r.1 ∧ GItemFin r.2) (it.maxContentContributionCached ax av inner) :=
  ⟨FinG_minContentContributionCached hit hav hin, FinG_maxContentContributionCached hit hav hin⟩

/-! ### non-trivial instance of the hypotheses -/

/-- a grid container: columns `1fr auto fit-content(100px) minmax(10px, 20%)`, rows `auto` (implicit rows `min-content`),
gaps, padding, `justify-content: space-around`, `align-content: space-evenly` -/
def sGrid : GridStyle ER :=
  { base := { (Style.default : Style ER) with
      display := .grid, gap := ⟨.length (.fin 4), .percent (.fin (1/20))⟩,
      padding := ⟨.length (.fin 3), .length (.fin 3), .percent (.fin (1/10)), .length (.fin 0)⟩,
      justifyContent := some .spaceAround, alignContent := some .spaceEvenly,
      size := ⟨.length (.fin 400), .auto⟩ },
    gridTemplateColumns := [.single ⟨.auto, .fr (.fin 1)⟩, .single ⟨.auto, .auto⟩,
      .single ⟨.auto, .fitContentPx (.fin 100)⟩, .single ⟨.length (.fin 10), .percent (.fin (1/5))⟩],
    gridTemplateRows := [.single ⟨.auto, .auto⟩],
    gridAutoRows := [⟨.minContent, .minContent⟩], gridAutoColumns := [], gridAutoFlow := .row }

/-- children: an item spanning two columns, an auto-placed item with an aspect ratio, an absolutely positioned child
with a definite column line, a hidden child -/
def csGrid : List (GridChildStyle ER) :=
  [{ base := sGood, gridRow := ⟨.auto, .auto⟩, gridColumn := ⟨.line 1, .span 2⟩ },
   { base := { (Style.default : Style ER) with aspectRatio := some (.fin (3/2)), alignSelf := some .baseline },
     gridRow := ⟨.auto, .auto⟩, gridColumn := ⟨.auto, .auto⟩ },
   { base := { sGood with position := .absolute, inset := ⟨.length (.fin 5), .auto, .auto, .percent (.fin (1/10))⟩ },
     gridRow := ⟨.auto, .auto⟩, gridColumn := ⟨.line 2, .auto⟩ },
   { base := { (Style.default : Style ER) with display := .none }, gridRow := ⟨.auto, .auto⟩, gridColumn := ⟨.auto, .auto⟩ }]

theorem sGrid_fin : GridStyleFin sGrid := by
  refine ⟨?_, ?_, ?_, ?_, ?_, by simp [sGrid], by simp [sGrid]⟩
  · constructor <;> simp [sGrid, Style.default, fin_simp, RLPAFin, RLPFin, SLPAFin, SLPFin, zero_def, one_def]
  all_goals
    intro d hd
    simp only [sGrid, List.mem_cons, List.not_mem_nil, or_false] at hd
    try (rcases hd with rfl | rfl | rfl | rfl <;> exact ⟨trivial, trivial⟩)

theorem csGrid_fin : ∀ c ∈ csGrid, StyleFin c.base := by
  intro c hc
  simp only [csGrid, List.mem_cons, List.not_mem_nil, or_false] at hc
  rcases hc with rfl | rfl | rfl | rfl
  · exact sGood_fin
  · constructor <;> simp [Style.default, fin_simp, RLPAFin, RLPFin, SLPAFin, SLPFin, zero_def, one_def]
  · constructor <;> simp [sGood, Style.default, fin_simp, RLPAFin, RLPFin, SLPAFin, SLPFin, zero_def, one_def]
  · constructor <;> simp [Style.default, fin_simp, RLPAFin, RLPFin, SLPAFin, SLPFin, zero_def, one_def]

example : GridStyleFin sGrid ∧ (∀ c ∈ csGrid, StyleFin c.base) ∧ InFin inGood :=
  ⟨sGrid_fin, csGrid_fin, ⟨⟨trivial, trivial⟩, ⟨trivial, trivial⟩, ⟨trivial, trivial⟩⟩⟩

/-! ## 8. every style tree -/

section
variable [NumCast ER] {C : Type}
open Eval RootModel

/-- the grid algorithm of the evaluator is finite on nodes with finite grid fields -/
theorem gridAlgFin_grid : GridAlgFin (gridAlg : Style ER → _) :=
  fun s cs inp hs hg hcs hi => algFin_grid_partial s cs inp hs hg.1 hg.2.1 hg.2.2 hcs hi

/-- **eval_finite_all_trees_partial**: `compute_child_layout` on ANY style tree (leaf, block, flexbox and grid containers,
all concrete), for every cache implementation with a finiteness invariant, every fuel, every state with finite layouts and
cache entries and every finite input: finite output, and again finite layouts at every node and finite cache entries.
`_partial`: `TreeFin` (aspect ratios non-zero) and `TreeGridOK` (finite track sizing functions; no `space-between`
content alignment) -/
theorem eval_finite_all_trees_partial (ci : CacheImpl ER C) (I : C → Prop) (hci : CacheFin ci I) (fuel : Nat)
    (t : STree ER) (ns : NS ER C) (inp : LayoutInput ER) (ht : TreeFin t) (hg : TreeGridOK t) (hns : NSFin I ns)
    (hi : InFin inp) :
    OutFin (evalNode ci (EvalConcrete.algs FlexModel.computeFlexboxLayout gridAlg) fuel t ns inp).1 ∧
    NSFin I (evalNode ci (EvalConcrete.algs FlexModel.computeFlexboxLayout gridAlg) fuel t ns inp).2 :=
  fin_evalNodeWithG hci _ (fun _ _ _ hi hs hm => fin_leafAlg hi hs hm) algFin_block algFin_flex gridAlgFin_grid fuel t ns
    inp ht hg hns hi

/-- **root_pass_finite_all_trees_partial** (C03's finiteness clause for every style tree): one `compute_root_layout` pass
over a freshly built tree with the real nine-slot cache: the root's `Layout` and the unrounded `Layout` stored at EVERY
node are finite -/
theorem root_pass_finite_all_trees_partial (fuel : Nat) (t : STree ER) (av : Size (AvailableSpace ER)) (ht : TreeFin t)
    (hg : TreeGridOK t) (ha : SAvFin av) :
    let r := evalNode realCache (EvalConcrete.algs FlexModel.computeFlexboxLayout gridAlg) fuel t (NS.init realCache t)
      (rootInput t.style av)
    LayFin (rootLayout t.style av r.1) ∧ ∀ p k, C05.nsAt r.2 p = some k → LayFin k.layout := by
  have hst : StyleFin t.style := by cases t; exact ht.1
  obtain ⟨h1, h2⟩ := eval_finite_all_trees_partial realCache RealCacheFin cacheFin_realCache fuel t
    (NS.init realCache t) (rootInput t.style av) ht hg (fin_init cacheFin_realCache t) (fin_rootInput hst ha)
  exact ⟨fin_rootLayout hst ha h1, fun p k e => NSFin_at RealCacheFin p _ k h2 e⟩

/-- the same after any number of further passes with finite inputs (relayout on warm caches) -/
theorem relayout_finite_all_trees_partial (t : STree ER) (ht : TreeFin t) (hg : TreeGridOK t) :
    ∀ (passes : List (Nat × LayoutInput ER)), (∀ q ∈ passes, InFin q.2) →
      NSFin RealCacheFin (passes.foldl
        (fun ns q => (evalNode realCache (EvalConcrete.algs FlexModel.computeFlexboxLayout gridAlg) q.1 t ns q.2).2)
        (NS.init realCache t)) := by
  intro passes
  suffices h : ∀ ns, NSFin RealCacheFin ns → (∀ q ∈ passes, InFin q.2) →
      NSFin RealCacheFin (passes.foldl
        (fun ns q => (evalNode realCache (EvalConcrete.algs FlexModel.computeFlexboxLayout gridAlg) q.1 t ns q.2).2) ns) from
    h _ (fin_init cacheFin_realCache t)
  induction passes with
  | nil => intro ns h _; exact h
  | cons q rest ih =>
    intro ns h hq
    simp only [List.foldl_cons]
    exact ih _ (eval_finite_all_trees_partial realCache RealCacheFin cacheFin_realCache q.1 t ns q.2 ht hg h
      (hq q (List.mem_cons_self ..))).2 (fun q' hq' => hq q' (List.mem_cons_of_mem _ hq'))

end

/-- non-trivial instance: a grid root (columns `1fr auto fit-content(100px)`, implicit rows `min-content`) › [an item
spanning two columns with leaf content, a nested flex container with a child, an absolutely positioned child, a hidden
child] -/
def tGrid : STree ER :=
  .node { sGrid.base with grid := { templateColumns := [.single ⟨.auto, .fr (.fin 1)⟩, .single ⟨.auto, .auto⟩,
                                                         .single ⟨.auto, .fitContentPx (.fin 100)⟩],
                                    autoRows := [⟨.minContent, .minContent⟩] } } none
    [.node { sGood with grid := { column := ⟨.line 1, .span 2⟩ } } (some (.wrap (.fin 120) (.fin 16))) [],
     .node { sFlex with justifyContent := some .center, alignContent := none } none
       [.node csFlex[0] (some (.fixed (.fin 12) (.fin 8))) []],
     .node { sGood with position := .absolute, inset := ⟨.length (.fin 5), .auto, .auto, .percent (.fin (1/10))⟩ } none [],
     .node { (Style.default : Style ER) with display := .none } none []]

theorem tGrid_ok : TreeFin tGrid ∧ TreeGridOK tGrid := by
  have hm : ∀ (x : MeasureSpec ER) (w h : ER), IsFin w → IsFin h → (x = .fixed w h ∨ x = .wrap w h) → MeasureSpecFin x := by
    intro x w h hw hh hx
    rcases hx with rfl | rfl <;> exact ⟨hw, hh⟩
  have h0 := csFlex_fin csFlex[0] (by simp [csFlex])
  refine ⟨?_, ?_⟩
  · simp only [tGrid, TreeFin, TreeListFin, and_true]
    refine ⟨{ sGrid_fin.base with }, ?_, ⟨{ sGood_fin with }, ?_⟩, ⟨{ sFlex_fin with }, ?_, h0, ?_⟩, ⟨?_, ?_⟩, ⟨?_, ?_⟩⟩
    all_goals first
      | (intro m hm'; cases hm'; try exact ⟨trivial, trivial⟩)
      | (constructor <;> simp [sGood, Style.default, fin_simp, RLPAFin, RLPFin, SLPAFin, SLPFin, zero_def, one_def])
  · have hd : ∀ g : GridExt ER, g.templateRows = [] → g.templateColumns = [] → g.autoRows = [] → g.autoColumns = [] →
        GridExtFin g := by
      intro g h1 h2 h3 h4
      constructor <;> simp [h1, h2, h3, h4]
    have hroot : GridExtFin ({ templateColumns := [.single ⟨.auto, .fr (.fin 1)⟩, .single ⟨.auto, .auto⟩,
        .single ⟨.auto, .fitContentPx (.fin 100)⟩], autoRows := [⟨.minContent, .minContent⟩] } : GridExt ER) := by
      constructor
      · simp
      · intro d hd'
        simp only [List.mem_cons, List.not_mem_nil, or_false] at hd'
        rcases hd' with rfl | rfl | rfl <;> exact ⟨trivial, trivial⟩
      · intro f hf
        simp only [List.mem_cons, List.not_mem_nil, or_false] at hf
        subst hf
        exact ⟨trivial, trivial⟩
      · simp
    simp only [tGrid, TreeGridOK, TreeListGridOK, GridNodeOK, and_true]
    refine ⟨⟨hroot, by simp [sGrid], by simp [sGrid]⟩,
      ⟨hd _ rfl rfl rfl rfl, by simp [sGood, Style.default], by simp [sGood, Style.default]⟩,
      ⟨⟨hd _ rfl rfl rfl rfl, by simp, by simp⟩,
        hd _ rfl rfl rfl rfl, by simp [csFlex, Style.default], by simp [csFlex, Style.default]⟩,
      ⟨hd _ rfl rfl rfl rfl, by simp [sGood, Style.default], by simp [sGood, Style.default]⟩,
      hd _ rfl rfl rfl rfl, by simp [Style.default], by simp [Style.default]⟩

/-! ### pieces of one run of `track_sizing_algorithm` (the divisions) -/

/-- `compute_alignment_gutter_adjustment` for an axis with at least two tracks (vector of ≥ 5 entries) -/
theorem grid_gutter_adjustment_finite (al : AlignContent) (a : Option ER) (est : Estimate) (ts : List (GridTrack ER))
    (hts : TracksFin ts) (ha : OFin a) (hlen : 5 ≤ ts.length) : IsFin (computeAlignmentGutterAdjustment al a est ts) :=
  fin_gutterAdjustment hts ha hlen

/-- the gutter adjustment for every alignment but `space-between`: finite whatever the length of the vector -/
/- (next) the gutter adjustment applied to a track vector with an odd number of entries (`2·n + 1`, as
`initialize_grid_tracks` produces): finite tracks stay finite — for EVERY alignment and every `n`, the one-track axis
included, because there the (possibly non-finite) value is not written -/
theorem grid_gutter_step_nsb_finite (al : AlignContent) (a : Option ER) (est : Estimate) (ts : List (GridTrack ER))
    (hts : TracksFin ts) (ha : OFin a) (hal : al ≠ .spaceBetween) :
    TracksFin (setGutterAdjustment (computeAlignmentGutterAdjustment al a est ts) ts) :=
  fin_gutterStep_nsb hts ha hal

/-- the same for ANY alignment (`space-between` included) when the vector has an odd number of entries -/
theorem grid_gutter_step_finite (al : AlignContent) (a : Option ER) (est : Estimate) (ts : List (GridTrack ER))
    (hts : TracksFin ts) (ha : OFin a) (hodd : ts.length % 2 = 1) :
    TracksFin (setGutterAdjustment (computeAlignmentGutterAdjustment al a est ts) ts) :=
  fin_gutterStep hts ha hodd

/-- a one-track axis: `[gutter, track with base size 10, gutter]` -/
def tsOne : List (GridTrack ER) :=
  [GridTrack.gutter (.length (.fin 0)), { GridTrack.new ⟨.auto, .auto⟩ with baseSize := .fin 10 },
   GridTrack.gutter (.length (.fin 0))]

example : TracksFin tsOne := by
  intro t ht
  simp only [tsOne, List.mem_cons, List.not_mem_nil, or_false] at ht
  rcases ht with rfl | rfl | rfl <;> constructor <;>
    simp [GridTrack.gutter, GridTrack.new, GridTrack.newWithKind, MinTrack.ofLP, MaxTrack.ofLP, MinTrackFin, MaxTrackFin,
      ExtFin, fin_simp, zero_def]

/-- **grid_gutter_adjustment_division_by_zero_dropped** (witness): for a one-track axis with `space-between`
`compute_alignment_gutter_adjustment` divides by `weighted_track_count = 0`: the value is `+∞` when the container is larger
than the track (`90 / 0`) and `NaN` when it fits exactly (`0 / 0`) — and it is dropped: the vector has 3 entries, and the
adjustment is only written to the inner gutters of a vector with more than 3 -/
theorem grid_gutter_adjustment_division_by_zero_dropped :
    computeAlignmentGutterAdjustment .spaceBetween (some (.fin 100)) .baseSize tsOne = ER.pinf ∧
    computeAlignmentGutterAdjustment .spaceBetween (some (.fin 10)) .baseSize tsOne = ER.nan ∧
    ∀ adj : ER, setGutterAdjustment adj tsOne = tsOne :=
  ⟨by decide +kernel, by decide +kernel, fun _ => rfl⟩

/-- `find_size_of_fr`: the flex factor sum is clamped to ≥ 1 before the division (`fr` tracks whose factors sum to 0, or
to a negative number, are harmless) -/
theorem grid_find_size_of_fr_finite (ts : List (GridTrack ER)) (space : ER) (hts : TracksFin ts) (hs : IsFin space) :
    IsFin (findSizeOfFr ts space) := fin_findSizeOfFr hts hs

example : TracksFin [{ GridTrack.new ⟨.auto, .fr (.fin 0)⟩ with baseSize := .fin 10 }] ∧
    findSizeOfFr [{ GridTrack.new (⟨.auto, .fr (.fin 0)⟩ : TrackFn ER) with baseSize := .fin 10 }] (.fin 50) = .fin 40 := by
  refine ⟨?_, by decide +kernel⟩
  intro t ht
  simp only [List.mem_cons, List.not_mem_nil, or_false] at ht
  subst ht
  constructor <;> simp [GridTrack.new, GridTrack.newWithKind, MinTrackFin, MaxTrackFin, ExtFin, fin_simp, zero_def]

/-- **distribute_space_up_to_limits**, for closures that are finite on finite tracks: `space / proportion_sum` is taken under
`proportion_sum != 0`, `(limit − affected) / proportion` is the explicit `+∞` when the proportion is exactly 0 -/
theorem grid_distribute_space_up_to_limits_finite (isA : GridTrack ER → Bool) (prop aff : GridTrack ER → ER)
    (lim : GridTrack ER → Ext ER) (hp : ∀ t, TrackFin t → IsFin (prop t)) (ha : ∀ t, TrackFin t → IsFin (aff t))
    (hl : ∀ t, TrackFin t → ExtFin (lim t)) (fuel : Nat) (space : ER) (ts : List (GridTrack ER)) (hs : IsFin space)
    (hts : TracksFin ts) :
    IsFin (distributeSpaceUpToLimits fuel space ts isA prop aff lim).1 ∧
    TracksFin (distributeSpaceUpToLimits fuel space ts isA prop aff lim).2 ∧
    (distributeSpaceUpToLimits fuel space ts isA prop aff lim).2.length = ts.length :=
  fin_distributeSpaceUpToLimits hp ha hl fuel space ts hs hts

/-- `distribute_item_space_to_base_size` / `distribute_item_space_to_growth_limit` (`extra / n` under `n > 0`) -/
theorem grid_distribute_item_space_finite (isFlex useFF : Bool) (space : ER) (ts : List (GridTrack ER))
    (isA : GridTrack ER → Bool) (lim : GridTrack ER → Ext ER) (ty : ContributionType) (inner : Option ER)
    (hs : IsFin space) (hts : TracksFin ts) (hl : ∀ t, TrackFin t → ExtFin (lim t)) (hin : OFin inner) :
    TracksFin (distributeItemSpaceToBaseSize isFlex useFF space ts isA lim ty) ∧
    TracksFin (distributeItemSpaceToGrowthLimit space ts isA inner) :=
  ⟨(fin_distributeItemSpaceToBaseSize hs hts hl).1, (fin_distributeItemSpaceToGrowthLimit hs hts hin).1⟩

/-- `stretch_auto_tracks`: `free / n` under `n > 0` -/
theorem grid_stretch_auto_tracks_finite (ts : List (GridTrack ER)) (mn : Option ER) (av : AvailableSpace ER)
    (hts : TracksFin ts) (hmn : OFin mn) (hav : AvFin av) : TracksFin (stretchAutoTracks ts mn av) :=
  fin_stretchAutoTracks hts hmn hav

end C03Finite

/-
  Obligations to audit (`#print axioms`; all depend on [propext, Classical.choice, Quot.sound] at most):
  C03FINITE_GRID_THEOREMS = [
    "C03Finite.eval_finite_all_trees_partial", "C03Finite.root_pass_finite_all_trees_partial",
    "C03Finite.relayout_finite_all_trees_partial", "C03Finite.gridAlgFin_grid", "C03Finite.tGrid_ok",
    "C03Finite.getD_ne_spaceBetween",
    "C03Finite.grid_finite_partial", "C03Finite.algFin_grid_partial",
    "C03Finite.grid_sizing_finite", "C03Finite.grid_intrinsic_sizes_finite",
    "C03Finite.grid_sizing_finite_of_parts", "C03Finite.grid_sizing_finite_of_intrinsic",
    "C03Finite.grid_maximise_tracks_finite", "C03Finite.grid_initialize_tracks_finite",
    "C03Finite.grid_distribute_space_up_to_limits_finite", "C03Finite.grid_distribute_item_space_finite",
    "C03Finite.grid_finiteE_of_sizing_partial", "C03Finite.grid_finite_of_sizing_partial",
    "C03Finite.algFin_grid_of_sizing_partial", "C03Finite.fin_style_default",
    "C03Finite.grid_ctx_finite", "C03Finite.grid_align_tracks_finite", "C03Finite.grid_align_and_position_item_finite",
    "C03Finite.grid_tail_finite", "C03Finite.grid_step7_finite_of_sizing", "C03Finite.grid_item_contributions_finite",
    "C03Finite.sGrid_fin", "C03Finite.csGrid_fin",
    "C03Finite.grid_gutter_adjustment_finite", "C03Finite.grid_gutter_step_finite", "C03Finite.grid_gutter_step_nsb_finite",
    "C03Finite.grid_initialize_tracks_odd",
    "C03Finite.grid_gutter_adjustment_division_by_zero_dropped", "C03Finite.grid_find_size_of_fr_finite",
    "C03Finite.grid_stretch_auto_tracks_finite",
  ]
-/
