/-
  C03 — "every number in every resulting Layout is finite", as theorems at the extended-number instance `ER`
  (Model/ExtNum.lean: ℚ ∪ {+∞, −∞, NaN} with IEEE-754 semantics for the operations that leave the finite numbers).

  What is proved (for ALL styles, inputs, trees, child answers, cache states; no size bounds):
    * leaf (`Model/Leaf.lean`) and root driver (`Model/Root.lean`): `leaf_finite_partial`, `root_leaf_finite_partial`;
    * the block program (`Model/Block.lean`): `block_finite_partial` — every `LayoutInput` passed to a child, every `Layout`
      set and the output, along every run in which the children answer with finite outputs;
    * whole trees through the evaluator (`Model/Eval.lean`), any cache implementation that keeps finite entries (real
      nine-slot cache, exact memo, none): `eval_finite_partial` (flexbox/grid as hypotheses), unconditional on trees of
      leaves and block containers: `eval_finite_block_leaf_trees_partial`, `root_pass_finite_block_leaf_trees_partial`.

  `_partial`: the planned statement "every length / percentage / factor of the style finite ⇒ every output number finite"
  is FALSE of the model and of the real code — `aspect_ratio: Some(0.0)` is a divisor (`width / ratio`):
  `leaf_ratio_zero_not_finite`, `leaf_finite_false_for_ratio_zero` (replayed on taffy: tests/verif_c03_aspect_ratio_zero.rs,
  size = (10, inf); below a block container a sibling gets `location.y = inf` and an absolutely positioned sibling
  `location.y = NaN`).  What holds is the statement with "the aspect ratio is absent or finite and NON-ZERO"
  (`C03Fin.ARFin`, part of `C03Fin.StyleFin`); a negative ratio is harmless (finite).

  What the theorems are about: ∞/NaN *created by the algorithm's own operations*.  Overflow and rounding of finite f32
  arithmetic are not modelled by `ER` (finite ∘ finite = finite), nor is the sign of zero (see Model/ExtNum.lean).

  Helper lemmas: Lemmas/FinBasic.lean (numeric layer, resolve, MaybeMath, margin sets), FinLeaf.lean (leaf, root,
  `MeasureSpec`), FinProg.lean (`FinP`), FinBlockStages.lean + FinBlock.lean (block, abs-pos), FinEval.lean (evaluator,
  caches).
-/
import TaffyVerif.Lemmas.FinEval
import TaffyVerif.Props.EvalBlock

namespace C03Finite
open C03Fin LeafModel RootModel BlockModel Eval

/-! ## 1. leaf and root driver -/

/-- **leaf_finite_partial**: `compute_leaf_layout` with a finite style (every length, percentage, factor finite; aspect
ratio absent or finite and non-zero), a finite `LayoutInput` (known dimensions, parent size, definite available space) and
a measure function that returns finite sizes on finite arguments: every number of the `LayoutOutput` is finite, and the
measure function is only ever called with finite arguments. -/
theorem leaf_finite_partial (input : LayoutInput ER) (style : Style ER)
    (m : Size (Option ER) → Size (AvailableSpace ER) → Size ER)
    (hi : InFin input) (hs : StyleFin style) (hm : MeasureFin m)
    (out : LayoutOutput ER) (calls : List (MeasureCall ER))
    (h : computeLeafLayout input style m = .ok (out, calls)) : OutFin out ∧ CallsFin calls :=
  fin_computeLeafLayout hi hs hm h

/-- **root_leaf_finite_partial**: `compute_root_layout` over one childless node (`TaffyTree::compute_layout_with_measure`,
rounding off): every number of the stored `Layout` is finite. -/
theorem root_leaf_finite_partial (style : Style ER) (m : Size (Option ER) → Size (AvailableSpace ER) → Size ER)
    (av : Size (AvailableSpace ER)) (hs : StyleFin style) (ha : SAvFin av) (hm : MeasureFin m)
    (lay : Layout ER) (calls : List (MeasureCall ER))
    (h : layoutSingleLeafWith style m av = .ok (lay, calls)) : LayFin lay ∧ CallsFin calls :=
  fin_layoutSingleLeafWith hs ha hm h

/-- the same with the harness' measure functions (`MeasureSpec.fixed` / `.wrap` with finite parameters) -/
theorem root_leaf_finite_measureSpec_partial (style : Style ER) (ctx : Option (MeasureSpec ER))
    (av : Size (AvailableSpace ER)) (hs : StyleFin style) (ha : SAvFin av)
    (hc : ∀ ms, ctx = some ms → MeasureSpecFin ms)
    (lay : Layout ER) (calls : List (MeasureCall ER))
    (h : layoutSingleLeaf style ctx av = .ok (lay, calls)) : LayFin lay ∧ CallsFin calls :=
  fin_layoutSingleLeafWith hs ha (fin_ctxMeasure hc) h

/-- the root's known dimensions and `LayoutInput` are finite -/
theorem root_input_finite_partial (style : Style ER) (av : Size (AvailableSpace ER)) (hs : StyleFin style)
    (ha : SAvFin av) : InFin (rootInput style av) := fin_rootInput hs ha

/-! ### a concrete non-trivial instance of the hypotheses -/

/-- content-box block leaf, percentage padding, border, margin, min/max, aspect ratio 2, scroll container -/
def sGood : Style ER :=
  { (Style.default : Style ER) with
    display := .block, boxSizing := .contentBox, overflow := ⟨.scroll, .visible⟩, scrollbarWidth := .fin 15,
    size := ⟨.percent (.fin (1/2)), .auto⟩, minSize := ⟨.length (.fin 10), .auto⟩, maxSize := ⟨.auto, .length (.fin 300)⟩,
    aspectRatio := some (.fin 2),
    padding := ⟨.percent (.fin (1/10)), .length (.fin 3), .length (.fin 1), .length (.fin 2)⟩,
    border := ⟨.length (.fin 1), .length (.fin 1), .length (.fin 1), .length (.fin 1)⟩,
    margin := ⟨.auto, .length (.fin (-4)), .percent (.fin (1/4)), .auto⟩ }

theorem sGood_fin : StyleFin sGood := by
  constructor <;> simp [sGood, Style.default, fin_simp, RLPAFin, RLPFin, SLPAFin, SLPFin, zero_def]

def avGood : Size (AvailableSpace ER) := ⟨.definite (.fin 400), .minContent⟩

example : StyleFin sGood ∧ SAvFin avGood ∧ MeasureSpecFin (.wrap (.fin 120) (.fin 16)) :=
  ⟨sGood_fin, ⟨trivial, trivial⟩, ⟨trivial, trivial⟩⟩

/-- size of a traced layout -/
def sizeOf? (r : Traced ER (Layout ER)) : Option (Size ER) :=
  match r with
  | .ok (l, _) => some l.size
  | .error _ => none

/-- the instance runs and is finite (by evaluation, independently of the theorem): 50% of 400 = 200 wide + content-box
adjustment 45, height = 200 / 2 + 5 -/
example : sizeOf? (layoutSingleLeaf sGood (some (.wrap (.fin 120) (.fin 16))) avGood) = some ⟨.fin 245, .fin 105⟩ := by
  decide +kernel

/-! ### the aspect ratio is a divisor: `Some(0.0)` gives a non-finite `Layout` -/

/-- `width: 10px; aspect-ratio: 0` (everything else `Style::DEFAULT`) -/
def sRatio0 : Style ER :=
  { (Style.default : Style ER) with size := ⟨.length (.fin 10), .auto⟩, aspectRatio := some (.fin 0) }

/-- every length, percentage and factor of the style is finite, the aspect ratio included (it is `0`) -/
structure StyleFin0 (s : Style ER) : Prop where
  scrollbarWidth : IsFin s.scrollbarWidth
  inset : RLPAFin s.inset
  size : SLPAFin s.size
  minSize : SLPAFin s.minSize
  maxSize : SLPAFin s.maxSize
  aspectRatio : OFin s.aspectRatio
  margin : RLPAFin s.margin
  padding : RLPFin s.padding
  border : RLPFin s.border
  gap : SLPFin s.gap
  flexBasis : LPAFin s.flexBasis
  flexGrow : IsFin s.flexGrow
  flexShrink : IsFin s.flexShrink

theorem sRatio0_fin0 : StyleFin0 sRatio0 := by
  constructor <;> simp [sRatio0, Style.default, fin_simp, RLPAFin, RLPFin, SLPAFin, SLPFin, zero_def, one_def]

/-- **leaf_ratio_zero_not_finite** (witness; replayed on the real code): a single leaf with `width: 10px` and
`aspect-ratio: 0`, measure function constantly `0×0`, available space max-content: the stored `Layout` has
`size = (10, +∞)`. -/
theorem leaf_ratio_zero_not_finite :
    sizeOf? (layoutSingleLeafWith sRatio0 (fun _ _ => ⟨.fin 0, .fin 0⟩) ⟨.maxContent, .maxContent⟩)
      = some ⟨.fin 10, .pinf⟩ := by
  decide +kernel

/-- **leaf_finite_false_for_ratio_zero**: the statement without the non-zero-ratio hypothesis is false -/
theorem leaf_finite_false_for_ratio_zero :
    ¬ ∀ (style : Style ER) (m : Size (Option ER) → Size (AvailableSpace ER) → Size ER) (av : Size (AvailableSpace ER))
        (lay : Layout ER) (calls : List (MeasureCall ER)),
        StyleFin0 style → SAvFin av → MeasureFin m → layoutSingleLeafWith style m av = .ok (lay, calls) → LayFin lay := by
  intro h
  have hw := leaf_ratio_zero_not_finite
  unfold sizeOf? at hw
  split at hw
  · rename_i l cs e
    have := h sRatio0 (fun _ _ => ⟨.fin 0, .fin 0⟩) ⟨.maxContent, .maxContent⟩ l cs sRatio0_fin0 ⟨trivial, trivial⟩
      (show MeasureFin (fun _ _ => ⟨.fin 0, .fin 0⟩) from fun _ _ _ _ => ⟨trivial, trivial⟩) e
    simp only [Option.some.injEq] at hw
    have h2 := this.2.1.2
    rw [hw] at h2
    exact h2
  · exact absurd hw (by simp)

/-- with a negative ratio everything stays finite (it is covered by `StyleFin`) -/
example : StyleFin { sGood with aspectRatio := some (.fin (-2)) } :=
  { sGood_fin with aspectRatio := ⟨trivial, by decide +kernel⟩ }

/-! ## 2. the block program -/

/-- **block_finite_partial**: `compute_block_layout` for a finite container style, finite child styles and a finite input,
with the children's answers universally quantified over finite outputs: every `LayoutInput` it passes to a child (known
dimensions, parent size, definite available space), every `Layout` it sets and every number of its output is finite. -/
theorem block_finite_partial (style : Style ER) (cs : List (Style ER)) (inputs : LayoutInput ER)
    (hs : StyleFin style) (hcs : StylesFin cs) (hi : InFin inputs) :
    FinP OutFin (computeBlockLayout style cs inputs) :=
  FinP_computeBlockLayout hs hcs hi

/-- the same against any stateless oracle with finite answers (`BlockModel.runPure`): output and all layouts set -/
theorem block_run_finite_partial (style : Style ER) (cs : List (Style ER)) (inputs : LayoutInput ER)
    (orc : Nat → LayoutInput ER → LayoutOutput ER)
    (hs : StyleFin style) (hcs : StylesFin cs) (hi : InFin inputs) (horc : ∀ i inp, InFin inp → OutFin (orc i inp)) :
    OutFin (runPure orc (computeBlockLayout style cs inputs)).1 ∧
    ∀ il ∈ (runPure orc (computeBlockLayout style cs inputs)).2, LayFin il.2 := by
  have key : ∀ {β : Type} (Q : β → Prop) (p : ProgM ER β), FinP Q p →
      Q (runPure orc p).1 ∧ ∀ il ∈ (runPure orc p).2, LayFin il.2 := by
    intro β Q p
    induction p with
    | pure b => intro h; exact ⟨h, fun _ hm => absurd hm (by simp [runPure, BlockModel.runProg])⟩
    | call c i k ih =>
      intro h
      exact ih _ (h.2 _ (horc c i h.1))
    | setLayout c l k ih =>
      intro h
      obtain ⟨h1, h2⟩ := ih () h.2
      refine ⟨h1, fun il hm => ?_⟩
      simp only [runPure, BlockModel.runProg, List.mem_cons] at hm
      rcases hm with rfl | hm
      · exact h.1
      · exact h2 il hm
  exact key OutFin _ (block_finite_partial style cs inputs hs hcs hi)

/-- one iteration of the in-flow loop -/
theorem block_placeItem_finite_partial (c : FlowCtx ER) (st : FlowState ER) (item : BlockItem ER)
    (out : LayoutOutput ER) (hc : FlowCtxFin c) (hs : FlowStateFin st) (hi : ItemFin item) (ho : OutFin out) :
    FlowStateFin (placeItem c st item out).st ∧ ItemFin (placeItem c st item out).item ∧
    LayFin (placeItem c st item out).layout := fin_placeItem hc hs hi ho

/-- one absolutely positioned child of a block container -/
theorem block_absItem_finite_partial (item : BlockItem ER) (cs : Style ER) (area : Size ER) (off : Point ER)
    (acc : Size ER) (hi : ItemFin item) (hs : StyleFin cs) (ha : SFin area) (hoff : PFin off) (hacc : SFin acc) :
    FinP SFin (absItem item cs area off acc) := FinP_absItem hi hs ha hoff hacc

/-- non-trivial instance: a block container with an in-flow child, an absolutely positioned child and a hidden child -/
def csGood : List (Style ER) :=
  [sGood, { sGood with position := .absolute, inset := ⟨.length (.fin 5), .auto, .auto, .percent (.fin (1/10))⟩ },
   { (Style.default : Style ER) with display := .none }]

def inGood : LayoutInput ER :=
  { runMode := .performLayout, sizingMode := .inherentSize, axis := .both, knownDimensions := ⟨none, none⟩,
    parentSize := ⟨some (.fin 400), none⟩, availableSpace := avGood, verticalMarginsAreCollapsible := ⟨true, true⟩ }

theorem csGood_fin : StylesFin csGood := by
  intro s hs
  simp only [csGood, List.mem_cons, List.not_mem_nil, or_false] at hs
  rcases hs with rfl | rfl | rfl <;> constructor <;>
    simp [sGood, Style.default, fin_simp, RLPAFin, RLPFin, SLPAFin, SLPFin, zero_def, one_def]

example : StyleFin sGood ∧ StylesFin csGood ∧ InFin inGood :=
  ⟨sGood_fin, csGood_fin, ⟨⟨trivial, trivial⟩, ⟨trivial, trivial⟩, ⟨trivial, trivial⟩⟩⟩

/-! ## 3. whole trees through the evaluator -/

/-- **eval_finite_partial**: `compute_child_layout` on a whole subtree (any fuel, any dispatch function, any cache
implementation with a finiteness invariant `I`, any algorithms that are finite in the sense of `AlgsFin`): a tree of finite
styles and leaf contents, a state whose layouts and cache entries are finite, a finite input ⇒ finite output and a state
whose layouts (at every node) and cache entries are finite. -/
theorem eval_finite_partial {C : Type} (ci : CacheImpl ER C) (I : C → Prop) (hci : CacheFin ci I)
    (sel : Display → Bool → Option Gen.Facts.Callee) (algs : Algs ER) (ha : AlgsFin algs)
    (fuel : Nat) (t : STree ER) (ns : NS ER C) (inp : LayoutInput ER)
    (ht : TreeFin t) (hns : NSFin I ns) (hi : InFin inp) :
    OutFin (evalNodeWith ci sel algs fuel t ns inp).1 ∧ NSFin I (evalNodeWith ci sel algs fuel t ns inp).2 :=
  fin_evalNodeWith hci sel ha fuel t ns inp ht hns hi

/-- the three cache implementations keep finite entries -/
theorem caches_finite :
    CacheFin (realCache : CacheImpl ER _) RealCacheFin ∧ CacheFin (exactMemo : CacheImpl ER _) MemoFin ∧
    CacheFin (noCache : CacheImpl ER Unit) (fun _ => True) :=
  ⟨cacheFin_realCache, cacheFin_exactMemo, cacheFin_noCache⟩

/-- **eval_finite_algs_partial**: with the concrete leaf and block models and `TaffyTree`'s extracted dispatch; the
flexbox and grid programs remain hypotheses (`AlgFin`) -/
theorem eval_finite_algs_partial {C : Type} (ci : CacheImpl ER C) (I : C → Prop) (hci : CacheFin ci I)
    (flex grid : EvalBlock.ContainerAlg ER) (hf : AlgFin flex) (hg : AlgFin grid)
    (fuel : Nat) (t : STree ER) (ns : NS ER C) (inp : LayoutInput ER)
    (ht : TreeFin t) (hns : NSFin I ns) (hi : InFin inp) :
    OutFin (evalNode ci (EvalConcrete.algs flex grid) fuel t ns inp).1 ∧
    NSFin I (evalNode ci (EvalConcrete.algs flex grid) fuel t ns inp).2 :=
  fin_evalNodeWith hci _ (algsFin_concrete hf hg) fuel t ns inp ht hns hi

/-- **eval_finite_block_leaf_trees_partial** (unconditional in flexbox/grid): on a tree of leaves and block containers
(`EvalBlock.BlockOnly`: no flexbox/grid container with children outside `display:none` subtrees) -/
theorem eval_finite_block_leaf_trees_partial {C : Type} (ci : CacheImpl ER C) (I : C → Prop) (hci : CacheFin ci I)
    (flex grid : EvalBlock.ContainerAlg ER) (fuel : Nat) (t : STree ER) (ns : NS ER C) (inp : LayoutInput ER)
    (hb : EvalBlock.BlockOnly t) (ht : TreeFin t) (hns : NSFin I ns) (hi : InFin inp) :
    OutFin (evalNode ci (EvalConcrete.algs flex grid) fuel t ns inp).1 ∧
    NSFin I (evalNode ci (EvalConcrete.algs flex grid) fuel t ns inp).2 := by
  rw [EvalBlock.eval_block_leaf_trees ci flex grid EvalConcrete.idle EvalConcrete.idle fuel t ns inp hb]
  exact eval_finite_algs_partial ci I hci _ _ algFin_idle algFin_idle fuel t ns inp ht hns hi

/-- a finite state has a finite layout at every path -/
theorem NSFin_at {C : Type} (I : C → Prop) : ∀ (p : List Nat) (ns k : NS ER C), NSFin I ns → C05.nsAt ns p = some k →
    LayFin k.layout
  | [], .mk _ _ _, k, h, e => by
    simp only [C05.nsAt, Option.some.injEq] at e
    subst e; exact h.2.1
  | i :: p, .mk _ _ kids, k, h, e => by
    simp only [C05.nsAt] at e
    split at e
    · rename_i k' hk
      exact NSFin_at I p k' k (NSListFin_get I kids i k' h.2.2 hk) e
    · exact absurd e (by simp)

/-- **root_pass_finite_block_leaf_trees_partial** (C03's finiteness clause for trees of leaves and block containers): one
`compute_root_layout` pass over a freshly built tree, with the real nine-slot cache, available space definite-finite /
min-content / max-content: the root's `Layout` and the unrounded `Layout` stored at EVERY node are finite. -/
theorem root_pass_finite_block_leaf_trees_partial (flex grid : EvalBlock.ContainerAlg ER) (fuel : Nat) (t : STree ER)
    (av : Size (AvailableSpace ER)) (hb : EvalBlock.BlockOnly t) (ht : TreeFin t) (ha : SAvFin av) :
    let r := evalNode realCache (EvalConcrete.algs flex grid) fuel t (NS.init realCache t) (rootInput t.style av)
    LayFin (rootLayout t.style av r.1) ∧ ∀ p k, C05.nsAt r.2 p = some k → LayFin k.layout := by
  have hst : StyleFin t.style := by cases t; exact ht.1
  obtain ⟨h1, h2⟩ := eval_finite_block_leaf_trees_partial realCache RealCacheFin cacheFin_realCache flex grid fuel t
    (NS.init realCache t) (rootInput t.style av) hb ht (fin_init cacheFin_realCache t) (fin_rootInput hst ha)
  exact ⟨fin_rootLayout hst ha h1, fun p k e => NSFin_at RealCacheFin p _ k h2 e⟩

/-- the same after any number of further passes with finite inputs (relayout on warm caches) -/
theorem relayout_finite_block_leaf_trees_partial (flex grid : EvalBlock.ContainerAlg ER) (t : STree ER)
    (hb : EvalBlock.BlockOnly t) (ht : TreeFin t) :
    ∀ (passes : List (Nat × LayoutInput ER)), (∀ q ∈ passes, InFin q.2) →
      NSFin RealCacheFin (passes.foldl
        (fun ns q => (evalNode realCache (EvalConcrete.algs flex grid) q.1 t ns q.2).2) (NS.init realCache t)) := by
  intro passes
  suffices h : ∀ ns, NSFin RealCacheFin ns → (∀ q ∈ passes, InFin q.2) →
      NSFin RealCacheFin (passes.foldl
        (fun ns q => (evalNode realCache (EvalConcrete.algs flex grid) q.1 t ns q.2).2) ns) from
    h _ (fin_init cacheFin_realCache t)
  induction passes with
  | nil => intro ns h _; exact h
  | cons q rest ih =>
    intro ns h hq
    simp only [List.foldl_cons]
    exact ih _ (eval_finite_block_leaf_trees_partial realCache RealCacheFin cacheFin_realCache flex grid q.1 t ns q.2 hb ht h
      (hq q (List.mem_cons_self ..))).2 (fun q' hq' => hq q' (List.mem_cons_of_mem _ hq'))

/-! ### the same divisor below a block container: `+∞` and `NaN` reach the siblings' layouts -/

/-- block root › [ `width:10px; aspect-ratio:0` , `5×5` , absolutely positioned `bottom:0; width:5px; height:50%` ] -/
def tRatio0 : STree ER :=
  .node { (Style.default : Style ER) with display := .block } none
    [.node sRatio0 none [],
     .node { (Style.default : Style ER) with size := ⟨.length (.fin 5), .length (.fin 5)⟩ } none [],
     .node { (Style.default : Style ER) with position := .absolute, inset := ⟨.auto, .auto, .auto, .length (.fin 0)⟩,
                                             size := ⟨.length (.fin 5), .percent (.fin (1/2))⟩ } none []]

/-- **block_ratio_zero_inf_and_nan** (witness; replayed on the real code, same numbers): root pass with available space
100×100: the container's size is `(100, +∞)`, the first child's `(10, +∞)`, the second child's `location.y = +∞`, and the
absolutely positioned child gets `location.y = NaN` (`∞ − ∞`) and height `+∞`. -/
theorem block_ratio_zero_inf_and_nan :
    let r := evalNode noCache (EvalConcrete.algs EvalConcrete.idle EvalConcrete.idle) 3 tRatio0 (NS.init noCache tRatio0)
      (rootInput tRatio0.style ⟨.definite (.fin 100), .definite (.fin 100)⟩)
    r.1.size = ⟨.fin 100, .pinf⟩ ∧
    (C05.nsAt r.2 [0]).map (·.layout.size) = some ⟨.fin 10, .pinf⟩ ∧
    (C05.nsAt r.2 [1]).map (·.layout.location) = some ⟨.fin 0, .pinf⟩ ∧
    (C05.nsAt r.2 [2]).map (fun k => (k.layout.location, k.layout.size)) = some (⟨.fin 0, .nan⟩, ⟨.fin 5, .pinf⟩) := by
  decide +kernel

/-- non-trivial instance: block root › [leaf with wrapping text, block › [leaf], absolutely positioned leaf, hidden] -/
def tGood : STree ER :=
  .node { sGood with aspectRatio := none, size := ⟨.auto, .auto⟩ } none
    [.node sGood (some (.wrap (.fin 120) (.fin 16))) [],
     .node { (Style.default : Style ER) with display := .block } none
       [.node (Style.default : Style ER) (some (.fixed (.fin 30) (.fin 10))) []],
     .node { sGood with position := .absolute, inset := ⟨.length (.fin 5), .auto, .auto, .percent (.fin (1/10))⟩ } none [],
     .node { (Style.default : Style ER) with display := .none } none []]

theorem tGood_ok : EvalBlock.BlockOnly tGood ∧ TreeFin tGood := by
  refine ⟨by simp [tGood, EvalBlock.BlockOnly, EvalBlock.BlockOnlyList, sGood, Style.default], ?_⟩
  simp only [tGood, TreeFin, TreeListFin, and_true]
  refine ⟨?_, ?_, ⟨?_, ?_⟩, ⟨?_, ?_, ?_, ?_⟩, ⟨?_, ?_⟩, ⟨?_, ?_⟩⟩
  all_goals first
    | (intro m hm; cases hm; try exact ⟨trivial, trivial⟩)
    | (constructor <;> simp [sGood, Style.default, fin_simp, RLPAFin, RLPFin, SLPAFin, SLPFin, zero_def, one_def])

end C03Finite

/-
  Obligations to audit (`#print axioms`; all depend on [propext, Classical.choice, Quot.sound] at most):
  C03FINITE_THEOREMS = [
    "C03Finite.leaf_finite_partial", "C03Finite.root_leaf_finite_partial", "C03Finite.root_leaf_finite_measureSpec_partial",
    "C03Finite.root_input_finite_partial", "C03Finite.sGood_fin",
    "C03Finite.leaf_ratio_zero_not_finite", "C03Finite.leaf_finite_false_for_ratio_zero",
    "C03Finite.block_finite_partial", "C03Finite.block_run_finite_partial", "C03Finite.block_placeItem_finite_partial",
    "C03Finite.block_absItem_finite_partial", "C03Finite.csGood_fin",
    "C03Finite.eval_finite_partial", "C03Finite.caches_finite", "C03Finite.eval_finite_algs_partial",
    "C03Finite.eval_finite_block_leaf_trees_partial", "C03Finite.NSFin_at",
    "C03Finite.root_pass_finite_block_leaf_trees_partial", "C03Finite.relayout_finite_block_leaf_trees_partial",
    "C03Finite.tGood_ok", "C03Finite.block_ratio_zero_inf_and_nan",
  ]
-/
