/-
  C15, clause "a second layout pass over an unchanged tree invokes the measure function zero times" — as a theorem on
  the tree-level evaluator with the REAL nine-slot cache (`Eval.realCache` = Model/Cache.lean = src/tree/cache.rs).

  Model: `Eval.computeRootLayout` (Model/RootPass.lean) = `compute_root_layout`: derive the root's `LayoutInput`
  (`RootModel.rootInput`) from the root style and the available space, evaluate the root node with
  `Eval.evalNodeWith` (`compute_child_layout` ▸ `compute_cached_layout` ▸ dispatch ▸ leaf / block / flex / grid programs
  or `compute_hidden_layout`), write the root's unrounded layout.  `Eval.computeLayoutWithMeasure` adds
  `TaffyTree::compute_layout_with_measure`'s rounding step (Model/Round.lean, C13).
  `driver_layoutRoot_eq`: the function the EVAL tie executes against the real code (`DrvEVAL.layoutRoot`) IS
  `computeRootLayout` on a freshly built tree.

  Counting: `C16.logged ci` (Lemmas/EvalCost.lean) records in every node's state one entry per `store`, i.e. per
  evaluation of the node's body (`C16.root_log_step`); for a node that dispatches to the leaf arm that is one
  invocation of `algs.leaf` = of the measure function.  Since the logs are part of the state, "the state after the
  second pass EQUALS the state after the first pass" says at once: every node's cache, every node's unrounded layout,
  and every node's log are unchanged — no algorithm body and no measure function was evaluated anywhere in the tree.

  Quantifiers: every `[Num α]` (Float32 and ℚ alike), every dispatch `sel`, every `algs`, every style tree `t`, every
  available space `av`, every node state `ns` (caches and layouts of any earlier history, not only the fresh one), every
  fuel (fuel ≥ depth is NOT needed: an exhausted evaluation is repeated identically).
  Hypothesis (general `α` only): the root key is self-compatible, `SelfCompatible inp out`
  = C02's hypothesis `self` of `C02.hit_until_displaced_final`.  It is the EXACT condition
  (`second_pass_reevaluates_root`: without it, after a first pass that missed, the second pass evaluates the root's body
  again).  At ℚ it always holds (`selfCompatible_rat`), so the ℚ theorems are unconditional.  At Float32 it fails exactly
  for a NaN known dimension or a NaN / ±∞ available space that the cache looks at (`|∞ − ∞| < ε` is false): witness
  (evaluated, `#eval` at Float32, and replayed on the real code): a flexbox leaf with a measure function laid out twice
  with `AvailableSpace::Definite(f32::INFINITY)` calls the measure function in both passes.
-/
import TaffyVerif.Lemmas.C15Eval
import TaffyVerif.Props.EvalGrid
import TaffyVerif.Drv.EVAL
import Mathlib.Tactic.NormNum

set_option autoImplicit false
set_option linter.unusedSectionVars false
set_option linter.unusedVariables false

namespace C15Eval
open Eval EvalMemo CacheModel Gen.Facts C16

section general
variable {α : Type} [Num α]

/-! ## 1. the root key -/

/-- **root_key_deterministic**: `compute_root_layout` queries the root node with the input
`RootModel.rootInput (root style) (available space)` — whatever the node state, the cache implementation, the
algorithms, the fuel, the children and the measure contexts are; the parts of it the real cache looks at are
`RunMode::PerformLayout` (never the hidden mode, also for a `display:none` root), the available space itself, and
`rootKnownDimensions (root style) (available space)`; two trees with the same root style get the same key. -/
theorem root_key_deterministic {C : Type} (ci : CacheImpl α C) (sel : Display → Bool → Option Callee) (algs : Algs α)
    (fuel : Nat) (t : STree α) (av : Size (AvailableSpace α)) (ns : NS α C) :
    computeRootLayout ci sel algs fuel t av ns =
        ((evalNodeWith ci sel algs fuel t ns (RootModel.rootInput t.style av)).1,
         setRootLayout (evalNodeWith ci sel algs fuel t ns (RootModel.rootInput t.style av)).2
           (RootModel.rootLayout t.style av (evalNodeWith ci sel algs fuel t ns (RootModel.rootInput t.style av)).1)) ∧
    (RootModel.rootInput t.style av).runMode = RunMode.performLayout ∧
    (RootModel.rootInput t.style av).availableSpace = av ∧
    (RootModel.rootInput t.style av).knownDimensions = RootModel.rootKnownDimensions t.style av ∧
    (∀ t' : STree α, t'.style = t.style → RootModel.rootInput t'.style av = RootModel.rootInput t.style av) :=
  ⟨rfl, rfl, rfl, rfl, fun t' h => by rw [h]⟩

/-- non-trivial instance: two different trees (other children, other measure context) with the same root style -/
example (s c : Style α) (m : MeasureSpec α) (av : Size (AvailableSpace α)) :
    RootModel.rootInput (STree.node s (some m) [STree.node c none []]).style av =
      RootModel.rootInput (STree.node s none []).style av :=
  (root_key_deterministic (noCache (α := α)) (fun _ _ => none) C16.exAlgs 0 (STree.node s none []) av
    (NS.init noCache (STree.node s none []))).2.2.2.2 _ rfl

/-- **root_pass_logs_root_key**: the key that a root pass STORES at the root is that key: if the root's lookup misses
(and there is fuel), the pass appends exactly one `store (rootInput …)` to the root's log (preceded by one `clear` when
the root dispatches to `compute_hidden_layout`). -/
theorem root_pass_logs_root_key {C : Type} (ci : CacheImpl α C) (sel : Display → Bool → Option Callee) (algs : Algs α)
    (fuel : Nat) (t : STree α) (av : Size (AvailableSpace α)) (ns : NS α (C × List (Option (LayoutInput α))))
    (hmiss : ci.get ns.cache.1 (RootModel.rootInput t.style av) = none) :
    (computeRootLayout (logged ci) sel algs (fuel + 1) t av ns).2.cache.2 =
        some (RootModel.rootInput t.style av) :: ns.cache.2 ∨
    (computeRootLayout (logged ci) sel algs (fuel + 1) t av ns).2.cache.2 =
        some (RootModel.rootInput t.style av) :: none :: ns.cache.2 := by
  rw [computeRootLayout_snd, setRootLayout_cache]
  cases t with
  | node style ctx kids =>
    cases ns with
    | mk cl l nk =>
      obtain ⟨c, log⟩ := cl
      simp only [NS.cache, STree.style] at hmiss
      have h := root_log_step ci sel algs fuel style ctx kids c log l nk (RootModel.rootInput style av)
      simp only [STree.style] at h ⊢
      show _ = some (RootModel.rootInput style av) :: log ∨ _ = some (RootModel.rootInput style av) :: none :: log
      rcases h with ⟨hm, _⟩ | ⟨_, ⟨o, ho⟩, _⟩ | ⟨_, _, h3⟩
      · exact absurd hm (rootInput_not_hidden style av)
      · rw [hmiss] at ho; cases ho
      · rcases h3 with ⟨_, h4⟩ | ⟨_, h4⟩
        · exact Or.inr h4
        · exact Or.inl h4

/-! ## 2. the second pass -/

/-- **second_pass_hits** (the real cache, instrumented with C16's log; every `α`, `sel`, `algs`, tree, available space,
state, fuel): after one root pass, the same root pass again
  * returns the same output,
  * leaves the whole state unchanged — every node's cache, every node's unrounded layout and every node's log of body
    evaluations (zero new log entries anywhere: no algorithm body, no measure function is evaluated),
  * in particular the total number of body evaluations and the (style, state) found at every path are unchanged. -/
theorem second_pass_hits (sel : Display → Bool → Option Callee) (algs : Algs α) (fuel : Nat) (t : STree α)
    (av : Size (AvailableSpace α)) (ns : NS α (Cache α × List (Option (LayoutInput α))))
    (hself : SelfCompatible (RootModel.rootInput t.style av)
      (computeRootLayout (logged realCache) sel algs fuel t av ns).1) :
    let first := computeRootLayout (logged realCache) sel algs fuel t av ns
    let second := computeRootLayout (logged realCache) sel algs fuel t av first.2
    second.1 = first.1 ∧ second.2 = first.2 ∧ totalEvals second.2 = totalEvals first.2 ∧
    (∀ path, nodeAt path t second.2 = nodeAt path t first.2) := by
  intro first second
  have h : second = first :=
    computeRootLayout_twice (logged realCache) sel algs fuel t av ns
      (storeHits_logged realCache _ _ (storeHits_real _ _ (rootInput_mode t.style av) hself))
  refine ⟨by rw [h], by rw [h], by rw [h], fun path => by rw [h]⟩

/-- the same for the uninstrumented real cache: output, caches and layouts -/
theorem second_pass_hits_plain (sel : Display → Bool → Option Callee) (algs : Algs α) (fuel : Nat) (t : STree α)
    (av : Size (AvailableSpace α)) (ns : NS α (Cache α))
    (hself : SelfCompatible (RootModel.rootInput t.style av) (computeRootLayout realCache sel algs fuel t av ns).1) :
    computeRootLayout realCache sel algs fuel t av (computeRootLayout realCache sel algs fuel t av ns).2 =
      computeRootLayout realCache sel algs fuel t av ns :=
  computeRootLayout_twice realCache sel algs fuel t av ns (storeHits_real _ _ (rootInput_mode t.style av) hself)

/-- **second_pass_root_hit**: what the second pass does: ONE cache lookup, at the root, with the root key; it returns
the first pass's output (then `compute_cached_layout` returns at once: `eval_hit`) -/
theorem second_pass_root_hit (sel : Display → Bool → Option Callee) (algs : Algs α) (fuel : Nat) (t : STree α)
    (av : Size (AvailableSpace α)) (ns : NS α (Cache α × List (Option (LayoutInput α))))
    (hself : SelfCompatible (RootModel.rootInput t.style av)
      (computeRootLayout (logged realCache) sel algs (fuel + 1) t av ns).1) :
    (logged realCache).get (computeRootLayout (logged realCache) sel algs (fuel + 1) t av ns).2.cache
        (RootModel.rootInput t.style av) =
      some (computeRootLayout (logged realCache) sel algs (fuel + 1) t av ns).1 :=
  computeRootLayout_then_get (logged realCache) sel algs fuel t av ns
    (storeHits_logged realCache _ _ (storeHits_real _ _ (rootInput_mode t.style av) hself))

/-- any number of further identical passes: still the state of the first -/
theorem repeated_passes (sel : Display → Bool → Option Callee) (algs : Algs α) (fuel : Nat) (t : STree α)
    (av : Size (AvailableSpace α)) (ns : NS α (Cache α × List (Option (LayoutInput α))))
    (hself : SelfCompatible (RootModel.rootInput t.style av)
      (computeRootLayout (logged realCache) sel algs fuel t av ns).1) (n : Nat) :
    Nat.repeat (fun s => (computeRootLayout (logged realCache) sel algs fuel t av s).2) (n + 1) ns =
      (computeRootLayout (logged realCache) sel algs fuel t av ns).2 :=
  computeRootLayout_iterate (logged realCache) sel algs fuel t av ns
    (storeHits_logged realCache _ _ (storeHits_real _ _ (rootInput_mode t.style av) hself)) n

/-- **second_pass_reevaluates_root** (the hypothesis is exact): if the first pass missed at the root and the key it
stored is NOT self-compatible, the second pass misses again and evaluates the root's body once more (for a root that is
a leaf: calls the measure function again). -/
theorem second_pass_reevaluates_root (sel : Display → Bool → Option Callee) (algs : Algs α) (fuel : Nat) (t : STree α)
    (av : Size (AvailableSpace α)) (ns : NS α (Cache α × List (Option (LayoutInput α))))
    (hmiss : (realCache (α := α)).get ns.cache.1 (RootModel.rootInput t.style av) = none)
    (hself : ¬ SelfCompatible (RootModel.rootInput t.style av)
      (computeRootLayout (logged realCache) sel algs (fuel + 1) t av ns).1) :
    let first := computeRootLayout (logged realCache) sel algs (fuel + 1) t av ns
    let second := computeRootLayout (logged realCache) sel algs (fuel + 1) t av first.2
    evals second.2.cache.2 = evals first.2.cache.2 + 1 := by
  intro first second
  -- the root's cache after the first pass: `store c' key out`, which does not answer the key
  obtain ⟨c', hc'⟩ := eval_miss_cache (logged realCache) sel algs fuel t ns (RootModel.rootInput t.style av)
    (rootInput_not_hidden t.style av) hmiss
  have hfc : first.2.cache = (logged realCache).store c' (RootModel.rootInput t.style av) first.1 := by
    show (computeRootLayout (logged realCache) sel algs (fuel + 1) t av ns).2.cache = _
    rw [computeRootLayout_snd, setRootLayout_cache]; exact hc'
  have hmiss2 : (realCache (α := α)).get first.2.cache.1 (RootModel.rootInput t.style av) = none := by
    rw [hfc]
    exact storeMisses_real c'.1 _ _ (rootInput_mode t.style av) hself
  rcases root_pass_logs_root_key realCache sel algs fuel t av first.2 hmiss2 with h | h
  · show evals (computeRootLayout (logged realCache) sel algs (fuel + 1) t av first.2).2.cache.2 = _
    rw [h]; rfl
  · show evals (computeRootLayout (logged realCache) sel algs (fuel + 1) t av first.2).2.cache.2 = _
    rw [h]; rfl

/-! ### the `display:none` root -/

/-- **hidden_root_pass**: a `display:none` root (dispatch arm `(Display::None, _)`).  `compute_root_layout` still calls
`perform_child_layout` in `RunMode::PerformLayout` — not in the hidden run mode — so the call goes through
`compute_cached_layout`: on a miss `compute_hidden_layout` clears the root's cache, zeroes its layout and visits the
whole subtree in hidden mode, the output `LayoutOutput::HIDDEN` IS then stored in the root's (just cleared) cache under
the root key, and the root's layout is overwritten by `rootLayout … HIDDEN` (size and content size zero; padding, border
and margin resolved from the style).  Under self-compatibility of the key the second pass therefore hits at the root
like any other: same output, same state, the hidden subtree is NOT walked again (no new `clear` in any log). -/
theorem hidden_root_pass (sel : Display → Bool → Option Callee) (hsel : ∀ b, sel Display.none b = some Callee.hidden)
    (algs : Algs α) (fuel : Nat) (style : Style α) (ctx : Option (MeasureSpec α)) (kids : List (STree α))
    (hd : style.display = Display.none) (av : Size (AvailableSpace α))
    (c : Cache α × List (Option (LayoutInput α))) (l : Layout α)
    (nk : List (NS α (Cache α × List (Option (LayoutInput α)))))
    (hmiss : (realCache (α := α)).get c.1 (RootModel.rootInput style av) = none) :
    let t : STree α := .node style ctx kids
    let first := computeRootLayout (logged realCache) sel algs (fuel + 1) t av (.mk c l nk)
    first.1 = LayoutOutput.hidden ∧
    first.2 = .mk ((logged realCache).store ((logged realCache).clear c) (RootModel.rootInput style av) LayoutOutput.hidden)
      (RootModel.rootLayout style av LayoutOutput.hidden) (hiddenLayoutList (logged realCache) nk) ∧
    (SelfCompatible (RootModel.rootInput style av) (LayoutOutput.hidden : LayoutOutput α) →
      computeRootLayout (logged realCache) sel algs (fuel + 1) t av first.2 = first) := by
  intro t first
  have hb : bodyOf sel algs style kids (RootModel.rootInput style av) = Body.hidden := by
    unfold bodyOf; rw [hd, hsel]
  have hm := mode_beq_false (rootInput_not_hidden style av)
  have e : evalNodeWith (logged realCache) sel algs (fuel + 1) (.node style ctx kids) (.mk c l nk)
      (RootModel.rootInput style av) =
      (LayoutOutput.hidden, .mk ((logged realCache).store ((logged realCache).clear c) (RootModel.rootInput style av)
        LayoutOutput.hidden) (Layout.withOrder 0) (hiddenLayoutList (logged realCache) nk)) := by
    rw [evalNodeWith_succ]
    simp only [hm, Bool.false_eq_true, if_false, logged_get, hmiss, hb]
  have h1 : first.1 = LayoutOutput.hidden := by
    show (computeRootLayout (logged realCache) sel algs (fuel + 1) t av (.mk c l nk)).1 = _
    rw [computeRootLayout_fst]; show (evalNodeWith _ _ _ _ (.node style ctx kids) _ (RootModel.rootInput style av)).1 = _
    rw [e]
  refine ⟨h1, ?_, ?_⟩
  · show (computeRootLayout (logged realCache) sel algs (fuel + 1) t av (.mk c l nk)).2 = _
    rw [computeRootLayout_snd]
    show setRootLayout (evalNodeWith _ _ _ _ (.node style ctx kids) _ (RootModel.rootInput style av)).2
      (RootModel.rootLayout style av (evalNodeWith _ _ _ _ (.node style ctx kids) _ (RootModel.rootInput style av)).1) = _
    rw [e]; rfl
  · intro hself
    refine computeRootLayout_twice (logged realCache) sel algs (fuel + 1) t av (.mk c l nk)
      (storeHits_logged realCache _ _ (storeHits_real _ _ (rootInput_mode style av) ?_))
    show SelfCompatible (RootModel.rootInput style av) first.1
    rw [h1]; exact hself

/-- the real dispatch has the `display:none` arm the previous theorem asks for -/
theorem real_dispatch_none (b : Bool) : Dispatch.select dispatchArms Display.none b = some Callee.hidden := by
  cases b <;> decide

/-! ## 4. `TaffyTree::compute_layout_with_measure` (rounding included) -/

/-- the wrapper is C13's state machine step `Op.compute` fed with the unrounded layouts the root pass leaves -/
theorem computeLayout_is_round_step {C : Type} (ci : CacheImpl α C) (sel : Display → Bool → Option Callee) (algs : Algs α)
    (fuel : Nat) (t : STree α) (av : Size (AvailableSpace α)) (s : TaffyState α C) :
    (computeLayoutWithMeasure ci sel algs fuel t av s).roundState =
      RoundModel.step s.roundState (.compute (layoutTree (computeRootLayout ci sel algs fuel t av s.nodes).2)) := rfl

/-- **second_compute_layout**: `compute_layout_with_measure` called twice: the second call leaves the complete state of
the first — caches, unrounded layouts, logs (zero body evaluations, zero measure calls), the rounding flag and every
node's final (rounded) layout — hence `layout()` reports the same for every node. -/
theorem second_compute_layout (sel : Display → Bool → Option Callee) (algs : Algs α) (fuel : Nat) (t : STree α)
    (av : Size (AvailableSpace α)) (s : TaffyState α (Cache α × List (Option (LayoutInput α))))
    (hself : SelfCompatible (RootModel.rootInput t.style av)
      (computeRootLayout (logged realCache) sel algs fuel t av s.nodes).1) :
    let s1 := computeLayoutWithMeasure (logged realCache) sel algs fuel t av s
    let s2 := computeLayoutWithMeasure (logged realCache) sel algs fuel t av s1
    s2 = s1 ∧ s2.layout = s1.layout ∧ totalEvals s2.nodes = totalEvals s1.nodes := by
  intro s1 s2
  have h : s2 = s1 :=
    computeLayoutWithMeasure_twice (logged realCache) sel algs fuel t av s
      (storeHits_logged realCache _ _ (storeHits_real _ _ (rootInput_mode t.style av) hself))
  refine ⟨h, by rw [h], by rw [h]⟩

end general

/-! ## 3. exact rationals: no hypothesis; the concrete algorithms; all trees -/

/-- at ℚ every key is self-compatible (`x = x`, `|x − x| = 0 < ε`): there is no NaN and no infinity -/
theorem selfCompatible_rat (inp : LayoutInput Rat) (out : LayoutOutput Rat) : SelfCompatible inp out := by
  have h1 : ∀ o : Option Rat, optEq o o = true := by
    intro o; cases o <;> simp [optEq, Num.feq]
  have h2 : ∀ a : AvailableSpace Rat, isRoughlyEqual a a = true := by
    intro a
    cases a with
    | definite x =>
      simp only [isRoughlyEqual, Num.flt, Num.abs, Num.eps, RatNum.eps, sub_self, lt_self_iff_false, if_false,
        decide_eq_true_eq]
      norm_num
    | minContent => rfl
    | maxContent => rfl
  unfold SelfCompatible compatible
  simp only [h1, h2, Bool.true_or, Bool.or_true, Bool.and_self]

/-- **second_pass_hits_rat**: at ℚ, for every dispatch, all algorithms, every tree, available space, state and fuel -/
theorem second_pass_hits_rat (sel : Display → Bool → Option Callee) (algs : Algs Rat) (fuel : Nat) (t : STree Rat)
    (av : Size (AvailableSpace Rat)) (ns : NS Rat (Cache Rat × List (Option (LayoutInput Rat)))) :
    let first := computeRootLayout (logged realCache) sel algs fuel t av ns
    let second := computeRootLayout (logged realCache) sel algs fuel t av first.2
    second.1 = first.1 ∧ second.2 = first.2 ∧ totalEvals second.2 = totalEvals first.2 ∧
    (∀ path, nodeAt path t second.2 = nodeAt path t first.2) :=
  second_pass_hits sel algs fuel t av ns (selfCompatible_rat _ _)

/-- **second_pass_no_measure_all_trees** (the clause of C15): the real dispatch (extracted from `taffy_tree.rs`), the
concrete leaf, block, flexbox and grid algorithms, the real cache; EVERY style tree (any shape, depth, mix of
containers, `display:none` nodes — the root included —, measure contexts), every available space, every state the tree
may be in, every fuel.  After a root pass, the same root pass again returns the same output and changes nothing: no
cache, no layout, and no node's log of body evaluations — the measure function is invoked zero times. -/
theorem second_pass_no_measure_all_trees (fuel : Nat) (t : STree Rat) (av : Size (AvailableSpace Rat))
    (ns : NS Rat (Cache Rat × List (Option (LayoutInput Rat)))) :
    let first := computeRootLayout (logged realCache) (Dispatch.select dispatchArms) (EvalGrid.allAlgs : Algs Rat) fuel t av ns
    let second := computeRootLayout (logged realCache) (Dispatch.select dispatchArms) (EvalGrid.allAlgs : Algs Rat) fuel t av first.2
    second.1 = first.1 ∧ second.2 = first.2 ∧ totalEvals second.2 = totalEvals first.2 ∧
    (∀ path, nodeAt path t second.2 = nodeAt path t first.2) :=
  second_pass_hits_rat _ _ fuel t av ns

/-- the same without instrumentation -/
theorem second_pass_identity_all_trees (fuel : Nat) (t : STree Rat) (av : Size (AvailableSpace Rat))
    (ns : NS Rat (Cache Rat)) :
    computeRootLayout realCache (Dispatch.select dispatchArms) (EvalGrid.allAlgs : Algs Rat) fuel t av
        (computeRootLayout realCache (Dispatch.select dispatchArms) (EvalGrid.allAlgs : Algs Rat) fuel t av ns).2 =
      computeRootLayout realCache (Dispatch.select dispatchArms) (EvalGrid.allAlgs : Algs Rat) fuel t av ns :=
  second_pass_hits_plain _ _ fuel t av ns (selfCompatible_rat _ _)

/-- **second_compute_layout_all_trees** (rounding lifted): `TaffyTree::compute_layout_with_measure` twice on an
unchanged tree, any state (any caches, stale layouts, rounding on or off, any final layouts): second = first in every
component, `layout()` unchanged at every node, zero body evaluations / measure calls. -/
theorem second_compute_layout_all_trees (fuel : Nat) (t : STree Rat) (av : Size (AvailableSpace Rat))
    (s : TaffyState Rat (Cache Rat × List (Option (LayoutInput Rat)))) :
    let s1 := computeLayoutWithMeasure (logged realCache) (Dispatch.select dispatchArms) (EvalGrid.allAlgs : Algs Rat) fuel t av s
    let s2 := computeLayoutWithMeasure (logged realCache) (Dispatch.select dispatchArms) (EvalGrid.allAlgs : Algs Rat) fuel t av s1
    s2 = s1 ∧ s2.layout = s1.layout ∧ totalEvals s2.nodes = totalEvals s1.nodes :=
  second_compute_layout _ _ fuel t av s (selfCompatible_rat _ _)

/-- a `display:none` root at ℚ with the real dispatch: hidden output, subtree zeroed, and the second pass is the
identity (the subtree is not walked again) -/
theorem hidden_root_second_pass_rat (algs : Algs Rat) (fuel : Nat) (style : Style Rat) (ctx : Option (MeasureSpec Rat))
    (kids : List (STree Rat)) (hd : style.display = Display.none) (av : Size (AvailableSpace Rat))
    (c : Cache Rat × List (Option (LayoutInput Rat))) (l : Layout Rat)
    (nk : List (NS Rat (Cache Rat × List (Option (LayoutInput Rat)))))
    (hmiss : (realCache (α := Rat)).get c.1 (RootModel.rootInput style av) = none) :
    let t : STree Rat := .node style ctx kids
    let first := computeRootLayout (logged realCache) (Dispatch.select dispatchArms) algs (fuel + 1) t av (.mk c l nk)
    first.1 = LayoutOutput.hidden ∧ first.2.kids = hiddenLayoutList (logged realCache) nk ∧
    computeRootLayout (logged realCache) (Dispatch.select dispatchArms) algs (fuel + 1) t av first.2 = first := by
  intro t first
  obtain ⟨h1, h2, h3⟩ := hidden_root_pass (Dispatch.select dispatchArms) real_dispatch_none algs fuel style ctx kids hd
    av c l nk hmiss
  refine ⟨h1, ?_, h3 (selfCompatible_rat _ _)⟩
  show (computeRootLayout (logged realCache) (Dispatch.select dispatchArms) algs (fuel + 1) t av (.mk c l nk)).2.kids = _
  rw [h2]; rfl

/-! ## the tie: the function the EVAL correspondence run executes is `computeRootLayout` -/

/-- `DrvEVAL.layoutRoot` (compared node by node with the real `compute_root_layout` on every EVAL run, at Float32) is
`computeRootLayout` with the real cache, the extracted dispatch and the concrete algorithms on the freshly built tree -/
theorem driver_layoutRoot_eq (t : STree Float32) (av : Size (AvailableSpace Float32)) :
    DrvEVAL.layoutRoot t av =
      DrvEVAL.preorder (computeRootLayout realCache (Dispatch.select dispatchArms) DrvEVAL.algs (STree.depth t + 1) t av
        (NS.init realCache t)).2 := by
  unfold DrvEVAL.layoutRoot computeRootLayout evalNode
  simp only
  generalize evalNodeWith realCache (Dispatch.select dispatchArms) DrvEVAL.algs (STree.depth t + 1) t
    (NS.init realCache t) (RootModel.rootInput t.style av) = r
  obtain ⟨o, n⟩ := r
  cases n with
  | mk c l kids => simp only [DrvEVAL.preorder, setRootLayout]

/-! ## non-vacuity -/

section Examples
open EvalGrid

/-- the start state of the example: the fresh tree -/
abbrev exInit : NS Rat (Cache Rat × List (Option (LayoutInput Rat))) := NS.init (logged realCache) exG

/-- the hypothesis of the general theorems holds on a concrete run: grid root with a leaf, a `display:none` subtree, an
absolutely positioned leaf, a wrapping text leaf and a flexbox child (`EvalGrid.exG`), available space 100 × max-content -/
example : SelfCompatible (RootModel.rootInput exG.style ⟨.definite 100, .maxContent⟩)
    (computeRootLayout (logged realCache) (Dispatch.select dispatchArms) (allAlgs : Algs Rat) 5 exG
      ⟨.definite 100, .maxContent⟩ exInit).1 := selfCompatible_rat _ _

/-- … and the statement is not vacuous there: the first pass over the fresh `exG` evaluates 20 bodies in total (the
root once; its five children 3, 1, 1, 5 and 3 times; the rest below them), 5 of them at the wrapping text leaf `[3]` — five invocations
of its measure function —; the second pass adds none. -/
theorem exG_first_pass_counts :
    totalEvals (computeRootLayout (logged realCache) (Dispatch.select dispatchArms) (EvalConcrete.algs EvalFlex.flexAlg gridAlgK) 5
      exG ⟨.definite 100, .maxContent⟩ exInit).2 = 20 ∧
    (nodeAt [3] exG (computeRootLayout (logged realCache) (Dispatch.select dispatchArms)
      (EvalConcrete.algs EvalFlex.flexAlg gridAlgK) 5 exG ⟨.definite 100, .maxContent⟩ exInit).2).map
        (fun r => evals r.2.cache.2) = some 5 := by
  decide +kernel

example :
    let first := computeRootLayout (logged realCache) (Dispatch.select dispatchArms) (allAlgs : Algs Rat) 5 exG
      ⟨.definite 100, .maxContent⟩ exInit
    totalEvals first.2 = 20 ∧
    totalEvals (computeRootLayout (logged realCache) (Dispatch.select dispatchArms) (allAlgs : Algs Rat) 5 exG
      ⟨.definite 100, .maxContent⟩ first.2).2 = 20 := by
  intro first
  have h := (second_pass_no_measure_all_trees 5 exG ⟨.definite 100, .maxContent⟩ exInit).2.2.1
  have h17 : totalEvals first.2 = 20 := by
    show totalEvals (computeRootLayout (logged realCache) (Dispatch.select dispatchArms) (allAlgs : Algs Rat) 5 exG
      ⟨.definite 100, .maxContent⟩ exInit).2 = 20
    rw [allAlgs_eq_K]; exact exG_first_pass_counts.1
  exact ⟨h17, h.trans h17⟩

/-- a state that is NOT the initial one: the tree has been laid out before at another available space; the root pass
at 100 × max-content then misses at the root (the final-layout slot holds the other key), hits in some children, and the
pass after it is again the identity -/
example :
    let warm := (computeRootLayout (logged realCache) (Dispatch.select dispatchArms) (allAlgs : Algs Rat) 5 exG
      ⟨.minContent, .definite 33⟩ exInit).2
    let first := computeRootLayout (logged realCache) (Dispatch.select dispatchArms) (allAlgs : Algs Rat) 5 exG
      ⟨.definite 100, .maxContent⟩ warm
    computeRootLayout (logged realCache) (Dispatch.select dispatchArms) (allAlgs : Algs Rat) 5 exG
      ⟨.definite 100, .maxContent⟩ first.2 = first := by
  intro warm first
  have h := second_pass_no_measure_all_trees 5 exG ⟨.definite 100, .maxContent⟩ warm
  exact Prod.ext h.1 h.2.1

/-- `second_pass_reevaluates_root` / `hidden_root_pass`: their hypotheses are satisfiable — a miss on the fresh cache -/
example (style : Style Rat) (av : Size (AvailableSpace Rat)) :
    (realCache (α := Rat)).get (Cache.new : Cache Rat) (RootModel.rootInput style av) = none := rfl

/-- `display:none` root over a subtree, fresh state: the pass answers HIDDEN and repeats as the identity -/
example (av : Size (AvailableSpace Rat)) :
    let t : STree Rat := .node C05.hiddenStyle none [exG]
    let first := computeRootLayout (logged realCache) (Dispatch.select dispatchArms) (allAlgs : Algs Rat) 7 t av
      (NS.init (logged realCache) t)
    first.1 = LayoutOutput.hidden ∧
    computeRootLayout (logged realCache) (Dispatch.select dispatchArms) (allAlgs : Algs Rat) 7 t av first.2 = first := by
  intro t first
  have h := hidden_root_second_pass_rat (allAlgs : Algs Rat) 6 C05.hiddenStyle none [exG] rfl av
    ((logged realCache).empty) Layout.new (NS.initList (logged realCache) [exG]) rfl
  exact ⟨h.1, h.2.2⟩

end Examples

/-
Theorems to audit (property C15):
  C15Eval.root_key_deterministic
  C15Eval.root_pass_logs_root_key
  C15Eval.second_pass_hits
  C15Eval.second_pass_hits_plain
  C15Eval.second_pass_root_hit
  C15Eval.repeated_passes
  C15Eval.second_pass_reevaluates_root
  C15Eval.hidden_root_pass
  C15Eval.real_dispatch_none
  C15Eval.computeLayout_is_round_step
  C15Eval.second_compute_layout
  C15Eval.selfCompatible_rat
  C15Eval.second_pass_hits_rat
  C15Eval.second_pass_no_measure_all_trees          -- the clause of C15
  C15Eval.second_pass_identity_all_trees
  C15Eval.second_compute_layout_all_trees
  C15Eval.hidden_root_second_pass_rat
  C15Eval.driver_layoutRoot_eq
  C15Eval.exG_first_pass_counts
and the lemmas they rest on (Lemmas/C15Eval.lean):
  C15Eval.realCache_get_store, C15Eval.storeHits_real, C15Eval.storeMisses_real, C15Eval.eval_hit,
  C15Eval.eval_then_get, C15Eval.eval_miss_cache, C15Eval.eval_twice, C15Eval.computeRootLayout_twice,
  C15Eval.computeRootLayout_iterate, C15Eval.computeLayoutWithMeasure_twice
-/

end C15Eval
