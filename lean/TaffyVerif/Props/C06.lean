/-
  C06 — Absolutely positioned children influence nothing outside their own subtree except `content_size`.

  Model: the tree-level evaluator `Eval.evalNodeWith` (Model/Eval.lean), for every number type, every dispatch `sel`,
  every cache implementation `ci` that respects a relation `R` "equal up to content_size in stored outputs"
  (`CacheRespects ci R`; proved below for the real nine-slot cache, the exact memo and no cache), every fuel, tree,
  state and input.  Container algorithms enter through one named hypothesis (definitions in Lemmas/EvalAbs.lean):

    `AbsBlind algs` := ∀ style xs ys inp, AgreeA xs ys →
        AbsEquiv (absIdx xs) OutEqv (algs.block style xs inp) (algs.block style ys inp) ∧ (same for flex) ∧ (same for grid)

    `absVis s`      := s.position = .absolute ∧ s.display ≠ .none
    `AgreeA xs ys`  := same length and at every index either both styles are `absVis` or (the style is not `absVis` and
                       the two are equal)
    `absIdx xs i`   := ∃ x, xs[i]? = some x ∧ absVis x
    `OutEqv a b`    := the two `LayoutOutput`s are equal in every field but `contentSize`
    `LayEqv a b`    := the two `Layout`s are equal in every field but `contentSize` (order, location, size, … equal)
    `AbsEquiv abs Q p q` (inductive): `pure a`/`pure b` with `Q a b`; a `call i inp` with `¬ abs i` is matched by the
        same `call i inp`, continuations equivalent for EVERY pair of answers related by `OutEqv`; `setLayout i lA` is
        matched by `setLayout i lB` with `LayEqv lA lB`; a `call`/`setLayout` with `abs i` may occur on either side
        alone, continuing for an ARBITRARY answer.
-/
import TaffyVerif.Lemmas.EvalAbs
import TaffyVerif.Props.C17

namespace C06
open Eval
variable {α : Type} [Num α] {C : Type}

/-! ### single node -/

/-- **abs_invisible_node** (one `runProg`): running two `AbsEquiv` programs against child lists that are related
outside the absolutely positioned children — with any child evaluator `ev` that itself respects the relations —
gives results related by `Q` and child states again related outside the absolutely positioned children. -/
theorem abs_invisible_node {β γ : Type} (R : C → C → Prop) (Q : β → γ → Prop)
    (ev : STree α → NS α C → LayoutInput α → LayoutOutput α × NS α C) (hev : EvA R ev)
    (kA kB : List (STree α)) (hr : AbsRelList kA kB) (p : ProgM α β) (q : ProgM α γ)
    (hpq : AbsEquiv (absIdx (kA.map STree.style)) Q p q) (ksA ksB : List (NS α C)) (hs : SimAList R kA ksA ksB) :
    Q (runProg (evalChildOf ev kA) p ksA).1 (runProg (evalChildOf ev kB) q ksB).1 ∧
    SimAList R kA (runProg (evalChildOf ev kA) p ksA).2 (runProg (evalChildOf ev kB) q ksB).2 :=
  runProg_simA R Q ev hev kA kB hr p q hpq ksA ksB hs

/-! ### whole trees -/

/-- **SimA_init**: freshly built states of related trees are related -/
theorem SimA_init (ci : CacheImpl α C) (R : C → C → Prop) (hc : CacheRespects ci R) (tA tB : STree α)
    (h : AbsRel tA tB) : SimA R tA (NS.init ci tA) (NS.init ci tB) :=
  init_simA ci R hc tA tB h

/-- **abs_invisible**: if tree B is tree A with absolutely positioned children (at any depth) replaced by arbitrary
other absolutely positioned children, and the two states agree outside the absolutely positioned subtrees (own
layouts equal up to `content_size`, caches `R`-related), then evaluating A and B on the same input with the same fuel
returns outputs equal up to `content_size` and states that again agree outside the absolutely positioned subtrees,
provided the container algorithms are `AbsBlind`. -/
theorem abs_invisible (ci : CacheImpl α C) (R : C → C → Prop) (hc : CacheRespects ci R)
    (sel : Display → Bool → Option Gen.Facts.Callee) (algs : Algs α) (hb : AbsBlind algs)
    (fuel : Nat) (tA tB : STree α) (nsA nsB : NS α C) (inp : LayoutInput α)
    (hr : AbsRel tA tB) (hs : SimA R tA nsA nsB) :
    OutEqv (evalNodeWith ci sel algs fuel tA nsA inp).1 (evalNodeWith ci sel algs fuel tB nsB inp).1 ∧
    SimA R tA (evalNodeWith ci sel algs fuel tA nsA inp).2 (evalNodeWith ci sel algs fuel tB nsB inp).2 :=
  eval_EvA ci R hc sel algs hb fuel tA tB nsA nsB inp hr hs

/-- `abs_invisible` for `TaffyTree`'s own dispatch -/
theorem abs_invisible_evalNode (ci : CacheImpl α C) (R : C → C → Prop) (hc : CacheRespects ci R)
    (algs : Algs α) (hb : AbsBlind algs)
    (fuel : Nat) (tA tB : STree α) (nsA nsB : NS α C) (inp : LayoutInput α)
    (hr : AbsRel tA tB) (hs : SimA R tA nsA nsB) :
    OutEqv (evalNode ci algs fuel tA nsA inp).1 (evalNode ci algs fuel tB nsB inp).1 ∧
    SimA R tA (evalNode ci algs fuel tA nsA inp).2 (evalNode ci algs fuel tB nsB inp).2 :=
  abs_invisible ci R hc _ algs hb fuel tA tB nsA nsB inp hr hs

/-- `abs_invisible` for the real nine-slot cache of src/tree/cache.rs -/
theorem abs_invisible_realCache (algs : Algs α) (hb : AbsBlind algs)
    (fuel : Nat) (tA tB : STree α) (nsA nsB : NS α (CacheModel.Cache α)) (inp : LayoutInput α)
    (hr : AbsRel tA tB) (hs : SimA RealRel tA nsA nsB) :
    OutEqv (evalNode realCache algs fuel tA nsA inp).1 (evalNode realCache algs fuel tB nsB inp).1 ∧
    SimA RealRel tA (evalNode realCache algs fuel tA nsA inp).2 (evalNode realCache algs fuel tB nsB inp).2 :=
  abs_invisible_evalNode realCache RealRel realCache_respects algs hb fuel tA tB nsA nsB inp hr hs

/-- the three cache implementations of Model/Eval.lean meet the cache hypothesis -/
theorem caches_respect :
    CacheRespects (realCache : CacheImpl α (CacheModel.Cache α)) RealRel ∧
    CacheRespects (noCache : CacheImpl α Unit) (fun _ _ => True) :=
  ⟨realCache_respects, noCache_respects⟩

theorem exactMemo_respects' [DecidableEq α] : CacheRespects (exactMemo : CacheImpl α _) MemoRel :=
  exactMemo_respects

/-- what the state relation says node by node: at every path on which no node below the root (the end node
included) is an absolutely positioned box, either both states lack the node or both have it, with own layouts equal
up to `content_size` and `R`-related caches -/
theorem SimA_reads (R : C → C → Prop) (t : STree α) (a b : NS α C) (p : List Nat) (hs : SimA R t a b)
    (hv : OutsideAbs t p) :
    OptRel (fun x y => LayEqv x.layout y.layout ∧ R x.cache y.cache) (nsAt a p) (nsAt b p) :=
  SimA_at R p t a b hs hv

/-- **abs_invisible_pass**: whole passes from freshly built trees: outputs equal up to `content_size`, and at every
node outside the absolutely positioned subtrees the same order, location, size, scrollbar size, border, padding
and margin. -/
theorem abs_invisible_pass (ci : CacheImpl α C) (R : C → C → Prop) (hc : CacheRespects ci R)
    (algs : Algs α) (hb : AbsBlind algs) (fuel : Nat) (tA tB : STree α) (inp : LayoutInput α) (hr : AbsRel tA tB) :
    OutEqv (evalNode ci algs fuel tA (NS.init ci tA) inp).1 (evalNode ci algs fuel tB (NS.init ci tB) inp).1 ∧
    ∀ p, OutsideAbs tA p →
      OptRel (fun x y => LayEqv x.layout y.layout)
        (nsAt (evalNode ci algs fuel tA (NS.init ci tA) inp).2 p)
        (nsAt (evalNode ci algs fuel tB (NS.init ci tB) inp).2 p) := by
  obtain ⟨h1, h2⟩ := abs_invisible_evalNode ci R hc algs hb fuel tA tB _ _ inp hr (SimA_init ci R hc tA tB hr)
  exact ⟨h1, fun p hv => OptRel.mono (fun _ _ h => h.1) _ _ (SimA_at R p tA _ _ h2 hv)⟩

/-- **abs_invisible_replace** (the property as worded): take any tree and any absolutely positioned box `h` in it
(at a non-root path `q`), and replace `h` with its whole subtree by ANY other absolutely positioned box `r`.  A pass
over the original and a pass over the modified tree (fresh states) return outputs equal up to `content_size`, and
every node outside the absolutely positioned subtrees gets the same order, location, size, scrollbar size, border,
padding and margin. -/
theorem abs_invisible_replace (ci : CacheImpl α C) (R : C → C → Prop) (hc : CacheRespects ci R)
    (algs : Algs α) (hb : AbsBlind algs) (fuel : Nat) (t h r : STree α) (q : List Nat) (inp : LayoutInput α)
    (hq : q ≠ []) (ht : treeAt t q = some h) (hh : absVis h.style) (hr : absVis r.style) :
    OutEqv (evalNode ci algs fuel t (NS.init ci t) inp).1
      (evalNode ci algs fuel (replaceAt t q r) (NS.init ci (replaceAt t q r)) inp).1 ∧
    ∀ p, OutsideAbs t p →
      OptRel (fun x y => LayEqv x.layout y.layout)
        (nsAt (evalNode ci algs fuel t (NS.init ci t) inp).2 p)
        (nsAt (evalNode ci algs fuel (replaceAt t q r) (NS.init ci (replaceAt t q r)) inp).2 p) :=
  abs_invisible_pass ci R hc algs hb fuel t _ inp (AbsRel_replaceAt q t h r hq ht hh hr)

/-- composing program equivalences along `bind` (the tool for discharging `AbsBlind` on `do`-blocks) -/
theorem AbsEquiv_bind {β γ β' γ' : Type} {abs : Nat → Prop} {Q : β → γ → Prop} {Q' : β' → γ' → Prop}
    {p : ProgM α β} {q : ProgM α γ} (h : AbsEquiv abs Q p q)
    {f : β → ProgM α β'} {g : γ → ProgM α γ'} (hfg : ∀ a b, Q a b → AbsEquiv abs Q' (f a) (g b)) :
    AbsEquiv abs Q' (p >>= f) (q >>= g) :=
  AbsEquiv.bind h hfg

/-! ### non-vacuity -/

section examples

def blockStyle : Style α := { (Style.default : Style α) with display := .block }
def absStyle : Style α := { (Style.default : Style α) with display := .block, position := .absolute }
/-- a different absolutely positioned child -/
def absStyle2 : Style α := { (Style.default : Style α) with display := .flex, position := .absolute, flexGrow := 1 }

/-- tree A: block root with an in-flow child and an absolutely positioned child that has a subtree -/
def exA : STree α :=
  .node blockStyle none [.node blockStyle none [], .node absStyle none [.node blockStyle none []]]
/-- tree B: the absolutely positioned child replaced by a different absolutely positioned leaf -/
def exB : STree α :=
  .node blockStyle none [.node blockStyle none [], .node absStyle2 (some (.fixed 1 1)) []]

theorem exAB_rel : AbsRel (exA : STree α) exB := by
  simp only [exA, exB, AbsRel, AbsRelList, STree.style, absVis, absStyle, absStyle2, blockStyle, Style.default]
  simp

example : OutsideAbs (exA : STree α) [0] := by
  simp [exA, OutsideAbs, absVis, blockStyle, STree.style, Style.default]

/-- a toy container algorithm that looks at its first child only: an absolutely positioned first child is laid
out and contributes to `content_size` alone; an in-flow first child determines the container's output -/
def exAlg (xs : List (Style α)) (inp : LayoutInput α) : ProgM α (LayoutOutput α) :=
  match xs with
  | [] => .pure LayoutOutput.hidden
  | x :: _ =>
    if absVis x then
      .call 0 inp fun o => .setLayout 0 { (Layout.withOrder 0 : Layout α) with size := o.size } fun _ =>
      .pure { (LayoutOutput.hidden : LayoutOutput α) with contentSize := o.size }
    else
      .call 0 inp fun o =>
      .setLayout 0 { (Layout.withOrder 0 : Layout α) with size := o.size, contentSize := o.contentSize } fun _ =>
      .pure o

def exAlgs : Algs α where
  leaf := fun _ _ _ => LayoutOutput.hidden
  block := fun _ xs inp => exAlg xs inp
  flex := fun _ xs inp => exAlg xs inp
  grid := fun _ _ _ => .pure LayoutOutput.hidden

theorem exAlg_blind (xs ys : List (Style α)) (inp : LayoutInput α) (h : AgreeA xs ys) :
    AbsEquiv (absIdx xs) OutEqv (exAlg xs inp) (exAlg ys inp) := by
  cases xs with
  | nil =>
    cases ys with
    | nil => exact .pure _ _ (OutEqv.refl _)
    | cons y ys => simp only [AgreeA] at h
  | cons x xs =>
    cases ys with
    | nil => simp only [AgreeA] at h
    | cons y ys =>
      simp only [AgreeA] at h
      have h0 : absIdx (x :: xs) 0 ↔ absVis x := by
        simp only [absIdx, List.getElem?_cons_zero, Option.some.injEq, exists_eq_left']
      rcases h.1 with ⟨hx, hy⟩ | ⟨hx, hxy⟩
      · simp only [exAlg, hx, hy, if_true]
        refine .callL 0 inp _ _ (h0.2 hx) fun oA => .callR 0 inp _ _ (h0.2 hx) fun oB => ?_
        refine .setL 0 _ _ _ (h0.2 hx) (.setR 0 _ _ _ (h0.2 hx) (.pure _ _ ?_))
        exact ⟨rfl, rfl, rfl, rfl, rfl⟩
      · subst hxy
        simp only [exAlg, hx, if_false]
        refine .call 0 inp _ _ (fun h => hx (h0.1 h)) fun oA oB ho => ?_
        refine .setLayout 0 _ _ _ _ ⟨rfl, rfl, ?_, rfl, rfl, rfl, rfl⟩ (.pure _ _ ho)
        exact ho.1

/-- the named hypothesis is satisfiable by an algorithm that does interact with absolutely positioned children -/
theorem exAlgs_ok : AbsBlind (exAlgs : Algs α) := by
  intro style xs ys inp h
  exact ⟨exAlg_blind xs ys inp h, exAlg_blind xs ys inp h, .pure _ _ (OutEqv.refl _)⟩

/-- the theorem applied to the concrete trees and algorithm, with the real cache -/
example (fuel : Nat) (inp : LayoutInput α) :
    OutEqv (evalNode realCache exAlgs fuel exA (NS.init realCache exA) inp).1
      (evalNode realCache exAlgs fuel exB (NS.init realCache exB) inp).1 :=
  (abs_invisible_pass realCache RealRel realCache_respects exAlgs exAlgs_ok fuel exA exB inp exAB_rel).1

end examples

end C06

/-
  Obligations to audit (checklib/props.py):
  C06_THEOREMS = [
    "C06.abs_invisible_node", "C06.SimA_init", "C06.abs_invisible", "C06.abs_invisible_evalNode",
    "C06.abs_invisible_realCache", "C06.caches_respect", "C06.exactMemo_respects'", "C06.SimA_reads",
    "C06.abs_invisible_pass", "C06.abs_invisible_replace", "C06.AbsEquiv_bind", "C06.AgreeA_iff",
  ]
-/
