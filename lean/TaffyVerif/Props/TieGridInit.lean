/-
  Tie (tier T) for src/compute/grid/explicit_grid.rs: `compute_explicit_grid_size_in_axis`, `create_implicit_tracks`,
  `initialize_grid_tracks`.

  `Gen.GridInit.*` is regenerated from the Rust source on every run (extract/src/{slices,gridinit}.rs): statement by statement,
  loops as folds over the tuple of the locals they assign, u16 arithmetic / `unwrap` in `Except GErr` in Rust's evaluation
  order.  The hand-written model (Model/GridTracksInit.lean) is organised differently (list comprehensions, the error checks
  hoisted to the front); the theorems below prove the two equal for EVERY argument and every `[Num α]`, by induction over the
  template / the track lists.  C09's theorems about grid track initialisation are stated on the model.
-/
import TaffyVerif.Generated.GridInit
import TaffyVerif.Lemmas.SliceOps
import TaffyVerif.Props.TieTrackFns
import TaffyVerif.Props.TieResolve
import TaffyVerif.Props.TieMaybeMath
import TaffyVerif.Props.TieStyle
import TaffyVerif.Props.TieLayout

set_option linter.unusedSectionVars false
set_option linter.unusedSimpArgs false

namespace TieGridInit
open GridTracks Slice
variable {α : Type} [Num α]

/-! ### `compute_explicit_grid_size_in_axis` -/

/-- the summand of `non_auto_repeating_track_count` -/
theorem nonAutoTerm_eq (d : TrackDef α) :
    (match d with
      | .single _ => (pure 1 : Except GErr Nat)
      | .rep (.count count) tracks => Slice.u16Mul count (Slice.usizeAsU16 (List.length tracks))
      | .rep .autoFit _ => pure 0
      | .rep .autoFill _ => pure 0) = nonAutoTerm d := by
  cases d with
  | single f => rfl
  | rep r fs => cases r <;> rfl

/-- the nested `fn track_definite_value` -/
theorem track_definite_value_eq (f : TrackFn α) (p : Option α) :
    Gen.GridInit.compute_explicit_grid_size_in_axis.track_definite_value f p = unwrap (trackDefiniteValue f p) := by
  unfold Gen.GridInit.compute_explicit_grid_size_in_axis.track_definite_value trackDefiniteValue
  rw [TieTrackFns.max_definite_value_eq, TieTrackFns.min_definite_value_eq, TieMaybeMath.fo_min_eq]

theorem find_auto_repetition_eq (tpl : List (TrackDef α)) :
    List.findSome? (fun (d : TrackDef α) =>
        match d with
        | .single _ => none
        | .rep (.count _) _ => none
        | .rep .autoFit tracks => some tracks
        | .rep .autoFill tracks => some tracks) tpl = findAutoRepetition tpl := by
  induction tpl with
  | nil => rfl
  | cons d rest ih =>
    cases d with
    | single f => simp [List.findSome?, findAutoRepetition, ih]
    | rep r fs => cases r <;> simp [List.findSome?, findAutoRepetition, ih]

/-- the summand of `non_repeating_track_used_space` -/
theorem nonRepeatingUsed_eq (parent : Option α) (d : TrackDef α) :
    (match d with
      | .single sizing_function => Gen.GridInit.compute_explicit_grid_size_in_axis.track_definite_value sizing_function parent
      | .rep (.count count) repeated_tracks => do
          let sum ← Slice.sumF32M (fun (sf : TrackFn α) =>
            Gen.GridInit.compute_explicit_grid_size_in_axis.track_definite_value sf parent) repeated_tracks
          pure (sum * (Num.ofNat count))
      | .rep .autoFit _ => pure 0
      | .rep .autoFill _ => pure 0) = unwrap (nonRepeatingUsed parent d) := by
  cases d with
  | single f => exact track_definite_value_eq f parent
  | rep r fs =>
    cases r with
    | autoFill => rfl
    | autoFit => rfl
    | count c =>
      simp only [nonRepeatingUsed]
      have : (fun (sf : TrackFn α) => Gen.GridInit.compute_explicit_grid_size_in_axis.track_definite_value sf parent) =
          fun sf => unwrap (trackDefiniteValue sf parent) := funext fun sf => track_definite_value_eq sf parent
      rw [this, sumF32M_unwrap]
      cases allSome (List.map (fun f => trackDefiniteValue f parent) fs) <;> rfl

theorem bind_congr_left {β γ : Type} {X Y : Except GErr β} {k : β → Except GErr γ} {Z : Except GErr γ}
    (h : X = Y) (h2 : (Y >>= k) = Z) : (X >>= k) = Z := by subst h; exact h2

theorem any_hasZeroRep (P : TrackDef α → Bool) (tpl : List (TrackDef α))
    (h : ∀ d, P d = match d with | .single _ => false | .rep _ fs => fs.isEmpty) : tpl.any P = hasZeroRep tpl := by
  have : P = _ := funext h
  subst this; rfl

theorem all_fixed (P : TrackDef α → Bool) (tpl : List (TrackDef α))
    (h : ∀ d, P d = match d with
      | .single f => f.hasFixedComponent
      | .rep _ fs => fs.all fun f => f.hasFixedComponent) : tpl.all P = allTrackDefsHaveFixedComponent tpl := by
  have : P = _ := funext h
  subst this; rfl

theorem sumU16M_nonAuto (F : TrackDef α → Except GErr Nat) (tpl : List (TrackDef α)) (h : ∀ d, F d = nonAutoTerm d) :
    sumU16M F tpl = nonAutoRepeatingTrackCount tpl := by
  have : F = nonAutoTerm := funext h
  subst this; exact sumU16M_eq _ _

theorem findSome_auto (F : TrackDef α → Option (List (TrackFn α))) (tpl : List (TrackDef α))
    (h : ∀ d, F d = match d with
      | .single _ => none
      | .rep (.count _) _ => none
      | .rep .autoFit tracks => some tracks
      | .rep .autoFill tracks => some tracks) : tpl.findSome? F = findAutoRepetition tpl := by
  have : F = _ := funext h
  subst this; exact find_auto_repetition_eq tpl

theorem sumF32M_nonRep (parent : Option α) (F : TrackDef α → Except GErr α) (tpl : List (TrackDef α))
    (h : ∀ d, F d = unwrap (nonRepeatingUsed parent d)) :
    sumF32M F tpl = match allSome (tpl.map (nonRepeatingUsed parent)) with
      | none => .error .unwrapNone
      | some vs => .ok (sumF vs) := by
  have : F = _ := funext h
  subst this; exact sumF32M_unwrap _ _

/-- the last two statements: `non_auto_repeating_track_count + (repetition_track_count * num_repetitions)` -/
theorem finish_eq (X : Except GErr Nat) (r n : Nat) :
    (X >>= fun k => do let t ← u16Mul r k; u16Add n t) =
      match X with
      | .error e => .error e
      | .ok k => if r * k > u16Max then .error .overflow else if n + r * k > u16Max then .error .overflow else .ok (n + r * k) := by
  cases X with
  | error e => rfl
  | ok k =>
    simp only [bind_ok, u16Mul, u16Add, u16Max]
    by_cases h1 : r * k > 65535
    · simp [h1]
    · by_cases h2 : n + r * k > 65535 <;> simp [h1, h2]

/-- the end of the `num_repetitions` block, with the long subterms abstracted -/
theorem tail_eq [NumCast α] (firstUsed inner q : α) (sizeMax : Bool) :
    (if Num.fgt firstUsed inner = true then (Except.ok 1 : Except GErr Nat)
      else if sizeMax = true then
        Except.ok (if NumCast.toU16Sat (Num.floor q) + 1 > 65535 then 65535 else NumCast.toU16Sat (Num.floor q) + 1)
      else Except.ok (if NumCast.toU16Sat (Num.ceil q) + 1 > 65535 then 65535 else NumCast.toU16Sat (Num.ceil q) + 1)) =
    (if Num.flt inner firstUsed = true then Except.ok 1
      else Except.ok (if NumCast.toU16Sat (if sizeMax = true then Num.floor q else Num.ceil q) + 1 > 65535 then 65535
        else NumCast.toU16Sat (if sizeMax = true then Num.floor q else Num.ceil q) + 1)) := by
  have hfg : Num.fgt firstUsed inner = Num.flt inner firstUsed := rfl
  rw [hfg]
  cases Num.flt inner firstUsed <;> cases sizeMax <;> rfl

theorem compute_explicit_grid_size_in_axis_eq [NumCast α] (style : Style α) (tpl : List (TrackDef α))
    (ics : Size (Option α)) (axis : Gen.TrackFns.AbsoluteAxis) :
    Gen.GridInit.compute_explicit_grid_size_in_axis style tpl ics axis =
      computeExplicitGridSizeInAxis (Gen.TrackFns.Size.get_abs style.size axis) (Gen.TrackFns.Size.get_abs style.maxSize axis)
        (Gen.TrackFns.Size.get_abs style.gap axis) tpl (Gen.TrackFns.Size.get_abs ics axis) := by
  unfold Gen.GridInit.compute_explicit_grid_size_in_axis computeExplicitGridSizeInAxis
  by_cases hE : tpl.isEmpty
  · simp [hE]
  rw [if_neg hE, if_neg hE]
  simp only [TieTrackFns.is_auto_repetition_eq, TieTrackFns.has_fixed_component_eq, TieResolve.dim_maybe_resolve_eq,
    TieResolve.lp_resolve_or_zero_eq, TieStyle.size_eq, TieStyle.max_size_eq, TieStyle.grid_gap_eq, TieLayout.floor_eq,
    TieLayout.ceil_eq, track_definite_value_eq, usizeAsU16]
  rw [any_hasZeroRep]
  rotate_left
  · intro d; cases d <;> rfl
  by_cases hZ : hasZeroRep tpl = true
  · simp only [hZ, if_true]; rfl
  rw [if_neg hZ, if_neg hZ]
  refine bind_congr_left (sumU16M_nonAuto _ _ ?_) ?_
  · intro d
    cases d with
    | single f => rfl
    | rep r fs => cases r <;> rfl
  cases hN : nonAutoRepeatingTrackCount tpl with
  | error e => rfl
  | ok nonAuto =>
    simp only [bind_ok]
    rw [all_fixed]
    rotate_left
    · intro d; cases d <;> rfl
    have hf : (fun (td : TrackDef α) => td.isAutoRepetition) = TrackDef.isAutoRepetition := rfl
    rw [hf]
    generalize (List.filter TrackDef.isAutoRepetition tpl).length % 65536 = arc
    generalize allTrackDefsHaveFixedComponent tpl = allFixed
    by_cases hv : (!(arc == 0 || arc == 1 && allFixed)) = true
    · rw [if_pos hv, if_pos hv]; rfl
    rw [if_neg hv, if_neg hv]
    by_cases h0 : (arc == 0) = true
    · rw [if_pos h0, if_pos h0]; rfl
    rw [if_neg h0, if_neg h0]
    rw [findSome_auto]
    rotate_left
    · intro d
      cases d with
      | single f => rfl
      | rep r fs => cases r <;> rfl
    cases hR : findAutoRepetition tpl with
    | none => rfl
    | some repDef =>
      simp only [unwrap_some, bind_ok]
      refine Eq.trans ?_ (finish_eq (numRepetitions _ _ _ _ _ _ _) _ _)
      refine congrArg (· >>= _) ?_
      unfold numRepetitions
      cases hI : Gen.TrackFns.Size.get_abs ics axis with
      | none => rfl
      | some inner =>
        dsimp only
        refine bind_congr_left (sumF32M_nonRep (some inner) _ _ ?_) ?_
        · intro d
          cases d with
          | single f => rfl
          | rep r fs =>
            cases r with
            | autoFill => rfl
            | autoFit => rfl
            | count c =>
              simp only [nonRepeatingUsed]
              rw [sumF32M_unwrap]
              cases allSome (List.map (fun f => trackDefiniteValue f (some inner)) fs) <;> rfl
        cases hA : allSome (tpl.map (nonRepeatingUsed (some inner))) with
        | none => rfl
        | some usedL =>
          simp only [bind_ok]
          refine bind_congr_left (sumF32M_unwrap _ _) ?_
          cases hB : allSome (repDef.map fun f => trackDefiniteValue f (some inner)) with
          | none => rfl
          | some perRepL =>
            simp only [bind_ok, u16Add, u16Max]
            by_cases hov : nonAuto + repDef.length % 65536 > 65535
            · simp only [hov, ↓reduceIte]; rfl
            simp only [hov, ↓reduceIte, bind_ok, u16SatSub, u16SatAdd, pure_eq_ok]
            exact tail_eq _ _ _ _

/-- as `Model/Grid.lean` calls it for the columns -/
theorem compute_explicit_grid_size_columns_eq [NumCast α] (style : Style α) (tpl : List (TrackDef α)) (ics : Size (Option α)) :
    Gen.GridInit.compute_explicit_grid_size_in_axis style tpl ics .horizontal =
      computeExplicitGridSizeInAxis style.size.width style.maxSize.width style.gap.width tpl ics.width :=
  compute_explicit_grid_size_in_axis_eq style tpl ics .horizontal

/-- … and for the rows -/
theorem compute_explicit_grid_size_rows_eq [NumCast α] (style : Style α) (tpl : List (TrackDef α)) (ics : Size (Option α)) :
    Gen.GridInit.compute_explicit_grid_size_in_axis style tpl ics .vertical =
      computeExplicitGridSizeInAxis style.size.height style.maxSize.height style.gap.height tpl ics.height :=
  compute_explicit_grid_size_in_axis_eq style tpl ics .vertical

/-- a template `100px repeat(3, auto 1fr)`: 1 + 3·2 explicit tracks (the checked u16 sum and product, through the generated code) -/
example : Gen.GridInit.compute_explicit_grid_size_in_axis (α := Rat) Style.default
    [.single ⟨.length 100, .length 100⟩, .rep (.count 3) [⟨.auto, .auto⟩, ⟨.auto, .fr 1⟩]] ⟨none, none⟩ .horizontal = .ok 7 := by
  rw [compute_explicit_grid_size_in_axis_eq]; rfl

/-- `repeat(40000, auto auto)`: `count * tracks.len() as u16` overflows u16 — a panic in a debug build, in model and generated code alike -/
example : Gen.GridInit.compute_explicit_grid_size_in_axis (α := Rat) Style.default
    [.rep (.count 40000) [⟨.auto, .auto⟩, ⟨.auto, .auto⟩]] ⟨none, none⟩ .horizontal = .error .overflow := by
  rw [compute_explicit_grid_size_in_axis_eq]; rfl

/-! ### `create_implicit_tracks` -/

/-- the loop of `create_implicit_tracks`: any step function that takes the next item of the iterator, unwraps it and pushes
the track and its gutter -/
theorem create_fold (gap : LP α)
    (F : List (GridTrack α) × Stream (TrackFn α) → Nat → Except GErr (List (GridTrack α) × Stream (TrackFn α)))
    (hF : ∀ tracks it x, F (tracks, it) x =
      (unwrap (it 0) >>= fun td => pure ((tracks ++ [GridTrack.new td]) ++ [GridTrack.gutter gap], fun i => it (i + 1))))
    (l : List Nat) : ∀ (tracks : List (GridTrack α)) (it : Stream (TrackFn α)) (nth : Nat → TrackFn α),
      (∀ i, it i = some (nth i)) →
      List.foldlM F (tracks, it) l =
        .ok (tracks ++ createImplicitTracks l.length nth gap, fun i => it (l.length + i)) := by
  induction l with
  | nil =>
    intro tracks it nth _
    simp [createImplicitTracks]
  | cons x l ih =>
    intro tracks it nth h
    rw [foldlM_cons, hF, h 0]
    simp only [unwrap_some, bind_ok, pure_eq_ok]
    rw [ih _ _ (fun i => nth (i + 1)) (fun i => h (i + 1))]
    simp only [createImplicitTracks, List.length_cons, List.range_succ_eq_map, List.flatMap_cons, List.flatMap_map,
      List.append_assoc, List.cons_append, List.nil_append]
    congr 2
    funext i
    congr 1
    omega

theorem create_implicit_tracks_eq (tracks : List (GridTrack α)) (count : Nat) (it : Stream (TrackFn α)) (gap : LP α)
    (nth : Nat → TrackFn α) (h : ∀ i, it i = some (nth i)) :
    Gen.GridInit.create_implicit_tracks tracks count it gap = .ok (tracks ++ createImplicitTracks count nth gap) := by
  unfold Gen.GridInit.create_implicit_tracks
  simp only [TieTrackFns.gutter_eq]
  refine bind_congr_left (create_fold gap _ ?_ (List.range count) tracks it nth h) ?_
  · intro tracks it x; rfl
  · simp

/-! ### `initialize_grid_tracks` -/

/-- one track and its gutter pushed, `current_track_index += 1` (the body of the two plain loops) -/
def pushPair (gap : LP α) (s : List (GridTrack α) × Nat) (f : TrackFn α) : List (GridTrack α) × Nat :=
  ((s.1 ++ [GridTrack.new f]) ++ [GridTrack.gutter gap], s.2 + 1)

/-- the body of the auto-repetition loop -/
def pushAuto (isFit : Bool) (gap : LP α) (has : Nat → Bool) (s : List (GridTrack α) × Nat) (f : TrackFn α) :
    List (GridTrack α) × Nat :=
  let p := if isFit && !has s.2 then ((GridTrack.new f).collapse, (GridTrack.gutter gap).collapse)
    else (GridTrack.new f, GridTrack.gutter gap)
  ((s.1 ++ [p.1]) ++ [p.2], s.2 + 1)

theorem bind_assoc_ex {β γ δ : Type} (m : Except GErr β) (f : β → Except GErr γ) (g : γ → Except GErr δ) :
    (m >>= fun x => f x >>= g) = ((m >>= f) >>= g) := by cases m <;> rfl

/-- one iteration of `track_template.iter().for_each(…)`, as the generated step function computes it; `N` is
`non_auto_repeating_track_count` and `ex` is `counts.explicit` (their difference is evaluated inside the auto-repetition arms only) -/
def stepSpec (N : Except GErr Nat) (ex : Nat) (gap : LP α) (has : Nat → Bool) (s : List (GridTrack α) × Nat) :
    TrackDef α → Except GErr (List (GridTrack α) × Nat)
  | .single f => .ok (pushPair gap s f)
  | .rep (.count c) fs => .ok (List.foldl (pushPair gap) s (cycleTake fs (fs.length * c)))
  | .rep .autoFit fs => N >>= fun n => u16Sub ex n >>= fun a => .ok (List.foldl (pushAuto true gap has) s (cycleTake fs a))
  | .rep .autoFill fs => N >>= fun n => u16Sub ex n >>= fun a => .ok (List.foldl (pushAuto false gap has) s (cycleTake fs a))

theorem foldl_pushPair (gap : LP α) (l : List (TrackFn α)) : ∀ (s : List (GridTrack α) × Nat),
    List.foldl (pushPair gap) s l = (s.1 ++ l.flatMap (fun f => [GridTrack.new f, GridTrack.gutter gap]), s.2 + l.length) := by
  induction l with
  | nil => intro s; simp
  | cons f l ih =>
    intro s
    rw [List.foldl_cons, ih]
    simp only [pushPair, List.flatMap_cons, List.append_assoc, List.cons_append, List.nil_append, List.length_cons]
    congr 1
    omega

/-- the pairs an auto-repetition pushes for the track definitions `l`, the first of them at track index `idx` -/
def autoPairs (isFit : Bool) (gap : LP α) (has : Nat → Bool) (idx : Nat) (l : List (TrackFn α)) : List (GridTrack α) :=
  l.zipIdx.flatMap fun (f, i) =>
    let track := GridTrack.new f
    let gutter := GridTrack.gutter gap
    if isFit && !has (idx + i) then [track.collapse, gutter.collapse] else [track, gutter]

theorem autoPairs_shift (isFit : Bool) (gap : LP α) (has : Nat → Bool) (l : List (TrackFn α)) : ∀ (idx k : Nat),
    ((l.zipIdx (k + 1)).flatMap fun (f, i) =>
      let track := GridTrack.new f
      let gutter := GridTrack.gutter gap
      if isFit && !has (idx + i) then [track.collapse, gutter.collapse] else [track, gutter]) =
    ((l.zipIdx k).flatMap fun (f, i) =>
      let track := GridTrack.new f
      let gutter := GridTrack.gutter gap
      if isFit && !has (idx + 1 + i) then [track.collapse, gutter.collapse] else [track, gutter]) := by
  induction l with
  | nil => intro idx k; rfl
  | cons f l ih =>
    intro idx k
    simp only [List.zipIdx_cons, List.flatMap_cons]
    rw [ih idx (k + 1)]
    have : idx + (k + 1) = idx + 1 + k := by omega
    rw [this]

theorem autoPairs_cons (isFit : Bool) (gap : LP α) (has : Nat → Bool) (idx : Nat) (f : TrackFn α) (l : List (TrackFn α)) :
    autoPairs isFit gap has idx (f :: l) =
      (if isFit && !has idx then [(GridTrack.new f).collapse, (GridTrack.gutter gap).collapse]
        else [GridTrack.new f, GridTrack.gutter gap]) ++ autoPairs isFit gap has (idx + 1) l := by
  unfold autoPairs
  simp only [List.zipIdx_cons, List.flatMap_cons, Nat.add_zero, Nat.zero_add]
  rw [autoPairs_shift isFit gap has l idx 0]

theorem foldl_pushAuto (isFit : Bool) (gap : LP α) (has : Nat → Bool) (l : List (TrackFn α)) :
    ∀ (s : List (GridTrack α) × Nat),
      List.foldl (pushAuto isFit gap has) s l = (s.1 ++ autoPairs isFit gap has s.2 l, s.2 + l.length) := by
  induction l with
  | nil => intro s; simp [autoPairs]
  | cons f l ih =>
    intro s
    rw [List.foldl_cons, ih, autoPairs_cons]
    simp only [pushAuto, List.length_cons]
    cases (isFit && !has s.2) <;> simp [List.append_assoc] <;> omega

theorem autoRepeatTracks_eq (isFit : Bool) (fs : List (TrackFn α)) (n : Nat) (gap : LP α) (has : Nat → Bool) (idx : Nat) :
    autoRepeatTracks isFit fs n gap has idx = autoPairs isFit gap has idx (cycleTake fs n) := rfl

/-- `current_track_index` after the explicit-track loop (the model does not return it) -/
def explicitIdx (autoN : Nat) : List (TrackDef α) → Nat → Nat
  | [], idx => idx
  | .single _ :: rest, idx => explicitIdx autoN rest (idx + 1)
  | .rep (.count c) fs :: rest, idx => explicitIdx autoN rest (idx + (cycleTake fs (fs.length * c)).length)
  | .rep .autoFit fs :: rest, idx => explicitIdx autoN rest (idx + (cycleTake fs autoN).length)
  | .rep .autoFill fs :: rest, idx => explicitIdx autoN rest (idx + (cycleTake fs autoN).length)

section Fold
variable (N : Except GErr Nat) (ex : Nat) (gap : LP α) (has : Nat → Bool)
  (F : List (GridTrack α) × Nat → TrackDef α → Except GErr (List (GridTrack α) × Nat))
  (hF : ∀ s d, F s d = stepSpec N ex gap has s d)
include hF

/-- the explicit-track loop when `counts.explicit - non_auto_repeating_track_count` is `autoN` -/
theorem explicit_fold_ok (autoN : Nat) (hA : (N >>= fun n => u16Sub ex n) = .ok autoN) (rest : List (TrackDef α)) :
    ∀ (s : List (GridTrack α) × Nat),
      List.foldlM F s rest = .ok (s.1 ++ explicitTracks autoN gap has rest s.2, explicitIdx autoN rest s.2) := by
  induction rest with
  | nil => intro s; simp [foldlM_nil, explicitTracks, explicitIdx]
  | cons d rest ih =>
    intro s
    rw [foldlM_cons, hF]
    cases d with
    | single f =>
      have h := ih (pushPair gap s f)
      simp only [stepSpec, bind_ok]
      rw [h]
      simp only [pushPair, explicitTracks, explicitIdx, List.append_assoc, List.cons_append, List.nil_append]
    | rep r fs =>
      cases r with
      | count c =>
        have h := ih (List.foldl (pushPair gap) s (cycleTake fs (fs.length * c)))
        simp only [stepSpec, bind_ok]
        rw [h]
        simp only [foldl_pushPair, explicitTracks, explicitIdx, List.append_assoc]
      | autoFit =>
        have h := ih (List.foldl (pushAuto true gap has) s (cycleTake fs autoN))
        simp only [stepSpec]
        rw [bind_assoc_ex, hA]
        simp only [bind_ok]
        rw [h]
        simp only [foldl_pushAuto, explicitTracks, explicitIdx, autoRepeatTracks_eq, List.append_assoc]
      | autoFill =>
        have h := ih (List.foldl (pushAuto false gap has) s (cycleTake fs autoN))
        simp only [stepSpec]
        rw [bind_assoc_ex, hA]
        simp only [bind_ok]
        rw [h]
        simp only [foldl_pushAuto, explicitTracks, explicitIdx, autoRepeatTracks_eq, List.append_assoc]

/-- … when the template has no auto-repetition (the subtraction is never evaluated) -/
theorem explicit_fold_noauto (k : Nat) (rest : List (TrackDef α)) (hno : rest.any TrackDef.isAutoRepetition = false) :
    ∀ (s : List (GridTrack α) × Nat),
      List.foldlM F s rest = .ok (s.1 ++ explicitTracks k gap has rest s.2, explicitIdx k rest s.2) := by
  induction rest with
  | nil => intro s; simp [foldlM_nil, explicitTracks, explicitIdx]
  | cons d rest ih =>
    intro s
    rw [foldlM_cons, hF]
    rw [List.any_cons, Bool.or_eq_false_iff] at hno
    cases d with
    | single f =>
      have h := ih hno.2 (pushPair gap s f)
      simp only [stepSpec, bind_ok]
      rw [h]
      simp only [pushPair, explicitTracks, explicitIdx, List.append_assoc, List.cons_append, List.nil_append]
    | rep r fs =>
      cases r with
      | count c =>
        have h := ih hno.2 (List.foldl (pushPair gap) s (cycleTake fs (fs.length * c)))
        simp only [stepSpec, bind_ok]
        rw [h]
        simp only [foldl_pushPair, explicitTracks, explicitIdx, List.append_assoc]
      | autoFit => exact absurd hno.1 (by simp [TrackDef.isAutoRepetition])
      | autoFill => exact absurd hno.1 (by simp [TrackDef.isAutoRepetition])

/-- … when the subtraction (or the sum before it) panics and some arm evaluates it -/
theorem explicit_fold_err (e : GErr) (hA : (N >>= fun n => u16Sub ex n) = .error e) (rest : List (TrackDef α))
    (hany : rest.any TrackDef.isAutoRepetition = true) :
    ∀ (s : List (GridTrack α) × Nat), List.foldlM F s rest = .error e := by
  induction rest with
  | nil => simp at hany
  | cons d rest ih =>
    intro s
    rw [foldlM_cons, hF]
    cases d with
    | single f =>
      have : rest.any TrackDef.isAutoRepetition = true := by simpa [TrackDef.isAutoRepetition] using hany
      simp only [stepSpec, bind_ok, ih this]
    | rep r fs =>
      cases r with
      | count c =>
        have : rest.any TrackDef.isAutoRepetition = true := by simpa [TrackDef.isAutoRepetition] using hany
        simp only [stepSpec, bind_ok, ih this]
      | autoFit => simp only [stepSpec]; rw [bind_assoc_ex, hA]; rfl
      | autoFill => simp only [stepSpec]; rw [bind_assoc_ex, hA]; rfl

end Fold

/-- `x.first_mut().unwrap().collapse(); x.last_mut().unwrap().collapse()` on a non-empty vector -/
theorem collapse_first_last (x : GridTrack α) (l : List (GridTrack α)) :
    (firstMutUnwrap (x :: l) GridTrack.collapse >>= fun t => lastMutUnwrap t GridTrack.collapse) =
      .ok (collapseFirstLast (x :: l)) := by
  simp [firstMutUnwrap, lastMutUnwrap, collapseFirstLast, List.modify]

/-- the negative implicit tracks of `GridTracks.bodyTracks` -/
def negTracks (counts : TrackCounts) (autoTracks : List (TrackFn α)) (gap : LP α) : List (GridTrack α) :=
  if counts.negativeImplicit > 0 then
    createImplicitTracks counts.negativeImplicit
      (autoTrackAt autoTracks
        (if autoTracks.isEmpty then 0 else autoTracks.length - (counts.negativeImplicit % autoTracks.length))) gap
  else []

theorem bodyTracks_eq (counts : TrackCounts) (tpl : List (TrackDef α)) (autoTracks : List (TrackFn α)) (gap : LP α)
    (has : Nat → Bool) (autoN : Nat) :
    bodyTracks counts tpl autoTracks gap has autoN =
      negTracks counts autoTracks gap ++
        (if counts.explicit > 0 then explicitTracks autoN gap has tpl counts.negativeImplicit else []) ++
        createImplicitTracks counts.positiveImplicit (autoTrackAt autoTracks 0) gap := rfl

theorem stream_repeat_auto (autoTracks : List (TrackFn α)) (he : autoTracks.isEmpty = true) (k i : Nat) :
    Stream.repeat (TrackFn.auto (α := α)) i = some (autoTrackAt autoTracks k i) := by
  simp [Stream.repeat, autoTrackAt, he]

theorem stream_cycle_auto (autoTracks : List (TrackFn α)) (he : ¬ autoTracks.isEmpty = true) (k i : Nat) :
    Stream.skip k (Stream.cycle autoTracks) i = some (autoTrackAt autoTracks k i) := by
  have hlen : 0 < autoTracks.length := by
    cases autoTracks with
    | nil => simp at he
    | cons a l => simp
  have hk : (k + i) % autoTracks.length < autoTracks.length := Nat.mod_lt _ hlen
  simp [Stream.skip, Stream.cycle, autoTrackAt, he, List.getD_eq_getElem?_getD, List.getElem?_eq_getElem hk]

/-- the hypothesis of `create_implicit_tracks_eq` is met by the iterators `initialize_grid_tracks` passes (`stream_repeat_auto`, `stream_cycle_auto`), e.g.
`[a, b].iter().copied().cycle().skip(1)` yields `b, a, b, …` -/
example (a b : TrackFn Rat) (i : Nat) :
    Stream.skip 1 (Stream.cycle [a, b]) i = some (autoTrackAt [a, b] 1 i) :=
  stream_cycle_auto [a, b] (by simp) 1 i

/-- the negative implicit tracks, as `initialize_grid_tracks` creates them -/
theorem neg_part (tracks : List (GridTrack α)) (counts : TrackCounts) (autoTracks : List (TrackFn α)) (gap : LP α) :
    (if decide (counts.negativeImplicit > 0) = true then
        if autoTracks.isEmpty = true then
          Gen.GridInit.create_implicit_tracks tracks counts.negativeImplicit (Stream.repeat TrackFn.auto) gap
        else do
          let t3 ← usizeRem counts.negativeImplicit autoTracks.length
          let offset ← usizeSub autoTracks.length t3
          Gen.GridInit.create_implicit_tracks tracks counts.negativeImplicit
            (Stream.skip offset (Stream.cycle autoTracks)) gap
      else pure tracks) = .ok (tracks ++ negTracks counts autoTracks gap) := by
  unfold negTracks
  by_cases hn : counts.negativeImplicit > 0
  · simp only [hn, decide_true, ↓reduceIte]
    by_cases he : autoTracks.isEmpty = true
    · simp only [he, ↓reduceIte]
      exact create_implicit_tracks_eq _ _ _ _ _ (stream_repeat_auto autoTracks he 0)
    · simp only [he, ↓reduceIte]
      have hlen : 0 < autoTracks.length := by
        cases autoTracks with
        | nil => simp at he
        | cons a l => simp
      have hne : autoTracks.length ≠ 0 := by omega
      have hlt : ¬ autoTracks.length < counts.negativeImplicit % autoTracks.length :=
        Nat.not_lt.mpr (Nat.le_of_lt (Nat.mod_lt _ hlen))
      simp only [usizeRem, hne, ↓reduceIte, bind_ok, usizeSub, hlt]
      exact create_implicit_tracks_eq _ _ _ _ _ (stream_cycle_auto autoTracks he _)
  · simp [hn]

/-- the positive implicit tracks and the final collapsing of the outer gutters -/
theorem pos_part (g : GridTrack α) (body : List (GridTrack α)) (n : Nat) (autoTracks : List (TrackFn α)) (gap : LP α) :
    ((if autoTracks.isEmpty = true then
        Gen.GridInit.create_implicit_tracks (g :: body) n (Stream.repeat TrackFn.auto) gap
      else Gen.GridInit.create_implicit_tracks (g :: body) n (Stream.cycle autoTracks) gap) >>= fun tracks =>
      firstMutUnwrap tracks GridTrack.collapse >>= fun t => lastMutUnwrap t GridTrack.collapse) =
    .ok (collapseFirstLast (g :: (body ++ createImplicitTracks n (autoTrackAt autoTracks 0) gap))) := by
  have h : (if autoTracks.isEmpty = true then
        Gen.GridInit.create_implicit_tracks (g :: body) n (Stream.repeat TrackFn.auto) gap
      else Gen.GridInit.create_implicit_tracks (g :: body) n (Stream.cycle autoTracks) gap) =
      .ok ((g :: body) ++ createImplicitTracks n (autoTrackAt autoTracks 0) gap) := by
    by_cases he : autoTracks.isEmpty = true
    · simp only [he, ↓reduceIte]
      exact create_implicit_tracks_eq _ _ _ _ _ (stream_repeat_auto autoTracks he 0)
    · simp only [he, ↓reduceIte]
      refine create_implicit_tracks_eq _ _ _ _ _ (fun i => ?_)
      have := stream_cycle_auto autoTracks he 0 i
      simpa [Stream.skip] using this
  rw [h]
  exact collapse_first_last _ _

/-- `counts.explicit - non_auto_repeating_track_count`, as the model computes it up front -/
theorem autoN_eq (ex : Nat) (tpl : List (TrackDef α)) :
    (nonAutoRepeatingTrackCount tpl >>= fun n => u16Sub ex n) =
      match nonAutoRepeatingTrackCount tpl with
      | .error e => .error e
      | .ok nonAuto => if ex < nonAuto then .error .overflow else .ok (ex - nonAuto) := by
  cases nonAutoRepeatingTrackCount tpl <;> rfl

theorem initialize_grid_tracks_eq (tracks0 : List (GridTrack α)) (counts : TrackCounts) (tpl : List (TrackDef α))
    (autoTracks : List (TrackFn α)) (gap : LP α) (has : Nat → Bool) :
    Gen.GridInit.initialize_grid_tracks tracks0 counts tpl autoTracks gap has =
      initializeGridTracks counts tpl autoTracks gap has := by
  unfold Gen.GridInit.initialize_grid_tracks initializeGridTracks
  simp (disch := (intro d; cases d with
      | single f => with_unfolding_all rfl
      | rep r fs => cases r <;> with_unfolding_all rfl)) only
    [sumU16M_nonAuto, TieTrackFns.gutter_eq, TieTrackFns.collapse_eq, TieTrackFns.trackfn_AUTO_eq,
      TieTrackFns.track_counts_len_eq, Stream.take_cycle]
  by_cases hov : (decide (counts.negativeImplicit + counts.explicit > u16Max) ||
      decide (counts.negativeImplicit + counts.explicit + counts.positiveImplicit > u16Max)) = true
  · rw [if_pos hov, if_pos hov]; rfl
  rw [if_neg hov, if_neg hov]
  simp only [bind_ok, List.nil_append]
  refine bind_congr_left (neg_part _ counts autoTracks gap) ?_
  simp only [bind_ok]
  by_cases hex : counts.explicit > 0
  · simp only [hex, decide_true, ↓reduceIte]
    unfold autoRepeatedTrackCount
    by_cases hany : tpl.any TrackDef.isAutoRepetition = true
    · simp only [hany, ↓reduceIte]
      cases hN : nonAutoRepeatingTrackCount tpl with
      | error e =>
        rw [explicit_fold_err (Except.error e) counts.explicit gap has _ _ e rfl tpl hany]
        rotate_left
        · intro s d
          cases d with
          | single f => rfl
          | rep r fs => cases r <;> rfl
        rfl
      | ok nonAuto =>
        by_cases hlt : counts.explicit < nonAuto
        · rw [explicit_fold_err (Except.ok nonAuto) counts.explicit gap has _ _ .overflow (by simp [u16Sub, hlt]) tpl hany]
          rotate_left
          · intro s d
            cases d with
            | single f => rfl
            | rep r fs => cases r <;> rfl
          simp [hlt]
        · rw [explicit_fold_ok (Except.ok nonAuto) counts.explicit gap has _ _ (counts.explicit - nonAuto)
            (by simp [u16Sub, hlt]) tpl]
          rotate_left
          · intro s d
            cases d with
            | single f => rfl
            | rep r fs => cases r <;> rfl
          simp only [hlt, ↓reduceIte, bind_ok, pure_eq_ok, List.cons_append, List.nil_append]
          rw [pos_part, bodyTracks_eq]
          simp only [hex, ↓reduceIte, List.append_assoc]
    · simp only [hany, Bool.false_eq_true, ↓reduceIte]
      rw [explicit_fold_noauto (nonAutoRepeatingTrackCount tpl) counts.explicit gap has _ _ 0 tpl (by simpa using hany)]
      rotate_left
      · intro s d
        cases d with
        | single f => rfl
        | rep r fs => cases r <;> rfl
      simp only [bind_ok, pure_eq_ok, List.cons_append, List.nil_append]
      rw [pos_part, bodyTracks_eq]
      simp only [hex, ↓reduceIte, List.append_assoc]
  · simp only [hex, decide_false, ↓reduceIte, Bool.false_eq_true, bind_ok, pure_eq_ok, List.cons_append, List.nil_append]
    rw [pos_part, bodyTracks_eq]
    simp only [hex, ↓reduceIte, List.append_nil]

/-- one negative implicit track, the template `repeat(2, auto)`, one positive implicit track: 1 + 2·(1 + 2 + 1) grid lines and tracks,
whatever vector is passed in (it is cleared first) -/
example (tracks0 : List (GridTrack Rat)) :
    (Gen.GridInit.initialize_grid_tracks tracks0 ⟨1, 2, 1⟩ [.rep (.count 2) [⟨.auto, .auto⟩]] [] (.length 0) (fun _ => true)).map
      List.length = .ok 9 := by
  rw [initialize_grid_tracks_eq]; rfl

/-- `counts.explicit` smaller than the non-auto-repeating track count of a template with an auto-repetition: the u16 subtraction
panics (debug build) inside the auto-repetition arm — in the generated code at that arm, in the model up front; same outcome -/
example : Gen.GridInit.initialize_grid_tracks (α := Rat) [] ⟨0, 1, 0⟩
    [.single ⟨.length 1, .length 1⟩, .single ⟨.length 1, .length 1⟩, .rep .autoFill [⟨.length 1, .length 1⟩]] [] (.length 0)
    (fun _ => true) = .error .overflow := by
  rw [initialize_grid_tracks_eq]; rfl

end TieGridInit
