/-
  Tie (tier T) for src/util/resolve.rs: `maybe_resolve` / `resolve_or_zero` of `LengthPercentage`,
  `LengthPercentageAuto`, `Dimension` and the generic `Size<T>` / `Rect<T>` impls.

  `Gen.Resolve.*` is regenerated from the Rust source on every run (tags ↦ constructors of `LP`/`LPA`, calc arm dropped);
  each theorem states that the generated definition IS the hand-written one of Model/Style.lean.
-/
import TaffyVerif.Generated.Resolve
import TaffyVerif.Model.Style

namespace TieResolve
variable {α : Type} [Num α]

theorem lp_maybe_resolve_eq : Gen.Resolve.LengthPercentage.maybe_resolve (α := α) = LP.maybeResolve := by
  funext x ctx; cases x <;> rfl

theorem lpa_maybe_resolve_eq : Gen.Resolve.LengthPercentageAuto.maybe_resolve (α := α) = LPA.maybeResolve := by
  funext x ctx; cases x <;> rfl

theorem dim_maybe_resolve_eq : Gen.Resolve.Dimension.maybe_resolve (α := α) = LPA.maybeResolve := by
  funext x ctx; cases x <;> rfl

theorem lp_resolve_or_zero_eq : Gen.Resolve.LengthPercentage.resolve_or_zero (α := α) = LP.resolveOrZero := by
  funext x ctx; cases x <;> rfl

theorem lpa_resolve_or_zero_eq : Gen.Resolve.LengthPercentageAuto.resolve_or_zero (α := α) = LPA.resolveOrZero := by
  funext x ctx; cases x <;> rfl

theorem dim_resolve_or_zero_eq : Gen.Resolve.Dimension.resolve_or_zero (α := α) = LPA.resolveOrZero := by
  funext x ctx; cases x <;> rfl

/-- the blanket impl for an `f32` context (`self.maybe_resolve(Some(context))`) against `resolveToOption` -/
theorem lpa_f32_maybe_resolve_eq : Gen.Resolve.LengthPercentageAuto.f32_maybe_resolve (α := α) = LPA.resolveToOption := by
  funext x ctx; cases x <;> rfl

theorem dim_f32_maybe_resolve_eq : Gen.Resolve.Dimension.f32_maybe_resolve (α := α) = LPA.resolveToOption := by
  funext x ctx; cases x <;> rfl

/-! ### generic container impls -/

theorem size_dim_maybe_resolve_eq : Gen.Resolve.Size_Dimension.maybe_resolve (α := α) = Resolve.sizeMaybe := by
  funext s ctx
  simp only [Gen.Resolve.Size_Dimension.maybe_resolve, Resolve.sizeMaybe, dim_maybe_resolve_eq]

theorem size_lp_resolve_or_zero_eq : Gen.Resolve.Size_LengthPercentage.resolve_or_zero (α := α) = Resolve.sizeLPOrZero := by
  funext s ctx
  simp only [Gen.Resolve.Size_LengthPercentage.resolve_or_zero, Resolve.sizeLPOrZero, lp_resolve_or_zero_eq]

theorem rect_lp_opt_resolve_or_zero_eq : Gen.Resolve.Rect_LengthPercentage.opt_resolve_or_zero (α := α) = Resolve.rectLPOrZero := by
  funext r ctx
  simp only [Gen.Resolve.Rect_LengthPercentage.opt_resolve_or_zero, Resolve.rectLPOrZero, lp_resolve_or_zero_eq]

theorem rect_lpa_opt_resolve_or_zero_eq : Gen.Resolve.Rect_LengthPercentageAuto.opt_resolve_or_zero (α := α) = Resolve.rectLPAOrZero := by
  funext r ctx
  simp only [Gen.Resolve.Rect_LengthPercentageAuto.opt_resolve_or_zero, Resolve.rectLPAOrZero, lpa_resolve_or_zero_eq]

theorem rect_lp_size_resolve_or_zero_eq : Gen.Resolve.Rect_LengthPercentage.size_resolve_or_zero (α := α) = Resolve.rectLPOrZeroSize := by
  funext r ctx
  simp only [Gen.Resolve.Rect_LengthPercentage.size_resolve_or_zero, Resolve.rectLPOrZeroSize, lp_resolve_or_zero_eq]

theorem rect_lpa_size_resolve_or_zero_eq : Gen.Resolve.Rect_LengthPercentageAuto.size_resolve_or_zero (α := α) = Resolve.rectLPAOrZeroSize := by
  funext r ctx
  simp only [Gen.Resolve.Rect_LengthPercentageAuto.size_resolve_or_zero, Resolve.rectLPAOrZeroSize, lpa_resolve_or_zero_eq]

end TieResolve
