/-
  The named hypotheses of the evaluator-level theorems (C05, C01/C17, C16), discharged for the concrete CSS-grid algorithm
  `GridModel.gridAlg` (Model/GridEval.lean ▸ Model/Grid.lean = src/compute/grid/mod.rs, with track_sizing.rs, grid_item.rs,
  placement), and the theorems instantiated at `EvalConcrete.algs flexAlg gridAlg`: concrete leaf, block, flexbox AND grid —
  no container algorithm is a parameter any more.

  For every number type `α` (`[Num α] [FlexLine.NumX α] [GridTracks.NumCast α]`).

    C05   `grid_PHZ`, `grid_HiddenBlind`: PROVED.  Hence `hidden_zero_all_trees`, `hidden_invisible_all_trees` (+ `_pass`,
          `_replace`) hold for EVERY style tree, without hypotheses.
    C16   `grid_CallsAtMost`: at most `11·n` child calls per run (`grid_CallsAtMost_fine`: 11 per grid item, 1 per
          absolutely positioned box, 1 per `display:none` child); the constant 11 is attained (`grid_calls_tight`).  The
          count per child is bounded by a CONSTANT: it does not grow with the number of tracks or batches, because every
          contribution query goes through the item's per-axis caches.  Hence `leaf_calls_le_pow_all_trees`: every tree with
          at most `b` children per node, bound `(11·b)^depth`.
    C01 / C17   `AlgPLCovers gridAlg` is FALSE AS STATED for the model (`not_grid_PLCovers`): `compute_grid_layout` can
          panic (checked i16 arithmetic on grid lines in a debug build), and a run that panics lays out nothing; the model
          keeps the panic as an explicit outcome.  PROVED for the non-panicking case (`grid_PLCovers_partial`): in
          PerformLayout mode every run that does not panic covers all children.  Hence `single_pass_layouts_quiet_all_trees`,
          `history_layouts_quiet_all_trees` for every tree whose grid containers cannot panic (`GridCalm`; every tree
          without grid containers is `GridCalm`).  `GridCalm` has a DECIDABLE sufficient condition (`gridCalmB`,
          `gridCalm_of_gridCalmB`): no `auto-fill`/`auto-fit` repetition, and the setup — run once — does not panic,
          leaves every item's track indexes inside the track vectors (which have one entry per line and per track), and
          the i16 arithmetic resolving every absolutely positioned child's lines does not overflow
          (`grid_noPanic_of_gridSafeB`: then NO run panics, whatever the input and the children's answers).  That an
          absolutely positioned child's lines lie inside the track vectors is no longer a condition: since the repair
          of `c06-abs-grid-implicit-tracks` a line outside the implicit grid is `None` (`try_into_track_vec_index`).

  Helper lemmas: Lemmas/EvalGrid.lean (program predicates: `MeasB`, `GMeas`, …), EvalGridItem.lean (the contribution
  caches as a potential), EvalGridSizing.lean (one run of track sizing), EvalGridStages.lean (the program cut into stages),
  EvalGridLay.lean (positioning loops), EvalGridWalk.lean (step 6/7 walked once for all properties), EvalGridSetup.lean
  (placement places every in-flow child once), EvalGridHidden.lean / EvalGridAgree.lean (C05), EvalGridFlags.lean (calls,
  coverage), EvalGridTrees.lean (tree classes, stand-ins), EvalGridSort.lean (`gridAlgK`: the same program with a
  structurally recursive merge sort, so that concrete grids with several items can be evaluated by the kernel),
  EvalGridSafe.lean … EvalGridSafe4.lean (absence of panics).
-/
import TaffyVerif.Lemmas.EvalGridSort
import TaffyVerif.Lemmas.EvalGridSafe4
import TaffyVerif.Props.EvalFlex

set_option linter.unusedSectionVars false

namespace EvalGrid
open Eval Gen.Facts EvalBlock EvalFlex
variable {α : Type} [Num α] [FlexLine.NumX α] [GridTracks.NumCast α] {C : Type}

/-- the evaluator's algorithms, all concrete: leaf, block, flexbox, grid -/
abbrev allAlgs : Algs α := EvalConcrete.algs flexAlg gridAlg

/-! ## C05 — hidden children -/

/-- **grid_PHZ**: every layout `compute_grid_layout` assigns to a `display:none` child is all-zero
(`Layout::with_order(order)`): the positioning loop only addresses grid items, and grid items are made from the placed
children, which are exactly the children with `box_generation_mode != None` that are not absolutely positioned
(`get_child_styles_iter` filters `display:none` children before the size estimate and before placement); the
hidden/absolute loop writes `Layout::with_order(order)` for a `display:none` child and `align_and_position_item` only for
a child that generates a box. -/
theorem grid_PHZ : AlgPHZ (gridAlg : ContainerAlg α) :=
  fun style cs inp => PHZ_gridAlg style cs inp

/-- **grid_HiddenBlind**: `compute_grid_layout` reads nothing of a `display:none` child's style but `display`: for
child-style lists that agree except where both styles are `display:none` the two programs are EQUAL.  (The child styles
are read: by the size estimate and by placement, through the filtered iterators; by `GridItem::new` for each placed
child; by `align_and_position_item`, by the grid items' child indices; by the hidden/absolute loop, after the
`display` test.) -/
theorem grid_HiddenBlind : AlgHiddenBlind (gridAlg : ContainerAlg α) :=
  fun style xs ys inp h => gridAlg_agree style xs ys inp h

/-- `AlgsPHZ` for the concrete algorithms: no hypothesis left -/
theorem algs_PHZ_all : C05.AlgsPHZ (allAlgs : Algs α) := algs_PHZ flexAlg gridAlg flex_PHZ grid_PHZ

/-- `HiddenBlind` for the concrete algorithms: no hypothesis left -/
theorem algs_HiddenBlind_all : C05.HiddenBlind (allAlgs : Algs α) :=
  algs_HiddenBlind flexAlg gridAlg flex_HiddenBlind grid_HiddenBlind

/-- **hidden_zero_all_trees** (C05, unconditional, every style tree): `compute_child_layout` (any cache, any input, any
state) preserves "every `display:none` child of a visible node has an all-zero layout and everything below a `display:none`
node is all-zero" -/
theorem hidden_zero_all_trees (ci : CacheImpl α C) (fuel : Nat) (t : STree α) (ns : NS α C) (inp : LayoutInput α)
    (hz : C05.HZ t ns) : C05.HZ t (evalNode ci allAlgs fuel t ns inp).2 :=
  hidden_zero_algs ci _ _ flex_PHZ grid_PHZ fuel t ns inp hz

/-- **hidden_zero_pass_all_trees** (unconditional): after a pass over a freshly built tree every node at or below a
`display:none` node has an all-zero layout -/
theorem hidden_zero_pass_all_trees (ci : CacheImpl α C) (fuel : Nat) (t : STree α) (inp : LayoutInput α) (p : List Nat)
    (k : NS α C) (hne : p ≠ []) (hh : C05.HiddenOnPath t p)
    (hk : C05.nsAt (evalNode ci allAlgs fuel t (NS.init ci t) inp).2 p = some k) : C05.zeroFields k.layout :=
  C05.HZ_at p t _ k (hidden_zero_all_trees ci fuel t _ inp (C05.HZ_init ci t)) hne hh hk

/-- **hidden_invisible_all_trees** (C05, unconditional, every pair of style trees that differ only inside `display:none`
subtrees; states agreeing outside the hidden subtrees): same output, states again agreeing -/
theorem hidden_invisible_all_trees (ci : CacheImpl α C) (fuel : Nat) (tA tB : STree α) (nsA nsB : NS α C)
    (inp : LayoutInput α) (hr : C05.HidRel tA tB) (hs : C05.SimNS tA nsA nsB) :
    (evalNode ci allAlgs fuel tA nsA inp).1 = (evalNode ci allAlgs fuel tB nsB inp).1 ∧
    C05.SimNS tA (evalNode ci allAlgs fuel tA nsA inp).2 (evalNode ci allAlgs fuel tB nsB inp).2 :=
  hidden_invisible_algs ci _ _ flex_HiddenBlind grid_HiddenBlind fuel tA tB nsA nsB inp hr hs

/-- **hidden_invisible_pass_all_trees** (unconditional): whole passes from freshly built trees: same output and the same
layout at every node that is not strictly inside a hidden subtree -/
theorem hidden_invisible_pass_all_trees (ci : CacheImpl α C) (fuel : Nat) (tA tB : STree α) (inp : LayoutInput α)
    (hr : C05.HidRel tA tB) :
    (evalNode ci allAlgs fuel tA (NS.init ci tA) inp).1 = (evalNode ci allAlgs fuel tB (NS.init ci tB) inp).1 ∧
    ∀ p, C05.VisibleTo tA p →
      (C05.nsAt (evalNode ci allAlgs fuel tA (NS.init ci tA) inp).2 p).map NS.layout =
      (C05.nsAt (evalNode ci allAlgs fuel tB (NS.init ci tB) inp).2 p).map NS.layout := by
  obtain ⟨h1, h2⟩ := hidden_invisible_all_trees ci fuel tA tB _ _ inp hr (C05.SimNS_init ci tA tB hr)
  exact ⟨h1, fun p hv => (C05.SimNS_at p tA _ _ h2 hv).1⟩

/-- **hidden_invisible_replace_all_trees** (C05 as worded, unconditional): in ANY style tree take any `display:none` node
(at path `q`) and replace it with its whole subtree by a bare `display:none` leaf: a pass over the original and a pass
over the modified tree (fresh states) return the same output and give the same layout to every node that is not strictly
inside a hidden subtree -/
theorem hidden_invisible_replace_all_trees (ci : CacheImpl α C) (fuel : Nat) (t h : STree α) (q : List Nat)
    (inp : LayoutInput α) (ht : treeAt t q = some h) (hd : h.style.display = .none) :
    (evalNode ci allAlgs fuel t (NS.init ci t) inp).1 =
      (evalNode ci allAlgs fuel (replaceAt t q C05.bareHidden) (NS.init ci (replaceAt t q C05.bareHidden)) inp).1 ∧
    ∀ p, C05.VisibleTo t p →
      (C05.nsAt (evalNode ci allAlgs fuel t (NS.init ci t) inp).2 p).map NS.layout =
      (C05.nsAt (evalNode ci allAlgs fuel (replaceAt t q C05.bareHidden)
        (NS.init ci (replaceAt t q C05.bareHidden)) inp).2 p).map NS.layout :=
  hidden_invisible_pass_all_trees ci fuel t _ inp (C05.HidRel_replaceAt q t h C05.bareHidden ht hd rfl)

/-! ### example trees -/

/-- `minmax(auto, 1fr)` / `auto` / `40px` -/
def frTrack : GridTracks.TrackFn α := ⟨.auto, .fr 1⟩
def autoTrack : GridTracks.TrackFn α := ⟨.auto, .auto⟩
def pxTrack (v : α) : GridTracks.TrackFn α := ⟨.length v, .length v⟩

/-- a grid container: `grid-template-columns: 40px 1fr; grid-template-rows: auto` (further rows are implicit) -/
def gridExt : GridExt α :=
  { templateColumns := [GridTracks.TrackDef.single (pxTrack (Num.ofNat 40)), GridTracks.TrackDef.single frTrack],
    templateRows := [GridTracks.TrackDef.single autoTrack] }
def gridStyle : Style α := { (Style.default : Style α) with display := .grid, grid := gridExt }

/-- an absolutely positioned child with `grid-column: 1 / 2` -/
def absItem : Style α :=
  { (Style.default : Style α) with display := .block, position := .absolute, grid := { column := ⟨.line 1, .line 2⟩ } }

/-- an in-flow child placed definitely: `grid-column: 2`, `grid-row: 1` -/
def placedItem : Style α :=
  { (Style.default : Style α) with display := .block, grid := { column := ⟨.line 2, .auto⟩, row := ⟨.line 1, .auto⟩ } }

/-- a grid root (`40px 1fr` / `auto`, implicit rows) with: an auto-placed leaf, a `display:none` child with a subtree of its
own (a grid container with two leaves), an absolutely positioned leaf (`grid-column: 1 / 2`), a definitely placed leaf
(`grid-column: 2; grid-row: 1`), and an auto-placed nested flexbox container with a leaf -/
def exA : STree α :=
  .node gridStyle none
    [.node C05.blockStyle (some (.fixed (Num.ofNat 10) (Num.ofNat 10))) [],
     .node C05.hiddenStyle none [.node gridStyle none [.node C05.blockStyle none [], .node placedItem none []]],
     .node absItem (some (.fixed (Num.ofNat 5) (Num.ofNat 5))) [],
     .node placedItem (some (.wrap (Num.ofNat 40) (Num.ofNat 10))) [],
     .node EvalFlex.flexStyle none [.node C05.blockStyle (some (.fixed (Num.ofNat 8) (Num.ofNat 12))) []]]

/-- non-vacuity of `grid_PHZ` / `grid_PLCovers_partial` (at `Rat`): on the child list [auto-placed item, `display:none`,
absolutely positioned, definitely placed item, auto-placed item] the PerformLayout program assigns a layout to every
child: the positioning loop over the grid items in source order (0, 3, 4), then the hidden/absolute loop in child order
(1: hidden, 2: absolute).  (Evaluated on `gridAlgK` = `gridAlg`, see Lemmas/EvalGridSort.lean.) -/
example : setsOn LayoutOutput.hidden (gridAlg (gridStyle : Style Rat)
    [C05.blockStyle, C05.hiddenStyle, absItem, placedItem, EvalFlex.flexStyle] plIn) = [0, 3, 4, 1, 2] := by
  show setsOn LayoutOutput.hidden (GridModel.gridAlg _ _ _) = _
  rw [gridAlg_eq_gridAlgK]
  decide +kernel

/-- non-vacuity of `grid_HiddenBlind`: two child lists that differ in the `display:none` child's style (a bare hidden
leaf style vs. a hidden style with a definite grid placement far outside the grid, a size and `position: absolute`) give
the same program -/
example (style : Style α) (inp : LayoutInput α) :
    gridAlg style [C05.blockStyle, C05.hiddenStyle, absItem] inp =
      gridAlg style [C05.blockStyle,
        { (C05.hiddenStyle : Style α) with position := .absolute, alignSelf := some .baseline,
                                           grid := { column := ⟨.line 7, .span 3⟩, row := ⟨.line (-5), .auto⟩ } },
        absItem] inp :=
  grid_HiddenBlind style _ _ inp (by simp [C05.AgreeH, C05.hiddenStyle])

/-- the same with the hidden subtree replaced by a bare `display:none` leaf -/
def exB : STree α := replaceAt exA [1] C05.bareHidden

example (ci : CacheImpl α C) (fuel : Nat) (inp : LayoutInput α) :
    (evalNode ci allAlgs fuel exA (NS.init ci exA) inp).1 = (evalNode ci allAlgs fuel exB (NS.init ci exB) inp).1 :=
  (hidden_invisible_replace_all_trees ci fuel exA _ [1] inp rfl rfl).1

example (ci : CacheImpl α C) (fuel : Nat) (inp : LayoutInput α) (k : NS α C)
    (hk : C05.nsAt (evalNode ci allAlgs fuel exA (NS.init ci exA) inp).2 [1, 0, 1] = some k) :
    C05.zeroFields k.layout :=
  hidden_zero_pass_all_trees ci fuel exA inp [1, 0, 1] k (by simp)
    (by simp [exA, C05.HiddenOnPath, C05.hiddenStyle, C05.blockStyle, gridStyle]) hk

/-! ## C01 / C17 — `PLCovers`

In PerformLayout mode `compute_grid_layout` ends with "Position in-flow children" (every grid item:
`perform_child_layout` then `set_unrounded_layout`, inside `align_and_position_item`) and "Position hidden and absolutely
positioned children" (the same pair for every `display:none` child — in this order since the repair 452a387 — and for
every absolutely positioned box).  All earlier child queries (ComputeSize contribution measurements, and the PerformLayout
baseline queries of `resolve_item_baselines`) are addressed to grid items, each of which is visited again by the
positioning loop.  A run that PANICS stops where it panics. -/

/-- **grid_PLCovers_partial**: in PerformLayout mode the grid program `Covers` all its children — for every child-style list
(absolutely positioned and hidden children included) and every input on which it cannot panic.  The full hypothesis
`AlgPLCovers gridAlg` is false for the model: see `not_grid_PLCovers`. -/
theorem grid_PLCovers_partial (style : Style α) (cs : List (Style α)) (inp : LayoutInput α)
    (hm : inp.runMode = .performLayout)
    (hnp : NoPanic (GridModel.computeGridLayoutE (GridStyle.ofStyle style) (cs.map GridChildStyle.ofStyle) inp)) :
    EvalMemo.Covers cs.length (fun _ => false) (fun _ => false) (gridAlg style cs inp) :=
  gridAlg_covers style cs inp hm hnp

/-- the coverage flags along the run in which every child answers `o` (executable) -/
def coversOn {β : Type} (n : Nat) (o : LayoutOutput α) : (Nat → Bool) → (Nat → Bool) → ProgM α β → Bool
  | own, strict, .pure _ => (List.range n).all fun i => own i && strict i
  | own, strict, .call i inp k =>
    coversOn n o (EvalMemo.upd own i (inp.runMode == .performHiddenLayout))
      (EvalMemo.upd strict i (inp.runMode != .computeSize)) (k o)
  | own, strict, .setLayout i _ k => coversOn n o (EvalMemo.upd own i true) strict (k ())

theorem coversOn_of_Covers {β : Type} (n : Nat) (o : LayoutOutput α) (p : ProgM α β) :
    ∀ own strict, EvalMemo.Covers n own strict p → coversOn n o own strict p = true := by
  induction p with
  | pure b =>
    intro own strict h
    simp only [coversOn, List.all_eq_true, List.mem_range, Bool.and_eq_true]
    exact h
  | call i inp k ih => intro own strict h; exact ih o _ _ (h o)
  | setLayout i l k ih => intro own strict h; exact ih () _ _ h

/-- a grid item with `grid-column: 32767 / span 2`: its end line does not fit an `i16` -/
def overflowItem : Style Rat :=
  { (Style.default : Style Rat) with display := .block, grid := { column := ⟨.line 32767, .span 2⟩ } }

/-- **not_grid_PLCovers** (`AlgPLCovers gridAlg` is FALSE for the model, at `Rat`): a grid container with one child
`grid-column: 32767 / span 2`: the size estimate (`child_min_line_max_line_span`) adds the span to the origin-zero line in
`i16`: the implementation panics in a debug build ("attempt to add with overflow", replayed on the real `TaffyTree`:
/tmp/w_gridp/scratch/gridpanic), the model's outcome is `overflow`, no child is laid out. -/
theorem not_grid_PLCovers : ¬ AlgPLCovers (gridAlg : ContainerAlg Rat) := by
  intro h
  have h1 := coversOn_of_Covers 1 LayoutOutput.hidden _ _ _ (h gridStyle [overflowItem] plIn rfl)
  revert h1
  decide +kernel

/-- the same for the stand-in that is `gridAlg` wherever `gridAlg` cannot panic: the full hypothesis -/
theorem gridCov_PLCovers : AlgPLCovers (gridCov : ContainerAlg α) :=
  fun style cs inp hm => gridCov_covers style cs inp hm

/-- `PLCovers` for concrete leaf, block, flexbox and the stand-in -/
theorem algsCovG_PLCovers' : EvalMemo.PLCovers (algsCovG : Algs α) := algsCovG_PLCovers

/-- **single_pass_layouts_quiet_all_trees** (C01 §4 / C17 for every style tree in which no grid container can panic —
`GridCalm`; `display:none` subtrees allowed and arbitrary; only the trace condition `QuietRun` remains): one PerformLayout
pass over a freshly built tree — the exact-memo evaluator and the cache-free evaluator store the same layouts at every
node -/
theorem single_pass_layouts_quiet_all_trees [DecidableEq α] (fuel : Nat) (t : STree α) (inp : LayoutInput α)
    (hb : GridCalm t) (hd : STree.depth t ≤ fuel) (hmode : inp.runMode ≠ .computeSize)
    (hq : EvalMemo.QuietRun (Dispatch.select dispatchArms) allAlgs fuel t (NS.init exactMemo t) inp) :
    EvalMemo.erase (evalNode exactMemo allAlgs fuel t (NS.init exactMemo t) inp).2
      = (evalNode noCache allAlgs fuel t (NS.init noCache t) inp).2 := by
  have ha := GridCalm_agree _ docSel_real t hb
  unfold evalNode
  rw [eval_agree exactMemo _ _ _ fuel t _ inp ha, eval_agree noCache _ _ _ fuel t _ inp ha]
  exact C01.single_pass_layouts_quiet _ algsCovG C01.selOK_real algsCovG_PLCovers fuel t inp hd hmode
    ((QuietRun_agree _ _ _ fuel t _ inp ha).1 hq)

/-- **history_layouts_quiet_all_trees** (C01 for stored layouts, exact-memo mode; only the trace conditions remain): after
any history of (edit, pass) steps from a freshly built tree in which every tree is `GridCalm` and every pass was quiet, a
further quiet PerformLayout pass stores, below the root, exactly the layouts a cache-free pass over a freshly built copy of
the final tree stores. -/
theorem history_layouts_quiet_all_trees [DecidableEq α] (t0 : STree α) (h : List (EvalMemo.Step α))
    (hb : GridCalmHist t0 h)
    (hqh : EvalMemo.QuietHistory (Dispatch.select dispatchArms) allAlgs (t0, NS.init exactMemo t0) h)
    (inp : LayoutInput α) (fuel : Nat)
    (hd : STree.depth (EvalMemo.runHistory exactMemo (Dispatch.select dispatchArms) allAlgs
      (t0, NS.init exactMemo t0) h).1 ≤ fuel)
    (hmode : inp.runMode ≠ .computeSize)
    (hq : EvalMemo.QuietRun (Dispatch.select dispatchArms) allAlgs fuel
      (EvalMemo.runHistory exactMemo (Dispatch.select dispatchArms) allAlgs (t0, NS.init exactMemo t0) h).1
      (EvalMemo.runHistory exactMemo (Dispatch.select dispatchArms) allAlgs (t0, NS.init exactMemo t0) h).2 inp) :
    let s := EvalMemo.runHistory exactMemo (Dispatch.select dispatchArms) allAlgs (t0, NS.init exactMemo t0) h
    EvalMemo.eraseList (evalNode exactMemo allAlgs fuel s.1 s.2 inp).2.kids
      = (evalNode noCache allAlgs fuel s.1 (NS.init noCache s.1) inp).2.kids := by
  have hA := GridCalmHist_agree _ docSel_real h t0 hb
  have hr := runHistory_agree exactMemo _ _ _ h (t0, NS.init exactMemo t0) hA
  have hfin := AgreeHist_final exactMemo _ _ _ algsCovG h (t0, NS.init exactMemo t0) hA
  rw [hr] at hd hq ⊢
  have hqh' := (QuietHistory_agree _ _ _ h (t0, NS.init exactMemo t0) hA).1 hqh
  intro s
  unfold evalNode
  rw [eval_agree exactMemo _ _ _ fuel s.1 _ inp hfin, eval_agree noCache _ _ _ fuel s.1 _ inp hfin]
  exact C01.history_layouts_quiet _ algsCovG C01.selOK_real algsCovG_PLCovers t0 h hqh' inp fuel hd hmode
    ((QuietRun_agree _ _ _ fuel _ _ inp hfin).1 hq)

/-- every tree without grid containers (outside `display:none` subtrees) is `GridCalm`: the theorems above contain the
block+flexbox ones of Props/EvalFlex.lean -/
example : GridCalm (EvalFlex.exA : STree α) := NoGrid_GridCalm _ EvalFlex.exA_NoGrid

/-! ### a decidable sufficient condition for `GridCalm`

After its setup (explicit grid, size estimate, placement, track initialisation, track indexes: no child call) the only
panics of `compute_grid_layout` are slice indexings into the two track vectors — by the grid items' track indexes
(`axis_tracks[track_index]` in the span-1 path of track sizing, `rows[..].offset` / `columns[..].offset` when positioning)
and by the resolved lines of absolutely positioned children — and the checked i16 arithmetic on the lines of the latter
(`into_origin_zero_line`, `OriginZeroLine ± u16`, the casts of `try_into_track_vec_index`).  Track sizing keeps the lengths
of the track vectors and the items' indexes, so the items' indexes are in range throughout if they are in range in the
setup's result; a resolved line of an absolutely positioned child is `None` or the index of a line of the implicit grid
(`try_into_track_vec_index`; the `assert!`s of `into_track_vec_index` are no longer reachable from there), hence in range
when the track vectors have an entry per line and per track; and without an `auto-fill`/`auto-fit` repetition the setup
does not depend on the input.  `gridSafeB style cs` runs the setup once and checks exactly this: items in range, vector
lengths, no overflow when the absolutely positioned children's lines are resolved (Lemmas/EvalGridSafe*.lean). -/

/-- **grid_noPanic_of_gridSafeB**: a grid container that passes the executable check never panics, whatever its input and
whatever its children answer -/
theorem grid_noPanic_of_gridSafeB (style : Style α) (cs : List (Style α)) (h : gridSafeB style cs = true)
    (inp : LayoutInput α) :
    NoPanic (GridModel.computeGridLayoutE (GridStyle.ofStyle style) (cs.map GridChildStyle.ofStyle) inp) :=
  gridSafeB_sound style cs h inp

/-- **grid_PLCovers_of_gridSafeB**: … and so, in PerformLayout mode, covers all its children -/
theorem grid_PLCovers_of_gridSafeB (style : Style α) (cs : List (Style α)) (h : gridSafeB style cs = true)
    (inp : LayoutInput α) (hm : inp.runMode = .performLayout) :
    EvalMemo.Covers cs.length (fun _ => false) (fun _ => false) (gridAlg style cs inp) :=
  grid_PLCovers_partial style cs inp hm (gridSafeB_sound style cs h inp)

/-- **gridCalm_of_gridCalmB**: a tree all of whose grid containers (outside `display:none` subtrees) pass the check is
`GridCalm` -/
theorem gridCalm_of_gridCalmB (t : STree α) (h : gridCalmB t = true) : GridCalm t := gridCalmB_sound t h

/-- the witness of `not_grid_PLCovers` fails the check; an absolutely positioned child with lines outside the implicit
grid passes it (such a line is `None`: the `assert!` of `into_track_vec_index` is no longer reached); an absolutely
positioned child whose lines overflow an `i16` fails it -/
example : gridSafeB (gridStyle : Style Rat) [overflowItem] = false ∧
    gridSafeB (gridStyle : Style Rat) [C05.blockStyle,
      { (absItem : Style Rat) with grid := { column := ⟨.line 1, .line 9⟩, row := ⟨.line (-4), .auto⟩ } }] = true ∧
    gridSafeB (gridStyle : Style Rat) [C05.blockStyle,
      { (absItem : Style Rat) with grid := { column := ⟨.line 32767, .span 2⟩ } }] = false := by
  decide +kernel

/-! ### a concrete quiet run on a grid tree (at `Rat`) -/
section quietExample

/-- the example tree `exA` with concrete leaves: a grid root (`40px 1fr` / `auto`, implicit rows) with an auto-placed
10×10 leaf, a `display:none` child with a grid subtree, an absolutely positioned 5×5 leaf (`grid-column: 1 / 2`), a
definitely placed text-like leaf (`grid-column: 2; grid-row: 1`), and an auto-placed nested flexbox container with a leaf -/
def exG : STree Rat :=
  .node gridStyle none
    [.node C05.blockStyle (some (.fixed 10 10)) [],
     .node C05.hiddenStyle none [.node gridStyle none [.node C05.blockStyle none [], .node placedItem none []]],
     .node absItem (some (.fixed 5 5)) [],
     .node placedItem (some (.wrap 40 10)) [],
     .node EvalFlex.flexStyle none [.node C05.blockStyle (some (.fixed 8 12)) []]]

/-- no grid container of `exG` can panic (executable check) -/
theorem exG_calm : GridCalm exG := gridCalm_of_gridCalmB exG (by decide +kernel)

/-- the evaluator's algorithms with the kernel-evaluable form of the grid algorithm -/
theorem allAlgs_eq_K : (allAlgs : Algs Rat) = EvalConcrete.algs flexAlg gridAlgK := by
  show EvalConcrete.algs flexAlg GridModel.gridAlg = _
  rw [gridAlg_eq_gridAlgK]

/-- the PerformLayout pass over the fresh tree `exG` with the concrete algorithms is quiet (executable monitor) -/
theorem exG_quiet :
    EvalMemo.QuietRun (Dispatch.select dispatchArms) (allAlgs : Algs Rat) 5 exG (NS.init exactMemo exG) plIn := by
  have hb : EvalMemo.quietRunB (Dispatch.select dispatchArms) (EvalConcrete.algs flexAlg gridAlgK) 5 exG
      (NS.init exactMemo exG) plIn = true := by decide +kernel
  rw [allAlgs_eq_K]
  with_reducible exact EvalMemo.quietRunB_sound _ _ _ _ _ _ hb

/-- hence (C01 §4 / C17 on a concrete grid tree, all algorithms concrete): the exact-memo pass and the cache-free pass
store the same layouts at every node of `exG` -/
example : EvalMemo.erase (evalNode exactMemo allAlgs 5 exG (NS.init exactMemo exG) plIn).2
    = (evalNode noCache allAlgs 5 exG (NS.init noCache exG) plIn).2 := by
  with_reducible exact single_pass_layouts_quiet_all_trees 5 exG plIn exG_calm (by decide) (by decide) exG_quiet

/-- the layouts of that pass: the container is 80×22 (`40px` + an `fr` column sized by the 40-wide text, an `auto` row of
height 10 and an implicit row of height 12); the auto-placed 10×10 leaf is stretched to its 40-wide column; the
`display:none` child (index 1) is all-zero with `order = 3` (after the three grid items); the absolutely positioned 5×5
leaf has `order = 4`; the definitely placed leaf sits in the second column; the flexbox child in the implicit row -/
example : (evalNode noCache allAlgs 5 exG (NS.init noCache exG) plIn).1.size = ⟨80, 22⟩ ∧
    ((C05.nsAt (evalNode noCache allAlgs 5 exG (NS.init noCache exG) plIn).2 [0]).map
      (fun k => (k.layout.order, k.layout.size, k.layout.location)) = some (0, ⟨40, 10⟩, ⟨0, 0⟩)) ∧
    ((C05.nsAt (evalNode noCache allAlgs 5 exG (NS.init noCache exG) plIn).2 [1]).map (·.layout)
      = some (Layout.withOrder 3)) ∧
    ((C05.nsAt (evalNode noCache allAlgs 5 exG (NS.init noCache exG) plIn).2 [2]).map
      (fun k => (k.layout.order, k.layout.size, k.layout.location)) = some (4, ⟨5, 5⟩, ⟨0, 0⟩)) ∧
    ((C05.nsAt (evalNode noCache allAlgs 5 exG (NS.init noCache exG) plIn).2 [3]).map
      (fun k => (k.layout.order, k.layout.size, k.layout.location)) = some (1, ⟨40, 10⟩, ⟨40, 0⟩)) ∧
    ((C05.nsAt (evalNode noCache allAlgs 5 exG (NS.init noCache exG) plIn).2 [4]).map
      (fun k => (k.layout.order, k.layout.size, k.layout.location)) = some (2, ⟨40, 12⟩, ⟨0, 10⟩)) := by
  rw [allAlgs_eq_K]
  decide +kernel

end quietExample

/-! ## C16 — call counts -/

/-- **grid_CallsAtMost**: every run of `compute_grid_layout` on `n` children makes at most `11·n` child calls in total -/
theorem grid_CallsAtMost (style : Style α) (cs : List (Style α)) (inp : LayoutInput α) :
    C16.CallsAtMost (11 * cs.length) (gridAlg style cs inp) :=
  callsLe_gridAlg style cs inp

/-- number of grid items / of children visited by the hidden-absolute loop -/
def nItemsG (cs : List (Style α)) : Nat := (inFlowOf (cs.map GridChildStyle.ofStyle)).length
def nHidAbsG (cs : List (Style α)) : Nat := (hidAbsIdxFrom (cs.map GridChildStyle.ofStyle) 0).length

/-- **grid_CallsAtMost_fine**: at most 11 calls per grid item — inline axis: min-content, max-content and baseline in
the first run; min-content re-measurement, max-content and baseline in step 7; block axis: min-content and max-content in
the first run, and again in step 7; final layout —, 1 per absolutely positioned box, 1 per `display:none` child -/
theorem grid_CallsAtMost_fine (style : Style α) (cs : List (Style α)) (inp : LayoutInput α) :
    C16.CallsAtMost (11 * nItemsG cs + nHidAbsG cs) (gridAlg style cs inp) :=
  callsLe_computeGridLayout_fine (GridStyle.ofStyle style) (cs.map GridChildStyle.ofStyle) inp

/-- the two counts add up to the number of children -/
theorem nItemsG_add_nHidAbsG (cs : List (Style α)) : nItemsG cs + nHidAbsG cs = cs.length := by
  have := inFlow_add_hidAbs (cs.map GridChildStyle.ofStyle)
  rwa [List.length_map] at this

/-- `grid-template-columns: auto auto 50%; grid-template-rows: auto 50%` -/
def pctTrack : GridTracks.TrackFn Rat := ⟨.percent (1/2), .percent (1/2)⟩
def tightExt : GridExt Rat :=
  { templateColumns := [GridTracks.TrackDef.single autoTrack, GridTracks.TrackDef.single autoTrack,
                        GridTracks.TrackDef.single pctTrack],
    templateRows := [GridTracks.TrackDef.single autoTrack, GridTracks.TrackDef.single pctTrack] }
def tightGrid : Style Rat := { (Style.default : Style Rat) with display := .grid, grid := tightExt }
def tightItem : Style Rat := { (Style.default : Style Rat) with display := .block, alignSelf := some .baseline }

/-- **grid_calls_tight** (at `Rat`): the constant 11 cannot be lowered.  A grid container of unknown size with two `auto`
columns, a percentage column and a percentage row, and two baseline-aligned, auto-placed children of automatic size
(both land in the first row, one in each `auto` column) queries each child 11 times when every child answers zero:
inline axis: baseline, min-content, max-content; block axis: min-content, max-content; step 7: the percentage column and
the indefinite width clear the inline caches: baseline, min-content, max-content again; the percentage row and the
indefinite height clear the block caches: min-content, max-content again; final layout.  No bound below `22 = 11·2` holds
for this run. -/
theorem grid_calls_tight :
    ∀ q, C16.CallsAtMost q (gridAlg tightGrid [tightItem, tightItem] plIn) → 22 ≤ q := by
  intro q h
  have := callsOn_le LayoutOutput.hidden _ q h
  have e : callsOn LayoutOutput.hidden (gridAlg tightGrid [tightItem, tightItem] plIn) = 22 := by
    show callsOn LayoutOutput.hidden (GridModel.gridAlg _ _ _) = _
    rw [gridAlg_eq_gridAlgK]
    decide +kernel
  omega

/-- the fine bound is attained on a mixed child list: two such grid items, a `display:none` child, an absolutely positioned
child: `11·2 + 1 + 1 = 24` calls -/
example : callsOn LayoutOutput.hidden (gridAlg tightGrid [tightItem, tightItem, C05.hiddenStyle, absItem] plIn) = 24 ∧
    11 * nItemsG ([tightItem, tightItem, C05.hiddenStyle, absItem] : List (Style Rat)) +
      nHidAbsG ([tightItem, tightItem, C05.hiddenStyle, absItem] : List (Style Rat)) = 24 := by
  refine ⟨?_, by decide +kernel⟩
  show callsOn LayoutOutput.hidden (GridModel.gridAlg _ _ _) = _
  rw [gridAlg_eq_gridAlgK]
  decide +kernel

/-- **leaf_calls_le_pow_all_trees** (C16 §3 for EVERY style tree with at most `b` children per node, hidden subtrees
arbitrary; unconditional): in one pass over a freshly built tree, with any cache (in particular none), the body of the
node at `path` — for a leaf: the measure function — is evaluated at most `(11·b)^|path|` times -/
theorem leaf_calls_le_pow_all_trees (ci : CacheImpl α C) (b : Nat) (fuel : Nat) (t : STree α) (inp : LayoutInput α)
    (hb : Fan b t) (path : List Nat) (r : STree α × NS α (C × List (Option (LayoutInput α))))
    (h : C16.nodeAt path t (evalNode (C16.logged ci) allAlgs fuel t (NS.init (C16.logged ci) t) inp).2 = some r) :
    C16.evals r.2.cache.2 ≤ (11 * b) ^ path.length := by
  have ha := Fan_agree b _ docSel_real t hb
  unfold evalNode at h
  rw [eval_agree (C16.logged ci) _ _ _ fuel t _ inp ha] at h
  exact C16.leaf_calls_le_pow ci _ (algsFanG b) (11 * b) (algsFanG_callsAtMost b) fuel t inp path r h

/-- non-vacuity: the example tree is `Fan 5` -/
example : Fan 5 (exA : STree α) := by
  simp [exA, Fan, FanList, gridStyle, absItem, placedItem, EvalFlex.flexStyle, C05.blockStyle, C05.hiddenStyle]

end EvalGrid

/-
  Obligations to audit (`#print axioms`; all depend on [propext, Classical.choice, Quot.sound] at most):
  EVALGRID_THEOREMS = [
    -- C05
    "EvalGrid.grid_PHZ", "EvalGrid.grid_HiddenBlind", "EvalGrid.algs_PHZ_all", "EvalGrid.algs_HiddenBlind_all",
    "EvalGrid.hidden_zero_all_trees", "EvalGrid.hidden_zero_pass_all_trees", "EvalGrid.hidden_invisible_all_trees",
    "EvalGrid.hidden_invisible_pass_all_trees", "EvalGrid.hidden_invisible_replace_all_trees",
    -- C01 / C17
    "EvalGrid.grid_PLCovers_partial", "EvalGrid.not_grid_PLCovers", "EvalGrid.gridCov_PLCovers",
    "EvalGrid.single_pass_layouts_quiet_all_trees", "EvalGrid.history_layouts_quiet_all_trees",
    "EvalGrid.grid_noPanic_of_gridSafeB", "EvalGrid.grid_PLCovers_of_gridSafeB", "EvalGrid.gridCalm_of_gridCalmB",
    "EvalGrid.exG_calm", "EvalGrid.exG_quiet",
    -- C16
    "EvalGrid.grid_CallsAtMost", "EvalGrid.grid_CallsAtMost_fine", "EvalGrid.grid_calls_tight",
    "EvalGrid.leaf_calls_le_pow_all_trees",
    -- supporting lemmas worth auditing by name
    "EvalGrid.computeGridLayoutE_cases", "EvalGrid.gridSetupK_cases", "EvalGrid.placeGridItems_indices",
    "EvalGrid.POp_trackSizingAlgorithmM", "EvalGrid.LOp_batchLoopM", "EvalGrid.GMeas_minContentChanged",
    "EvalGrid.GMeas_step7Mid", "EvalGrid.K_gridStep7", "EvalGrid.K_gridMain", "EvalGrid.GLays_gridTail",
    "EvalGrid.PHZ_computeGridLayout", "EvalGrid.computeGridLayout_agree", "EvalGrid.GCalls_computeGridLayoutE",
    "EvalGrid.GTrack_computeGridLayoutE", "EvalGrid.grid_covers_of_noPanic", "EvalGrid.GridCalm_agree",
    "EvalGrid.GridCalmHist_agree", "EvalGrid.Fan_agree", "EvalGrid.algsFanG_callsAtMost", "EvalGrid.algsCovG_PLCovers",
    "EvalGrid.mergeSort_eq_msort", "EvalGrid.gridAlg_eq_gridAlgK", "EvalGrid.GSafe_trackSizingAlgorithmM",
    "EvalGrid.noPanic_computeGridLayoutE", "EvalGrid.gridSafeB_sound", "EvalGrid.gridCalmB_sound",
  ]
-/
