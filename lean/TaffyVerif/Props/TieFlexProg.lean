/-
  Tie (tier T) for the functions of src/compute/flexbox.rs that call the tree, translated from the Rust source in interaction form.

  `Gen.FlexProg.*` (Generated/FlexProg.lean) is regenerated from the source on every run (extract/src/flexprog.rs on top of blockmod.rs):
  programs over `Gen.Tree.Prog α Nat` — one node per trait-method call of the tree in the Rust order; a `for` over the item list whose
  body talks to the tree is `Gen.Block.for_mut` applied to the body as a step function.  The hand-written model (Model/Flex.lean, the
  definitions C07, C04, C12, C06, C05, C16 are stated on) is a `ProgM` program; `TieBlock.toGen` reads a `ProgM` program as a generated
  one (`call` ↦ `compute_child_layout`, `setLayout` ↦ `set_unrounded_layout`, `pure` ↦ `ret`; injective), so
  `Gen.FlexProg.f … = toGen (FlexModel.f …)` says: the same child queries in the same order with the same inputs and the same result —
  for every `[Num α]` and all arguments.

  * `measure_child_size_eq` — the provided method `LayoutPartialTreeExt::measure_child_size` (translated here with the generated
    `AbsoluteAxis`; Generated/Tree.lean leaves it out) at the axis `dir.main_axis()` IS `ProgM.measureChildSize … dir.isRow`:
    one `compute_child_layout` in `RunMode::ComputeSize` with `axis` = the requested axis, answer = that axis of `.size`.
  * `determine_flex_base_size_eq` — the whole function: `for child in flex_items.iter_mut()` with (per item) the conditional
    `measure_child_size` of the flex base size (labelled block `'flex_basis`) and the UNCONDITIONAL `measure_child_size` of the
    min-content size (`unwrap_or({ … })` evaluates its argument eagerly) IS `FlexModel.determineFlexBaseSize`, with
    `tree.get_flexbox_child_style` read as the function `styleOf` (children addressed by their index, `child.node` = `nodeIdx`).
    The generated step function is never restated: `for_mut_unit` (induction over the item list) is applied with the step found by
    unification; the pointwise goal is closed by rewriting with the existing Tie equalities.
  * `measure_child_size_cross_eq`, `determine_hypothetical_cross_size_eq` — `determine_hypothetical_cross_size(tree, line, ..)` (one
    line; `compute_preliminary` calls it in a `for` over the lines, as `FlexModel.determineHypotheticalCrossSize` recurses over them):
    the generated program IS `hypotheticalCrossItems` on the line's items (one cross-axis `measure_child_size` per item whose clamped
    style cross size is `None`), the other fields of the line unchanged.
  * `calculate_children_base_lines_eq` — nested `for`s (lines, then items), early `return` for column containers, `continue` for lines
    with at most one baseline-aligned item and for items that are not baseline-aligned, one `perform_child_layout` per remaining item:
    the generated program IS `FlexModel.calculateChildrenBaseLines` (`baselineItems_cons`: the model's item recursion, one item unrolled).
-/
import TaffyVerif.Generated.FlexProg
import TaffyVerif.Props.TieFlex
import TaffyVerif.Props.TieBlock
import TaffyVerif.Props.TieCache

namespace TieFlexProg
open FlexModel TieBlock
variable {α : Type} [Num α] {β γ : Type}

/-! ### measure_child_size -/

/-- `FlexDirection::main_axis` is horizontal exactly for the row directions (the model passes `dir.isRow`) -/
theorem main_axis_eq (dir : FlexDirection) :
    Gen.FlexProg.FlexDirection.main_axis dir = if dir.isRow then .horizontal else .vertical := by
  cases dir <;> rfl

/-- **Tie, traits.rs `measure_child_size`** at the main axis of a flex direction: the model's `ProgM.measureChildSize … dir.isRow` -/
theorem measure_child_size_eq (n : Nat) (kd ps : Size (Option α)) (av : Size (AvailableSpace α)) (sm : SizingMode)
    (dir : FlexDirection) (vm : Line Bool) :
    Gen.FlexProg.measure_child_size n kd ps av sm (Gen.FlexProg.FlexDirection.main_axis dir) vm =
      toGen (ProgM.measureChildSize n kd ps av sm dir.isRow vm) := by
  cases dir <;> rfl

omit [Num α] in
theorem for_mut_unit (F : Unit → β → Gen.Tree.Prog α Nat (β × Unit)) (step : β → ProgM α β) (loop : List β → ProgM α (List β))
    (hF : ∀ x, F () x = toGen (step x >>= fun c => pure (c, ())))
    (hnil : loop [] = pure [])
    (hcons : ∀ x xs, loop (x :: xs) = (do let c ← step x; let r ← loop xs; pure (c :: r)))
    (items : List β) :
    Gen.Block.for_mut F () items = toGen (loop items >>= fun r => pure (r, ())) := by
  induction items with
  | nil => rw [hnil]; rfl
  | cons x xs ih =>
    rw [hcons, Gen.Block.for_mut, hF]
    simp only [toGen_bind, bind_assoc]
    congr 1; funext c
    show (Gen.Tree.Prog.bind (Gen.Block.for_mut F () xs) _) = _
    rw [ih]
    simp only [toGen_bind, bind_assoc]
    rfl


/-! ### determine_flex_base_size -/

omit [Num α] in
theorem size_main_map_some (s : Size α) (dir : FlexDirection) : (Size.map s (fun v => some v)).main dir = some (s.main dir) := by
  cases dir <;> rfl

theorem main_av_eq (a : AvailableSpace α) :
    (if Gen.avEq a AvailableSpace.minContent then AvailableSpace.minContent else AvailableSpace.maxContent : AvailableSpace α) =
      (match a with | .minContent => .minContent | _ => .maxContent) := by
  cases a <;> rfl

omit [Num α] in
theorem toGen_pure (b : β) : toGen (pure b : ProgM α β) = .ret b := rfl

/-- **Tie, flexbox.rs `determine_flex_base_size`.**  The program generated from the source IS the model's program
`FlexModel.determineFlexBaseSize` (per item `flexBaseSizeItem`): same child queries in the same order with the same inputs, same
updated items. -/
theorem determine_flex_base_size_eq (k : AlgoConstants α) (av : Size (AvailableSpace α)) (styleOf : Nat → Style α)
    (items : List (FlexItem α)) :
    Gen.FlexProg.determine_flex_base_size styleOf k av items = toGen (determineFlexBaseSize k av styleOf items) := by
  unfold Gen.FlexProg.determine_flex_base_size
  refine Eq.trans (congrArg (fun x => Gen.Tree.Prog.bind x _)
    (for_mut_unit _ (fun c => flexBaseSizeItem k av (styleOf c.nodeIdx) c) (determineFlexBaseSize k av styleOf) ?hF rfl (fun _ _ => rfl) items)) ?_
  case hF =>
    intro child
    unfold flexBaseSizeItem childKnownDimensions
    simp only [TieAxes.size_cross_eq, TieAxes.from_cross_eq, TieAxes.cross_axis_sum_eq, TieAxes.main_axis_sum_eq, TieAxes.with_main_eq,
      TieAxes.set_cross_eq, TieAxes.with_cross_eq, TieAxes.set_main_eq, TieAxes.size_main_eq,
      TieMaybeMath.of_add_eq, TieMaybeMath.of_sub_eq, TieMaybeMath.fo_clamp_eq, TieMaybeMath.fo_min_eq, TieMaybeMath.fo_max_eq,
      TieLayout.into_option_eq, TieStyle.box_sizing_eq, TieStyle.padding_eq, TieStyle.border_eq, TieStyle.flex_basis_eq,
      TieResolve.rect_lp_opt_resolve_or_zero_eq, TieResolve.dim_maybe_resolve_eq, TieLayout.sum_axes_eq, TieLeaf.rect_add_eq,
      TieLayout.size_ZERO_eq, TieInput.line_false_eq, TieLeaf.size_map_eq, TieLayout.size_or_eq, TieLeaf.point_map_eq,
      TieStyle.maybe_into_automatic_min_size_eq, measure_child_size_eq, size_main_map_some, main_av_eq, toGen_bind, bind_assoc,
      TieInput.size_max_content_eq, TieInput.size_min_content_eq, Gen.FlexProg.Point.into_size, MaybeMath.fo_max]
    generalize (Option.or _ (Size.main child.size k.dir)) = o
    cases o <;> simp only [toGen_pure, Gen.Tree.Prog.bind, bind_ret] <;> rfl
  · show _ = toGen (determineFlexBaseSize k av styleOf items)
    simp only [toGen_bind, bind_assoc, toGen_pure, Gen.Tree.Prog.bind]
    exact bind_ret _

/-- concrete instance: no items — the generated program returns at once -/
example (k : AlgoConstants α) (av : Size (AvailableSpace α)) (styleOf : Nat → Style α) :
    Gen.FlexProg.determine_flex_base_size styleOf k av [] = .ret [] := rfl

/-- concrete instance: one item without flex basis and main size in a row container — the generated program starts with the child query
for the flex base size (`ComputeSize`, horizontal axis, max-content in the main axis), as the model's does -/
example (k : AlgoConstants α) (hk : k.dir = .row) (av : Size (AvailableSpace α)) (hav : av.width = .maxContent) (cs : Style α)
    (hb : cs.flexBasis = .auto) (hs : cs.boxSizing = .borderBox) (item : FlexItem α) (hi : item.size = ⟨none, none⟩) :
    ∃ inp kont, Gen.FlexProg.determine_flex_base_size (fun _ => cs) k av [item] = .compute_child_layout item.nodeIdx inp kont ∧
      inp.runMode = .computeSize ∧ inp.axis = .horizontal ∧ inp.availableSpace.width = .maxContent := by
  rw [determine_flex_base_size_eq, determineFlexBaseSize, flexBaseSizeItem, hk, hb, hs, hi]
  simp only [show (av.main FlexDirection.row) = av.width from rfl, hav]
  exact ⟨_, _, rfl, rfl, rfl, rfl⟩

/-! ### determine_hypothetical_cross_size -/

/-- **Tie, traits.rs `measure_child_size`** at the cross axis of a flex direction: the model's `ProgM.measureChildSize … (!dir.isRow)` -/
theorem measure_child_size_cross_eq (n : Nat) (kd ps : Size (Option α)) (av : Size (AvailableSpace α)) (sm : SizingMode)
    (dir : FlexDirection) (vm : Line Bool) :
    Gen.FlexProg.measure_child_size n kd ps av sm (Gen.FlexProg.FlexDirection.cross_axis dir) vm =
      toGen (ProgM.measureChildSize n kd ps av sm (!dir.isRow) vm) := by
  cases dir <;> rfl

/-- **Tie, flexbox.rs `determine_hypothetical_cross_size`** (one flex line; `compute_preliminary` calls it for every line): the
program generated from the source IS the model's `hypotheticalCrossItems` on the line's items — per item one `measure_child_size` along
the cross axis exactly when the clamped style cross size is `None` — with the line's other fields unchanged. -/
theorem determine_hypothetical_cross_size_eq (line : FlexLineS α) (k : AlgoConstants α) (av : Size (AvailableSpace α)) :
    Gen.FlexProg.determine_hypothetical_cross_size line k av =
      toGen (hypotheticalCrossItems k av line.items >>= fun items => pure { line with items }) := by
  unfold Gen.FlexProg.determine_hypothetical_cross_size
  refine Eq.trans (congrArg (fun x => Gen.Tree.Prog.bind x _)
    (for_mut_unit _ (hypotheticalCrossItem k av) (hypotheticalCrossItems k av) ?hF rfl (fun _ _ => rfl) line.items)) ?_
  case hF =>
    intro child
    unfold hypotheticalCrossItem
    simp only [TieAxes.size_cross_eq, TieAxes.cross_axis_sum_eq, TieAxes.set_cross_eq, TieAxes.size_main_eq, TieLeaf.rect_add_eq,
      TieMaybeMath.of_max_eq, TieMaybeMath.oo_clamp_eq, TieMaybeMath.af_max_eq, TieMaybeMath.ao_clamp_eq, TieMaybeMath.fo_clamp_eq,
      TieLeaf.from_f32_eq, TieInput.line_false_eq, measure_child_size_cross_eq, toGen_bind, bind_assoc]
    generalize (MaybeMath.of_max _ ((child.padding.add child.border).crossAxisSum k.dir)) = o
    cases o <;> simp only [toGen_pure, Gen.Tree.Prog.bind, toGen_bind, bind_assoc] <;> rfl
  · simp only [toGen_bind, bind_assoc, toGen_pure, Gen.Tree.Prog.bind]

/-- concrete instance: an empty line — the generated program returns the line at once -/
example (k : AlgoConstants α) (av : Size (AvailableSpace α)) (cs os : α) :
    Gen.FlexProg.determine_hypothetical_cross_size ⟨[], cs, os⟩ k av = .ret ⟨[], cs, os⟩ := rfl

/-- concrete instance: a column container, one item without a width (and without min / max width): the generated program starts with
the child query along the horizontal (= cross) axis with the item's target height as known height -/
example (k : AlgoConstants α) (hk : k.dir = .column) (hr : k.isRow = false) (av : Size (AvailableSpace α)) (item : FlexItem α)
    (hs : item.size = ⟨none, none⟩) (hmin : item.minSize = ⟨none, none⟩) (hmax : item.maxSize = ⟨none, none⟩) (cs os : α) :
    ∃ inp kont, Gen.FlexProg.determine_hypothetical_cross_size ⟨[item], cs, os⟩ k av = .compute_child_layout item.nodeIdx inp kont ∧
      inp.runMode = .computeSize ∧ inp.axis = .horizontal ∧ inp.knownDimensions = ⟨none, some item.targetSize.height⟩ := by
  rw [determine_hypothetical_cross_size_eq]
  simp only [hypotheticalCrossItems, hypotheticalCrossItem, hk, hr, hs, hmin, hmax]
  exact ⟨_, _, rfl, rfl, rfl, rfl⟩

/-- the call site in `compute_preliminary` (`for line in flex_lines.iter_mut() { determine_hypothetical_cross_size(tree, line, ..); }`):
running the generated function over the lines in order IS the model's `FlexModel.determineHypotheticalCrossSize` on the list of lines -/
theorem determine_hypothetical_cross_size_lines_eq (k : AlgoConstants α) (av : Size (AvailableSpace α)) (lines : List (FlexLineS α)) :
    Gen.Block.for_mut (fun (_ : Unit) (line : FlexLineS α) =>
        (Gen.FlexProg.determine_hypothetical_cross_size line k av).bind (fun l => Gen.Tree.Prog.ret (l, ()))) () lines =
      toGen (determineHypotheticalCrossSize k av lines >>= fun r => pure (r, ())) := by
  refine for_mut_unit _ (fun line => hypotheticalCrossItems k av line.items >>= fun items => pure { line with items })
    (determineHypotheticalCrossSize k av) ?_ rfl ?_ lines
  · intro line
    rw [determine_hypothetical_cross_size_eq]
    simp only [toGen_bind, bind_assoc, toGen_pure, Gen.Tree.Prog.bind]
  · intro line rest
    conv => lhs; rw [determineHypotheticalCrossSize]
    show ProgM.bind _ _ = ProgM.bind (ProgM.bind _ _) _
    generalize hypotheticalCrossItems k av line.items = p
    induction p with
    | pure b => rfl
    | call c i kk ih => simp only [ProgM.bind]; congr 1; funext o; exact ih o
    | setLayout c l kk ih => simp only [ProgM.bind]; congr 1; funext o; exact ih o

/-! ### calculate_children_base_lines -/

/-- one pass through the inner loop body (`for child in line.items.iter_mut()`), as the model's `baselineItems` writes it -/
def baselineStep (k : AlgoConstants α) (nodeSize : Size (Option α)) (availableSpace : Size (AvailableSpace α)) (child : FlexItem α) :
    ProgM α (FlexItem α) :=
  if child.alignSelf != .baseline then pure child
  else do
    let out ← ProgM.performChildLayout child.nodeIdx
      ⟨if k.isRow then some child.targetSize.width else some child.hypotheticalInnerSize.width,
       if k.isRow then some child.hypotheticalInnerSize.height else some child.targetSize.height⟩
      k.nodeInnerSize
      ⟨if k.isRow then .definite k.containerSize.width else availableSpace.width.maybeSet nodeSize.width,
       if k.isRow then availableSpace.height.maybeSet nodeSize.height else .definite k.containerSize.height⟩
      .contentSize ⟨false, false⟩
    pure { child with baseline := out.firstBaselines.y.getD out.size.height + child.margin.top }

theorem baselineItems_cons (k : AlgoConstants α) (ns : Size (Option α)) (av : Size (AvailableSpace α)) (child : FlexItem α)
    (rest : List (FlexItem α)) :
    baselineItems k ns av (child :: rest) =
      (do let c ← baselineStep k ns av child
          let r ← baselineItems k ns av rest
          pure (c :: r)) := by
  conv => lhs; rw [baselineItems]
  unfold baselineStep
  split <;> rfl

/-- one pass through the outer loop body (`for line in flex_lines`) -/
def baselineLineStep (k : AlgoConstants α) (ns : Size (Option α)) (av : Size (AvailableSpace α)) (line : FlexLineS α) :
    ProgM α (FlexLineS α) :=
  if (line.items.filter fun c => c.alignSelf == .baseline).length ≤ 1 then pure line
  else do
    let items ← baselineItems k ns av line.items
    pure { line with items }

/-- **Tie, flexbox.rs `calculate_children_base_lines`.**  The program generated from the source (early `return` for column
containers; per line the count of baseline-aligned items and `continue` when at most one; per baseline-aligned item one
`perform_child_layout`) IS the model's `FlexModel.calculateChildrenBaseLines`. -/
theorem calculate_children_base_lines_eq (ns : Size (Option α)) (av : Size (AvailableSpace α)) (lines : List (FlexLineS α))
    (k : AlgoConstants α) :
    Gen.FlexProg.calculate_children_base_lines ns av lines k = toGen (calculateChildrenBaseLines k ns av lines) := by
  unfold Gen.FlexProg.calculate_children_base_lines calculateChildrenBaseLines
  split
  · rfl
  · refine Eq.trans (congrArg (fun x => Gen.Tree.Prog.bind x _)
      (for_mut_unit _ (baselineLineStep k ns av) (baselineLines k ns av) ?hF rfl (fun _ _ => rfl) lines)) ?_
    case hF =>
      intro line
      unfold baselineLineStep
      by_cases hc : (line.items.filter fun c => c.alignSelf == AlignItems.baseline).length ≤ 1
      · simp only [hc, decide_true, ↓reduceIte]; rfl
      · simp only [hc, decide_false, Bool.false_eq_true, ↓reduceIte]
        refine Eq.trans (congrArg (fun x => Gen.Tree.Prog.bind x _)
          (for_mut_unit _ (baselineStep k ns av) (baselineItems k ns av) ?hG rfl (baselineItems_cons k ns av) line.items)) ?_
        case hG =>
          intro child
          unfold baselineStep
          simp only [TieLeaf.from_f32_eq, TieLayout.maybe_set_eq, TieInput.line_false_eq, TieLayoutTree.perform_child_layout_eq]
          cases hb : (child.alignSelf == AlignItems.baseline) <;> simp only [bne, hb, Bool.not_false, Bool.not_true,
            Bool.false_eq_true, ↓reduceIte] <;> rfl
        · simp only [toGen_bind, bind_assoc, toGen_pure, Gen.Tree.Prog.bind]
    · simp only [toGen_bind, bind_assoc, toGen_pure, Gen.Tree.Prog.bind]
      exact bind_ret _

/-- concrete instance: a column container — the generated program returns the lines at once -/
example (k : AlgoConstants α) (hr : k.isRow = false) (ns : Size (Option α)) (av : Size (AvailableSpace α)) (lines : List (FlexLineS α)) :
    Gen.FlexProg.calculate_children_base_lines ns av lines k = .ret lines := by
  rw [calculate_children_base_lines_eq, calculateChildrenBaseLines, hr]; rfl

/-- concrete instance: a row container, one line with two baseline-aligned items — the generated program starts with the
`perform_child_layout` of the first item (`PerformLayout`, both axes), as the model's does -/
example (k : AlgoConstants α) (hr : k.isRow = true) (ns : Size (Option α)) (av : Size (AvailableSpace α)) (a b : FlexItem α)
    (ha : a.alignSelf = .baseline) (hb : b.alignSelf = .baseline) (cs os : α) :
    ∃ inp kont, Gen.FlexProg.calculate_children_base_lines ns av [⟨[a, b], cs, os⟩] k = .compute_child_layout a.nodeIdx inp kont ∧
      inp.runMode = .performLayout ∧ inp.axis = .both ∧ inp.knownDimensions = ⟨some a.targetSize.width, some a.hypotheticalInnerSize.height⟩ := by
  rw [calculate_children_base_lines_eq]
  simp only [calculateChildrenBaseLines, hr, baselineLines, baselineItems, ha, hb, List.filter]
  exact ⟨_, _, rfl, rfl, rfl, rfl⟩

end TieFlexProg
