/-
  Tie (tier T) for the track sizing functions of src/style/grid.rs (`MinTrackSizingFunction`, `MaxTrackSizingFunction`,
  `NonRepeatedTrackSizingFunction`, `TrackSizingFunction::is_auto_repetition`), `GridTrack`'s constructors and small methods
  (src/compute/grid/types/grid_track.rs), `TrackCounts::len` and `Size::get_abs`.

  `Gen.TrackFns.*` is regenerated from the Rust source on every run (extract/src/{slices,gridinit}.rs); each theorem states that
  the generated definition IS the hand-written one of Model/GridTracksInit.lean — for every argument and every `[Num α]`.
  The types (`MinTrack`, `MaxTrack`, `TrackFn`, `Repetition`, `TrackDef`, `GridTrack`, `TrackKind`, `TrackCounts`) are compared
  with the source by the extractor (field lists, variant lists, the constructor set of the two `CompactLength` wrappers).
-/
import TaffyVerif.Generated.TrackFns

namespace TieTrackFns
open GridTracks
variable {α : Type} [Num α]

/-! ### geometry.rs -/

theorem get_abs_horizontal {β : Type} (s : Size β) : Gen.TrackFns.Size.get_abs s .horizontal = s.width := rfl
theorem get_abs_vertical {β : Type} (s : Size β) : Gen.TrackFns.Size.get_abs s .vertical = s.height := rfl

/-! ### MinTrackSizingFunction -/

theorem min_ZERO_eq : Gen.TrackFns.MinTrackSizingFunction.ZERO (α := α) = MinTrack.length 0 := rfl
theorem min_AUTO_eq : Gen.TrackFns.MinTrackSizingFunction.AUTO (α := α) = MinTrack.auto := rfl
theorem min_from_lp_eq : Gen.TrackFns.MinTrackSizingFunction.from_LengthPercentage (α := α) = MinTrack.ofLP := by
  funext x; cases x <;> rfl
theorem min_definite_value_eq : Gen.TrackFns.MinTrackSizingFunction.definite_value (α := α) = MinTrack.definiteValue := by
  funext f p; cases f <;> rfl
theorem min_is_intrinsic_eq : Gen.TrackFns.MinTrackSizingFunction.is_intrinsic (α := α) = MinTrack.isIntrinsic := by
  funext f; cases f <;> rfl
theorem min_is_min_or_max_content_eq :
    Gen.TrackFns.MinTrackSizingFunction.is_min_or_max_content (α := α) = MinTrack.isMinOrMaxContent := by
  funext f; cases f <;> rfl
theorem min_is_auto_eq : Gen.TrackFns.MinTrackSizingFunction.is_auto (α := α) = MinTrack.isAuto := by
  funext f; cases f <;> rfl
theorem min_is_max_content_eq : Gen.TrackFns.MinTrackSizingFunction.is_max_content (α := α) = MinTrack.isMaxContent := by
  funext f; cases f <;> rfl
theorem min_uses_percentage_eq : Gen.TrackFns.MinTrackSizingFunction.uses_percentage (α := α) = MinTrack.usesPercentage := by
  funext f; cases f <;> rfl

/-! ### MaxTrackSizingFunction -/

theorem max_ZERO_eq : Gen.TrackFns.MaxTrackSizingFunction.ZERO (α := α) = MaxTrack.length 0 := rfl
theorem max_AUTO_eq : Gen.TrackFns.MaxTrackSizingFunction.AUTO (α := α) = MaxTrack.auto := rfl
theorem max_from_lp_eq : Gen.TrackFns.MaxTrackSizingFunction.from_LengthPercentage (α := α) = MaxTrack.ofLP := by
  funext x; cases x <;> rfl
theorem max_definite_value_eq : Gen.TrackFns.MaxTrackSizingFunction.definite_value (α := α) = MaxTrack.definiteValue := by
  funext f p; cases f <;> rfl
theorem max_has_definite_value_eq :
    Gen.TrackFns.MaxTrackSizingFunction.has_definite_value (α := α) = MaxTrack.hasDefiniteValue := by
  funext f p; cases f <;> rfl
theorem max_definite_limit_eq : Gen.TrackFns.MaxTrackSizingFunction.definite_limit (α := α) = MaxTrack.definiteLimit := by
  funext f p; cases f <;> rfl
theorem max_is_intrinsic_eq : Gen.TrackFns.MaxTrackSizingFunction.is_intrinsic (α := α) = MaxTrack.isIntrinsic := by
  funext f; cases f <;> rfl
theorem max_is_max_content_alike_eq :
    Gen.TrackFns.MaxTrackSizingFunction.is_max_content_alike (α := α) = MaxTrack.isMaxContentAlike := by
  funext f; cases f <;> rfl
theorem max_is_fr_eq : Gen.TrackFns.MaxTrackSizingFunction.is_fr (α := α) = MaxTrack.isFr := by
  funext f; cases f <;> rfl
theorem max_is_auto_eq : Gen.TrackFns.MaxTrackSizingFunction.is_auto (α := α) = MaxTrack.isAuto := by
  funext f; cases f <;> rfl
theorem max_is_min_content_eq : Gen.TrackFns.MaxTrackSizingFunction.is_min_content (α := α) = MaxTrack.isMinContent := by
  funext f; cases f <;> rfl
theorem max_is_fit_content_eq : Gen.TrackFns.MaxTrackSizingFunction.is_fit_content (α := α) = MaxTrack.isFitContent := by
  funext f; cases f <;> rfl
theorem max_is_max_or_fit_content_eq :
    Gen.TrackFns.MaxTrackSizingFunction.is_max_or_fit_content (α := α) = MaxTrack.isMaxOrFitContent := by
  funext f; cases f <;> rfl
theorem max_uses_percentage_eq : Gen.TrackFns.MaxTrackSizingFunction.uses_percentage (α := α) = MaxTrack.usesPercentage := by
  funext f; cases f <;> rfl

/-! ### NonRepeatedTrackSizingFunction, TrackSizingFunction -/

theorem trackfn_AUTO_eq : Gen.TrackFns.NonRepeatedTrackSizingFunction.AUTO (α := α) = TrackFn.auto := rfl
theorem min_sizing_function_eq (f : TrackFn α) : Gen.TrackFns.NonRepeatedTrackSizingFunction.min_sizing_function f = f.min := rfl
theorem max_sizing_function_eq (f : TrackFn α) : Gen.TrackFns.NonRepeatedTrackSizingFunction.max_sizing_function f = f.max := rfl
theorem has_fixed_component_eq :
    Gen.TrackFns.NonRepeatedTrackSizingFunction.has_fixed_component (α := α) = TrackFn.hasFixedComponent := by
  funext f; obtain ⟨mn, mx⟩ := f; cases mn <;> cases mx <;> rfl
theorem is_auto_repetition_eq : Gen.TrackFns.TrackSizingFunction.is_auto_repetition (α := α) = TrackDef.isAutoRepetition := by
  funext d
  cases d with
  | single f => rfl
  | rep r fs => cases r <;> rfl

/-! ### GridTrack -/

theorem new_with_kind_eq : Gen.TrackFns.GridTrack.new_with_kind (α := α) = GridTrack.newWithKind := rfl
theorem new_eq (f : TrackFn α) : Gen.TrackFns.GridTrack.new f.min f.max = GridTrack.new f := rfl
theorem gutter_eq : Gen.TrackFns.GridTrack.gutter (α := α) = GridTrack.gutter := by
  funext g
  unfold Gen.TrackFns.GridTrack.gutter GridTrack.gutter
  rw [min_from_lp_eq, max_from_lp_eq, new_with_kind_eq]
theorem collapse_eq : Gen.TrackFns.GridTrack.collapse (α := α) = GridTrack.collapse := rfl
theorem is_flexible_eq : Gen.TrackFns.GridTrack.is_flexible (α := α) = GridTrack.isFlexible := by
  funext t; unfold Gen.TrackFns.GridTrack.is_flexible GridTrack.isFlexible; rw [max_is_fr_eq]
theorem uses_percentage_eq : Gen.TrackFns.GridTrack.uses_percentage (α := α) = GridTrack.usesPercentage := by
  funext t; unfold Gen.TrackFns.GridTrack.uses_percentage GridTrack.usesPercentage
  rw [min_uses_percentage_eq, max_uses_percentage_eq]
theorem has_intrinsic_sizing_function_eq :
    Gen.TrackFns.GridTrack.has_intrinsic_sizing_function (α := α) = GridTrack.hasIntrinsicSizingFunction := by
  funext t; unfold Gen.TrackFns.GridTrack.has_intrinsic_sizing_function GridTrack.hasIntrinsicSizingFunction
  rw [min_is_intrinsic_eq, max_is_intrinsic_eq]
theorem flex_factor_eq : Gen.TrackFns.GridTrack.flex_factor (α := α) = GridTrack.flexFactor := by
  funext t
  unfold Gen.TrackFns.GridTrack.flex_factor GridTrack.flexFactor
  cases h : t.maxFn <;> rfl

/-! ### TrackCounts -/

/-- `counts.len()`: the two u16 additions, as the first check of `GridTracks.initializeGridTracks` -/
theorem track_counts_len_eq (c : TrackCounts) :
    Gen.TrackFns.TrackCounts.len c =
      if c.negativeImplicit + c.explicit > u16Max || c.negativeImplicit + c.explicit + c.positiveImplicit > u16Max
      then .error .overflow else .ok (c.negativeImplicit + c.explicit + c.positiveImplicit) := by
  unfold Gen.TrackFns.TrackCounts.len Slice.u16Add u16Max
  by_cases h1 : c.negativeImplicit + c.explicit > 65535
  · simp [h1, bind, Except.bind]
  · by_cases h2 : c.negativeImplicit + c.explicit + c.positiveImplicit > 65535 <;> simp [h1, h2, bind, Except.bind]

example : Gen.TrackFns.TrackCounts.len ⟨1, 2, 3⟩ = .ok 6 := rfl
example : Gen.TrackFns.TrackCounts.len ⟨65535, 1, 0⟩ = .error .overflow := rfl
example : Gen.TrackFns.GridTrack.gutter (LP.length (5 : Rat)) =
    GridTrack.newWithKind .gutter (.length 5) (.length 5) := rfl

end TieTrackFns
