/-
  C04 for the grid algorithm (`GridModel.gridAlg` = `compute_grid_layout`): homogeneity under uniform scaling, at `Rat`,
  for every `k > 0`.

  THE UNCONDITIONAL STATEMENT IS FALSE, for two independent reasons, both replayed on the real code
  (/tmp/w_gridq/replay):
    * `grid_not_homogeneous` (known finding c04-grid-track-threshold): `distribute_space_up_to_limits`
      (track_sizing.rs) stops when the space left is `≤ THRESHOLD = 0.01`.  A `justify-content: start` grid
      1/128 wide with one `auto` column and one text-like child (min-content 1/256, max-content 1/64): the free space
      1/256 < 0.01 is not handed out, the column stays 1/256 wide; sixteen times larger the free space 1/16 is handed
      out and the column is 1/8 wide, not 16/256 = 1/16 (and the child wraps onto 2 lines instead of 4).
    * `grid_not_homogeneous_autorepeat` (NEW; introduced by the repair of c03-auto-repeat-zero-size-overflow):
      `compute_explicit_grid_size_in_axis` (explicit_grid.rs) counts an auto-repetition that takes no space as 1px
      wide.  `repeat(auto-fill, 0px)` in a 10-wide grid gives 11 explicit columns, in a 20-wide grid 21: a child at
      column line 15 sits in an implicit `auto` column in the first and in an explicit 0px column in the second.

  `Scalable (Style Rat)` (Model/Scale.lean) scales `Style.grid` too: the lengths of `grid_template_*` / `grid_auto_*`
  (fixed track sizes, `fit-content(px)` arguments, `minmax` bounds); `scale_scales_grid`, `scale_scales_grid_tracks`.
  Every statement below is in terms of that ONE `scale` (`C04.gscale`, used in the lemma files, is an abbreviation of it:
  `gscale_eq_scale`).

  WHAT IS TRUE:
    * `grid_homogeneous_modulo`: `compute_grid_layout` with `compute_explicit_grid_size_in_axis` (`ceg`) and
      `track_sizing_algorithm` (`ts`) taken as PARAMETERS (`GridScale.gridAlgG`, `gridAlgG_eq`) is homogeneous for every
      pair of related parameters — step 1, placement, track initialisation, the estimates, baselines, container size,
      the re-run conditions, track alignment, item positioning, absolutely positioned and hidden children, container
      baseline and output contain no absolute constant.
    * `explicit_grid_size_homogeneous`: `ceg` itself is homogeneous unless the 1px substitute is used (`ExplicitNoPx`,
      decidable).
    * `track_sizing_fixed_homogeneous`: `ts` itself is homogeneous on fixed-size tracks (it takes the early exit).
    * `grid_homogeneous_partial` (static, decidable side condition `GridFixed`): every track sizing function of both
      templates and both auto-track lists is `minmax(a, b)` with lengths `b ≤ a`, the auto-track lists are not empty,
      the gaps are lengths, and no auto-repetition takes zero space ⇒ the program of the scaled container IS the scaled
      program, in exactly the form `C04.AlgsHomogeneous` asks for (`scaleProg`).
    * `grid_homogeneous_joint` (UNCONDITIONAL, the whole algorithm including all of `track_sizing_algorithm`):
      `compute_grid_layout` with its three absolute constants as parameters (`GridTheta.gridAlgT one θd θi`: the 1px
      substitute, `distribute_space_up_to_limits`' THRESHOLD 0.01, `distribute_item_space_to_base_size_inner`'s
      THRESHOLD 0.000001; `gridAlgT_real`: at the real constants it IS `gridAlg`) is homogeneous JOINTLY in the
      lengths and the constants: `gridAlgT (k·one) (k·θd) (k·θi) (scaled …) = scaleProg k (gridAlgT one θd θi …)`.
      So these three constants are the only absolute lengths in the grid algorithm.
    * `grid_homogeneous_run_partial` / `grid_homogeneous_run_iff` (dynamic side condition, EXACT): for every family of
      children `orc`: the run of the scaled container against the scaled children is the scaled run (output, queries,
      layouts) IF AND ONLY IF the run of the original container is unchanged when the three constants are divided by
      `k` (`ConstFree`, decidable), i.e. no comparison against a constant is decided differently.  It holds on the
      intrinsic example (`inGrid_constFree`, k = 4 and 1/4; replayed on the real code) and fails on both witnesses
      (`witnesses_not_constFree`).
    * the tree level (every tree; grid containers anywhere): Props/C04Tree.lean — `tree_homogeneous_joint_all_trees`
      (unconditional, constants scaled too), `tree_homogeneous_all_trees_partial` (real algorithms, fixed-track grids).
  Helper lemmas: Lemmas/GridScaleStages.lean, GridScaleInst.lean, GridScaleRel.lean, GridScalePure1–4.lean,
  GridScaleProg1–3.lean, GridScaleTop.lean, GridScaleTop2.lean, GridScaleFixed.lean (tier 1);
  GridScaleTheta.lean, GridScaleJoint.lean, GridScaleFr1–3.lean, GridScaleSz1–4.lean, GridScaleExpand.lean,
  GridScaleRunData.lean (tier 2: the whole sizing).
-/
import TaffyVerif.Lemmas.GridScaleFixed
import TaffyVerif.Lemmas.GridScaleSz4
import TaffyVerif.Lemmas.GridScaleRunData
import TaffyVerif.Lemmas.GridBoxKernel
import TaffyVerif.Lemmas.FlexScaleRun
import TaffyVerif.Props.C04

set_option linter.unusedSectionVars false
set_option linter.unusedVariables false

namespace C04Grid
open Scalable GridModel GridTracks GridStages GridScale GridTheta C04 Eval

variable {k : Rat}

/-! ### 1. everything but two functions is homogeneous -/

/-- **grid_homogeneous_modulo** -/
theorem grid_homogeneous_modulo (hk : 0 < k) {FT : GridTrack Rat → Prop} (hFT : TrackProp FT) {ts' ts : TS Rat}
    (hts : TSHom k FT ts' ts) (ceg' ceg : CEG Rat) (s : Style Rat) (cs : List (Style Rat)) (inp : LayoutInput Rat)
    (hcol : ceg' (scale k s.size.width) (scale k s.maxSize.width) (scale k s.gap.width)
      (scale k s.grid.templateColumns) (scale k (mkCtx s inp).autoFitContainerSize.width) =
      ceg s.size.width s.maxSize.width s.gap.width s.grid.templateColumns (mkCtx s inp).autoFitContainerSize.width)
    (hrow : ceg' (scale k s.size.height) (scale k s.maxSize.height) (scale k s.gap.height)
      (scale k s.grid.templateRows) (scale k (mkCtx s inp).autoFitContainerSize.height) =
      ceg s.size.height s.maxSize.height s.gap.height s.grid.templateRows (mkCtx s inp).autoFitContainerSize.height)
    (hTPc : ∀ counts has l, initializeGridTracks counts s.grid.templateColumns s.grid.autoColumns s.gap.width has =
      .ok l → TPs FT l)
    (hTPr : ∀ counts has l, initializeGridTracks counts s.grid.templateRows s.grid.autoRows s.gap.height has =
      .ok l → TPs FT l) :
    gridAlgG ceg' ts' (scale k s) (cs.map (scale k)) (scale k inp) = scaleProg k (gridAlgG ceg ts s cs inp) :=
  gridAlgG_scale hFT hts hk ceg' ceg s cs inp hcol hrow hTPc hTPr

/-- the parametrised algorithm at the real parameters is `compute_grid_layout` -/
theorem gridAlgG_real :
    (gridAlgG computeExplicitGridSizeInAxis trackSizingAlgorithmM :
      Style Rat → List (Style Rat) → LayoutInput Rat → ProgM Rat (LayoutOutput Rat)) = gridAlg :=
  gridAlgG_eq

/-- **explicit_grid_size_homogeneous**: `compute_explicit_grid_size_in_axis` does not see the scaling unless the 1px
substitute for a zero-size auto-repetition is used -/
theorem explicit_grid_size_homogeneous (hk : 0 < k) (size maxSize : Dimension Rat) (gap : LP Rat)
    (tpl : List (TrackDef Rat)) (inner : Option Rat) (h : ExplicitNoPx gap tpl inner) :
    computeExplicitGridSizeInAxis (scale k size) (scale k maxSize) (scale k gap) (scale k tpl) (scale k inner) =
      computeExplicitGridSizeInAxis size maxSize gap tpl inner :=
  computeExplicit_scale hk size maxSize gap tpl inner h

/-- **track_sizing_fixed_homogeneous**: the real `track_sizing_algorithm` on fixed-size tracks -/
theorem track_sizing_fixed_homogeneous (hk : 0 < k) : TSHom k FixedLen trackSizingAlgorithmM trackSizingAlgorithmM :=
  trackSizing_fixed_hom hk

/-! ### 2. the static side condition -/

/-- all tracks of the container are fixed-size and no auto-repetition takes zero space -/
def GridFixed (s : Style Rat) (inp : LayoutInput Rat) : Prop :=
  AxisFixed s.grid.templateColumns s.grid.autoColumns s.gap.width ∧
  AxisFixed s.grid.templateRows s.grid.autoRows s.gap.height ∧
  ExplicitNoPx s.gap.width s.grid.templateColumns (mkCtx s inp).autoFitContainerSize.width ∧
  ExplicitNoPx s.gap.height s.grid.templateRows (mkCtx s inp).autoFitContainerSize.height

instance (s : Style Rat) (inp : LayoutInput Rat) : Decidable (GridFixed s inp) := by
  unfold GridFixed
  have d1 := decidable_of_iff _ (axisFixedB_iff s.grid.templateColumns s.grid.autoColumns s.gap.width)
  have d2 := decidable_of_iff _ (axisFixedB_iff s.grid.templateRows s.grid.autoRows s.gap.height)
  infer_instance

/-- **grid_homogeneous_partial** (static side condition): the whole of `compute_grid_layout` — step 1, the explicit grid,
placement, track initialisation, the four runs of track sizing (baseline shims included), the container size, step 7,
track alignment, item positioning, absolutely positioned and hidden children, the container baseline — as an
interaction program: on a container all of whose tracks are fixed-size, the program of the scaled container is the
scaled program -/
theorem grid_homogeneous_partial (hk : 0 < k) (s : Style Rat) (cs : List (Style Rat)) (inp : LayoutInput Rat)
    (h : GridFixed s inp) :
    gridAlg (scale k s) (cs.map (scale k)) (scale k inp) = scaleProg k (gridAlg s cs inp) := by
  obtain ⟨h1, h2, h3, h4⟩ := h
  rw [← gridAlgG_real]
  exact gridAlgG_scale fixedLen_prop (trackSizing_fixed_hom hk) hk _ _ s cs inp
    (computeExplicit_scale hk _ _ _ _ _ h3) (computeExplicit_scale hk _ _ _ _ _ h4)
    (fun counts has l hl => initializeGridTracks_fixed counts _ _ _ has h1 l hl)
    (fun counts has l hl => initializeGridTracks_fixed counts _ _ _ has h2 l hl)

/-! ### 2b. the whole algorithm: joint homogeneity in (lengths, constants), and the exact run-level condition -/

/-- `compute_grid_layout` with its three absolute constants as parameters, at the real constants, is `gridAlg` -/
theorem gridAlgT_real : (gridAlgT (1 : Rat) thresholdDist thresholdItem) = gridAlg := GridTheta.gridAlgT_real

/-- **track_sizing_joint_homogeneous**: the whole `track_sizing_algorithm` (initialisation, baselines, intrinsic track
sizes with `distribute_space_up_to_limits`, maximise, expand flexible tracks, stretch), on every state -/
theorem track_sizing_joint_homogeneous (hk : 0 < k) (θd θi : Rat) :
    TSHom k (fun _ => True) (trackSizingAlgorithmT (scale k θd) (scale k θi)) (trackSizingAlgorithmT θd θi) :=
  trackSizingT_hom hk θd θi

/-- **explicit_grid_size_joint_homogeneous** -/
theorem explicit_grid_size_joint_homogeneous (hk : 0 < k) (one : Rat) (size maxSize : Dimension Rat) (gap : LP Rat)
    (tpl : List (TrackDef Rat)) (inner : Option Rat) :
    computeExplicitT (scale k one) (scale k size) (scale k maxSize) (scale k gap) (scale k tpl) (scale k inner) =
      computeExplicitT one size maxSize gap tpl inner :=
  computeExplicitT_scale hk one size maxSize gap tpl inner

/-- **grid_homogeneous_joint**: UNCONDITIONALLY, for every container, child list, input and constants: scaling all
lengths AND the three constants by `k` scales the program.  The three constants are the ONLY absolute lengths in
`compute_grid_layout`. -/
theorem grid_homogeneous_joint (hk : 0 < k) (one θd θi : Rat) (s : Style Rat) (cs : List (Style Rat))
    (inp : LayoutInput Rat) :
    gridAlgT (scale k one) (scale k θd) (scale k θi) (scale k s) (cs.map (scale k)) (scale k inp) =
      scaleProg k (gridAlgT one θd θi s cs inp) :=
  gridAlgT_scale hk one θd θi s cs inp

/-- the run-level side condition, on the run of the ORIGINAL container against the children `orc`: the run (output,
queries, layouts) is the same when the three constants 1, 0.01, 0.000001 are replaced by 1/k, 0.01/k, 0.000001/k, i.e.
no comparison against a constant is decided differently -/
def ConstFree (k : Rat) (s : Style Rat) (cs : List (Style Rat)) (inp : LayoutInput Rat)
    (orc : Nat → LayoutInput Rat → LayoutOutput Rat) : Prop :=
  runO orc (gridAlgT (scale k⁻¹ 1) (scale k⁻¹ thresholdDist) (scale k⁻¹ thresholdItem) s cs inp) =
    runO orc (gridAlg s cs inp)

instance (k : Rat) (s : Style Rat) (cs : List (Style Rat)) (inp : LayoutInput Rat)
    (orc : Nat → LayoutInput Rat → LayoutOutput Rat) : Decidable (ConstFree k s cs inp orc) :=
  inferInstanceAs (Decidable (_ = _))

/-- the run of the scaled container against the scaled children, in terms of the original container -/
theorem grid_scaled_run (hk : 0 < k) (s : Style Rat) (cs : List (Style Rat)) (inp : LayoutInput Rat)
    (orc : Nat → LayoutInput Rat → LayoutOutput Rat) :
    runO (scaleOrc k orc) (gridAlg (scale k s) (cs.map (scale k)) (scale k inp)) =
      scale k (runO orc (gridAlgT (scale k⁻¹ 1) (scale k⁻¹ thresholdDist) (scale k⁻¹ thresholdItem) s cs inp)) := by
  rw [← runO_scaleProg hk, ← grid_homogeneous_joint hk, scale_inv_cancel hk, scale_inv_cancel hk, scale_inv_cancel hk,
    gridAlgT_real]

/-- **grid_homogeneous_run_partial**: for every family of children: if `ConstFree` holds for the run of the original
container, the run of the scaled container against the scaled children is the scaled run (output, queries, layouts) -/
theorem grid_homogeneous_run_partial (hk : 0 < k) (s : Style Rat) (cs : List (Style Rat)) (inp : LayoutInput Rat)
    (orc : Nat → LayoutInput Rat → LayoutOutput Rat) (h : ConstFree k s cs inp orc) :
    runO (scaleOrc k orc) (gridAlg (scale k s) (cs.map (scale k)) (scale k inp)) =
      scale k (runO orc (gridAlg s cs inp)) := by
  rw [grid_scaled_run hk, h]

/-- **grid_homogeneous_run_iff**: the side condition is exact -/
theorem grid_homogeneous_run_iff (hk : 0 < k) (s : Style Rat) (cs : List (Style Rat)) (inp : LayoutInput Rat)
    (orc : Nat → LayoutInput Rat → LayoutOutput Rat) :
    runO (scaleOrc k orc) (gridAlg (scale k s) (cs.map (scale k)) (scale k inp)) =
      scale k (runO orc (gridAlg s cs inp)) ↔ ConstFree k s cs inp orc := by
  refine ⟨fun h => ?_, grid_homogeneous_run_partial hk s cs inp orc⟩
  rw [grid_scaled_run hk] at h
  have := congrArg (scale k⁻¹) h
  rwa [scale_cancel_inv hk, scale_cancel_inv hk] at this

/-! ### 3. the unconditional statement is false: THRESHOLD -/

section witness

/-- a `justify-content: start` grid of definite width 1/128 (no template: one implicit `auto` column) … -/
def wGrid : Style Rat :=
  { (Style.default : Style Rat) with display := .grid, size := ⟨.length (1/128), .auto⟩, justifyContent := some .start }
/-- … with one child … -/
def wChild : Style Rat := { (Style.default : Style Rat) with display := .block }
def wInp : LayoutInput Rat :=
  { runMode := .performLayout, sizingMode := .inherentSize, axis := .both, knownDimensions := ⟨none, none⟩,
    parentSize := ⟨none, none⟩, availableSpace := ⟨.maxContent, .maxContent⟩,
    verticalMarginsAreCollapsible := ⟨false, false⟩ }
/-- … that answers like text of intrinsic width 1/64 and line height 1/64 -/
def wOrc : Nat → LayoutInput Rat → LayoutOutput Rat :=
  fun _ inp => LayoutOutput.fromOuterSize ((MeasureSpec.wrap (1/64) (1/64)).measure inp.knownDimensions inp.availableSpace)

/-- the container is 1/128 × 1/16 (the column stays at the child's min-content width 1/256: 4 lines); sixteen times
larger it is 1/8 × 1/2 (the column grows to 1/8: 2 lines), not 1/8 × 1.  Real taffy (rounding off): the same numbers. -/
theorem witness_values :
    (runO wOrc (gridAlg wGrid [wChild] wInp)).1.size = ⟨1/128, 1/16⟩ ∧
    (runO (scaleOrc 16 wOrc) (gridAlg (scale 16 wGrid) ([wChild].map (scale 16)) (scale 16 wInp))).1.size =
      ⟨1/8, 1/2⟩ := by
  rw [← GridKernel.gridAlgK_eq]
  decide +kernel

/-- **grid_not_homogeneous**: `compute_grid_layout` is NOT homogeneous: there are a container, a child list, an input and
`k = 16` for which the program of the scaled container is not the scaled program -/
theorem grid_not_homogeneous :
    ¬ ∀ (style : Style Rat) (cs : List (Style Rat)) (inp : LayoutInput Rat),
      gridAlg (scale 16 style) (cs.map (scale 16)) (scale 16 inp) = scaleProg 16 (gridAlg style cs inp) := by
  intro h
  have h1 := congrArg (fun p => (runO (scaleOrc 16 wOrc) p).1.size) (h wGrid [wChild] wInp)
  simp only [runO_scaleProg (by norm_num : (0 : Rat) < 16)] at h1
  rw [witness_values.2, scale_fst, lo_size, witness_values.1] at h1
  revert h1
  decide +kernel

/-- hence `C04.AlgsHomogeneous` fails at `k = 16` for the evaluator's algorithms with the grid model, whatever the flexbox
algorithm is -/
theorem not_algsHomogeneous_grid (flex : Style Rat → List (Style Rat) → LayoutInput Rat → ProgM Rat (LayoutOutput Rat)) :
    ¬ AlgsHomogeneous (concreteAlgs flex gridAlg) 16 :=
  fun h => grid_not_homogeneous h.grid

/-- the static side condition fails on the witness (its only column is an implicit `auto` track) -/
theorem witness_side_condition : ¬ GridFixed wGrid wInp := by decide +kernel

end witness

/-! ### 4. the unconditional statement is false: the 1px auto-repetition -/

section witness2

/-- a 10-wide grid with `grid-template-columns: repeat(auto-fill, 0px)` … -/
def aGrid : Style Rat :=
  { (Style.default : Style Rat) with
    display := .grid, size := ⟨.length 10, .auto⟩,
    grid := { templateColumns := [.rep .autoFill [⟨.length 0, .length 0⟩]] } }
/-- … and one child at column line 15 with 7×7 content -/
def aChild : Style Rat :=
  { (Style.default : Style Rat) with display := .block, grid := { column := ⟨.line 15, .auto⟩ } }
def aOrc : Nat → LayoutInput Rat → LayoutOutput Rat :=
  fun _ inp => LayoutOutput.fromOuterSize ((MeasureSpec.fixed 7 7).measure inp.knownDimensions inp.availableSpace)

def childBox (r : LayoutOutput Rat × Trace) : List (Point Rat × Size Rat) :=
  r.2.2.map fun p => (p.2.location, p.2.size)

/-- 11 explicit columns: line 15 is implicit, the child is 31/4 wide at x = 9/4; twice as large: 21 explicit columns, line
15 is an explicit 0px column, the child is 0 wide at x = 0 (not 31/2 wide at 9/2).  Real taffy: the same numbers. -/
theorem witness2_values :
    childBox (runO aOrc (gridAlg aGrid [aChild] wInp)) = [(⟨9/4, 0⟩, ⟨31/4, 7⟩)] ∧
    childBox (runO (scaleOrc 2 aOrc) (gridAlg (scale 2 aGrid) ([aChild].map (scale 2)) (scale 2 wInp))) =
      [(⟨0, 0⟩, ⟨0, 14⟩)] := by
  rw [← GridKernel.gridAlgK_eq]
  decide +kernel

/-- **grid_not_homogeneous_autorepeat** -/
theorem grid_not_homogeneous_autorepeat :
    ¬ ∀ (style : Style Rat) (cs : List (Style Rat)) (inp : LayoutInput Rat),
      gridAlg (scale 2 style) (cs.map (scale 2)) (scale 2 inp) = scaleProg 2 (gridAlg style cs inp) := by
  intro h
  have h1 := congrArg (fun p => childBox (runO (scaleOrc 2 aOrc) p)) (h aGrid [aChild] wInp)
  simp only [runO_scaleProg (by norm_num : (0 : Rat) < 2)] at h1
  rw [witness2_values.2] at h1
  have h2 : childBox (scale 2 (runO aOrc (gridAlg aGrid [aChild] wInp))) =
      (childBox (runO aOrc (gridAlg aGrid [aChild] wInp))).map fun p => (scale 2 p.1, scale 2 p.2) := by
    unfold childBox
    simp only [scale_snd, scale_list, List.map_map]
    rfl
  rw [h2, witness2_values.1] at h1
  revert h1
  decide +kernel

/-- the side condition excludes it: the auto-repetition takes zero space -/
theorem witness2_side_condition :
    ¬ ExplicitNoPx aGrid.gap.width aGrid.grid.templateColumns (mkCtx aGrid wInp).autoFitContainerSize.width := by
  decide +kernel

end witness2

/-! ### 5. `Scalable (Style Rat)` scales the grid extension -/

/-- `scale k style` scales `Style.grid`: the track sizing functions of both templates and both auto-track lists
(`length`, `fit-content(px)`; not percentages, not `fr`), and nothing else of it (auto flow, placements) -/
theorem scale_scales_grid (k : Rat) (s : Style Rat) :
    (scale k s).grid = scale k s.grid ∧
    (scale k s).grid.templateRows = scale k s.grid.templateRows ∧
    (scale k s).grid.templateColumns = scale k s.grid.templateColumns ∧
    (scale k s).grid.autoRows = scale k s.grid.autoRows ∧
    (scale k s).grid.autoColumns = scale k s.grid.autoColumns ∧
    (scale k s).grid.autoFlow = s.grid.autoFlow ∧ (scale k s).grid.row = s.grid.row ∧
    (scale k s).grid.column = s.grid.column :=
  ⟨rfl, rfl, rfl, rfl, rfl, rfl, rfl, rfl⟩

/-- the abbreviation used by the lemma files is `scale` -/
theorem gscale_eq_scale (k : Rat) (s : Style Rat) : gscale k s = scale k s := rfl

/-- a grid with one fixed 40px column and one child -/
def mGrid : Style Rat :=
  { (Style.default : Style Rat) with
    display := .grid, grid := { templateColumns := [.single ⟨.length 40, .length 40⟩],
                                 autoRows := [⟨.length 10, .length 10⟩] } }

/-- **scale_scales_grid_tracks**: the container scaled with `scale 2` has the 80px column and the 20px row, and its run
against the scaled child is the scaled run: ⟨80, 20⟩ = 2 · ⟨40, 10⟩ -/
theorem scale_scales_grid_tracks :
    (scale 2 mGrid).grid.templateColumns = [.single ⟨.length 80, .length 80⟩] ∧
    (scale 2 mGrid).grid.autoRows = [⟨.length 20, .length 20⟩] ∧
    (runO aOrc (gridAlg mGrid [wChild] wInp)).1.size = ⟨40, 10⟩ ∧
    (runO (scaleOrc 2 aOrc) (gridAlg (scale 2 mGrid) ([wChild].map (scale 2)) (scale 2 wInp))).1.size = ⟨80, 20⟩ ∧
    scale 2 (runO aOrc (gridAlg mGrid [wChild] wInp)).1.size = ⟨80, 20⟩ := by
  rw [← GridKernel.gridAlgK_eq]
  decide +kernel

/-! ### 6. non-vacuity of the positive theorem -/

section examples

/-- a grid with `grid-template-columns: 40px repeat(2, minmax(30px, 20px))`, `grid-template-rows: 25px`,
`grid-auto-rows: 15px`, `grid-auto-columns: 10px`, gaps 4/2, padding, `justify-content: space-between` -/
def exGrid : Style Rat :=
  { (Style.default : Style Rat) with
    display := .grid, size := ⟨.length 200, .auto⟩, gap := ⟨.length 4, .length 2⟩,
    padding := ⟨.length 2, .length 2, .length 3, .length 1⟩, justifyContent := some .spaceBetween,
    alignItems := some .center,
    grid := { templateColumns := [.single ⟨.length 40, .length 40⟩, .rep (.count 2) [⟨.length 30, .length 20⟩]],
              templateRows := [.single ⟨.length 25, .length 25⟩],
              autoRows := [⟨.length 15, .length 15⟩], autoColumns := [⟨.length 10, .length 10⟩] } }
def exKidA : Style Rat :=
  { (Style.default : Style Rat) with display := .block, margin := ⟨.length 1, .auto, .length 0, .length 3⟩ }
def exKidB : Style Rat :=
  { (Style.default : Style Rat) with
    display := .block, size := ⟨.percent (1/2), .auto⟩, alignSelf := some .baseline,
    grid := { column := ⟨.line 2, .span 2⟩ } }
def exKidC : Style Rat :=
  { (Style.default : Style Rat) with display := .block, alignSelf := some .baseline, grid := { row := ⟨.line 3, .auto⟩ } }
def exKidAbs : Style Rat :=
  { (Style.default : Style Rat) with
    display := .block, position := .absolute, inset := ⟨.length 3, .auto, .percent (1/4), .auto⟩,
    size := ⟨.percent (1/2), .length 10⟩, grid := { column := ⟨.line 1, .line 3⟩ } }
def exKidHidden : Style Rat := { (Style.default : Style Rat) with display := .none }
def exIn : LayoutInput Rat :=
  { runMode := .performLayout, sizingMode := .inherentSize, axis := .both, knownDimensions := ⟨none, none⟩,
    parentSize := ⟨some 300, none⟩, availableSpace := ⟨.definite 300, .maxContent⟩,
    verticalMarginsAreCollapsible := ⟨false, false⟩ }
def exOrc : Nat → LayoutInput Rat → LayoutOutput Rat :=
  fun _ inp => LayoutOutput.fromOuterSize ((MeasureSpec.wrap 50 8).measure inp.knownDimensions inp.availableSpace)

/-- the static side condition holds -/
theorem exGrid_fixed : GridFixed exGrid exIn := by decide +kernel

/-- `grid_homogeneous_partial` at k = 2 and k = 1/4: a padded, gapped fixed-track grid with `space-between`, an
auto-margin item, a spanning percentage-width baseline item, an item in an implicit row, an absolutely positioned
child with explicit lines (percentage inset and width) and a hidden child -/
example : gridAlg (scale 2 exGrid) ([exKidA, exKidB, exKidC, exKidAbs, exKidHidden].map (scale 2)) (scale 2 exIn) =
    scaleProg 2 (gridAlg exGrid [exKidA, exKidB, exKidC, exKidAbs, exKidHidden] exIn) :=
  grid_homogeneous_partial (by norm_num) _ _ _ exGrid_fixed
example : gridAlg (scale (1/4) exGrid) ([exKidA, exKidB, exKidC, exKidAbs, exKidHidden].map (scale (1/4)))
      (scale (1/4) exIn) =
    scaleProg (1/4) (gridAlg exGrid [exKidA, exKidB, exKidC, exKidAbs, exKidHidden] exIn) :=
  grid_homogeneous_partial (by norm_num) _ _ _ exGrid_fixed

def boxes (r : LayoutOutput Rat × Trace) : Size Rat × List (Nat × Point Rat × Size Rat) :=
  (r.1.size, r.2.2.map fun p => (p.1, p.2.location, p.2.size))

/-- an intrinsically sized grid: `grid-template-columns: auto minmax(min-content, 80px) fit-content(60px) 1fr`, gaps,
padding, in a 300-wide parent, with six text-like children (an auto-margin one, a baseline-aligned one, one spanning two
intrinsic columns, one in the flexible column) -/
def inGrid : Style Rat :=
  { (Style.default : Style Rat) with
    display := .grid, gap := ⟨.length 5, .length 3⟩, padding := ⟨.length 2, .length 2, .length 3, .length 1⟩,
    grid := { templateColumns := [.single ⟨.auto, .auto⟩, .single ⟨.minContent, .length 80⟩,
                                   .single ⟨.auto, .fitContentPx 60⟩, .single ⟨.auto, .fr 1⟩] } }
def inKid (c r : Int) : Style Rat :=
  { (Style.default : Style Rat) with display := .block, grid := { column := ⟨.line c, .auto⟩, row := ⟨.line r, .auto⟩ } }
def inKidM : Style Rat :=
  { (Style.default : Style Rat) with
    display := .block, margin := ⟨.length 1, .auto, .length 0, .length 3⟩,
    grid := { column := ⟨.line 2, .auto⟩, row := ⟨.line 1, .auto⟩ } }
def inKidB : Style Rat :=
  { (Style.default : Style Rat) with
    display := .block, alignSelf := some .baseline, grid := { column := ⟨.line 3, .auto⟩, row := ⟨.line 1, .auto⟩ } }
def inKidSpan : Style Rat :=
  { (Style.default : Style Rat) with
    display := .block, grid := { column := ⟨.line 2, .span 2⟩, row := ⟨.line 3, .auto⟩ } }
def inKids : List (Style Rat) := [inKid 1 1, inKidM, inKidB, inKid 3 2, inKidSpan, inKid 4 3]

/-- the boxes of the intrinsic example (real taffy, rounding off: the same numbers, /tmp/w_gridq/replay) -/
theorem inGrid_boxes : boxes (runO exOrc (gridAlg inGrid inKids exIn)) =
    (⟨573/2, 37⟩, [(0, ⟨2, 3⟩, ⟨50, 11⟩), (1, ⟨58, 3⟩, ⟨50, 8⟩), (2, ⟨359/2, 3⟩, ⟨50, 8⟩), (3, ⟨359/2, 17⟩, ⟨50, 8⟩),
      (4, ⟨57, 28⟩, ⟨345/2, 8⟩), (5, ⟨469/2, 28⟩, ⟨50, 8⟩)]) := by
  rw [← GridKernel.gridAlgK_eq]
  decide +kernel


/-- the whole run of the intrinsic example: output, the 35 child queries, the 6 layouts (`C04.inGridRun`, a literal) -/
theorem inGrid_run : runO exOrc (gridAlg inGrid inKids exIn) = inGridRun := by
  rw [← GridKernel.gridAlgK_eq]
  decide +kernel

/-- the run-level side condition holds for it at k = 4 and k = 1/4 … -/
theorem inGrid_constFree : ConstFree 4 inGrid inKids exIn exOrc ∧ ConstFree (1/4) inGrid inKids exIn exOrc := by
  unfold ConstFree
  rw [inGrid_run, ← gridAlgTK_eq, ← gridAlgTK_eq]
  decide +kernel

/-- … so `grid_homogeneous_run_partial` applies: intrinsic, `fr`, `fit-content` and `minmax` tracks, a spanning item -/
example : runO (scaleOrc 4 exOrc) (gridAlg (scale 4 inGrid) (inKids.map (scale 4)) (scale 4 exIn)) =
    scale 4 (runO exOrc (gridAlg inGrid inKids exIn)) :=
  grid_homogeneous_run_partial (by norm_num) _ _ _ _ inGrid_constFree.1
example : runO (scaleOrc (1/4) exOrc) (gridAlg (scale (1/4) inGrid) (inKids.map (scale (1/4))) (scale (1/4) exIn)) =
    scale (1/4) (runO exOrc (gridAlg inGrid inKids exIn)) :=
  grid_homogeneous_run_partial (by norm_num) _ _ _ _ inGrid_constFree.2

/-- `grid_homogeneous_joint` on the THRESHOLD witness: with the constants scaled too, the run IS the scaled run -/
example : runO (scaleOrc 16 wOrc) (gridAlgT (scale 16 1) (scale 16 thresholdDist) (scale 16 thresholdItem)
      (scale 16 wGrid) ([wChild].map (scale 16)) (scale 16 wInp)) =
    scale 16 (runO wOrc (gridAlg wGrid [wChild] wInp)) := by
  rw [grid_homogeneous_joint (by norm_num), runO_scaleProg (by norm_num), gridAlgT_real]

/-- and the side condition is exact: it fails on both witnesses -/
theorem witnesses_not_constFree : ¬ ConstFree 16 wGrid [wChild] wInp wOrc ∧ ¬ ConstFree 2 aGrid [aChild] wInp aOrc := by
  unfold ConstFree
  rw [← GridKernel.gridAlgK_eq, ← gridAlgTK_eq, ← gridAlgTK_eq]
  decide +kernel

end examples

end C04Grid

/-
  Obligations to audit (`#print axioms`; all depend on [propext, Classical.choice, Quot.sound] at most):
  EVALGRID_C04 = [
    "C04Grid.grid_homogeneous_modulo", "C04Grid.gridAlgG_real", "C04Grid.explicit_grid_size_homogeneous",
    "C04Grid.track_sizing_fixed_homogeneous", "C04Grid.grid_homogeneous_partial",
    "C04Grid.gridAlgT_real", "C04Grid.track_sizing_joint_homogeneous", "C04Grid.explicit_grid_size_joint_homogeneous",
    "C04Grid.grid_homogeneous_joint", "C04Grid.grid_scaled_run", "C04Grid.grid_homogeneous_run_partial",
    "C04Grid.grid_homogeneous_run_iff",
    "C04Grid.witness_values", "C04Grid.grid_not_homogeneous", "C04Grid.not_algsHomogeneous_grid",
    "C04Grid.witness_side_condition", "C04Grid.witness2_values", "C04Grid.grid_not_homogeneous_autorepeat",
    "C04Grid.witness2_side_condition", "C04Grid.scale_scales_grid", "C04Grid.gscale_eq_scale",
    "C04Grid.scale_scales_grid_tracks",
    "C04Grid.exGrid_fixed", "C04Grid.inGrid_run", "C04Grid.inGrid_constFree", "C04Grid.witnesses_not_constFree",
    "C04.gridAlgG_scale", "C04.mkCtx_scale", "C04.computeExplicit_scale", "C04.initializeGridTracks_scale",
    "C04.alignTracks_scale", "C04.gridFinish_sim", "C04.trackSizing_fixed_hom", "C04.initializeGridTracks_fixed",
    "C04.trackSizingT_hom", "C04.computeExplicitT_scale", "C04.gridAlgT_scale",
    "C04.resolveIntrinsicTrackSizesT_sim", "C04.expandFlexibleTracksM_sim", "C04.maximiseTracksT_scale",
    "C04.stretchAutoTracks_scale", "C04.distributeSpaceUpToLimitsT_scale", "C04.findSizeOfFr_scale",
    "GridScale.gridAlgG_eq", "GridTheta.trackSizingAlgorithmT_eq", "GridTheta.computeExplicitT_eq",
    "GridTheta.gridAlgT_real", "GridTheta.gridAlgTK_eq",
  ]
-/
