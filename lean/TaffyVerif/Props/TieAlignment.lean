/-
  Tie (tier T) for src/compute/common/alignment.rs: `apply_alignment_fallback`, `compute_alignment_offset`
  (used by the flex program's justify-content / align-content and by the grid program's `align_tracks`).

  `Gen.Alignment.*` is regenerated from the Rust source on every run; each theorem states that the generated
  definition IS the hand-written one of Model/Alignment.lean — for every argument and every `[Num α]`.
  The enums `AlignContent` / `AlignItems` of Model/Style.lean are compared with src/style/alignment.rs by the extractor.

  One place where the Rust text has no total counterpart: `(num_items - 1) as f32` in the non-first `SpaceBetween` arm of
  `compute_alignment_offset` underflows for `num_items = 0` (panic in debug builds, wrap in release builds).  The model
  writes `Nat` subtraction there, and so does the generated definition (`Gen.usizeSubTrunc`, named in its doc comment), so
  the equality below is exact; `fallback_spaceBetween_two_items` shows the underflow is unreachable when the mode comes
  out of `apply_alignment_fallback` with the same item count, which is how every caller obtains it.
-/
import TaffyVerif.Generated.Alignment
import TaffyVerif.Model.Alignment

namespace TieAlignment
variable {α : Type} [Num α]

theorem apply_alignment_fallback_eq :
    Gen.Alignment.apply_alignment_fallback (α := α) = GridTracks.applyAlignmentFallback := by
  funext fs n m s
  unfold Gen.Alignment.apply_alignment_fallback GridTracks.applyAlignmentFallback
  cases m <;> cases h1 : (decide (n ≤ 1) || Num.fle fs 0) <;> cases h2 : Num.fle fs 0 <;> cases s <;> simp_all

theorem compute_alignment_offset_eq :
    Gen.Alignment.compute_alignment_offset (α := α) = GridTracks.computeAlignmentOffset := by
  funext fs n gap m rev first
  unfold Gen.Alignment.compute_alignment_offset GridTracks.computeAlignmentOffset
  cases first <;> cases m <;> rfl

/-- the only subtraction on `usize` in the file: after the fallback, `SpaceBetween` survives only with ≥ 2 items and positive
    free space, so `num_items - 1` cannot underflow -/
theorem fallback_spaceBetween_two_items (fs : α) (n : Nat) (m : AlignContent) (s : Bool)
    (h : Gen.Alignment.apply_alignment_fallback fs n m s = .spaceBetween) : 2 ≤ n ∧ Num.fle fs 0 = false := by
  unfold Gen.Alignment.apply_alignment_fallback at h
  cases hn : decide (n ≤ 1) <;> cases hf : Num.fle fs 0 <;> cases m <;> cases s <;> simp_all <;> omega

theorem usizeSubTrunc_exact (a b : Nat) (h : b ≤ a) : (Gen.usizeSubTrunc a b : Int) = (a : Int) - (b : Int) := by
  unfold Gen.usizeSubTrunc; omega

end TieAlignment
