/-
  C15 — link between the flat dirtiness model (`Model/Dirty.lean`: parent pointers + child lists + flags, on which the
  mutator theorems of `Props/C15.lean` are stated) and the rose-tree model (`Model/DirtyPass.lean`, on which the pass
  theorems of `Props/C15Pass.lean` are stated).

    1. `struct_reachable`  every state reached by a precondition-respecting history of mutators satisfies the structural
                           invariant `Dirty.Struct` (`parent` and `children` describe the same edges, no duplicates, only
                           allocated ids) — `Lemmas/DirtyStruct.lean`.
    2. `subtree_finite`    in such a state the part of the graph below a PARENTLESS node `r` is a finite tree: every chain of
                           child steps from `r` has fewer than `s.next` steps (`Shallow s s.next r`).  The precondition does
                           not exclude cycles (`C14.cycle_reachable`), but a cycle is never below a parentless node: the
                           nodes on a downward path from `r` are pairwise distinct (parents are unique and `r` has none) and
                           there are only `s.next` allocated ids.
    3. `unfold_exact`      so `unfold s s.next r` is *the* rose tree of `r`'s subtree (`Unf s r t`: flags of `r`, one subtree
                           per child, in order; unique: `Unf.unique`), and more fuel changes nothing (`unfold_stable`).
    4. `KT_unfold`         the flat invariant `K` (which implies `I`) gives the rose-tree invariant `C15Pass.KT` on it.
    5. `pass_cleans_flat`  hence `C15Pass.pass_cleans` applies to every reachable flat state and every parentless node:
                           every resolution of a pass from `r` preserves `KT` and leaves `r` and everything reachable without
                           crossing a `display:none` node clean.
    6. `passFlat_preserves`, `pass_total`, `reach_inv`   back to the flat state: `PassFlat s r cs s'` says that `s'` is `s`
                           after the pass from `r` resolved by `cs` (same structure; the subtree of `r` carries exactly the
                           flags of the rose-tree result; nothing else changes). Such an `s'` always exists (a pass keeps the
                           skeleton: `DirtyPass.pass_skel`), it satisfies `K` and `Struct` again and every node reachable
                           from `r` without crossing `display:none` is clean in it; so both invariants hold after every
                           history of mutators INTERLEAVED with passes (`Reach`), not only after mutator-only histories
                           (in which no flag is ever set).
  (2.–4. and `pass_total` are proved in `Lemmas/DirtyLink.lean`, `Lemmas/DirtyWriteBack.lean`, namespace `C15Link`.)
  Not linked: that the driver's deterministic flat resolution `DrvC15.visitK` (and the real code's pass) is one of the
  rose-tree resolutions `cs` — the pass model's stated assumption "a PerformLayout evaluation performs every child".
  No Mathlib.
-/
import TaffyVerif.Lemmas.DirtyWriteBack
import TaffyVerif.Props.C15
import TaffyVerif.Props.C15Pass

namespace C15Link
open Dirty DirtyPass C15Pass

/-! ### 1. the structural invariant along histories -/

/-- a history (newest first) in which every mutator met its precondition in the state it was issued in -/
def DValid : List Op → Prop
  | [] => True
  | op :: h => DValid h ∧ ∀ s, C15.run h = some s → DPre s op

theorem struct_reachable : ∀ (h : List Op) (s : St), C15.run h = some s → DValid h → Struct s
  | [], s, hs, _ => by
    simp only [C15.run, Option.some.injEq] at hs; subst hs; exact struct_init
  | op :: h, s, hs, hv => by
    simp only [C15.run, Option.bind_eq_some_iff] at hs
    obtain ⟨s0, h0, h1⟩ := hs
    exact step_preserves_Struct s0 s op (struct_reachable h s0 h0 hv.1) (hv.2 s0 h0) h1

/-! ### 5. the pass theorem applies to every reachable flat state -/

/-- **`pass_cleans` on flat states.** After any history of mutators that respects the precondition, for every parentless
    node `r` and every resolution `cs` of a layout pass from `r` (all hit/miss decisions, any child-visit script): the
    subtree of `r` is a finite rose tree `t` (exactly `r`'s descendants), it satisfies the rose-tree invariant, and the
    pass ends in a tree that satisfies the invariant again, in which `r` and every node reachable from it without crossing
    a `display:none` node is clean; `r`'s `display` flag is untouched. -/
theorem pass_cleans_flat (h : List Op) (s : St) (hs : C15.run h = some s) (hv : DValid h) (r : Nat)
    (hr : s.parent r = none) (cs : List Choice) :
    Unf s r (unfold s s.next r) ∧ KT (unfold s s.next r) ∧
    KT (pass (unfold s s.next r) cs) ∧ Clean (pass (unfold s s.next r) cs) ∧
    (pass (unfold s s.next r) cs).hidden = s.hidden r := by
  have st := struct_reachable h s hs hv
  have k := C15.K_reachable h s hs
  have kt := KT_unfold k st s.next r
  obtain ⟨p1, p2, p3⟩ := pass_cleans (unfold s s.next r) cs kt
  exact ⟨(subtree_is_rose_tree st hr).1, kt, p1, p2, by rw [p3, unfold_hidden]⟩

/-- the same for ANY flat state satisfying the two invariants (reachable or not, flags arbitrary) -/
theorem pass_cleans_of_inv {s : St} (k : K s) (st : Struct s) {r : Nat} (hr : s.parent r = none) (cs : List Choice) :
    Unf s r (unfold s s.next r) ∧ KT (unfold s s.next r) ∧
    KT (pass (unfold s s.next r) cs) ∧ Clean (pass (unfold s s.next r) cs) ∧
    (pass (unfold s s.next r) cs).hidden = s.hidden r := by
  have kt := KT_unfold k st s.next r
  obtain ⟨p1, p2, p3⟩ := pass_cleans (unfold s s.next r) cs kt
  exact ⟨(subtree_is_rose_tree st hr).1, kt, p1, p2, by rw [p3, unfold_hidden]⟩

/-! ### 6. back to the flat state: histories of mutators AND passes -/

/-- **a pass, seen on the flat state, preserves both invariants and cleans**: if `s'` is `s` after a pass from the
    parentless node `r` (any resolution `cs`), then `s'` satisfies `K` and `Struct` again (so the mutator theorems of
    `Props/C15.lean` apply to it), and every node reachable from `r` without crossing a `display:none` node is clean. -/
theorem passFlat_preserves {s s' : St} (k : K s) (st : Struct s) {r : Nat} (hr : s.parent r = none) {cs : List Choice}
    (p : PassFlat s r cs s') :
    K s' ∧ Struct s' ∧ ∀ n, VisReach s' r n → s'.fin n = true ∧ s'.dirty n = false := by
  obtain ⟨_, _, kt', cl', _⟩ := pass_cleans_of_inv k st hr cs
  obtain ⟨e1, e2, e3, e4, e5⟩ := p.shape
  have st' := st.of_shape p.shape
  have hdesc : ∀ n, Desc s r n → Desc s' r n := fun n h => desc_shape e4 h
  have hdesc' : ∀ n, Desc s' r n → Desc s r n := fun n h => desc_shape e4.symm h
  have loc : ∀ n, Desc s r n → (s'.meas n = true → s'.fin n = true) ∧
      (∀ c ∈ s'.children n, s'.fin n = true → s'.hidden n = false → s'.fin c = true) := by
    intro n hn
    obtain ⟨t, hu, ha, hb⟩ := unf_desc p.tree kt'.1 kt'.2 n (hdesc n hn)
    exact unf_local hu ha hb
  refine ⟨⟨fun n hm => ?_, fun c q hp hf hh => ?_⟩, st', fun n hn => ?_⟩
  · by_cases hd : Desc s r n
    · exact (loc n hd).1 hm
    · obtain ⟨f1, f2⟩ := p.frame n hd
      rw [f1]; rw [f2] at hm; exact k.a n hm
  · by_cases hd : Desc s r q
    · exact (loc q hd).2 c (st'.parKids c q hp) hf hh
    · have hdc : ¬ Desc s r c := by
        intro hc
        cases hc with
        | refl => rw [e3, hr] at hp; cases hp
        | @step n _ hn hcn =>
          have := st.kidsPar n c hcn
          rw [e3, this] at hp
          exact hd (Option.some.inj hp ▸ hn)
      obtain ⟨f1, _⟩ := p.frame q hd
      obtain ⟨g1, _⟩ := p.frame c hdc
      rw [g1]; rw [f1] at hf; rw [e5] at hh; rw [e3] at hp
      exact k.b c q hp hf hh
  · obtain ⟨t, hu, hcl⟩ := unf_visReach p.tree cl' n hn
    have hf : s'.fin n = true := by
      rw [← (unf_fin hu).1]; cases t with | node h f m ks => simp only [Clean] at hcl; exact hcl.1
    exact ⟨hf, by simp [St.dirty, hf]⟩

/-- **a pass can always be taken**: in every state satisfying the structural invariant, for every parentless node and
    every resolution there IS a flat state after the pass -/
theorem pass_total {s : St} (st : Struct s) {r : Nat} (hr : s.parent r = none) (cs : List Choice) :
    ∃ s', PassFlat s r cs s' := passFlat_exists st hr cs

/-- states reached by precondition-respecting mutators interleaved with layout passes from parentless nodes -/
inductive Reach : St → Prop
  | init : Reach init
  | mutate {s s' : St} {op : Op} : Reach s → DPre s op → step s op = some s' → Reach s'
  | pass {s s' : St} {r : Nat} {cs : List Choice} : Reach s → s.parent r = none → PassFlat s r cs s' → Reach s'

/-- **both invariants hold in every state reached by mutators and passes**; so `pass_cleans_of_inv`,
    `passFlat_preserves` and the mutator theorems (`C15.step_preserves_K`, `C15.mutation_dirties_exactly`,
    `C15.ancestors_dirty`) apply to all of them -/
theorem reach_inv {s : St} (h : Reach s) : K s ∧ Struct s := by
  induction h with
  | init => exact ⟨C15.K_init, struct_init⟩
  | mutate _ pre hs ih => exact ⟨C15.step_preserves_K _ _ _ ih.1 hs, step_preserves_Struct _ _ _ ih.2 pre hs⟩
  | pass _ hr p ih => exact ⟨(passFlat_preserves ih.1 ih.2 hr p).1, (passFlat_preserves ih.1 ih.2 hr p).2.1⟩

/-- from every reached state, every pass from a parentless node leads to a reached state -/
theorem reach_pass {s : St} (h : Reach s) {r : Nat} (hr : s.parent r = none) (cs : List Choice) :
    ∃ s', PassFlat s r cs s' ∧ Reach s' := by
  obtain ⟨s', p⟩ := pass_total (reach_inv h).2 hr cs
  exact ⟨s', p, .pass h hr p⟩

/-! ### non-vacuity -/

/-- root 0 with children 1 (display:none, child 3) and 2; node 4 and 5 form a cycle (`add_child(4,5); add_child(5,4)`),
    which the precondition allows and which is not below any parentless node -/
def exH : List Op :=
  [.addChild 5 4, .addChild 4 5, .newLeaf false, .newLeaf false,
   .addChild 1 3, .addChild 0 2, .addChild 0 1, .newLeaf false, .newLeaf false, .newLeaf true, .newLeaf false]

def exS : St := (C15.run exH).getD init

example : (C15.run exH).isSome = true := by decide

theorem dvalid_cons {op : Op} {h : List Op} {s : St} (hv : DValid h) (hs : C15.run h = some s) (hp : DPre s op) :
    DValid (op :: h) :=
  ⟨hv, fun s' hs' => by rw [hs] at hs'; cases hs'; exact hp⟩

theorem run_eq_getD {h : List Op} (hi : (C15.run h).isSome = true) : C15.run h = some ((C15.run h).getD init) := by
  cases hr : C15.run h with
  | none => rw [hr] at hi; cases hi
  | some s => rfl

theorem exH_valid : DValid exH := by
  unfold exH
  repeat' (first
    | exact trivial
    | refine dvalid_cons ?_ (run_eq_getD (by decide)) (by first | exact trivial | (simp only [DPre]; decide)))

theorem exS_run : C15.run exH = some exS := run_eq_getD (by decide)

example : exS.parent 0 = none ∧ exS.parent 4 = some 5 ∧ exS.parent 5 = some 4 ∧
    unfold exS exS.next 0 =
      .node false false false [.node true false false [.node false false false []], .node false false false []] :=
  ⟨by decide, by decide, by decide, by rfl⟩

mutual
/-- executable equality of rose trees (only used to state concrete instances; `FT` derives no `DecidableEq`) -/
def ftEq : FT → FT → Bool
  | .node h f m ks, .node h' f' m' ks' => h == h' && f == f' && m == m' && ftEqList ks ks'
def ftEqList : List FT → List FT → Bool
  | [], [] => true
  | a :: as, b :: bs => ftEq a b && ftEqList as bs
  | _, _ => false
end

mutual
theorem ftEq_sound : ∀ (a b : FT), ftEq a b = true → a = b
  | .node h f m ks, .node h' f' m' ks', e => by
    simp only [ftEq, Bool.and_eq_true, beq_iff_eq] at e
    obtain ⟨⟨⟨e1, e2⟩, e3⟩, e4⟩ := e
    rw [e1, e2, e3, ftEqList_sound ks ks' e4]
theorem ftEqList_sound : ∀ (a b : List FT), ftEqList a b = true → a = b
  | [], [], _ => rfl
  | a :: as, b :: bs, e => by
    simp only [ftEqList, Bool.and_eq_true] at e
    rw [ftEq_sound a b e.1, ftEqList_sound as bs e.2]
  | [], _ :: _, e => by simp [ftEqList] at e
  | _ :: _, [], e => by simp [ftEqList] at e
end

/-- `exS` after a pass from node 0 that measures child 2 once before the final-layout phase -/
def exS' : St :=
  { exS with fin := fun i => if i ≤ 2 then true else exS.fin i,
             meas := fun i => if i = 2 then true else if i ≤ 3 then false else exS.meas i }

/-- `PassFlat` is inhabited on this instance: hypotheses of `passFlat_preserves` / `Reach.pass` are satisfiable -/
example : PassFlat exS 0 [.miss, .step 1 .S, .done] exS' := by
  have st := struct_reachable exH exS exS_run exH_valid
  have sh : SameShape exS exS' := ⟨rfl, rfl, rfl, rfl, rfl⟩
  refine ⟨sh, ?_, fun n hn => ?_⟩
  · have e : pass (unfold exS exS.next 0) [.miss, .step 1 .S, .done] = unfold exS' exS'.next 0 :=
      ftEq_sound _ _ (by decide +kernel)
    rw [e]
    exact (subtree_is_rose_tree (st.of_shape sh) (by decide)).1
  · have d0 : Desc exS 0 0 := .refl
    have d1 : Desc exS 0 1 := .step d0 (by decide)
    have d2 : Desc exS 0 2 := .step d0 (by decide)
    have d3 : Desc exS 0 3 := .step d1 (by decide)
    have h3 : ¬ n ≤ 3 := by
      intro h
      have : n = 0 ∨ n = 1 ∨ n = 2 ∨ n = 3 := by omega
      rcases this with e | e | e | e <;> subst e <;> contradiction
    have h2 : ¬ n ≤ 2 := by omega
    have h2' : ¬ n = 2 := by omega
    simp only [exS', h2, h2', h3, if_false, and_self]

end C15Link
