/-
  C04 for the flexbox algorithm: homogeneity under uniform scaling of the whole of src/compute/flexbox.rs
  (`FlexModel.computeFlexboxLayout`, Model/Flex.lean) as an interaction program, at `Rat`, for every `k > 0`.

  THE UNCONDITIONAL STATEMENT IS FALSE (`flex_not_homogeneous`, witness replayed on the real code: known finding
  c04-flex-shrink-floor-at-one).  The one obstruction is flexbox.rs l.1095, in the intrinsic (min- or max-content) arm of
  `determine_container_main_size`:
        content_flex_fraction = diff / f32_max(1.0, flex_shrink * inner_flex_basis)         (diff < 0)
  a length times a factor is compared with the literal 1.  Everything else in flexbox.rs is homogeneous:

    * `flex_split` + `flex_prefix_sim` + `flex_after_main_homogeneous`: the program is `prefixProg >>= afterMain`;
      `afterMain` (steps 6–16, final layout pass, absolute pass, hidden pass, output) is homogeneous for EVERY state;
      `prefixProg` (steps 1–5 and the main-size determination) of the scaled container sends exactly the scaled child
      queries, and its result is the scaled result on every run on which no item hits the floor.
    * `flex_homogeneous_partial` (static side condition): if the container's main size is NOT determined intrinsically
      — the main dimension is known, or the available main space is definite, or the container wraps under a
      min-content constraint (`noIntrinsicMain_iff`) — the program of the scaled container IS the scaled program, in
      exactly the form `C04.AlgsHomogeneous` asks for (`scaleProg`).
    * `flex_homogeneous_run_partial` (dynamic side condition, exact): for every family of children `orc`, if in the run
      of the container against `orc` every item `i` leaving `determine_container_main_size` satisfies
          i.content_flex_fraction < 0 → i.inner_flex_basis = 0 ∨
              (1 ≤ i.flex_shrink·i.inner_flex_basis ∧ 1 ≤ k·i.flex_shrink·i.inner_flex_basis)
      (`C04.ItemFloorFree`, decidable), then the run of the scaled container against the scaled children returns the
      scaled output, sends the scaled queries and sets the scaled layouts.
      What this excludes, precisely: an item whose content contribution is smaller than its flex basis (`diff < 0`,
      i.e. it would have to shrink to its content), with a non-zero inner flex basis, for which
      `flex_shrink · inner_flex_basis < 1` before or after scaling.  For such an item `item_fraction_not_homogeneous`
      shows the computed target size is NOT the scaled one (so the condition is exact item by item, up to `k = 1`).

  Helper lemmas: Lemmas/FlexStages.lean, FlexItemStages.lean (the program cut into named pieces, every `…_eq` is `rfl`),
  FlexScaleInst.lean (`Scalable` instances), FlexScalePure.lean, FlexScaleCross.lean, FlexScaleProg.lean,
  FlexScaleProg2.lean, FlexScaleMain.lean, FlexScaleTop.lean, FlexScaleRun.lean.
-/
import TaffyVerif.Lemmas.FlexScaleRun
import TaffyVerif.Props.C04

set_option linter.unusedSectionVars false
set_option linter.unusedVariables false

namespace C04Flex
open Scalable FlexModel FlexStages C04 Eval

variable {k : Rat}

/-! ### 1. the decomposition: prefix + everything after the main size -/

/-- **flex_split**: `compute_flexbox_layout` is the `ComputeSize` short-circuit or `prefixProg >>= afterMain`, for the
container and for the scaled container alike -/
theorem flex_split (hk : 0 < k) (style : Style Rat) (cs : List (Style Rat)) (inp : LayoutInput Rat) :
    (∃ w h : Rat, computeFlexboxLayout style cs inp = pure (LayoutOutput.fromOuterSize ⟨w, h⟩) ∧
      computeFlexboxLayout (scale k style) (cs.map (scale k)) (scale k inp) =
        pure (LayoutOutput.fromOuterSize ⟨scale k w, scale k h⟩)) ∨
    (computeFlexboxLayout style cs inp =
        (prefixProg style cs (flexInput style inp) >>=
          afterMain cs (flexInput style inp) (prelimAvail style (flexInput style inp))) ∧
      computeFlexboxLayout (scale k style) (cs.map (scale k)) (scale k inp) =
        (prefixProg (scale k style) (cs.map (scale k)) (scale k (flexInput style inp)) >>=
          afterMain (cs.map (scale k)) (scale k (flexInput style inp))
            (scale k (prelimAvail style (flexInput style inp))))) := by
  rcases computeFlexboxLayout_cases hk style cs inp with h | ⟨h1, h2⟩
  · exact Or.inl h
  · refine Or.inr ⟨by rw [h1, computePreliminary_split], ?_⟩
    rw [h2, flexInput_scale hk, computePreliminary_split, prelimAvail_scale hk]

/-- **flex_after_main_homogeneous**: steps 6–16, the final layout pass, the absolute pass, the hidden pass and the
output, from ANY lines and constants: the program for the scaled state is the scaled program.  No side condition. -/
theorem flex_after_main_homogeneous (hk : 0 < k) (cs : List (Style Rat)) (inp : LayoutInput Rat)
    (av : Size (AvailableSpace Rat)) (r : List (FlexLineS Rat) × AlgoConstants Rat) :
    afterMain (cs.map (scale k)) (scale k inp) (scale k av) (scale k r) = scaleProg k (afterMain cs inp av r) :=
  afterMain_scale hk cs inp av r

/-- **flex_prefix_sim**: steps 1–5 and the main-size determination: same shape, scaled queries, and the scaled result
on every run on which no item hits the floor -/
theorem flex_prefix_sim (hk : 0 < k) (style : Style Rat) (cs : List (Style Rat)) (inp : LayoutInput Rat) :
    SimS k (fun r' r => LinesFloorFree k r.1 → r' = scale k r)
      (prefixProg (scale k style) (cs.map (scale k)) (scale k inp)) (prefixProg style cs inp) :=
  prefixProg_sim hk style cs inp

/-- `SimS` with the result relation "scaled" is exactly `scaleProg` (so `flex_prefix_sim` is the `AlgsHomogeneous`
form, weakened in the result only) -/
theorem simS_iff_scaleProg {β : Type} [Scalable β] (hk : 0 < k) (p' p : ProgM Rat β) :
    SimS k (fun b' b => b' = scale k b) p' p ↔ p' = scaleProg k p :=
  ⟨SimS.to_eq hk, SimS.of_eq' hk⟩

/-! ### 2. the static side condition -/

/-- **noIntrinsicMain_iff**: what the static side condition says about the container's input: the main dimension is
known, or the available main space is definite, or the container wraps and the main constraint is min-content -/
theorem noIntrinsicMain_iff (style : Style Rat) (inp : LayoutInput Rat) :
    NoIntrinsicMain style inp ↔
      ((inp.knownDimensions.main style.flexDirection).isSome = true ∨
       (inp.availableSpace.main style.flexDirection).isDefinite = true ∨
       (inp.availableSpace.main style.flexDirection = .minContent ∧ style.flexWrap ≠ .noWrap)) := by
  unfold NoIntrinsicMain NoIntrinsic prelimAvail prelimConsts determineAvailableSpace computeConstants
  obtain ⟨rm, sm, ax, ⟨kw, kh⟩, ps, ⟨aw, ah⟩, vm⟩ := inp
  simp only [Size.main, Size.of_sub]
  cases hd : style.flexDirection.isRow <;> cases hwr : style.flexWrap <;> cases kw <;> cases kh <;> cases aw <;>
    cases ah <;>
    (simp [MaybeMath.of_sub, MaybeMath.af_sub, AvailableSpace.isDefinite, hd] <;> try decide)

/-- **flex_homogeneous_partial** (static side condition): the whole of `compute_flexbox_layout` — item generation,
flex base sizes, line breaking, flexible lengths, hypothetical cross sizes, baselines, line cross sizes, align-content,
used cross sizes, free-space distribution, auto margins, the final layout pass, absolutely positioned children, hidden
children — as an interaction program: if the container's main size is not determined intrinsically, the program of the
scaled container is the scaled program. -/
theorem flex_homogeneous_partial (hk : 0 < k) (style : Style Rat) (cs : List (Style Rat)) (inp : LayoutInput Rat)
    (h : NoIntrinsicMain style (flexInput style inp)) :
    computeFlexboxLayout (scale k style) (cs.map (scale k)) (scale k inp) =
      scaleProg k (computeFlexboxLayout style cs inp) :=
  computeFlexboxLayout_scale_of hk style cs inp h

/-- the side condition is invariant under scaling (it is about which dimensions are known/definite, not about values) -/
theorem noIntrinsicMain_scale (hk : 0 < k) (style : Style Rat) (inp : LayoutInput Rat) :
    NoIntrinsicMain (scale k style) (scale k inp) ↔ NoIntrinsicMain style inp := by
  rw [noIntrinsicMain_iff, noIntrinsicMain_iff]
  simp only [style_flexDirection, style_flexWrap, li_knownDimensions, li_availableSpace, Size.main_scale,
    isSome_scale, AvailableSpace.isDefinite_scale]
  cases inp.availableSpace.main style.flexDirection <;> simp [scale_simp]

/-! ### 3. the dynamic side condition (exact) -/

/-- **flex_homogeneous_run_partial**: for every family of children: if no item hits the floor in the run of the
original container, the run of the scaled container against the scaled children is the scaled run (output, queries,
layouts). -/
theorem flex_homogeneous_run_partial (hk : 0 < k) (style : Style Rat) (cs : List (Style Rat)) (inp : LayoutInput Rat)
    (orc : Nat → LayoutInput Rat → LayoutOutput Rat) (h : RunFloorFree k style cs inp orc) :
    runO (scaleOrc k orc) (computeFlexboxLayout (scale k style) (cs.map (scale k)) (scale k inp)) =
      scale k (runO orc (computeFlexboxLayout style cs inp)) :=
  computeFlexboxLayout_scale_run hk style cs inp orc h

/-- the same for programs that ARE homogeneous (e.g. block): runs against scaled children are scaled runs -/
theorem run_of_homogeneous {β : Type} [Scalable β] (hk : 0 < k) (orc : Nat → LayoutInput Rat → LayoutOutput Rat)
    (p : ProgM Rat β) : runO (scaleOrc k orc) (scaleProg k p) = scale k (runO orc p) :=
  runO_scaleProg hk orc p

/-- **item_floor_homogeneous**: the item-level statement behind the side condition: `content_flex_fraction` of the
scaled item, computed from the scaled content contribution, is the original one re-scaled (`cffScale`) -/
theorem item_floor_homogeneous (hk : 0 < k) (item : FlexItem Rat) (cc : Rat)
    (h : ItemFloorFree k (inFinish item cc)) :
    inFinish (scale k item) (scale k cc) = scale k (inFinish item cc) :=
  inFinish_scale hk item cc h

/-- the target main size an item contributes to the container's intrinsic main size, as a function of its flex basis,
shrink factor, inner flex basis and content contribution -/
def itemTarget (basis shrink inner cc : Rat) : Rat :=
  let cff := (cc - basis) / Num.fmax 1 (shrink * inner)
  basis + (Num.fmax 1 shrink * inner) * cff

/-- **item_fraction_not_homogeneous**: the side condition is exact item by item: for `diff < 0`, a non-zero inner flex
basis and `flex_shrink ≥ 0`, if `flex_shrink·inner_flex_basis < 1` the target size of the scaled item is NOT the scaled
target size (for every `k ≠ 1`, `k > 0` keeping the product below 1; when the product crosses 1 likewise, see
`flex_not_homogeneous`) -/
theorem item_fraction_not_homogeneous (hk : 0 < k) (hk1 : k ≠ 1) (basis shrink inner cc : Rat) (hd : cc - basis < 0)
    (hi : 0 < inner) (hs : 0 ≤ shrink) (hp : shrink * inner < 1) (hkp : shrink * (k * inner) < 1) :
    itemTarget (k * basis) shrink (k * inner) (k * cc) ≠ k * itemTarget basis shrink inner cc := by
  unfold itemTarget
  have e1 : Num.fmax (1 : Rat) (shrink * inner) = 1 := by rw [fmax_def, if_neg (not_le.2 hp)]
  have e2 : Num.fmax (1 : Rat) (shrink * (k * inner)) = 1 := by rw [fmax_def, if_neg (not_le.2 hkp)]
  have hm : 1 ≤ Num.fmax (1 : Rat) shrink := one_le_fmax_one shrink
  simp only [e1, e2, div_one]
  intro h
  have : Num.fmax 1 shrink * inner * (cc - basis) * (k * (k - 1)) = 0 := by linarith [h]
  have h1 : Num.fmax 1 shrink * inner * (cc - basis) ≠ 0 :=
    mul_ne_zero (mul_ne_zero (by linarith) hi.ne') hd.ne
  rcases mul_eq_zero.1 this with h2 | h2
  · exact h1 h2
  · rcases mul_eq_zero.1 h2 with h3 | h3
    · exact hk.ne' h3
    · exact hk1 (by linarith)

/-! ### 4. the unconditional statement is false -/

section witness

/-- a default flex container (row, no size) … -/
def wRoot : Style Rat := Style.default
/-- … with one child: `width: 0.5; height: 1; max-width: 0.25` (flex-shrink 1, flex-basis auto) -/
def wChild : Style Rat :=
  { (Style.default : Style Rat) with
    display := .block, size := ⟨.length (1/2), .length 1⟩, maxSize := ⟨.length (1/4), .auto⟩ }
/-- laid out under a max-content constraint -/
def wIn : LayoutInput Rat :=
  { runMode := .performLayout, sizingMode := .inherentSize, axis := .both, knownDimensions := ⟨none, none⟩,
    parentSize := ⟨none, none⟩, availableSpace := ⟨.maxContent, .maxContent⟩,
    verticalMarginsAreCollapsible := ⟨false, false⟩ }
/-- childless children: the size is the known size (0 where unknown) -/
def wOrc : Nat → LayoutInput Rat → LayoutOutput Rat :=
  fun _ inp => LayoutOutput.fromOuterSize ⟨inp.knownDimensions.width.getD 0, inp.knownDimensions.height.getD 0⟩

/-- the container is 3/8 wide (its only item is 1/4 wide: flex basis 1/2, content contribution 1/4, `diff = −1/4`,
`flex_shrink·inner_flex_basis = 1/2 < 1`, so the shrink fraction is floored: `1/2 + 1/2·(−1/4) = 3/8`); four times
larger it is 1 wide (`2 + 2·(−1/2) = 1`), not 3/2.  Real taffy (rounding off): root 0.375×1 resp. 1×4. -/
theorem witness_values :
    (runO wOrc (computeFlexboxLayout wRoot [wChild] wIn)).1.size = ⟨3/8, 1⟩ ∧
    (runO (scaleOrc 4 wOrc) (computeFlexboxLayout (scale 4 wRoot) ([wChild].map (scale 4)) (scale 4 wIn))).1.size =
      ⟨1, 4⟩ := by decide +kernel

/-- the dynamic side condition fails on the witness (and holds for the enlarged container, whose product is 2 ≥ 1) -/
theorem witness_side_condition :
    ¬ RunFloorFree 4 wRoot [wChild] wIn wOrc ∧ ¬ NoIntrinsicMain wRoot (flexInput wRoot wIn) ∧
    RunFloorFree 1 (scale 4 wRoot) ([wChild].map (scale 4)) (scale 4 wIn) (scaleOrc 4 wOrc) := by decide +kernel

/-- **flex_not_homogeneous**: `compute_flexbox_layout` is NOT homogeneous: there are a container, a child list, an input
and `k = 4` for which the program of the scaled container is not the scaled program -/
theorem flex_not_homogeneous :
    ¬ ∀ (style : Style Rat) (cs : List (Style Rat)) (inp : LayoutInput Rat),
      computeFlexboxLayout (scale 4 style) (cs.map (scale 4)) (scale 4 inp) =
        scaleProg 4 (computeFlexboxLayout style cs inp) := by
  intro h
  have h1 := congrArg (fun p => (runO (scaleOrc 4 wOrc) p).1.size) (h wRoot [wChild] wIn)
  simp only [runO_scaleProg (by norm_num : (0 : Rat) < 4)] at h1
  rw [witness_values.2, scale_fst, lo_size, witness_values.1] at h1
  revert h1
  decide +kernel

/-- hence `C04.AlgsHomogeneous` fails at `k = 4` for the evaluator's algorithms with the flexbox model, whatever the grid
algorithm is -/
theorem not_algsHomogeneous_flex (grid : Style Rat → List (Style Rat) → LayoutInput Rat → ProgM Rat (LayoutOutput Rat)) :
    ¬ AlgsHomogeneous (concreteAlgs computeFlexboxLayout grid) 4 :=
  fun h => flex_not_homogeneous h.flex

end witness

/-! ### 5. non-vacuity: concrete instances of the positive theorems -/

section examples

def exRoot : Style Rat :=
  { (Style.default : Style Rat) with
    display := .flex, flexWrap := .wrap, size := ⟨.length 100, .auto⟩, gap := ⟨.length 4, .length 2⟩,
    padding := ⟨.length 2, .length 2, .percent (1/10), .length 2⟩, alignItems := some .center,
    justifyContent := some .spaceBetween }
def exKidA : Style Rat :=
  { (Style.default : Style Rat) with
    display := .block, size := ⟨.length 40, .length 10⟩, flexGrow := 1, margin := ⟨.length 1, .auto, .length 0, .length 3⟩ }
def exKidB : Style Rat :=
  { (Style.default : Style Rat) with
    display := .block, flexBasis := .percent (1/2), minSize := ⟨.length 30, .auto⟩, flexShrink := 2,
    alignSelf := some .stretch }
def exKidAbs : Style Rat :=
  { (Style.default : Style Rat) with
    display := .block, position := .absolute, inset := ⟨.length 3, .auto, .percent (1/4), .auto⟩,
    size := ⟨.percent (1/2), .length 10⟩ }
def exKidHidden : Style Rat := { (Style.default : Style Rat) with display := .none }
def exIn : LayoutInput Rat :=
  { runMode := .performLayout, sizingMode := .inherentSize, axis := .both, knownDimensions := ⟨none, none⟩,
    parentSize := ⟨some 200, none⟩, availableSpace := ⟨.definite 200, .maxContent⟩,
    verticalMarginsAreCollapsible := ⟨false, false⟩ }
/-- children that answer like text of intrinsic width 50 and line height 8 -/
def exOrc : Nat → LayoutInput Rat → LayoutOutput Rat :=
  fun _ inp => LayoutOutput.fromOuterSize ((MeasureSpec.wrap 50 8).measure inp.knownDimensions inp.availableSpace)

/-- the static side condition holds: the container has a definite width (row direction) -/
example : NoIntrinsicMain exRoot (flexInput exRoot exIn) := by decide +kernel

/-- `flex_homogeneous_partial` at k = 2 and k = 1/4: a wrapping, padded (percentage padding), gapped container with a
growing item with an auto margin, a shrinking percentage-basis item, an absolutely positioned child (percentage inset and
width) and a hidden child -/
example : computeFlexboxLayout (scale 2 exRoot) ([exKidA, exKidB, exKidAbs, exKidHidden, exKidB].map (scale 2))
      (scale 2 exIn) =
    scaleProg 2 (computeFlexboxLayout exRoot [exKidA, exKidB, exKidAbs, exKidHidden, exKidB] exIn) :=
  flex_homogeneous_partial (by norm_num) _ _ _ (by decide +kernel)
example : computeFlexboxLayout (scale (1/4) exRoot) ([exKidA, exKidB, exKidAbs, exKidHidden, exKidB].map (scale (1/4)))
      (scale (1/4) exIn) =
    scaleProg (1/4) (computeFlexboxLayout exRoot [exKidA, exKidB, exKidAbs, exKidHidden, exKidB] exIn) :=
  flex_homogeneous_partial (by norm_num) _ _ _ (by decide +kernel)

def boxes (r : LayoutOutput Rat × Trace) : Size Rat × List (Nat × Point Rat × Size Rat) :=
  (r.1.size, r.2.2.map fun p => (p.1, p.2.location, p.2.size))

/-- and what the two runs compute (two flex lines; every size and location doubles) -/
example : boxes (runO exOrc (computeFlexboxLayout exRoot [exKidA, exKidB, exKidAbs, exKidHidden, exKidB] exIn)) =
    (⟨100, 56⟩, [(0, ⟨3, 43/2⟩, ⟨43, 10⟩), (1, ⟨50, 20⟩, ⟨48, 16⟩), (4, ⟨2, 38⟩, ⟨48, 16⟩),
      (2, ⟨3, 14⟩, ⟨50, 10⟩), (3, ⟨0, 0⟩, ⟨0, 0⟩)]) := by decide +kernel

/-- the dynamic theorem on an intrinsically sized container: a max-content row container whose shrinking item has
`flex_shrink·inner_flex_basis = 2·20 ≥ 1` (and `≥ 1` after scaling by 1/8) -/
def exRootI : Style Rat := { (Style.default : Style Rat) with display := .flex, gap := ⟨.length 4, .length 0⟩ }
def exKidI : Style Rat :=
  { (Style.default : Style Rat) with
    display := .block, size := ⟨.length 20, .length 5⟩, maxSize := ⟨.length 12, .auto⟩, flexShrink := 2 }
def exInI : LayoutInput Rat := { exIn with availableSpace := ⟨.maxContent, .maxContent⟩, parentSize := ⟨none, none⟩ }

example : ¬ NoIntrinsicMain exRootI (flexInput exRootI exInI) ∧
    RunFloorFree (1/8) exRootI [exKidI, exKidA] exInI exOrc := by decide +kernel

example : runO (scaleOrc (1/8) exOrc)
      (computeFlexboxLayout (scale (1/8) exRootI) ([exKidI, exKidA].map (scale (1/8))) (scale (1/8) exInI)) =
    scale (1/8) (runO exOrc (computeFlexboxLayout exRootI [exKidI, exKidA] exInI)) :=
  flex_homogeneous_run_partial (by norm_num) _ _ _ _ (by decide +kernel)

example : boxes (runO exOrc (computeFlexboxLayout exRootI [exKidI, exKidA] exInI)) =
    (⟨67, 13⟩, [(0, ⟨0, 0⟩, ⟨12, 5⟩), (1, ⟨17, 0⟩, ⟨50, 10⟩)]) := by decide +kernel

end examples

end C04Flex

/-
  Obligations to audit (`#print axioms`; all depend on [propext, Classical.choice, Quot.sound] at most):
  EVALFLEX_C04 = [
    "C04Flex.flex_split", "C04Flex.flex_after_main_homogeneous", "C04Flex.flex_prefix_sim", "C04Flex.simS_iff_scaleProg",
    "C04Flex.noIntrinsicMain_iff", "C04Flex.flex_homogeneous_partial", "C04Flex.noIntrinsicMain_scale",
    "C04Flex.flex_homogeneous_run_partial", "C04Flex.run_of_homogeneous", "C04Flex.item_floor_homogeneous",
    "C04Flex.item_fraction_not_homogeneous", "C04Flex.witness_values", "C04Flex.witness_side_condition",
    "C04Flex.flex_not_homogeneous", "C04Flex.not_algsHomogeneous_flex",
    -- supporting lemmas worth auditing by name
    "FlexStages.computePreliminary_eq", "FlexStages.computePreliminary_split", "FlexStages.flexBaseSizeItem_eq",
    "FlexStages.intrinsicItem_eq", "FlexStages.determineContainerMainSize_eq", "FlexStages.hypotheticalCrossItem_eq",
    "FlexStages.baselineItems_cons", "FlexStages.calculateFlexItem_eq", "FlexStages.absItem_eq",
    "C04.intrinsicTarget_scale", "C04.inFraction_scale", "C04.intrinsicLines_sim", "C04.afterMain_scale",
    "C04.computeFlexboxLayout_scale_of", "C04.computeFlexboxLayout_scale_run", "C04.runO_sim",
  ]
-/
