/-
  C04 for the flexbox algorithm: homogeneity under uniform scaling of the whole of src/compute/flexbox.rs
  (`FlexModel.computeFlexboxLayout`, Model/Flex.lean) as an interaction program, at `Rat`, for every `k > 0`.

  THE UNCONDITIONAL STATEMENT HOLDS (`flex_homogeneous`): the program of the scaled container IS the scaled program, in
  exactly the form `C04.AlgsHomogeneous` asks for (`scaleProg`) — item generation, flex base sizes, line breaking, the
  main-size determination (all arms, the intrinsic one included), flexible lengths, hypothetical cross sizes, baselines,
  line cross sizes, align-content, used cross sizes, free-space distribution, auto margins, the final layout pass,
  absolutely positioned children, hidden children.  Hence `AlgsHomogeneous` for leaf + block + flexbox with only the grid
  hypothesis left (`algsHomogeneous_flex`), and the tree-level theorem `C04.tree_homogeneous` for every tree of block
  containers, flexbox containers and leaves with no hypothesis at all (`tree_homogeneous_block_flex_leaf_trees`).

  History.  Up to the repair of flexbox.rs ll.1095–1102 the statement was FALSE: in the intrinsic (min- or max-content)
  arm of `determine_container_main_size` the max-content flex fraction of a shrinking item was
        content_flex_fraction = diff / f32_max(1.0, flex_shrink * inner_flex_basis)         (diff < 0)
  — a length times a factor compared with the literal 1 — whereas the line that multiplies it back uses
  `f32_max(1.0, flex_shrink) * inner_flex_basis` (finding c04-flex-shrink-floor-at-one).  The repaired line floors the
  flex shrink FACTOR at 1 (CSS Flexbox §9.9.1: "scaled flex shrink factor, having floored the flex shrink factor at 1"):
        let scaled_shrink_factor = f32_max(1.0, item.flex_shrink) * item.inner_flex_basis;
        if scaled_shrink_factor > 0.0 { diff / scaled_shrink_factor } else { 0.0 }
  The old witness is kept below as a regression example (`regression_*`): it is now homogeneous.

    * `flex_split` + `flex_prefix_homogeneous` + `flex_after_main_homogeneous`: the program is `prefixProg >>= afterMain`;
      `prefixProg` (steps 1–5 and the main-size determination) and `afterMain` (steps 6–16, final layout pass, absolute
      pass, hidden pass, output) are each homogeneous, for every state.
    * `item_fraction_homogeneous` / `item_target_homogeneous`: the item-level statements behind the intrinsic arm.
      `FlexItem.content_flex_fraction` is the one field of mixed dimension: a length when positive
      (`diff / max(1, flex_grow)`), a pure number when negative (`diff / (max(1, flex_shrink) · inner_flex_basis)`);
      `C04.cffScale` scales it accordingly.
    * `flex_homogeneous_run`: for every family of children `orc`, the run of the scaled container against the scaled
      children returns the scaled output, sends the scaled queries and sets the scaled layouts.

  Helper lemmas: Lemmas/FlexStages.lean, FlexItemStages.lean (the program cut into named pieces, every `…_eq` is `rfl`),
  FlexScaleInst.lean (`Scalable` instances), FlexScalePure.lean, FlexScaleCross.lean, FlexScaleProg.lean,
  FlexScaleProg2.lean, FlexScaleMain.lean, FlexScaleTop.lean, FlexScaleRun.lean; Lemmas/FlexNoGrid.lean (`NoGrid`).
-/
import TaffyVerif.Lemmas.FlexScaleRun
import TaffyVerif.Lemmas.FlexNoGrid
import TaffyVerif.Props.C04
import TaffyVerif.Props.C17

set_option linter.unusedSectionVars false
set_option linter.unusedVariables false

namespace C04Flex
open Scalable FlexModel FlexStages C04 Eval FlexTrees

variable {k : Rat}

/-! ### 1. the flexbox program is homogeneous -/

/-- **flex_homogeneous**: the whole of `compute_flexbox_layout` as an interaction program: for every `k > 0`, every
container style, child style list and input, the program of the scaled container is the scaled program (scaled queries
to the children, scaled layouts set, scaled output).  No side condition. -/
theorem flex_homogeneous : ∀ k : Rat, 0 < k → ∀ (style : Style Rat) (cs : List (Style Rat)) (inp : LayoutInput Rat),
    computeFlexboxLayout (scale k style) (cs.map (scale k)) (scale k inp) =
      scaleProg k (computeFlexboxLayout style cs inp) :=
  fun _ hk style cs inp => computeFlexboxLayout_scale hk style cs inp

/-! ### 2. the decomposition: prefix + everything after the main size -/

/-- **flex_split**: `compute_flexbox_layout` is the `ComputeSize` short-circuit or `prefixProg >>= afterMain`, for the
container and for the scaled container alike -/
theorem flex_split (hk : 0 < k) (style : Style Rat) (cs : List (Style Rat)) (inp : LayoutInput Rat) :
    (∃ w h : Rat, computeFlexboxLayout style cs inp = pure (LayoutOutput.fromOuterSize ⟨w, h⟩) ∧
      computeFlexboxLayout (scale k style) (cs.map (scale k)) (scale k inp) =
        pure (LayoutOutput.fromOuterSize ⟨scale k w, scale k h⟩)) ∨
    (computeFlexboxLayout style cs inp =
        (prefixProg style cs (flexInput style inp) >>=
          afterMain cs (flexInput style inp) (prelimAvail style (flexInput style inp))) ∧
      computeFlexboxLayout (scale k style) (cs.map (scale k)) (scale k inp) =
        (prefixProg (scale k style) (cs.map (scale k)) (scale k (flexInput style inp)) >>=
          afterMain (cs.map (scale k)) (scale k (flexInput style inp))
            (scale k (prelimAvail style (flexInput style inp))))) := by
  rcases computeFlexboxLayout_cases hk style cs inp with h | ⟨h1, h2⟩
  · exact Or.inl h
  · refine Or.inr ⟨by rw [h1, computePreliminary_split], ?_⟩
    rw [h2, flexInput_scale hk, computePreliminary_split, prelimAvail_scale hk]

/-- **flex_prefix_homogeneous**: steps 1–5 (constants, available space, item generation, flex base sizes, line
breaking) and `determine_container_main_size`, all arms -/
theorem flex_prefix_homogeneous (hk : 0 < k) (style : Style Rat) (cs : List (Style Rat)) (inp : LayoutInput Rat) :
    prefixProg (scale k style) (cs.map (scale k)) (scale k inp) = scaleProg k (prefixProg style cs inp) :=
  prefixProg_scale hk style cs inp

/-- `determine_container_main_size` alone, from any constants, available space and lines -/
theorem flex_main_size_homogeneous (hk : 0 < k) (c : AlgoConstants Rat) (av : Size (AvailableSpace Rat))
    (lines : List (FlexLineS Rat)) :
    determineContainerMainSize (scale k c) (scale k av) (scale k lines) =
      scaleProg k (determineContainerMainSize c av lines) :=
  determineContainerMainSize_scale hk c av lines

/-- **flex_after_main_homogeneous**: steps 6–16, the final layout pass, the absolute pass, the hidden pass and the
output, from ANY lines and constants -/
theorem flex_after_main_homogeneous (hk : 0 < k) (cs : List (Style Rat)) (inp : LayoutInput Rat)
    (av : Size (AvailableSpace Rat)) (r : List (FlexLineS Rat) × AlgoConstants Rat) :
    afterMain (cs.map (scale k)) (scale k inp) (scale k av) (scale k r) = scaleProg k (afterMain cs inp av r) :=
  afterMain_scale hk cs inp av r

/-! ### 3. the intrinsic arm, item by item -/

/-- **item_fraction_homogeneous**: `content_flex_fraction` of the scaled item, computed from the scaled content
contribution, is the original one re-scaled (`cffScale`: as a length when positive, unchanged when negative) -/
theorem item_fraction_homogeneous (hk : 0 < k) (item : FlexItem Rat) (cc : Rat) :
    inFinish (scale k item) (scale k cc) = scale k (inFinish item cc) :=
  inFinish_scale hk item cc

/-- the sign of `content_flex_fraction` tells its dimension: a shrinking item (`diff < 0`) never gets a positive one, a
growing item (`diff > 0`) gets a positive one -/
theorem item_fraction_sign (item : FlexItem Rat) (cc : Rat) :
    (cc - item.flexBasis < 0 → (inFinish item cc).contentFlexFraction ≤ 0) ∧
    (0 < cc - item.flexBasis → 0 < (inFinish item cc).contentFlexFraction) :=
  ⟨inFraction_nonpos_of_neg item cc, inFraction_pos_of_pos item cc⟩

/-- the target main size a SHRINKING item (`diff < 0`) contributes to the container's intrinsic main size, as a function
of its flex basis, shrink factor, inner flex basis and content contribution (repaired code) -/
def itemTarget (basis shrink inner cc : Rat) : Rat :=
  let scaledShrinkFactor := Num.fmax 1 shrink * inner
  let cff := if 0 < scaledShrinkFactor then (cc - basis) / scaledShrinkFactor else 0
  basis + scaledShrinkFactor * cff

/-- **item_target_homogeneous**: the counterpart of the refutation that held before the repair
(`item_fraction_not_homogeneous`): the target size of the scaled item is the scaled target size, for all values -/
theorem item_target_homogeneous (hk : 0 < k) (basis shrink inner cc : Rat) :
    itemTarget (k * basis) shrink (k * inner) (k * cc) = k * itemTarget basis shrink inner cc := by
  unfold itemTarget
  have e : Num.fmax 1 shrink * (k * inner) = k * (Num.fmax 1 shrink * inner) := by ring
  simp only [e]
  by_cases hs : 0 < Num.fmax 1 shrink * inner
  · have hks : 0 < k * (Num.fmax 1 shrink * inner) := mul_pos hk hs
    rw [if_pos hks, if_pos hs]
    field_simp
  · have hks : ¬ (0 < k * (Num.fmax 1 shrink * inner)) := by
      have := mul_nonneg hk.le (neg_nonneg.2 (not_lt.1 hs))
      rw [mul_neg] at this
      intro h
      linarith
    rw [if_neg hks, if_neg hs]
    ring

/-- with a positive inner flex basis the item shrinks exactly to its content contribution -/
theorem item_target_eq (basis shrink inner cc : Rat) (hi : 0 < inner) : itemTarget basis shrink inner cc = cc := by
  unfold itemTarget
  have hs : 0 < Num.fmax 1 shrink * inner := mul_pos (by linarith [one_le_fmax_one shrink]) hi
  simp only [if_pos hs]
  generalize Num.fmax 1 shrink * inner = s at hs
  have e : s * ((cc - basis) / s) = cc - basis := by field_simp
  rw [e]
  ring

/-! ### 4. runs against child-answer functions -/

/-- **flex_homogeneous_run**: for every family of children: the run of the scaled container against the scaled
children is the scaled run (output, queries, layouts) -/
theorem flex_homogeneous_run (hk : 0 < k) (style : Style Rat) (cs : List (Style Rat)) (inp : LayoutInput Rat)
    (orc : Nat → LayoutInput Rat → LayoutOutput Rat) :
    runO (scaleOrc k orc) (computeFlexboxLayout (scale k style) (cs.map (scale k)) (scale k inp)) =
      scale k (runO orc (computeFlexboxLayout style cs inp)) :=
  computeFlexboxLayout_scale_run hk style cs inp orc

/-- the same for any homogeneous program (e.g. block): runs against scaled children are scaled runs -/
theorem run_of_homogeneous {β : Type} [Scalable β] (hk : 0 < k) (orc : Nat → LayoutInput Rat → LayoutOutput Rat)
    (p : ProgM Rat β) : runO (scaleOrc k orc) (scaleProg k p) = scale k (runO orc p) :=
  runO_scaleProg hk orc p

/-! ### 5. the evaluator's algorithms and the tree level -/

/-- **algsHomogeneous_flex**: `C04.AlgsHomogeneous` for the modelled leaf, block and flexbox algorithms: only the grid
hypothesis remains -/
theorem algsHomogeneous_flex (hk : 0 < k)
    (grid : Style Rat → List (Style Rat) → LayoutInput Rat → ProgM Rat (LayoutOutput Rat))
    (hgrid : ∀ style styles inp,
      grid (scale k style) (styles.map (scale k)) (scale k inp) = scaleProg k (grid style styles inp)) :
    AlgsHomogeneous (concreteAlgs computeFlexboxLayout grid) k :=
  algs_homogeneous_concrete hk _ grid (flex_homogeneous k hk) hgrid

/-- **tree_homogeneous_flex_algs**: `C04.tree_homogeneous` (cache-free evaluator, real dispatch) with the concrete leaf,
block and flexbox algorithms, for every tree; homogeneity of grid is the one hypothesis -/
theorem tree_homogeneous_flex_algs (hk : 0 < k)
    (grid : Style Rat → List (Style Rat) → LayoutInput Rat → ProgM Rat (LayoutOutput Rat))
    (hgrid : ∀ style styles inp,
      grid (scale k style) (styles.map (scale k)) (scale k inp) = scaleProg k (grid style styles inp))
    (fuel : Nat) (t : STree Rat) (ns : NS Rat Unit) (inp : LayoutInput Rat) :
    evalNode noCache (concreteAlgs computeFlexboxLayout grid) fuel (scale k t) (scale k ns) (scale k inp) =
      scale k (evalNode noCache (concreteAlgs computeFlexboxLayout grid) fuel t ns inp) :=
  tree_homogeneous_evalNode hk _ (algsHomogeneous_flex hk grid hgrid) fuel t ns inp

/-- `TaffyTree`'s extracted dispatch never sends a node of a `NoGrid` tree to grid -/
theorem NoGrid_NoG_real (t : STree Rat) (h : NoGrid t) : NoG (Dispatch.select Gen.Facts.dispatchArms) t :=
  NoGrid_NoG _ (fun d b => by rw [C17.dispatch_eq]; cases d <;> rfl) t h

mutual
/-- scaling keeps `display` and the number of children: the scaled tree of a `NoGrid` tree is `NoGrid` -/
theorem NoGrid_scale (k : Rat) : ∀ t : STree Rat, NoGrid t → NoGrid (scale k t)
  | .node s c kids, h => by
    rw [scale_tree_node]
    simp only [NoGrid] at h ⊢
    rw [style_display]
    rcases h with h | ⟨h, hk⟩
    · exact Or.inl h
    · refine Or.inr ⟨?_, NoGridList_scale k kids hk⟩
      rcases h with h | h
      · subst h; exact Or.inl rfl
      · exact Or.inr h
theorem NoGridList_scale (k : Rat) : ∀ ts : List (STree Rat), NoGridList ts → NoGridList (scale k ts)
  | [], _ => trivial
  | t :: ts, h => by
    rw [scale_cons]
    exact ⟨NoGrid_scale k t h.1, NoGridList_scale k ts h.2⟩
end

/-- on a `NoGrid` tree the cache-free evaluator does not depend on the grid parameter -/
theorem eval_noGrid_congr (grid grid' : Style Rat → List (Style Rat) → LayoutInput Rat → ProgM Rat (LayoutOutput Rat))
    (fuel : Nat) (t : STree Rat) (ns : NS Rat Unit) (inp : LayoutInput Rat) (h : NoGrid t) :
    evalNode noCache (concreteAlgs computeFlexboxLayout grid) fuel t ns inp =
      evalNode noCache (concreteAlgs computeFlexboxLayout grid') fuel t ns inp :=
  eval_algs_congr_grid noCache _ (concreteAlgs computeFlexboxLayout grid) (concreteAlgs computeFlexboxLayout grid')
    rfl rfl rfl fuel t ns inp (NoGrid_NoG_real t h)

/-- **tree_homogeneous_block_flex_leaf_trees** (unconditional): for every tree of block containers, flexbox containers
and leaves (`NoGrid`: no grid container with children outside `display:none` subtrees), every `k > 0`, fuel, state of
stored layouts and input, whatever the grid algorithm is: evaluating the scaled tree with the scaled input from the scaled
state (cache-free evaluator, `TaffyTree`'s dispatch, the modelled leaf, block and flexbox algorithms) yields the scaled
output and the scaled state — every stored unrounded layout of every node scaled. -/
theorem tree_homogeneous_block_flex_leaf_trees (hk : 0 < k)
    (grid : Style Rat → List (Style Rat) → LayoutInput Rat → ProgM Rat (LayoutOutput Rat))
    (fuel : Nat) (t : STree Rat) (ns : NS Rat Unit) (inp : LayoutInput Rat) (h : NoGrid t) :
    evalNode noCache (concreteAlgs computeFlexboxLayout grid) fuel (scale k t) (scale k ns) (scale k inp) =
      scale k (evalNode noCache (concreteAlgs computeFlexboxLayout grid) fuel t ns inp) := by
  rw [eval_noGrid_congr grid BlockModel.computeBlockLayout fuel (scale k t) _ _ (NoGrid_scale k t h),
    eval_noGrid_congr grid BlockModel.computeBlockLayout fuel t _ _ h]
  exact tree_homogeneous_flex_algs hk _ (block_homogeneous hk) fuel t ns inp

/-- the same from freshly built trees (the fresh state of the scaled tree is the scaled fresh state) -/
theorem tree_homogeneous_block_flex_leaf_trees_fresh (hk : 0 < k)
    (grid : Style Rat → List (Style Rat) → LayoutInput Rat → ProgM Rat (LayoutOutput Rat))
    (fuel : Nat) (t : STree Rat) (inp : LayoutInput Rat) (h : NoGrid t) :
    evalNode noCache (concreteAlgs computeFlexboxLayout grid) fuel (scale k t) (NS.init noCache (scale k t))
        (scale k inp) =
      scale k (evalNode noCache (concreteAlgs computeFlexboxLayout grid) fuel t (NS.init noCache t) inp) := by
  rw [init_scale]
  exact tree_homogeneous_block_flex_leaf_trees hk grid fuel t _ inp h

/-! ### 6. regression: the witness of the former refutation -/

section regression

/-- a default flex container (row, no size) … -/
def wRoot : Style Rat := Style.default
/-- … with one child: `width: 0.5; height: 1; max-width: 0.25` (flex-shrink 1, flex-basis auto) -/
def wChild : Style Rat :=
  { (Style.default : Style Rat) with
    display := .block, size := ⟨.length (1/2), .length 1⟩, maxSize := ⟨.length (1/4), .auto⟩ }
/-- laid out under a max-content constraint -/
def wIn : LayoutInput Rat :=
  { runMode := .performLayout, sizingMode := .inherentSize, axis := .both, knownDimensions := ⟨none, none⟩,
    parentSize := ⟨none, none⟩, availableSpace := ⟨.maxContent, .maxContent⟩,
    verticalMarginsAreCollapsible := ⟨false, false⟩ }
/-- childless children: the size is the known size (0 where unknown) -/
def wOrc : Nat → LayoutInput Rat → LayoutOutput Rat :=
  fun _ inp => LayoutOutput.fromOuterSize ⟨inp.knownDimensions.width.getD 0, inp.knownDimensions.height.getD 0⟩

def boxes (r : LayoutOutput Rat × Trace) : Size Rat × List (Nat × Point Rat × Size Rat) :=
  (r.1.size, r.2.2.map fun p => (p.1, p.2.location, p.2.size))

/-- the container is 1/4 wide: its only item has flex basis 1/2, content contribution 1/4, `diff = −1/4`, scaled shrink
factor `max(1, 1)·1/2 = 1/2`, fraction `−1/2`, target `1/2 + 1/2·(−1/2) = 1/4` (before the repair: fraction
`−1/4 / max(1, 1/2) = −1/4`, container 3/8 wide).  Four times larger it is 1 wide (before the repair: also 1, which is
not 4 · 3/8). -/
example :
    boxes (runO wOrc (computeFlexboxLayout wRoot [wChild] wIn)) = (⟨1/4, 1⟩, [(0, ⟨0, 0⟩, ⟨1/4, 1⟩)]) ∧
    boxes (runO (scaleOrc 4 wOrc) (computeFlexboxLayout (scale 4 wRoot) ([wChild].map (scale 4)) (scale 4 wIn))) =
      (⟨1, 4⟩, [(0, ⟨0, 0⟩, ⟨1, 4⟩)]) := by decide +kernel

/-- the whole run (output, queries, layouts set) of the container scaled by 4 is the run scaled by 4, by evaluation … -/
example :
    runO (scaleOrc 4 wOrc) (computeFlexboxLayout (scale 4 wRoot) ([wChild].map (scale 4)) (scale 4 wIn)) =
      scale 4 (runO wOrc (computeFlexboxLayout wRoot [wChild] wIn)) := by decide +kernel

/-- … and by the theorem -/
example :
    runO (scaleOrc 4 wOrc) (computeFlexboxLayout (scale 4 wRoot) ([wChild].map (scale 4)) (scale 4 wIn)) =
      scale 4 (runO wOrc (computeFlexboxLayout wRoot [wChild] wIn)) :=
  flex_homogeneous_run (by norm_num) _ _ _ _

end regression

/-! ### 7. non-vacuity: concrete instances -/

section examples

def exRoot : Style Rat :=
  { (Style.default : Style Rat) with
    display := .flex, flexWrap := .wrap, size := ⟨.length 100, .auto⟩, gap := ⟨.length 4, .length 2⟩,
    padding := ⟨.length 2, .length 2, .percent (1/10), .length 2⟩, alignItems := some .center,
    justifyContent := some .spaceBetween }
def exKidA : Style Rat :=
  { (Style.default : Style Rat) with
    display := .block, size := ⟨.length 40, .length 10⟩, flexGrow := 1, margin := ⟨.length 1, .auto, .length 0, .length 3⟩ }
def exKidB : Style Rat :=
  { (Style.default : Style Rat) with
    display := .block, flexBasis := .percent (1/2), minSize := ⟨.length 30, .auto⟩, flexShrink := 2,
    alignSelf := some .stretch }
def exKidAbs : Style Rat :=
  { (Style.default : Style Rat) with
    display := .block, position := .absolute, inset := ⟨.length 3, .auto, .percent (1/4), .auto⟩,
    size := ⟨.percent (1/2), .length 10⟩ }
def exKidHidden : Style Rat := { (Style.default : Style Rat) with display := .none }
def exIn : LayoutInput Rat :=
  { runMode := .performLayout, sizingMode := .inherentSize, axis := .both, knownDimensions := ⟨none, none⟩,
    parentSize := ⟨some 200, none⟩, availableSpace := ⟨.definite 200, .maxContent⟩,
    verticalMarginsAreCollapsible := ⟨false, false⟩ }
/-- children that answer like text of intrinsic width 50 and line height 8 -/
def exOrc : Nat → LayoutInput Rat → LayoutOutput Rat :=
  fun _ inp => LayoutOutput.fromOuterSize ((MeasureSpec.wrap 50 8).measure inp.knownDimensions inp.availableSpace)

/-- `flex_homogeneous` at k = 2 and k = 1/4: a wrapping, padded (percentage padding), gapped container with a growing
item with an auto margin, a shrinking percentage-basis item, an absolutely positioned child (percentage inset and width)
and a hidden child -/
example : computeFlexboxLayout (scale 2 exRoot) ([exKidA, exKidB, exKidAbs, exKidHidden, exKidB].map (scale 2))
      (scale 2 exIn) =
    scaleProg 2 (computeFlexboxLayout exRoot [exKidA, exKidB, exKidAbs, exKidHidden, exKidB] exIn) :=
  flex_homogeneous 2 (by norm_num) _ _ _
example : computeFlexboxLayout (scale (1/4) exRoot) ([exKidA, exKidB, exKidAbs, exKidHidden, exKidB].map (scale (1/4)))
      (scale (1/4) exIn) =
    scaleProg (1/4) (computeFlexboxLayout exRoot [exKidA, exKidB, exKidAbs, exKidHidden, exKidB] exIn) :=
  flex_homogeneous (1/4) (by norm_num) _ _ _

/-- and what the two runs compute (two flex lines; every size and location doubles) -/
example : boxes (runO exOrc (computeFlexboxLayout exRoot [exKidA, exKidB, exKidAbs, exKidHidden, exKidB] exIn)) =
    (⟨100, 56⟩, [(0, ⟨3, 43/2⟩, ⟨43, 10⟩), (1, ⟨50, 20⟩, ⟨48, 16⟩), (4, ⟨2, 38⟩, ⟨48, 16⟩),
      (2, ⟨3, 14⟩, ⟨50, 10⟩), (3, ⟨0, 0⟩, ⟨0, 0⟩)]) := by decide +kernel
example : boxes (runO (scaleOrc 2 exOrc) (computeFlexboxLayout (scale 2 exRoot)
      ([exKidA, exKidB, exKidAbs, exKidHidden, exKidB].map (scale 2)) (scale 2 exIn))) =
    (⟨200, 112⟩, [(0, ⟨6, 43⟩, ⟨86, 20⟩), (1, ⟨100, 40⟩, ⟨96, 32⟩), (4, ⟨4, 76⟩, ⟨96, 32⟩),
      (2, ⟨6, 28⟩, ⟨100, 20⟩), (3, ⟨0, 0⟩, ⟨0, 0⟩)]) := by decide +kernel

/-- an INTRINSICALLY sized container (the arm that used to fail): a max-content row container with a shrinking item whose
scaled shrink factor is `max(1, 1/4)·(1/2) = 1/2` — the product `flex_shrink·inner_flex_basis = 1/8` is below 1 before
and after scaling by 4 and by 1/8 — and a growing text item -/
def exRootI : Style Rat := { (Style.default : Style Rat) with display := .flex, gap := ⟨.length 4, .length 0⟩ }
def exKidI : Style Rat :=
  { (Style.default : Style Rat) with
    display := .block, size := ⟨.length (1/2), .length 5⟩, maxSize := ⟨.length (1/4), .auto⟩, flexShrink := 1/4 }
def exInI : LayoutInput Rat := { exIn with availableSpace := ⟨.maxContent, .maxContent⟩, parentSize := ⟨none, none⟩ }

example : runO (scaleOrc (1/8) exOrc)
      (computeFlexboxLayout (scale (1/8) exRootI) ([exKidI, exKidA].map (scale (1/8))) (scale (1/8) exInI)) =
    scale (1/8) (runO exOrc (computeFlexboxLayout exRootI [exKidI, exKidA] exInI)) :=
  flex_homogeneous_run (by norm_num) _ _ _ _

example : boxes (runO exOrc (computeFlexboxLayout exRootI [exKidI, exKidA] exInI)) =
    (⟨221/4, 13⟩, [(0, ⟨0, 0⟩, ⟨1/4, 5⟩), (1, ⟨21/4, 0⟩, ⟨50, 10⟩)]) := by decide +kernel
example : boxes (runO (scaleOrc 4 exOrc)
      (computeFlexboxLayout (scale 4 exRootI) ([exKidI, exKidA].map (scale 4)) (scale 4 exInI))) =
    (⟨221, 52⟩, [(0, ⟨0, 0⟩, ⟨1, 20⟩), (1, ⟨21, 0⟩, ⟨200, 40⟩)]) := by decide +kernel

/-- a tree: a block root with an absolutely positioned flex row (the witness item and a text item) and a wrapping flex
row whose third item is itself a flex row `exRootI` — sized under a max-content constraint by its parent's
`determine_flex_base_size`, i.e. through the intrinsic arm, with the shrinking item `exKidI` — holding a flex column:
`NoGrid`, not block-only -/
def exColumn : Style Rat :=
  { (Style.default : Style Rat) with display := .flex, flexDirection := .column, gap := ⟨.length 0, .length 3⟩ }
def exBlockRoot : Style Rat :=
  { (Style.default : Style Rat) with
    display := .block, size := ⟨.length 160, .auto⟩, padding := ⟨.length 2, .length 2, .length 2, .length 2⟩ }
def exLeaf : Style Rat := { (Style.default : Style Rat) with display := .block }
def exFloat : Style Rat :=
  { (Style.default : Style Rat) with display := .flex, position := .absolute, inset := ⟨.length 1, .auto, .length 1, .auto⟩ }
def exTree : STree Rat :=
  .node exBlockRoot none
    [.node exFloat none [.node wChild none [], .node exLeaf (some (.wrap 30 6)) []],
     .node exRoot none
       [.node exKidA none [], .node exKidB (some (.wrap 50 8)) [],
        .node exRootI none
          [.node exKidI none [],
           .node exColumn none [.node exLeaf (some (.fixed 20 7)) [], .node exLeaf (some (.wrap 30 6)) []]]]]

theorem exTree_noGrid : NoGrid exTree := by
  simp [exTree, NoGrid, NoGridList, exBlockRoot, exFloat, exRoot, exRootI, exColumn, wChild, exLeaf, exKidA, exKidB,
    exKidI, Style.default]

def treeIn : LayoutInput Rat :=
  { runMode := .performLayout, sizingMode := .inherentSize, axis := .both, knownDimensions := ⟨none, none⟩,
    parentSize := ⟨some 200, none⟩, availableSpace := ⟨.definite 200, .maxContent⟩,
    verticalMarginsAreCollapsible := ⟨false, false⟩ }

/-- `tree_homogeneous_block_flex_leaf_trees` for this tree at k = 4, whatever the grid algorithm -/
example (grid : Style Rat → List (Style Rat) → LayoutInput Rat → ProgM Rat (LayoutOutput Rat)) :
    evalNode noCache (concreteAlgs computeFlexboxLayout grid) 6 (scale 4 exTree) (NS.init noCache (scale 4 exTree))
        (scale 4 treeIn) =
      scale 4 (evalNode noCache (concreteAlgs computeFlexboxLayout grid) 6 exTree (NS.init noCache exTree) treeIn) :=
  tree_homogeneous_block_flex_leaf_trees_fresh (by norm_num) grid 6 exTree treeIn exTree_noGrid

/-- sizes and locations of a node's children and grandchildren -/
def kidLayouts2 (r : LayoutOutput Rat × NS Rat Unit) :
    Size Rat × List ((Point Rat × Size Rat) × List (Point Rat × Size Rat)) :=
  (r.1.size, r.2.kids.map fun n =>
    ((n.layout.location, n.layout.size), n.kids.map fun m => (m.layout.location, m.layout.size)))

/-- what the two evaluations are (grid stand-in: the block model; by the theorem above any other gives the same): every
size and location is multiplied by 4.  The nested row `exRootI` is `1/4 + 4 + 30 = 137/4` wide: its shrinking item
contributes its content size 1/4 (flex basis 1/2, fraction `−1/4 / (max(1, 1/4)·1/2) = −1/2`), through the intrinsic arm
(before the repair: 3/8, and 1 instead of 3/2 at four times the size). -/
example : kidLayouts2 (evalNode noCache (concreteAlgs computeFlexboxLayout BlockModel.computeBlockLayout) 6 exTree
      (NS.init noCache exTree) treeIn) =
    (⟨160, 56⟩,
      [((⟨1, 1⟩, ⟨61/2, 6⟩), [(⟨0, 0⟩, ⟨1/4, 1⟩), (⟨1/4, 0⟩, ⟨30, 6⟩)]),
       ((⟨2, 2⟩, ⟨100, 52⟩), [(⟨3, 35/2⟩, ⟨43, 10⟩), (⟨50, 16⟩, ⟨48, 16⟩), (⟨2, 34⟩, ⟨137/4, 16⟩)])]) := by
  decide +kernel
example : kidLayouts2 (evalNode noCache (concreteAlgs computeFlexboxLayout BlockModel.computeBlockLayout) 6
      (scale 4 exTree) (NS.init noCache (scale 4 exTree)) (scale 4 treeIn)) =
    (⟨640, 224⟩,
      [((⟨4, 4⟩, ⟨122, 24⟩), [(⟨0, 0⟩, ⟨1, 4⟩), (⟨1, 0⟩, ⟨120, 24⟩)]),
       ((⟨8, 8⟩, ⟨400, 208⟩), [(⟨12, 70⟩, ⟨172, 40⟩), (⟨200, 64⟩, ⟨192, 64⟩), (⟨8, 136⟩, ⟨137, 64⟩)])]) := by
  decide +kernel

end examples

end C04Flex

/-
  Obligations to audit (`#print axioms`; all depend on [propext, Classical.choice, Quot.sound] at most):
  EVALFLEX_C04 = [
    "C04Flex.flex_homogeneous", "C04Flex.flex_split", "C04Flex.flex_prefix_homogeneous",
    "C04Flex.flex_main_size_homogeneous", "C04Flex.flex_after_main_homogeneous", "C04Flex.item_fraction_homogeneous",
    "C04Flex.item_fraction_sign", "C04Flex.item_target_homogeneous", "C04Flex.item_target_eq",
    "C04Flex.flex_homogeneous_run", "C04Flex.run_of_homogeneous", "C04Flex.algsHomogeneous_flex",
    "C04Flex.tree_homogeneous_flex_algs", "C04Flex.NoGrid_NoG_real", "C04Flex.NoGrid_scale", "C04Flex.eval_noGrid_congr",
    "C04Flex.tree_homogeneous_block_flex_leaf_trees", "C04Flex.tree_homogeneous_block_flex_leaf_trees_fresh",
    "C04Flex.exTree_noGrid",
    -- supporting lemmas worth auditing by name
    "FlexStages.computePreliminary_eq", "FlexStages.computePreliminary_split", "FlexStages.flexBaseSizeItem_eq",
    "FlexStages.intrinsicItem_eq", "FlexStages.determineContainerMainSize_eq", "FlexStages.hypotheticalCrossItem_eq",
    "FlexStages.baselineItems_cons", "FlexStages.calculateFlexItem_eq", "FlexStages.absItem_eq",
    "C04.intrinsicTarget_scale", "C04.inFraction_scale", "C04.intrinsicLines_scale", "C04.afterMain_scale",
    "C04.prefixProg_scale", "C04.computeFlexboxLayout_scale", "C04.computeFlexboxLayout_scale_run", "C04.runO_sim",
  ]
-/
