/-
  C07 — Flex lines: items stay ordered, never overlap, and flexibility is exhausted.

  Theorems are about `Model/FlexLine.lean` at exact rationals (`α = Rat`): the per-line, main-axis functions
  `resolve_flexible_lengths`, `distribute_remaining_free_space`, `calculate_layout_line`/`calculate_flex_item`.
  Helper lemmas: `Lemmas/FlexLoop.lean`, `Lemmas/FlexOrder.lean`, `Lemmas/FlexExhaust.lean`.
-/
import TaffyVerif.Lemmas.FlexLoop
import TaffyVerif.Lemmas.FlexOrder
import TaffyVerif.Lemmas.FlexFinal

namespace C07
open FlexLine

/-! ## the freeze loop terminates -/

/-- one pass through the loop body freezes at least one unfrozen item -/
theorem iteration_freezes_one (k : RflCtx Rat) (items : List (FlexItemM Rat)) (h : ¬ items.all (·.frozen) = true) :
    ucount (iter k items) < ucount items :=
  ucount_iter_lt k items (fun hz => h ((ucount_eq_zero_iff items).1 hz))

/-- … and all of them when the total violation of the pass is zero -/
theorem iteration_freezes_all_when_zero (k : RflCtx Rat) (items : List (FlexItemM Rat)) :
    ∃ d, iter k items = freezePass (totalViolation (clampPass d items)) (clampPass d items) ∧
      (totalViolation (clampPass d items) = 0 → (iter k items).all (·.frozen) = true) := by
  obtain ⟨d, hd⟩ := iter_eq k items
  exact ⟨d, hd, fun h0 => by rw [hd]; exact freezePass_all_of_zero _ h0⟩

/-- `resolve_flexible_lengths` never runs out of fuel when given at least one unit of fuel per item (so `n + 1` is
    enough: the loop body runs at most `n` times), and on exit every item is frozen -/
theorem freeze_loop_terminates (items : List (FlexItemM Rat)) (innerMain : Option Rat) (gap : Rat) (fuel : Nat)
    (hfuel : items.length ≤ fuel) :
    ∃ r, resolveFlexibleLengths items innerMain gap fuel = some r ∧ r.all (·.frozen) = true ∧
      r.length = items.length := by
  unfold resolveFlexibleLengths
  simp only
  split
  · rename_i hex
    refine ⟨_, rfl, ?_, by simp⟩
    rw [List.all_eq_true]
    intro c hc
    rw [List.mem_map] at hc
    obtain ⟨y, _, rfl⟩ := hc
    simp [initFreeze, hex]
  · have := loop_terminates
      { innerMain := innerMain, gapTotal := sumAxisGaps gap items.length,
        uff := sumAxisGaps gap items.length + sumF (items.map (·.hypOuter)),
        growing := Num.flt (sumAxisGaps gap items.length + sumF (items.map (·.hypOuter))) (innerMain.getD 0),
        shrinking := Num.fgt (sumAxisGaps gap items.length + sumF (items.map (·.hypOuter))) (innerMain.getD 0),
        initialFree := (MaybeMath.of_sub innerMain (usedSpace (sumAxisGaps gap items.length)
          (items.map (initFreeze
            (!Num.flt (sumAxisGaps gap items.length + sumF (items.map (·.hypOuter))) (innerMain.getD 0) &&
              !Num.fgt (sumAxisGaps gap items.length + sumF (items.map (·.hypOuter))) (innerMain.getD 0))
            (Num.flt (sumAxisGaps gap items.length + sumF (items.map (·.hypOuter))) (innerMain.getD 0))
            (Num.fgt (sumAxisGaps gap items.length + sumF (items.map (·.hypOuter))) (innerMain.getD 0)))))).getD 0 }
      fuel
      (items.map (initFreeze
            (!Num.flt (sumAxisGaps gap items.length + sumF (items.map (·.hypOuter))) (innerMain.getD 0) &&
              !Num.fgt (sumAxisGaps gap items.length + sumF (items.map (·.hypOuter))) (innerMain.getD 0))
            (Num.flt (sumAxisGaps gap items.length + sumF (items.map (·.hypOuter))) (innerMain.getD 0))
            (Num.fgt (sumAxisGaps gap items.length + sumF (items.map (·.hypOuter))) (innerMain.getD 0))))
      (le_trans (ucount_le_length _) (by simpa using hfuel))
    obtain ⟨r, hr, hall, hlen⟩ := this
    exact ⟨r, hr, hall, by simpa using hlen⟩

/-- the fuel the driver uses -/
theorem freeze_loop_terminates_succ (items : List (FlexItemM Rat)) (innerMain : Option Rat) (gap : Rat) :
    ∃ r, resolveFlexibleLengths items innerMain gap (items.length + 1) = some r ∧ r.all (·.frozen) = true :=
  let ⟨r, h1, h2, _⟩ := freeze_loop_terminates items innerMain gap (items.length + 1) (Nat.le_succ _)
  ⟨r, h1, h2⟩

/-! ## order and no overlap within a line -/

/-- `marginBoxes` are the margin boxes of the items at the locations `calculate_layout_line` gives them -/
theorem marginBoxes_eq_zip (zs : List (FlexItemM Rat × Rat)) (start : Rat) (dir : FlexDirection) :
    marginBoxes zs start dir =
      (zs.zip (mainAxisPositions zs start dir)).map fun (z, loc) => marginBox z.1 z.2 loc :=
  FlexLine.marginBoxes_eq_zip zs start dir

/-- Gap ≥ 0, every item margin ≥ 0 (auto margins count as 0 before distribution), `offset_main` initialised ≥ 0
    (the code initialises it to 0), default insets, and every child reports a size ≥ 0.
    Then, for every inner size (positive, zero or negative free space), every `justify-content` value and all four
    directions: the margin boxes of the line, listed in document order, are pairwise ordered along the main axis
    — `end_i ≤ start_j` for `i < j`, and `end_j ≤ start_i` for `*-reverse` — so they never overlap. -/
theorem line_order_no_overlap (items : List (FlexItemM Rat)) (inner gap start : Rat) (jc : Option AlignContent)
    (dir : FlexDirection) (zs : List (FlexItemM Rat × Rat))
    (hgap : 0 ≤ gap)
    (hitems : ∀ c ∈ items, ItemOK c ∧ 0 ≤ c.offsetMain)
    (hzs : zs.map Prod.fst = distributeRemainingFreeSpace items inner gap jc dir)
    (hsize : ∀ z ∈ zs, 0 ≤ z.2) :
    (marginBoxes zs start dir).Pairwise (fun a b => if dir.isReverse then b.2 ≤ a.1 else a.2 ≤ b.1) ∧
    ∀ b ∈ marginBoxes zs start dir, b.1 ≤ b.2 := by
  obtain ⟨hok, htail⟩ := drfs_ok items inner gap jc dir hgap hitems
  have hpair : ∀ z ∈ zs, PairOK z := by
    intro z hz
    have hm : z.1 ∈ distributeRemainingFreeSpace items inner gap jc dir := by
      rw [← hzs]; exact List.mem_map_of_mem hz
    obtain ⟨h1, h2, h3, h4⟩ := hok z.1 hm
    exact ⟨h1, h2, hsize z hz, h3, h4⟩
  unfold marginBoxes
  by_cases hrev : dir.isReverse = true
  · simp only [hrev, if_true]
    rw [← hzs] at htail
    simp only [hrev, if_true, ← List.map_reverse] at htail
    have hpair' : ∀ z ∈ zs.reverse, PairOK z := fun z hz => hpair z (List.mem_reverse.1 hz)
    refine ⟨?_, ?_⟩
    · rw [List.pairwise_reverse]
      exact boxGo_pairwise zs.reverse start hpair' htail
    · intro b hb
      exact boxGo_start_le_end zs.reverse start hpair' b (List.mem_reverse.1 hb)
  · simp only [hrev, if_false, Bool.false_eq_true]
    rw [← hzs] at htail
    simp only [hrev, if_false, Bool.false_eq_true] at htail
    exact ⟨boxGo_pairwise zs start hpair htail, boxGo_start_le_end zs start hpair⟩

/-- which offsets are non-negative: every item except the first visited one (the last in document order for
    `*-reverse`) is moved by `gap + max(free, 0)/k ≥ 0`, whatever `justify-content` is and whatever the sign of
    the free space -/
theorem nonfirst_offset_nonneg (free gap : Rat) (n : Nat) (jc : AlignContent) (rev : Bool) (hgap : 0 ≤ gap) :
    0 ≤ computeAlignmentOffset free n gap (applyAlignmentFallback free n jc false) rev false :=
  cao_nonfirst_nonneg free gap n _ rev hgap

/-- the offset of the first visited item when the free space is not positive (`free ≤ 0`): the space-* values and
    `stretch` fall back to `start` (offset 0); `flex-start`/`start` stay put; `end`, `flex-end` and `center` move the
    first item by `free` resp. `free/2` — i.e. *negative free space only moves the first offset* (and only under
    `end`/`flex-end`/`center`, where the line overflows at the start side) -/
theorem first_offset_of_nonpos_free (free gap : Rat) (n : Nat) (jc : AlignContent) (rev : Bool) (h : free ≤ 0) :
    computeAlignmentOffset free n gap (applyAlignmentFallback free n jc false) rev true =
      match jc with
      | .start | .stretch | .spaceBetween | .spaceAround | .spaceEvenly => 0
      | .flexStart => if rev then free else 0
      | .flexEnd => if rev then 0 else free
      | .end => free
      | .center => free / 2 := by
  have h2 : (Num.two : Rat) = 2 := by show (1 : Rat) + 1 = 2; norm_num
  cases jc <;> cases rev <;>
    simp [applyAlignmentFallback, computeAlignmentOffset, Num.fle, h, h2]

/-- with non-negative free space the first offset is non-negative too, so the whole line stays inside the content box
    start -/
theorem first_offset_nonneg_of_nonneg_free (free gap : Rat) (n : Nat) (jc : AlignContent) (rev : Bool) (h : 0 ≤ free) :
    0 ≤ computeAlignmentOffset free n gap (applyAlignmentFallback free n jc false) rev true := by
  have h2 : (Num.two : Rat) = 2 := by show (1 : Rat) + 1 = 2; norm_num
  have hn : (0 : Rat) ≤ Num.ofNat n := ofNat_nonneg n
  have hn1 : (0 : Rat) ≤ Num.ofNat (n + 1) := ofNat_nonneg (n + 1)
  have d1 := div_nonneg h hn
  have d2 := div_nonneg h hn1
  have d3 : 0 ≤ free / Num.ofNat n / 2 := div_nonneg d1 (by norm_num)
  have d4 : 0 ≤ free / 2 := div_nonneg h (by norm_num)
  unfold computeAlignmentOffset
  simp only [if_true, h2, Num.fge, Num.fle, h, decide_true]
  generalize applyAlignmentFallback free n jc false = m
  cases m <;> cases rev <;> simp <;> assumption

/-! ## flexibility is exhausted -/

/-- Single line, definite inner main size `W`.  Items as `determine_flex_base_size` produces them (`ItemWF`: not yet
    frozen, factors and inner flex basis ≥ 0, hypothetical inner size = flex base size clamped by the loop's clamp,
    hypothetical outer size = inner + margins), and every non-zero flex factor in the used direction is ≥ 1.
    Then on exit of `resolve_flexible_lengths` (any fuel with which it returns — `freeze_loop_terminates` says
    `fuel ≥ n` always does) either the outer target sizes plus the gaps fill `W` exactly, or every item that can
    still flex in the used direction — positive grow factor when growing, positive *scaled* shrink factor
    `inner_flex_basis · flex_shrink` when shrinking — sits at its clamp bound (max when growing, min when shrinking). -/
theorem flexibility_exhausted (items : List (FlexItemM Rat)) (W gap : Rat) (fuel : Nat) (r : List (FlexItemM Rat))
    (hwf : ∀ c ∈ items, ItemWF c)
    (hgrow : sumAxisGaps gap items.length + sumF (items.map (·.hypOuter)) < W →
      ∀ c ∈ items, c.flexGrow = 0 ∨ 1 ≤ c.flexGrow)
    (hshrink : W < sumAxisGaps gap items.length + sumF (items.map (·.hypOuter)) →
      ∀ c ∈ items, c.flexShrink = 0 ∨ 1 ≤ c.flexShrink)
    (hr : resolveFlexibleLengths items (some W) gap fuel = some r) :
    sumF (r.map (·.outerTargetMain)) + sumAxisGaps gap items.length = W ∨
      (if sumAxisGaps gap items.length + sumF (items.map (·.hypOuter)) < W then
         ∀ c ∈ r, 0 < c.flexGrow → AtMax c
       else ∀ c ∈ r, 0 < c.innerFlexBasis * c.flexShrink → AtMin c) := by
  unfold resolveFlexibleLengths at hr
  simp only [Option.getD_some, Num.flt, Num.fgt] at hr
  rw [sumF_eq] at hgrow hshrink hr ⊢
  rw [sumF_eq]
  rcases lt_trichotomy (sumAxisGaps gap items.length + lsum (items.map (·.hypOuter))) W with hlt | heq | hgt
  · -- growing
    have hn : ¬ W < sumAxisGaps gap items.length + lsum (items.map (·.hypOuter)) := not_lt.2 (le_of_lt hlt)
    simp only [hlt, hn, decide_true, decide_false, Bool.not_true, Bool.not_false, Bool.false_and,
      Bool.false_eq_true, if_false] at hr
    rw [if_pos hlt]
    have := exhausted_core true items W _ fuel r hwf (fun c hc => by simpa [FactorOK] using hgrow hlt c hc)
      rfl rfl rfl (by simpa using hlt) hr
    simpa [wt, add_comm] using this
  · -- exactly sized: every item is frozen at its hypothetical size
    have hn1 : ¬ sumAxisGaps gap items.length + lsum (items.map (·.hypOuter)) < W := by rw [heq]; exact lt_irrefl _
    have hn2 : ¬ W < sumAxisGaps gap items.length + lsum (items.map (·.hypOuter)) := by rw [heq]; exact lt_irrefl _
    simp only [hn1, hn2, decide_false, Bool.not_false, Bool.and_self, if_true, Option.some.injEq] at hr
    left
    subst hr
    rw [List.map_map]
    have : lsum (items.map ((·.outerTargetMain) ∘ initFreeze true false false)) = lsum (items.map (·.hypOuter)) := by
      apply lsum_map_congr
      intro c hc
      simp only [Function.comp, initFreeze, Bool.true_or, if_true]
      exact (hwf c hc).outer.symm
    rw [this]; linarith
  · -- shrinking
    have hn : ¬ sumAxisGaps gap items.length + lsum (items.map (·.hypOuter)) < W := not_lt.2 (le_of_lt hgt)
    simp only [hgt, hn, decide_true, decide_false, Bool.not_true, Bool.not_false, Bool.and_false,
      Bool.false_eq_true, if_false] at hr
    rw [if_neg hn]
    have := exhausted_core false items W _ fuel r hwf (fun c hc => by simpa [FactorOK] using hshrink hgt c hc)
      rfl rfl rfl (by simpa using hgt) hr
    simpa [wt, add_comm] using this

/-- the same with the fuel the driver uses: the run exists (`freeze_loop_terminates`) and its result is exhausted -/
theorem flexibility_exhausted_total (items : List (FlexItemM Rat)) (W gap : Rat)
    (hwf : ∀ c ∈ items, ItemWF c)
    (hgrow : sumAxisGaps gap items.length + sumF (items.map (·.hypOuter)) < W →
      ∀ c ∈ items, c.flexGrow = 0 ∨ 1 ≤ c.flexGrow)
    (hshrink : W < sumAxisGaps gap items.length + sumF (items.map (·.hypOuter)) →
      ∀ c ∈ items, c.flexShrink = 0 ∨ 1 ≤ c.flexShrink) :
    ∃ r, resolveFlexibleLengths items (some W) gap (items.length + 1) = some r ∧ r.all (·.frozen) = true ∧
      (sumF (r.map (·.outerTargetMain)) + sumAxisGaps gap items.length = W ∨
        (if sumAxisGaps gap items.length + sumF (items.map (·.hypOuter)) < W then
           ∀ c ∈ r, 0 < c.flexGrow → AtMax c
         else ∀ c ∈ r, 0 < c.innerFlexBasis * c.flexShrink → AtMin c)) := by
  obtain ⟨r, hr, hall⟩ := freeze_loop_terminates_succ items (some W) gap
  exact ⟨r, hr, hall, flexibility_exhausted items W gap _ r hwf hgrow hshrink hr⟩

/-! ### non-vacuity -/

/-- a concrete item as `determine_flex_base_size` would produce it: flex basis `b`, factors `g`/`s`, min `mn`,
    max `mx`, margins `ms`/`me`; hypothetical sizes computed from them -/
def sampleItem (b g s mn : Rat) (mx : Option Rat) (ms me : Rat) : FlexItemM Rat :=
  { flexBasis := b, innerFlexBasis := b, hypInner := clampQ mn mx b, hypOuter := clampQ mn mx b + (ms + me),
    resolvedMinMain := mn, maxMain := mx, flexGrow := g, flexShrink := s, marginStart := ms,
    marginEnd := me, marginStartAuto := false, marginEndAuto := false, insetStart := none, insetEnd := none,
    frozen := false, violation := 0, targetMain := 0, outerTargetMain := 0, offsetMain := 0 }

theorem sampleItem_wf (b g s mn : Rat) (mx : Option Rat) (ms me : Rat) (hb : 0 ≤ b) (hg : 0 ≤ g) (hs : 0 ≤ s) :
    ItemWF (sampleItem b g s mn mx ms me) :=
  ⟨rfl, hg, hs, hb, rfl, rfl⟩

/-- the hypotheses of `line_order_no_overlap` are met by a non-trivial line (three items, margins, gap) -/
example : (0 : Rat) ≤ 5 ∧
    ∀ c ∈ [sampleItem 10 1 1 0 none 1 2, sampleItem 20 0 1 0 (some 30) 0 3, sampleItem 5 2 1 0 none 4 0],
      ItemOK c ∧ 0 ≤ c.offsetMain := by
  refine ⟨by norm_num, ?_⟩
  intro c hc
  simp only [List.mem_cons, List.mem_nil_iff, or_false] at hc
  rcases hc with rfl | rfl | rfl <;> (simp only [ItemOK, sampleItem]; norm_num)

/-- the hypotheses of `flexibility_exhausted` are met by a growing line in which one item hits its max (10), one its
    min (50) and the third takes the rest: bases 0, 0, 0 in an inner size of 100, factors 1 -/
example :
    (∀ c ∈ [sampleItem 0 1 1 0 (some 10) 0 0, sampleItem 0 1 1 50 none 0 0, sampleItem 0 1 1 0 none 0 0], ItemWF c) ∧
    (∀ c ∈ [sampleItem 0 1 1 0 (some 10) 0 0, sampleItem 0 1 1 50 none 0 0, sampleItem 0 1 1 0 none 0 0],
      c.flexGrow = 0 ∨ 1 ≤ c.flexGrow) := by
  refine ⟨?_, ?_⟩
  · intro c hc
    simp only [List.mem_cons, List.mem_nil_iff, or_false] at hc
    rcases hc with rfl | rfl | rfl <;> exact sampleItem_wf _ _ _ _ _ _ _ (by norm_num) (by norm_num) (by norm_num)
  · intro c hc
    simp only [List.mem_cons, List.mem_nil_iff, or_false] at hc
    rcases hc with rfl | rfl | rfl <;> (right; simp [sampleItem])

/-- … and by a shrinking line (bases 40 and 20 with a zero-basis item, inner size 30) -/
example :
    (∀ c ∈ [sampleItem 0 0 1 0 none 0 0, sampleItem 40 0 1 30 none 0 0, sampleItem 20 0 2 0 none 0 0], ItemWF c) ∧
    (∀ c ∈ [sampleItem 0 0 1 0 none 0 0, sampleItem 40 0 1 30 none 0 0, sampleItem 20 0 2 0 none 0 0],
      c.flexShrink = 0 ∨ 1 ≤ c.flexShrink) := by
  refine ⟨?_, ?_⟩
  · intro c hc
    simp only [List.mem_cons, List.mem_nil_iff, or_false] at hc
    rcases hc with rfl | rfl | rfl <;> exact sampleItem_wf _ _ _ _ _ _ _ (by norm_num) (by norm_num) (by norm_num)
  · intro c hc
    simp only [List.mem_cons, List.mem_nil_iff, or_false] at hc
    rcases hc with rfl | rfl | rfl <;> (right; simp [sampleItem]; try norm_num)

end C07
