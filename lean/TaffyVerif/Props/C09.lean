/-
  C09 — Grid tracks: fixed sizes exact, gutters equal gaps, fr tracks share leftover.

  Part 1 (track initialisation, `explicit_grid.rs`): for **every** `Num` instance (so for the `Float32` instance the
  correspondence run executes and for exact rationals alike), every template (single tracks, `repeat(n, […])`,
  `repeat(auto-fill|auto-fit, […])`), every `grid_auto_*` list, every gap, every occupancy predicate.
  Part 2 (track sizing, `track_sizing.rs`) is stated at `α = Rat`.
-/
import TaffyVerif.Lemmas.GridTracksInit
import TaffyVerif.Lemmas.FrSize
import TaffyVerif.Lemmas.Distribute
import TaffyVerif.Lemmas.FixedExact

namespace C09
open GridTracks

section Init
variable {α : Type} [Num α]

/-- **tracks_alternate.** The vector built by `initialize_grid_tracks` is `gutter, track, gutter, …, gutter`:
odd length `2·n+1`, kinds alternate starting and ending with a gutter, the first and the last gutter are collapsed
with sizing functions `0px / 0px`, and every inner gutter is either the gap (`min = max = gap`, not collapsed) or — only
directly after a collapsed `auto-fit` track — the collapsed zero gutter. -/
theorem tracks_alternate (counts : TrackCounts) (tpl : List (TrackDef α)) (autoTracks : List (TrackFn α))
    (gap : LP α) (has : Nat → Bool) (ts : List (GridTrack α))
    (h : initializeGridTracks counts tpl autoTracks gap has = .ok ts) :
    (∃ n, ts.length = 2 * n + 1) ∧
    (∀ i (hi : i < ts.length), ts[i].kind = if i % 2 = 0 then .gutter else .track) ∧
    (∀ i (hi : i < ts.length), (i = 0 ∨ i = ts.length - 1) →
        ts[i].isCollapsed = true ∧ ts[i].minFn = .length 0 ∧ ts[i].maxFn = .length 0) ∧
    (∀ i (hi : i < ts.length), i % 2 = 0 → 0 < i → i < ts.length - 1 →
        (ts[i].isCollapsed = false ∧ ts[i].minFn = MinTrack.ofLP gap ∧ ts[i].maxFn = MaxTrack.ofLP gap) ∨
        (ts[i].isCollapsed = true ∧ ts[i].minFn = .length 0 ∧ ts[i].maxFn = .length 0 ∧
          (ts[i - 1]'(by omega)).isCollapsed = true)) := by
  unfold initializeGridTracks at h
  split at h
  · cases h
  · split at h
    · cases h
    · rename_i autoN _
      cases h
      have hp := pairs_bodyTracks counts tpl autoTracks gap has autoN
      generalize bodyTracks counts tpl autoTracks gap has autoN = body at hp
      have hlen : (collapseFirstLast (GridTrack.gutter gap :: body)).length = body.length + 1 := by
        rw [collapseFirstLast_length]; rfl
      have hev := hp.length_even
      refine ⟨⟨body.length / 2, by rw [hlen]; omega⟩, ?_, ?_, ?_⟩
      · intro i hi
        rw [collapseFirstLast_getElem]
        have hi' : i < body.length + 1 := by rw [hlen] at hi; exact hi
        have hk : ((GridTrack.gutter gap :: body)[i]'(by simpa using hi')).kind
            = if i % 2 = 0 then .gutter else .track := by
          match i with
          | 0 => rfl
          | j + 1 =>
            have hj : j < body.length := by omega
            have := hp.kind_at j hj
            simp only [List.getElem_cons_succ, this]
            by_cases hj2 : j % 2 = 0
            · have : (j + 1) % 2 ≠ 0 := by omega
              simp [hj2, this]
            · have : (j + 1) % 2 = 0 := by omega
              simp [hj2, this]
        split <;> simpa using hk
      · intro i hi ho
        rw [collapseFirstLast_getElem]
        have : i = 0 ∨ i = (GridTrack.gutter gap :: body).length - 1 := by
          rcases ho with h0 | hl
          · exact Or.inl h0
          · right; rw [hlen] at hl; simpa using hl
        rw [if_pos this]
        exact ⟨rfl, rfl, rfl⟩
      · intro i hi heven hpos hlt
        rw [hlen] at hlt hi
        have hnot : ¬ (i = 0 ∨ i = (GridTrack.gutter gap :: body).length - 1) := by
          simp only [List.length_cons]; omega
        have hi1 : i - 1 < (collapseFirstLast (GridTrack.gutter gap :: body)).length := by rw [hlen]; omega
        rw [collapseFirstLast_getElem _ i, if_neg hnot]
        obtain ⟨j, rfl⟩ : ∃ j, i = j + 2 := ⟨i - 2, by omega⟩
        have hj : j + 1 < body.length := by omega
        have hg := hp.gutter_at j hj (by omega)
        have e1 : (GridTrack.gutter gap :: body)[j + 2]'(by simp; omega) = body[j + 1] := by simp
        rw [e1]
        rcases hg with hg | ⟨hg, hc⟩
        · left; rw [hg]; exact ⟨rfl, rfl, rfl⟩
        · right
          refine ⟨by rw [hg]; rfl, by rw [hg]; rfl, by rw [hg]; rfl, ?_⟩
          have e2 : (collapseFirstLast (GridTrack.gutter gap :: body))[j + 2 - 1]'hi1
              = body[j]'(by omega) := by
            rw [collapseFirstLast_getElem]
            have : ¬ (j + 2 - 1 = 0 ∨ j + 2 - 1 = (GridTrack.gutter gap :: body).length - 1) := by
              simp only [List.length_cons]; omega
            rw [if_neg this]
            simp
          rw [e2]; exact hc

/-- **gutter_is_gap.** Without `auto-fit` in the template no gutter is collapsed by track collapsing, so every inner
gutter's min and max sizing functions are exactly the gap. -/
theorem gutter_is_gap (counts : TrackCounts) (tpl : List (TrackDef α)) (autoTracks : List (TrackFn α))
    (gap : LP α) (has : Nat → Bool) (ts : List (GridTrack α))
    (h : initializeGridTracks counts tpl autoTracks gap has = .ok ts)
    (i : Nat) (hi : i < ts.length) (heven : i % 2 = 0) (hpos : 0 < i) (hlt : i < ts.length - 1)
    (hprev : (ts[i - 1]'(by omega)).isCollapsed = false) :
    ts[i].kind = .gutter ∧ ts[i].isCollapsed = false ∧
      ts[i].minFn = MinTrack.ofLP gap ∧ ts[i].maxFn = MaxTrack.ofLP gap := by
  obtain ⟨_, hk, _, hg⟩ := tracks_alternate counts tpl autoTracks gap has ts h
  refine ⟨by simpa [heven] using hk i hi, ?_⟩
  rcases hg i hi heven hpos hlt with h1 | ⟨_, _, _, hc⟩
  · exact h1
  · rw [hc] at hprev; cases hprev

/-- **explicit_count_is_expansion.** If `compute_explicit_grid_size_in_axis` returns `n` for a template (any mix of
single tracks, `repeat(k, […])` and one auto-repetition; with the `as u16` casts exact, i.e. fewer than 65536 entries),
then `initialize_grid_tracks` run with `counts.explicit = n` emits exactly `n` explicit tracks: the vector has
`2·(negative + n + positive) + 1` entries and no u16 operation overflows. (Before fix 0b77d7d this failed for
`repeat(2,[a b]) repeat(auto-fill,[c])`.) -/
theorem explicit_count_is_expansion [NumCast α] (size maxSize : Dimension α) (gap : LP α)
    (tpl : List (TrackDef α)) (inner : Option α) (n : Nat) (hs : SmallReps tpl) (hlen : tpl.length < 65536)
    (hc : computeExplicitGridSizeInAxis size maxSize gap tpl inner = .ok n)
    (counts : TrackCounts) (hn : counts.explicit = n)
    (hsum : counts.negativeImplicit + counts.explicit + counts.positiveImplicit ≤ 65535)
    (autoTracks : List (TrackFn α)) (has : Nat → Bool) :
    ∃ ts, initializeGridTracks counts tpl autoTracks gap has = .ok ts ∧
      ts.length = 2 * (counts.negativeImplicit + n + counts.positiveImplicit) + 1 := by
  have hshape := computeExplicit_shape size maxSize gap tpl inner n hs hlen hc
  unfold initializeGridTracks
  have hov : ¬ ((decide (counts.negativeImplicit + counts.explicit > u16Max)
      || decide (counts.negativeImplicit + counts.explicit + counts.positiveImplicit > u16Max)) = true) := by
    simp [u16Max]; omega
  rw [if_neg hov]
  have hbody : ∀ autoN, (counts.explicit > 0 → expansionCount autoN tpl = n) →
      (collapseFirstLast (GridTrack.gutter gap :: bodyTracks counts tpl autoTracks gap has autoN)).length
        = 2 * (counts.negativeImplicit + n + counts.positiveImplicit) + 1 := by
    intro autoN hexp
    rw [collapseFirstLast_length]
    simp only [List.length_cons, bodyTracks, List.length_append, createImplicitTracks_length]
    have hneg : (if counts.negativeImplicit > 0 then
        createImplicitTracks counts.negativeImplicit
          (autoTrackAt autoTracks (if autoTracks.isEmpty = true then 0
            else autoTracks.length - counts.negativeImplicit % autoTracks.length)) gap
        else ([] : List (GridTrack α))).length = 2 * counts.negativeImplicit := by
      split
      · exact createImplicitTracks_length _ _ _
      · simp; omega
    have hex : (if counts.explicit > 0 then explicitTracks autoN gap has tpl counts.negativeImplicit
        else ([] : List (GridTrack α))).length = 2 * n := by
      split
      · rename_i hpos
        rw [explicitTracks_length, hexp hpos]
      · simp; omega
    rw [hneg, hex]; omega
  by_cases hpos : counts.explicit > 0
  · rw [if_pos hpos]
    rcases hshape with h0 | ⟨hz, hm, hcase⟩
    · omega
    · unfold autoRepeatedTrackCount
      rcases hcase with ⟨hnone, hnn⟩ | ⟨hone, hle⟩
      · have hany : tpl.any TrackDef.isAutoRepetition = false := by
          rw [List.any_eq_false]
          intro d hd hd'
          have : d ∈ tpl.filter TrackDef.isAutoRepetition := List.mem_filter.mpr ⟨hd, hd'⟩
          rw [hnone] at this; cases this
        simp only [hany, Bool.false_eq_true, if_false]
        exact ⟨_, rfl, hbody 0 fun _ => by rw [expansionCount_noAuto _ _ hnone, hnn]⟩
      · have hany : tpl.any TrackDef.isAutoRepetition = true := by
          rw [List.any_eq_true]
          have : (tpl.filter TrackDef.isAutoRepetition) ≠ [] := by
            intro e; rw [e] at hone; cases hone
          obtain ⟨d, hd⟩ := List.exists_mem_of_ne_nil _ this
          exact ⟨d, (List.mem_filter.mp hd).1, (List.mem_filter.mp hd).2⟩
        simp only [hany, if_true, hm]
        have hlt : ¬ (counts.explicit < nonAutoCount tpl) := by omega
        simp only [hlt, if_false]
        refine ⟨_, rfl, hbody _ fun _ => ?_⟩
        rw [expansionCount_eq _ _ hz, hone]; omega
  · rw [if_neg hpos]
    exact ⟨_, rfl, hbody 0 fun h => absurd h hpos⟩

end Init

/-! ### non-vacuity: the witness of DESIGN §9 item 7 and an auto-fit template -/

section Examples
open GridTracks

private def px (v : Rat) : TrackFn Rat := ⟨.length v, .length v⟩
/-- `repeat(2, [10px 10px]) repeat(auto-fill, [20px])` -/
private def witness7 : List (TrackDef Rat) := [.rep (.count 2) [px 10, px 10], .rep .autoFill [px 20]]

/-- in a 100px container the explicit count is 7 … -/
example : computeExplicitGridSizeInAxis (α := Rat) (.length 100) .auto (.length 0) witness7 (some 100) = .ok 7 := by
  decide +kernel

/-- … and 7 explicit tracks are emitted (15 entries) -/
example : (initializeGridTracks (α := Rat) ⟨0, 7, 0⟩ witness7 [] (.length 0) (fun _ => false)).toOption.map List.length
    = some 15 := by
  decide +kernel

/-- auto-fit: unoccupied repeated tracks and their gutters are collapsed, occupied ones keep the gap -/
example : ((initializeGridTracks (α := Rat) ⟨1, 2, 1⟩ [.rep .autoFit [px 20]] [px 5] (.length 3)
    (fun i => i == 1)).toOption.map fun ts => ts.map fun t => (t.kind, t.isCollapsed))
    = some [(.gutter, true), (.track, false), (.gutter, false), (.track, false), (.gutter, false),
            (.track, true), (.gutter, true), (.track, false), (.gutter, true)] := by
  decide +kernel

end Examples

/-! ## Part 2 — track sizing (`track_sizing.rs`) at exact rationals -/

section Sizing
open GridTracks

/-- **fixed_track_exact.** For every run of the modelled `track_sizing_algorithm` — every parameter set (min/max size,
alignment, min- or max-content or definite available space, container size), every track vector, **every oracle** (any
items with any contributions, spanning at least one track each): a track (or gutter) whose min and max sizing
functions are the same fixed length `v`, with nothing pending from an earlier run, ends with base size exactly `v` and
growth limit `v`.  It holds through `initialize_track_sizes`, both paths of `resolve_intrinsic_track_sizes` (every
`distribute_item_space_to_base_size/_growth_limit`, incl. the beyond-limits fallback), `maximise_tracks`,
`expand_flexible_tracks` and `stretch_auto_tracks`; since fix f6411f1 also through `distribute_space_up_to_limits`,
because a track at its limit is never growable. -/
theorem fixed_track_exact (p : SizingParams Rat) (tracks : List (GridTrack Rat)) (items : List (Item Rat))
    (hitems : ∀ it ∈ items, it.start < it.end) (i : Nat) (t : GridTrack Rat) (v : Rat) (ht : tracks[i]? = some t)
    (hmin : t.minFn = .length v) (hmax : t.maxFn = .length v) (hrest : AtRest t) :
    ∃ t', (trackSizingAlgorithm p tracks items)[i]? = some t' ∧ t'.baseSize = v ∧ t'.growthLimit = .fin v := by
  obtain ⟨t', h1, hfx⟩ := trackSizing_fixed p tracks items hitems i t v ht hmin hmax hrest
  exact ⟨t', h1, hfx.base, hfx.gl⟩

/-- **gutters keep the gap** (corollary): every gutter that `initialize_grid_tracks` creates for a length gap — and every
collapsed gutter, whose functions are `0px` — is such a fixed track, so its final size is the gap (resp. 0). -/
theorem gutter_size_is_gap (p : SizingParams Rat) (tracks : List (GridTrack Rat)) (items : List (Item Rat))
    (hitems : ∀ it ∈ items, it.start < it.end) (i : Nat) (g : Rat)
    (ht : tracks[i]? = some (GridTrack.gutter (.length g))) :
    ∃ t', (trackSizingAlgorithm p tracks items)[i]? = some t' ∧ t'.baseSize = g := by
  obtain ⟨t', h1, h2, _⟩ := fixed_track_exact p tracks items hitems i _ g ht rfl rfl ⟨rfl, rfl, rfl⟩
  exact ⟨t', h1, h2⟩

/-- **a track at its limit is never handed space** (the repaired final loop of `distribute_space_up_to_limits`,
counterpart of the former `distribute_leaks_into_track_at_limit`): whatever the closures, a track that is not selected
or whose `affected property + item_incurred_increase` is not below its limit comes out of the whole loop unchanged. -/
theorem distribute_keeps_track_at_limit (p : DistParams) (fuel : Nat) (space : Rat) (tracks : List (GridTrack Rat))
    (i : Nat) (t : GridTrack Rat) (ht : tracks[i]? = some t) (hp : protectedTrack p t) :
    (distributeSpaceUpToLimits fuel space tracks p.isAffected p.proportion p.affectedProp p.limit).2[i]? = some t := by
  obtain ⟨f, hf, _, he⟩ := dist_map p fuel space tracks
  have he' : (distributeSpaceUpToLimits fuel space tracks p.isAffected p.proportion p.affectedProp p.limit).2
      = tracks.map f := he
  rw [he', List.getElem?_map, ht, Option.map_some, hf t hp]

private def frT (v : Rat) : GridTrack Rat := GridTrack.new ⟨.auto, .fr v⟩
private def gut : GridTrack Rat := GridTrack.gutter (.length 0)
private def fixedT (a b : Rat) : GridTrack Rat := GridTrack.new ⟨.length a, .length b⟩
private def definite (w : Rat) : SizingParams Rat :=
  { axisMinSize := none, axisMaxSize := none, stretch := true, avail := .definite w, axisInner := some w }

/-- **the former THRESHOLD-leak witness is exact now** (fixed case `fixed-threshold-leak` of the harness; before fix
f6411f1 the model and the code gave `1/128` for every gutter and `10 + 1/128` for the fixed track): columns
`minmax(0,50px) minmax(0,50px) 10px` in a grid 10 + 1/64 wide with one item in the third column. -/
theorem fixed_track_exact_witness :
    (trackSizingAlgorithm (definite (10 + 1/64))
        [gut.collapse, fixedT 0 50, gut, fixedT 0 50, gut, fixedT 10 10, gut.collapse]
        [{ start := 2, «end» := 3, scroll := false, minContent := 1, maxContent := 1, minimum := 0 }]).map (·.baseSize)
      = [0, 1/128, 0, 1/128, 0, 10, 0] := by
  decide +kernel

/-- the same grid 11 wide -/
example :
    (trackSizingAlgorithm (definite 11)
        [gut.collapse, fixedT 0 50, gut, fixedT 0 50, gut, fixedT 10 10, gut.collapse]
        [{ start := 2, «end» := 3, scroll := false, minContent := 1, maxContent := 1, minimum := 0 }]).map (·.baseSize)
      = [0, 1/2, 0, 1/2, 0, 10, 0] := by
  decide +kernel

/-- **fr_fills_partial.** Definite available space with positive free space, flexible tracks with non-negative
factors: `find_size_of_fr` leaves its loop through `break` with some last "previous" value `P`; if the tracks still
treated as flexible in that last iteration have factor sum ≥ 1, then after `expand_flexible_tracks` the base sizes add
up to at least the available space. (No statement when a content-floored track has dropped out and the rest sums to
less than 1 — see `fr_fill_full_false`.) -/
theorem fr_fills_partial (tracks : List (GridTrack Rat)) (items : List (Item Rat)) (mn mx : Option Rat) (space : Rat)
    (hbase : ∀ t ∈ tracks, 0 ≤ t.baseSize) (hfac : ∀ t ∈ tracks, ∀ v, t.maxFn = .fr v → 0 ≤ v)
    (hfree : (tracks.map (·.baseSize)).sum < space) :
    ∃ P, FrExit tracks space P (findSizeOfFr tracks space) ∧
      (1 ≤ frFlexSum P tracks →
        space ≤ ((expandFlexibleTracks tracks items mn mx (.definite space)).map (·.baseSize)).sum) := by
  have hw : ∀ t ∈ tracks, FrWF t := fun t ht v hv => ⟨hfac t ht v hv, hbase t ht⟩
  have hsum0 : 0 ≤ (tracks.map (·.baseSize)).sum := by
    apply List.sum_nonneg
    intro x hx
    obtain ⟨t, ht, rfl⟩ := List.mem_map.mp hx
    exact hbase t ht
  have hspace : space ≠ 0 := by intro h; rw [h] at hfree; linarith
  obtain ⟨P, F, hloop, hexit, _⟩ := findSizeOfFrLoop_exits tracks hw space (tracks.length + 2) none trivial
    (by have := frMeasure_le tracks none; omega)
  have hF : findSizeOfFr tracks space = F := by
    unfold findSizeOfFr
    simp [hspace, hloop]
  refine ⟨P, by rw [hF]; exact hexit, fun hsum => ?_⟩
  have hfill := exit_fills tracks space P F hexit hsum
  have hexp : (expandFlexibleTracks tracks items mn mx (.definite space)).map (·.baseSize)
      = tracks.map (expandedSize F) := by
    unfold expandFlexibleTracks
    have hnot : ¬ (space - (tracks.map (·.baseSize)).sum ≤ 0) := by linarith
    simp only [sumF_rat, rat_fle, hnot, decide_false, Bool.false_eq_true, if_false, hF, List.map_map]
    apply List.map_congr_left
    intro t _
    unfold expandedSize
    cases hm : t.maxFn <;> simp [hm, rat_fmax]
  rw [hexp]; exact hfill

/-- non-vacuity of `fr_fills_partial`: `1fr 2fr 10px` with base sizes 0, 0, 10 in 100: the fr size is 30, the flexible
factor sum is 3 ≥ 1 -/
example : findSizeOfFr [frT 1, frT 2, { fixedT 10 10 with baseSize := 10 }] (100 : Rat) = 30 ∧
    frFlexSum none [frT 1, frT 2, { fixedT 10 10 with baseSize := 10 }] = 3 := by
  constructor <;> decide +kernel

/-- **the full fill clause is false of the code** (DESIGN §9 item 11; replayed on the implementation as fixed case
`fixed-fr-underfill`): columns `0.5fr 0.6fr`, a 100-wide item in the second column, a 110-wide grid. The factors sum
to 1.1 ≥ 1, yet the tracks get 5 and 100: the content-floored second track drops out of the flexible set, whose
factor sum 0.5 is then clamped up to 1. -/
theorem fr_fill_full_false :
    let tracks := [gut.collapse, frT (1/2), gut, frT (3/5), gut.collapse]
    let sized := trackSizingAlgorithm (definite 110) tracks
      [{ start := 1, «end» := 2, scroll := false, minContent := 100, maxContent := 100, minimum := 100 }]
    1 ≤ (tracks.map (·.flexFactor)).sum ∧ sized.map (·.baseSize) = [0, 5, 0, 100, 0] ∧
      (sized.map (·.baseSize)).sum < 110 := by
  decide +kernel

end Sizing

end C09
