/-
  Tie (tier T) for `expand_flexible_tracks` of src/compute/grid/track_sizing.rs, translated in interaction form
  (extract/src/tracks2.rs → Generated/TrackSizing3.lean): a program of `Slice.ItemProg ι α` over the abstract item type `ι`, one node
  per `item.max_content_contribution_cached(axis, tree, Size::NONE, inner_node_size)` call, in the Rust order.

  `expand_flexible_tracks_run`: run with the items of Model/FrSize.lean (`Item α`: the spanned range, `crossesFlexible`, the
  max-content contribution as an oracle field — the handler answers `it.maxContent` and leaves the item alone), the generated program
  answers `expandFlexibleTracks` — for every `[Num α]`, all tracks and items whose flexible-crossing items span a range inside the
  track list (`&axis_tracks[range]` panics otherwise: kept as an outcome in the generated code, totalised by `sliceOf` in the model).
-/
import TaffyVerif.Generated.TrackSizing3
import TaffyVerif.Props.TieTracks2

set_option linter.unusedSectionVars false

namespace TieTracks3
open GridTracks Slice
variable {α : Type} [Num α]

/-! ### running programs -/

section Run
variable {ι β γ : Type} (h : ι → GridModel.Ax → Size (Option α) → Size (Option α) → α × ι)

theorem run_pure (b : β) : ItemProg.run h (pure b : ItemProg ι α β) = .ok b := rfl
theorem run_ofExcept (e : Except GErr β) : ItemProg.run h (ItemProg.ofExcept e : ItemProg ι α β) = e := by
  cases e <;> rfl

theorem run_bind (x : ItemProg ι α β) (f : β → ItemProg ι α γ) :
    ItemProg.run h (x >>= f) = (ItemProg.run h x >>= fun b => ItemProg.run h (f b)) := by
  induction x with
  | ret b => rfl
  | fail e => rfl
  | maxContentContributionCached it ax kd ins k ih => exact ih _

theorem run_call (it : ι) (ax : GridModel.Ax) (kd ins : Size (Option α)) :
    ItemProg.run h (ItemProg.max_content_contribution_cached it ax kd ins) = .ok (h it ax kd ins) := rfl

theorem run_ite (c : Prop) [Decidable c] (a b : ItemProg ι α β) :
    ItemProg.run h (if c then a else b) = if c then ItemProg.run h a else ItemProg.run h b := by
  split <;> rfl

/-- `items.iter_mut().filter(p).map(F)` when every kept item's `F` runs to `(g item, item)` -/
theorem run_filterMapM (p : ι → Bool) (g : ι → β) (F : ι → ItemProg ι α (β × ι)) (l : List ι)
    (hF : ∀ x ∈ l, p x = true → ItemProg.run h (F x) = .ok (g x, x)) :
    ItemProg.run h (ItemProg.filterMapM p F l) = .ok ((l.filter p).map g, l) := by
  induction l with
  | nil => rfl
  | cons x rest ih =>
    have ihr := ih (fun y hy => hF y (List.mem_cons_of_mem _ hy))
    unfold ItemProg.filterMapM
    by_cases hp : p x = true
    · simp only [hp, ↓reduceIte, run_bind, hF x List.mem_cons_self hp, ihr, Slice.bind_ok, run_pure, List.filter_cons_of_pos,
        List.map_cons]
    · simp only [hp, Bool.false_eq_true, ↓reduceIte, run_bind, ihr, Slice.bind_ok, run_pure]
      rw [List.filter_cons_of_neg hp]

end Run

/-! ### vocabulary -/

theorem maxByTotalCmp_eq (l : List α) : Slice.maxByTotalCmp l = maxList l := by cases l <;> rfl

theorem indexRange_eq {β : Type} (l : List β) (lo hi : Nat) (h : lo ≤ hi ∧ hi ≤ l.length) :
    Slice.indexRange l (lo, hi) = .ok ((l.drop lo).take (hi - lo)) := by
  simp [Slice.indexRange, h]

/-- the final `for track in axis_tracks.iter_mut().filter(is_fr)` loop -/
theorem expand_map (ff : α) (G : GridTrack α → GridTrack α)
    (hG : ∀ t, G t = match t.maxFn with
      | .fr v => { t with baseSize := Num.fmax t.baseSize (v * ff) }
      | _ => t) (l : List (GridTrack α)) :
    List.map G l = l.map fun t => match t.maxFn with
      | .fr v => { t with baseSize := Num.fmax t.baseSize (v * ff) }
      | _ => t := by
  have : G = _ := funext hG
  rw [this]

/-- "if using this flex fraction would cause the grid to be smaller than min / larger than max, redo": the generated code compares with
`axis_max_size.unwrap_or(f32::INFINITY)` as an extended value and demands finiteness before `find_size_of_fr` -/
theorem redo_eq (tracks : List (GridTrack α)) (hyp mn ff : α) (mx : Option α) :
    (if Num.flt hyp mn = true then Except.ok (findSizeOfFr tracks mn)
      else if Slice.Ext.lt ((Option.map Ext.fin mx).getD Ext.inf) (Ext.fin hyp) = true then
        (Slice.Ext.toFinite ((Option.map Ext.fin mx).getD Ext.inf) >>= fun b => Except.ok (findSizeOfFr tracks b))
      else Except.ok ff : Except GErr α) =
    .ok (if Num.flt hyp mn then findSizeOfFr tracks mn
      else match mx with
        | some mx => if Num.flt mx hyp then findSizeOfFr tracks mx else ff
        | none => ff) := by
  by_cases h1 : Num.flt hyp mn = true
  · simp only [h1, ↓reduceIte]
  · cases mx with
    | none => simp only [h1, Bool.false_eq_true, ↓reduceIte, Option.map_none, Option.getD_none, Slice.Ext.lt]
    | some m =>
      simp only [h1, Bool.false_eq_true, ↓reduceIte, Option.map_some, Option.getD_some, Slice.Ext.lt, Slice.Ext.toFinite,
        Slice.bind_ok]
      by_cases h2 : Num.flt m hyp = true
      · simp only [h2, ↓reduceIte]
      · simp only [h2, Bool.false_eq_true, ↓reduceIte]

/-! ### `expand_flexible_tracks` -/

/-- the oracle handler: the contribution is the item's `maxContent`, the item is unchanged -/
def oracle (it : Item α) (_ : GridModel.Ax) (_ _ : Size (Option α)) : α × Item α := (it.maxContent, it)

theorem expand_flexible_tracks_run (axis : GridModel.Ax) (tracks : List (GridTrack α)) (items : List (Item α))
    (axisMinSize axisMaxSize : Option α) (avail : AvailableSpace α) (inner : Size (Option α))
    (hr : ∀ it ∈ items, it.crossesFlexible = true → it.lo ≤ it.hi ∧ it.hi ≤ tracks.length) :
    ItemProg.run oracle (Gen.TrackSizing.expand_flexible_tracks (fun it _ => it.crossesFlexible) (fun it _ => (it.lo, it.hi))
        axis tracks items axisMinSize axisMaxSize avail inner) =
      .ok (expandFlexibleTracks tracks items axisMinSize axisMaxSize avail, items) := by
  unfold Gen.TrackSizing.expand_flexible_tracks expandFlexibleTracks
  have hmap : ∀ (ff : α) (l : List (GridTrack α)), List.map (fun (track : GridTrack α) =>
      if Gen.TrackFns.MaxTrackSizingFunction.is_fr track.maxFn = true then
        { track with baseSize := Gen.Sys.f32_max track.baseSize (Slice.MaxTrack.payload track.maxFn * ff) }
      else track) l = l.map fun t => match t.maxFn with
        | .fr v => { t with baseSize := Num.fmax t.baseSize (v * ff) }
        | _ => t := by
    intro ff l
    apply expand_map ff
    intro t
    rw [TieTrackFns.max_is_fr_eq]
    cases hm : t.maxFn <;> simp [MaxTrack.isFr, Slice.MaxTrack.payload, TieLayout.f32_max_eq]
  cases avail with
  | definite a =>
    simp only [run_bind, run_pure, run_ite, run_ofExcept, TieTracks.find_size_of_fr_eq, Slice.sumF32_eq_sumF, hmap]
    by_cases hf : Num.fle (a - sumF (List.map (fun (t : GridTrack α) => t.baseSize) tracks)) 0 = true
    · simp only [hf, ↓reduceIte, Slice.bind_ok]
      rfl
    · simp only [hf, Bool.false_eq_true, ↓reduceIte, Slice.bind_ok]
      rfl
  | minContent =>
    simp only [run_bind, run_pure, Slice.bind_ok, hmap]
    rfl
  | maxContent =>
    have hfm := run_filterMapM (α := α) oracle (fun (it : Item α) => it.crossesFlexible)
      (fun it => findSizeOfFr (sliceOf tracks it.lo it.hi) it.maxContent)
    simp only [run_bind, run_pure, run_ite, run_ofExcept, TieTracks.find_size_of_fr_eq, Slice.sumF32_eq_sumF, hmap,
      maxByTotalCmp_eq]
    rw [hfm]
    · have hgt : ∀ x y : α, Num.fgt x y = Num.flt y x := fun _ _ => rfl
      have hhyp : ∀ ff : α, (fun (track : GridTrack α) =>
          if track.maxFn.isFr = true then
            Num.fmax track.baseSize (Slice.MaxTrack.payload track.maxFn * ff) else track.baseSize) =
          fun t => match t.maxFn with
            | .fr v => Num.fmax t.baseSize (v * ff)
            | _ => t.baseSize := by
        intro ff
        funext t
        cases hm : t.maxFn <;> simp [MaxTrack.isFr, Slice.MaxTrack.payload]
      simp only [Slice.bind_ok, hhyp, redo_eq, TieLayout.f32_max_eq, TieTrackFns.max_is_fr_eq, TieTrackFns.flex_factor_eq, hgt]
      rfl
    · intro it hit hc
      obtain ⟨h1, h2⟩ := hr it hit hc
      simp only [run_bind, run_ofExcept, run_call, indexRange_eq _ _ _ ⟨h1, h2⟩, Slice.bind_ok, oracle,
        run_pure]
      rfl

/-- under a max-content constraint: one `1fr` track of base size 10 spanned by one item whose max-content contribution is 80 — the fr is 80
(the item's `find_size_of_fr` on its span), the track grows to 80; the item list comes back unchanged (exact arithmetic) -/
example : ItemProg.run oracle (Gen.TrackSizing.expand_flexible_tracks (α := Rat) (fun it _ => it.crossesFlexible)
      (fun it _ => (it.lo, it.hi)) .inl
      [GridTrack.new ⟨.length 0, .length 0⟩, { GridTrack.new ⟨.auto, .fr 1⟩ with baseSize := 10 }, GridTrack.new ⟨.length 0, .length 0⟩]
      [{ start := 0, «end» := 1, scroll := false, minContent := 0, maxContent := 80, minimum := 0, crossesFlexible := true }]
      none none .maxContent Size.none) =
    .ok ([GridTrack.new ⟨.length 0, .length 0⟩, { GridTrack.new ⟨.auto, .fr 1⟩ with baseSize := 80 }, GridTrack.new ⟨.length 0, .length 0⟩],
         [{ start := 0, «end» := 1, scroll := false, minContent := 0, maxContent := 80, minimum := 0, crossesFlexible := true }]) := by
  rw [expand_flexible_tracks_run]
  · refine congrArg Except.ok (Prod.ext ?_ rfl)
    decide +kernel
  · intro it hit _
    simp only [List.mem_singleton] at hit
    subst hit
    decide

end TieTracks3
