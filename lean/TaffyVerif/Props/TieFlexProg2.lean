/-
  Tie (tier T), continued: `determine_container_main_size` of src/compute/flexbox.rs — IN PART.

  The function as a whole is not translated (two `&mut` parameters, `for` loops that call the tree inside the closure of an
  `unwrap_or_else`, a tuple `match` with guards, `f32::INFINITY` where the model keeps an `Option`, `max_by(total_cmp)`).  What IS
  translated (extract/src/flexprog.rs, `content_arm`) is the one place where it calls the tree: the `_ => { … }` arm of
  `match (min_main_size, style_preferred, max_main_size)` in the intrinsic (`MinContent` / `MaxContent`) branch — the child query
  `measure_child_size(item.node, child_known_dimensions, node_inner_size, child_available_space, InherentSize, main axis)` with the
  cross-axis available space / known dimensions computed before it and the clamping after it — as a function of
  (constants, available_space, item), preceded by the `let`s of the enclosing function it reads.

  * `contentArm` restates that part of `FlexModel.intrinsicItem` as a definition; `intrinsicItem_contentArm` (by `rfl`): `intrinsicItem`
    IS the same text with `contentArm` in that place — so the theorem below is about the model's own definition.
  * `determine_container_main_size_content_arm_eq` — the program generated from the arm IS `contentArm` with the model's
    `mainContentBoxInset` (`k.contentBoxInset.mainAxisSum k.dir`, as `determineContainerMainSize` passes it): the same child query with the
    same input, the same value.

  Then, WHOLE functions (goal 4): `calculate_flex_item_eq`, `calculate_layout_line_eq`, `final_layout_pass_eq` — the final layout pass:
  `calculate_flex_item` (its `&mut f32` / `&mut Size<f32>` parameters read as in/out values, R8), `calculate_layout_line` (a `for` over the
  items, reversed for a reversed direction; its call of `calculate_flex_item` rewritten by R9), `final_layout_pass` (a `for` over the
  lines, reversed under wrap-reverse) are `toGen` of `FlexModel.calculateFlexItem` / `calculateLayoutLine` / `finalLayoutPass`, with
  `container_size`, `node_inner_size`, `padding_border`, `direction` taken from the constants as `final_layout_pass` passes them.
  `for_mut_state`: the congruence for a `for_mut` that threads a state; `layoutItemsS` / `layoutLinesS`: the model's loops keeping the
  final `total_offset_main` / `total_offset_cross` (the source's loop state is the pair), `toGen_layoutItems` / `toGen_layoutLines`:
  the model's loops are those with that component dropped.

  And one more PART (goal 5 is otherwise not started): `compute_preliminary_hidden_loop_eq` — the hidden-children loop at the end of
  `compute_preliminary` (`let len = tree.child_count(node); for order in 0..len { … }`, extracted as a function of (tree, node)) IS
  `BlockModel.hiddenLoop` on the child styles under the model's addressing of the children (`TieBlock.for_fold_hidden`).
-/
import TaffyVerif.Props.TieFlexProg

namespace TieFlexProg2
open FlexModel TieBlock TieFlexProg
variable {α : Type} [Num α]

/-- the part of `FlexModel.intrinsicItem` that measures the child (its last `else` branch) -/
def contentArm (k : AlgoConstants α) (availableSpace : Size (AvailableSpace α)) (mainContentBoxInset : α) (item : FlexItem α) :
    ProgM α α := do
  let dir := k.dir
  let styleMin := item.minSize.main dir
  let styleMax := item.maxSize.main dir
  let marginSum := item.margin.mainAxisSum dir
  let crossAxisParentSize := k.nodeInnerSize.cross dir
  let crossAxisMarginSum := k.margin.crossAxisSum dir
  let childMinCross := MaybeMath.of_add (item.minSize.cross dir) crossAxisMarginSum
  let childMaxCross := MaybeMath.of_add (item.maxSize.cross dir) crossAxisMarginSum
  let crossAv0 : AvailableSpace α := match availableSpace.cross dir with
    | .definite val => .definite (crossAxisParentSize.getD val)
    | x => x
  let crossAxisAvailableSpace := MaybeMath.ao_clamp crossAv0 childMinCross childMaxCross
  let childAvailableSpace := setCross availableSpace dir crossAxisAvailableSpace
  let childKnown := childKnownDimensions dir item crossAxisAvailableSpace
  let m ← ProgM.measureChildSize item.nodeIdx childKnown k.nodeInnerSize childAvailableSpace .inherentSize
    dir.isRow ⟨false, false⟩
  let contentMainSize := m + marginSum
  if k.isRow then
    pure (Num.fmax (MaybeMath.fo_clamp contentMainSize styleMin styleMax) mainContentBoxInset)
  else
    pure (Num.fmax (MaybeMath.fo_clamp (Num.fmax contentMainSize item.flexBasis) styleMin styleMax)
      mainContentBoxInset)

/-- `FlexModel.intrinsicItem` is its own text with `contentArm` in the place of the branch that measures the child -/
theorem intrinsicItem_contentArm (k : AlgoConstants α) (availableSpace : Size (AvailableSpace α)) (mainContentBoxInset : α)
    (item : FlexItem α) :
    intrinsicItem k availableSpace mainContentBoxInset item = (do
      let dir := k.dir
      let styleMin := item.minSize.main dir
      let stylePreferred := item.size.main dir
      let styleMax := item.maxSize.main dir
      let clampingBasis : Option α := MaybeMath.oo_max (some item.flexBasis) stylePreferred
      let flexBasisMin : Option α := if Num.feq item.flexShrink 0 then clampingBasis else none
      let flexBasisMax : Option α := if Num.feq item.flexGrow 0 then clampingBasis else none
      let minMainSize : α :=
        Num.fmax (((MaybeMath.oo_max styleMin flexBasisMin).or flexBasisMin).getD item.resolvedMinimumMainSize)
          item.resolvedMinimumMainSize
      let maxMainSize : Option α := (MaybeMath.oo_min styleMax flexBasisMax).or flexBasisMax
      let marginSum := item.margin.mainAxisSum dir
      let maxLeMin : Bool := match maxMainSize with | some mx => Num.fle mx minMainSize | none => false
      let arm1 : Option α :=
        match stylePreferred, maxMainSize with
        | some pref, some mx =>
          if Num.fle mx minMainSize || Num.fle mx pref then some (Num.fmax (Num.fmin pref mx) minMainSize + marginSum)
          else none
        | _, _ => none
      let contentContribution ← (match arm1 with
        | some v => (pure v : ProgM α α)
        | none =>
          if maxLeMin then pure (minMainSize + marginSum)
          else if item.isScrollContainer then pure (item.flexBasis + marginSum)
          else contentArm k availableSpace mainContentBoxInset item)
      let diff := contentContribution - item.flexBasis
      let contentFlexFraction : α :=
        if Num.fgt diff 0 then diff / Num.fmax 1 item.flexGrow
        else if Num.flt diff 0 then
          let scaledShrinkFactor := Num.fmax 1 item.flexShrink * item.innerFlexBasis
          if Num.fgt scaledShrinkFactor 0 then diff / scaledShrinkFactor else 0
        else 0
      pure { item with contentFlexFraction }) := rfl

/-- **Tie, flexbox.rs `determine_container_main_size`, the arm that measures the child** (partial: the rest of the function is not
translated).  The program generated from the arm IS the model's `contentArm`: same child query, same input, same value. -/
theorem determine_container_main_size_content_arm_eq (k : AlgoConstants α) (av : Size (AvailableSpace α)) (item : FlexItem α) :
    Gen.FlexProg.determine_container_main_size_content_arm k av item =
      toGen (contentArm k av (k.contentBoxInset.mainAxisSum k.dir) item) := by
  unfold Gen.FlexProg.determine_container_main_size_content_arm contentArm childKnownDimensions
  simp only [TieAxes.size_cross_eq, TieAxes.cross_axis_sum_eq, TieAxes.main_axis_sum_eq, TieAxes.with_main_eq, TieAxes.set_cross_eq,
    TieAxes.with_cross_eq, TieAxes.size_main_eq, TieMaybeMath.of_add_eq, TieMaybeMath.of_sub_eq, TieMaybeMath.ao_clamp_eq,
    TieMaybeMath.fo_clamp_eq, TieLayout.into_option_eq, TieLeaf.map_definite_value_eq, TieInput.line_false_eq,
    measure_child_size_eq, toGen_bind]
  congr 1
  funext m
  cases k.isRow <;> rfl

/-- concrete instance: a row container, max-content available space, an item without sizes — the generated arm starts with the child
query (`ComputeSize`, `InherentSize`, horizontal axis) with the container's inner size as parent size -/
example (k : AlgoConstants α) (hk : k.dir = .row) (av : Size (AvailableSpace α)) (item : FlexItem α) :
    ∃ inp kont, Gen.FlexProg.determine_container_main_size_content_arm k av item = .compute_child_layout item.nodeIdx inp kont ∧
      inp.runMode = .computeSize ∧ inp.sizingMode = .inherentSize ∧ inp.axis = .horizontal ∧ inp.parentSize = k.nodeInnerSize := by
  rw [determine_container_main_size_content_arm_eq, contentArm, hk]
  exact ⟨_, _, rfl, rfl, rfl, rfl, rfl⟩

/-! ### calculate_flex_item -/

/-- **Tie, flexbox.rs `calculate_flex_item`.**  With its `&mut f32` / `&mut Size<f32>` parameters read as in/out values (R8) and called as
`calculate_layout_line` calls it (`container_size`, `node_inner_size`, `direction` taken from the constants), the program generated from
the source IS the model's `FlexModel.calculateFlexItem`: one `perform_child_layout`, one `set_unrounded_layout` with the same layout, the
same updated item, `total_offset_main` and content size. -/
theorem calculate_flex_item_eq (k : AlgoConstants α) (item : FlexItem α) (tom toc loc : α) (tcs : Size α) :
    Gen.FlexProg.calculate_flex_item item tom toc loc tcs k.containerSize k.nodeInnerSize k.dir =
      toGen (calculateFlexItem k item tom toc loc tcs) := by
  unfold Gen.FlexProg.calculate_flex_item calculateFlexItem
  simp only [TieAxes.main_start_eq, TieAxes.main_end_eq, TieAxes.cross_start_eq, TieAxes.cross_end_eq, TieAxes.is_row_eq,
    TieAxes.main_axis_sum_eq, TieAxes.size_main_eq, TieLeaf.size_map_eq, TieLeaf.from_f32_eq, TieInput.line_false_eq,
    TieLayout.size_f32_max_eq, TieContent.compute_content_size_contribution_eq, TieLayoutTree.perform_child_layout_eq,
    toGen_bind]
  cases hd : k.dir.isRow <;>
    simp only [Bool.false_eq_true, ↓reduceIte, ProgM.performChildLayout, ProgM.computeChildLayout, ProgM.setUnroundedLayout,
      toGen, toGen_pure, Gen.Tree.Prog.bind] <;> rfl

/-- concrete instance: the generated program starts with the item's `perform_child_layout` — known dimensions = the target size,
available space = the container size, `ContentSize` -/
example (k : AlgoConstants α) (item : FlexItem α) (tom toc loc : α) (tcs : Size α) :
    ∃ inp kont, Gen.FlexProg.calculate_flex_item item tom toc loc tcs k.containerSize k.nodeInnerSize k.dir =
        .compute_child_layout item.nodeIdx inp kont ∧
      inp.runMode = .performLayout ∧ inp.sizingMode = .contentSize ∧
      inp.knownDimensions = ⟨some item.targetSize.width, some item.targetSize.height⟩ ∧
      inp.availableSpace = ⟨.definite k.containerSize.width, .definite k.containerSize.height⟩ := by
  rw [calculate_flex_item_eq, calculateFlexItem]
  exact ⟨_, _, rfl, rfl, rfl, rfl, rfl⟩

/-! ### calculate_layout_line, final_layout_pass -/

omit [Num α] in
/-- congruence: a `for_mut` whose step is pointwise `toGen` of a model step threading the state `σ` is `toGen` of the model's loop -/
theorem for_mut_state {σ β : Type} (F : σ → β → Gen.Tree.Prog α Nat (β × σ)) (step : σ → β → ProgM α (β × σ))
    (loop : List β → σ → ProgM α (List β × σ))
    (hF : ∀ s x, F s x = toGen (step s x))
    (hnil : ∀ s, loop [] s = pure ([], s))
    (hcons : ∀ x xs s, loop (x :: xs) s = (do let r ← step s x; let r' ← loop xs r.2; pure (r.1 :: r'.1, r'.2)))
    (items : List β) (s : σ) :
    Gen.Block.for_mut F s items = toGen (loop items s) := by
  induction items generalizing s with
  | nil => rw [hnil]; rfl
  | cons x xs ih =>
    rw [hcons, Gen.Block.for_mut, hF]
    simp only [toGen_bind]
    congr 1; funext r
    rw [ih]
    rfl

/-- `FlexModel.layoutItems` keeping the final `total_offset_main` (the state of the source's loop is the pair) -/
def layoutItemsS (k : AlgoConstants α) (toc loc : α) :
    List (FlexItem α) → α × Size α → ProgM α (List (FlexItem α) × (α × Size α))
  | [], s => pure ([], s)
  | item :: rest, s => do
    let r ← calculateFlexItem k item s.1 toc loc s.2
    let r' ← layoutItemsS k toc loc rest r.2
    pure (r.1 :: r'.1, r'.2)

theorem toGen_layoutItems (k : AlgoConstants α) (toc loc : α) (items : List (FlexItem α)) (tom : α) (cs : Size α) :
    toGen (layoutItems k toc loc items tom cs) =
      (toGen (layoutItemsS k toc loc items (tom, cs))).bind (fun r => .ret (r.1, r.2.2)) := by
  induction items generalizing tom cs with
  | nil => rfl
  | cons item rest ih =>
    rw [layoutItems, layoutItemsS]
    simp only [toGen_bind, bind_assoc]
    congr 1; funext r
    rw [ih]
    simp only [bind_assoc, toGen_pure, Gen.Tree.Prog.bind]

/-- **Tie, flexbox.rs `calculate_layout_line`** (called as `final_layout_pass` calls it): the generated program — the items visited in
order, or in reverse order for a reversed direction, each by `calculate_flex_item`, then `total_offset_cross` advanced — IS the model's
`FlexModel.calculateLayoutLine`. -/
theorem calculate_layout_line_eq (k : AlgoConstants α) (line : FlexLineS α) (toc : α) (cs : Size α) :
    Gen.FlexProg.calculate_layout_line line toc cs k.containerSize k.nodeInnerSize k.contentBoxInset k.dir =
      toGen (calculateLayoutLine k line toc cs) := by
  have hstep : ∀ (s : α × Size α) (item : FlexItem α),
      (Gen.FlexProg.calculate_flex_item item s.1 toc line.offsetCross s.2 k.containerSize k.nodeInnerSize k.dir).bind
          (fun r => Gen.Tree.Prog.ret (r.1, (r.2.1, r.2.2))) =
        toGen (calculateFlexItem k item s.1 toc line.offsetCross s.2) := by
    intro s item; rw [calculate_flex_item_eq]; exact bind_ret _
  have hloop := fun items s => for_mut_state _ (fun s item => calculateFlexItem k item s.1 toc line.offsetCross s.2)
    (layoutItemsS k toc line.offsetCross) hstep (fun _ => rfl) (fun _ _ _ => rfl) items s
  unfold Gen.FlexProg.calculate_layout_line calculateLayoutLine
  simp only [TieAxes.is_reverse_eq, TieAxes.main_start_eq]
  cases hr : k.dir.isReverse
  · simp only [Bool.false_eq_true, ↓reduceIte]
    refine Eq.trans (congrArg (fun x => Gen.Tree.Prog.bind x _) (hloop line.items _)) ?_
    simp only [toGen_bind, toGen_layoutItems, bind_assoc, toGen_pure, Gen.Tree.Prog.bind]
  · simp only [↓reduceIte]
    refine Eq.trans (congrArg (fun x => Gen.Tree.Prog.bind x _) (hloop line.items.reverse _)) ?_
    simp only [toGen_bind, toGen_layoutItems, bind_assoc, toGen_pure, Gen.Tree.Prog.bind]

/-- `FlexModel.layoutLines` keeping the final `total_offset_cross` -/
def layoutLinesS (k : AlgoConstants α) :
    List (FlexLineS α) → α × Size α → ProgM α (List (FlexLineS α) × (α × Size α))
  | [], s => pure ([], s)
  | line :: rest, s => do
    let r ← calculateLayoutLine k line s.1 s.2
    let r' ← layoutLinesS k rest r.2
    pure (r.1 :: r'.1, r'.2)

theorem toGen_layoutLines (k : AlgoConstants α) (lines : List (FlexLineS α)) (toc : α) (cs : Size α) :
    toGen (layoutLines k lines toc cs) = (toGen (layoutLinesS k lines (toc, cs))).bind (fun r => .ret (r.1, r.2.2)) := by
  induction lines generalizing toc cs with
  | nil => rfl
  | cons line rest ih =>
    rw [layoutLines, layoutLinesS]
    simp only [toGen_bind, bind_assoc]
    congr 1; funext r
    rw [ih]
    simp only [bind_assoc, toGen_pure, Gen.Tree.Prog.bind]

/-- **Tie, flexbox.rs `final_layout_pass`.**  The program generated from the source (the lines visited in order, or in reverse order
under `wrap-reverse`, each by `calculate_layout_line`; then the content size extended by the end insets) IS the model's
`FlexModel.finalLayoutPass`: the same `perform_child_layout` / `set_unrounded_layout` calls in the same order with the same inputs and
layouts, the same lines and content size. -/
theorem final_layout_pass_eq (k : AlgoConstants α) (lines : List (FlexLineS α)) :
    Gen.FlexProg.final_layout_pass lines k = toGen (finalLayoutPass k lines) := by
  have hstep : ∀ (s : α × Size α) (line : FlexLineS α),
      (Gen.FlexProg.calculate_layout_line line s.1 s.2 k.containerSize k.nodeInnerSize k.contentBoxInset k.dir).bind
          (fun r => Gen.Tree.Prog.ret (r.1, (r.2.1, r.2.2))) =
        toGen (calculateLayoutLine k line s.1 s.2) := by
    intro s line; rw [calculate_layout_line_eq]; exact bind_ret _
  have hloop := fun ls s => for_mut_state _ (fun s line => calculateLayoutLine k line s.1 s.2)
    (layoutLinesS k) hstep (fun _ => rfl) (fun _ _ _ => rfl) ls s
  unfold Gen.FlexProg.final_layout_pass finalLayoutPass
  simp only [TieAxes.cross_start_eq, TieLayout.size_ZERO_eq]
  cases hr : k.isWrapReverse
  · simp only [Bool.false_eq_true, ↓reduceIte]
    refine Eq.trans (congrArg (fun x => Gen.Tree.Prog.bind x _) (hloop lines _)) ?_
    simp only [toGen_bind, toGen_layoutLines, bind_assoc, toGen_pure, Gen.Tree.Prog.bind]
  · simp only [↓reduceIte]
    refine Eq.trans (congrArg (fun x => Gen.Tree.Prog.bind x _) (hloop lines.reverse _)) ?_
    simp only [toGen_bind, toGen_layoutLines, bind_assoc, toGen_pure, Gen.Tree.Prog.bind]

/-- concrete instance: no lines — the generated program returns at once with the end insets as content size -/
example (k : AlgoConstants α) (hw : k.isWrapReverse = false) :
    Gen.FlexProg.final_layout_pass [] k = .ret ([], ⟨(0 : α) + (k.contentBoxInset.right - k.border.right - k.scrollbarGutter.x),
      (0 : α) + (k.contentBoxInset.bottom - k.border.bottom - k.scrollbarGutter.y)⟩) := by
  rw [final_layout_pass_eq, finalLayoutPass, hw]; rfl

/-- concrete instance: `wrap-reverse` with two one-item lines — the generated program lays out the item of the LAST line first -/
example (k : AlgoConstants α) (hw : k.isWrapReverse = true) (a b : FlexItem α) (c1 o1 c2 o2 : α) :
    ∃ inp kont, Gen.FlexProg.final_layout_pass [⟨[a], c1, o1⟩, ⟨[b], c2, o2⟩] k = .compute_child_layout b.nodeIdx inp kont ∧
      inp.runMode = .performLayout := by
  rw [final_layout_pass_eq, finalLayoutPass, hw]
  cases hd : k.dir.isReverse <;>
    simp only [↓reduceIte, List.reverse_cons, List.reverse_nil, List.nil_append, List.cons_append, layoutLines, calculateLayoutLine,
      layoutItems, calculateFlexItem, hd, Bool.false_eq_true] <;>
    exact ⟨_, _, rfl, rfl⟩

/-! ### compute_preliminary: the hidden-children loop (the rest of `compute_preliminary` is not translated) -/

/-- **Tie, flexbox.rs `compute_preliminary`, the hidden-children loop** (partial: the rest of the function is not translated).  With the
children addressed `0 .. n` (`child_count node = n`, `get_child_id node i = i`) and `get_flexbox_child_style` read as `gs`, the program
generated from `let len = tree.child_count(node); for order in 0..len { … }` IS `BlockModel.hiddenLoop` on the child styles from order 0
(the loop `FlexModel.computePreliminary` ends with): for every `display: none` child one `perform_child_layout` with no constraints,
then `set_unrounded_layout(child, Layout::with_order(order))`. -/
theorem compute_preliminary_hidden_loop_eq (gs : Nat → Style α) (cc : Nat → Nat) (gid : Nat → Nat → Nat) (node n : Nat)
    (hcc : cc node = n) (hgid : ∀ i, gid node i = i) :
    Gen.FlexProg.compute_preliminary_hidden_loop cc gid gs node = toGen (BlockModel.hiddenLoop ((List.range n).map gs) 0) := by
  unfold Gen.FlexProg.compute_preliminary_hidden_loop
  simp only [hcc, hgid, TieStyle.box_generation_mode_none_eq, TieLayout.layout_with_order_eq, TieInput.line_false_eq,
    TieLayout.size_NONE_eq, TieInput.size_max_content_eq, TieLayoutTree.perform_child_layout_eq, Gen.Block.as_u32]
  rw [List.range_eq_range']
  refine Eq.trans (congrArg (fun x => Gen.Tree.Prog.bind x _) (for_fold_hidden gs _ ?_ n 0)) (bind_ret _)
  intro u i
  by_cases h : (gs i).isHidden = true <;> simp only [h, ↓reduceIte, Bool.false_eq_true] <;> rfl

/-- concrete instance: two children, the second `display: none` — the generated loop performs exactly the hidden layout of child 1 and
sets its layout to `with_order 1` -/
example (vis hid : Style α) (hv : vis.isHidden = false) (hh : hid.isHidden = true) :
    Gen.FlexProg.compute_preliminary_hidden_loop (fun _ => 2) (fun _ i => i) (fun i => if i = 1 then hid else vis) 0 =
      .compute_child_layout 1 { LayoutInput.hidden with runMode := .performLayout }
        (fun _ => .set_unrounded_layout 1 (Layout.withOrder 1) (fun _ => .ret ())) := by
  rw [compute_preliminary_hidden_loop_eq _ _ _ 0 2 rfl (fun _ => rfl)]
  simp only [List.range, List.range.loop, List.map, BlockModel.hiddenLoop, hv, hh, Nat.zero_ne_one,
    Bool.false_eq_true, ↓reduceIte]
  rfl

end TieFlexProg2
