/-
  Tie (tier T) for `LayoutInput::HIDDEN` (src/tree/layout.rs) with the constants it is built from (`Size::NONE`,
  `<Size<AvailableSpace> as TaffyMaxContent>::MAX_CONTENT` of src/style_helpers.rs / src/style/available_space.rs,
  `Line::FALSE` of src/geometry.rs).

  `Gen.LayoutTypes.LayoutInput.HIDDEN` is regenerated from the Rust source on every run; the theorem states that it IS the
  hand-written `LayoutInput.hidden` of Model/Prog.lean (the input `compute_hidden_layout` passes to every child), for every
  `[Num α]`.  `struct LayoutInput` and the enums `RunMode` / `SizingMode` / `RequestedAxis` are compared with the Lean types by
  the extractor (`check_adt`).
-/
import TaffyVerif.Generated.LayoutTypes
import TaffyVerif.Model.Prog

namespace TieInput
variable {α : Type} [Num α]

theorem layout_input_hidden_eq : Gen.LayoutTypes.LayoutInput.HIDDEN (α := α) = LayoutInput.hidden := rfl
theorem size_max_content_eq :
    Gen.AvailableSpace.Size.TaffyMaxContent_MAX_CONTENT (α := α) = ⟨.maxContent, .maxContent⟩ := rfl
theorem size_min_content_eq :
    Gen.AvailableSpace.Size.TaffyMinContent_MIN_CONTENT (α := α) = ⟨.minContent, .minContent⟩ := rfl
theorem line_false_eq : Gen.Geometry.Line.FALSE = ⟨false, false⟩ := rfl
theorem line_true_eq : Gen.Geometry.Line.TRUE = ⟨true, true⟩ := rfl

end TieInput
