/-
  Tie (tier T) for src/style/mod.rs (+ dimension.rs, block.rs, the constant traits of src/style_helpers.rs at the style lengths).

  `Gen.Style.*` is regenerated from the Rust source on every run; each theorem states that the generated definition IS the
  hand-written one of Model/Style.lean — for every argument and every `[Num α]`:

  * `default_eq`: `Style::DEFAULT` (translated field by field, the seven grid fields into `grid : GridExt α`) is
    `Style.default`; this pins every default of the model's style to the source;
  * `impl Overflow`;
  * the length constructors and constants (`LengthPercentage::length`, `Dimension::AUTO`, `Rect::zero()`, …) are the abstract
    constructors of `LP` / `LPA` (constructor side of the tag ↦ constructor convention; the extractor has compared
    `CompactLength::{length, percent, auto, ZERO, AUTO}` with the source first);
  * every getter of the style traits, as implemented for `Style`, is the plain field projection the models read
    (`box_generation_mode() == None` is `Style.isHidden`, `is_block()` is `Style.isBlock`).
  The struct `Style` and the enums are compared with the Lean types by the extractor (`check_adt`, `check_style_struct`).
-/
import TaffyVerif.Generated.Style

namespace TieStyle
variable {α : Type} [Num α]

/-! ### `Style::DEFAULT` -/
theorem default_eq : Gen.Style.Style.DEFAULT (α := α) = Style.default := rfl
theorem display_default_eq : Gen.Style.Display.DEFAULT = (Style.default (α := α)).display := rfl

/-! ### `impl Overflow` -/
theorem is_scroll_container_eq : Gen.Style.Overflow.is_scroll_container = Overflow.isScrollContainer := by
  funext o; cases o <;> rfl
theorem maybe_into_automatic_min_size_eq :
    Gen.Style.Overflow.maybe_into_automatic_min_size (α := α) = Overflow.maybeIntoAutomaticMinSize := by
  funext o; cases o <;> rfl

/-! ### length constructors and constants -/
theorem lp_length_eq : Gen.Style.LengthPercentage.length (α := α) = LP.length := rfl
theorem lp_percent_eq : Gen.Style.LengthPercentage.percent (α := α) = LP.percent := rfl
theorem lp_zero_eq : Gen.Style.LengthPercentage.TaffyZero_ZERO (α := α) = LP.length 0 := rfl
theorem lpa_length_eq : Gen.Style.LengthPercentageAuto.length (α := α) = LPA.length := rfl
theorem lpa_percent_eq : Gen.Style.LengthPercentageAuto.percent (α := α) = LPA.percent := rfl
theorem lpa_auto_eq : Gen.Style.LengthPercentageAuto.auto (α := α) = LPA.auto := rfl
theorem lpa_AUTO_eq : Gen.Style.LengthPercentageAuto.TaffyAuto_AUTO (α := α) = LPA.auto := rfl
theorem lpa_zero_eq : Gen.Style.LengthPercentageAuto.TaffyZero_ZERO (α := α) = LPA.length 0 := rfl
theorem dim_length_eq : Gen.Style.Dimension.length (α := α) = LPA.length := rfl
theorem dim_percent_eq : Gen.Style.Dimension.percent (α := α) = LPA.percent := rfl
theorem dim_auto_eq : Gen.Style.Dimension.auto (α := α) = LPA.auto := rfl
theorem dim_AUTO_eq : Gen.Style.Dimension.TaffyAuto_AUTO (α := α) = LPA.auto := rfl
theorem dim_zero_eq : Gen.Style.Dimension.TaffyZero_ZERO (α := α) = LPA.length 0 := rfl
theorem rect_lpa_auto_eq : Gen.Style.Rect_LengthPercentageAuto.auto (α := α) = ⟨.auto, .auto, .auto, .auto⟩ := rfl
theorem rect_lpa_zero_eq :
    Gen.Style.Rect_LengthPercentageAuto.zero (α := α) = ⟨.length 0, .length 0, .length 0, .length 0⟩ := rfl
theorem rect_lp_zero_eq :
    Gen.Style.Rect_LengthPercentage.zero (α := α) = ⟨.length 0, .length 0, .length 0, .length 0⟩ := rfl
theorem size_dim_auto_eq : Gen.Style.Size_Dimension.auto (α := α) = ⟨.auto, .auto⟩ := rfl
theorem size_lp_zero_eq : Gen.Style.Size_LengthPercentage.zero (α := α) = ⟨.length 0, .length 0⟩ := rfl

/-! ### the style traits as implemented for `Style` -/
/-- `style.box_generation_mode() == BoxGenerationMode::None` is the model's `Style.isHidden` -/
theorem box_generation_mode_none_eq (s : Style α) :
    (Gen.Style.CoreStyle.box_generation_mode s == Gen.Style.BoxGenerationMode.none) = s.isHidden := by
  unfold Gen.Style.CoreStyle.box_generation_mode Style.isHidden
  cases s.display <;> rfl
theorem box_generation_mode_default_eq : Gen.Style.BoxGenerationMode.DEFAULT = Gen.Style.BoxGenerationMode.normal := rfl
theorem is_block_eq : Gen.Style.CoreStyle.is_block (α := α) = Style.isBlock := by
  funext s
  unfold Gen.Style.CoreStyle.is_block Style.isBlock
  cases s.display <;> rfl
theorem is_compressible_replaced_eq : Gen.Style.CoreStyle.is_compressible_replaced (α := α) = (·.itemIsReplaced) := rfl
theorem box_sizing_eq : Gen.Style.CoreStyle.box_sizing (α := α) = (·.boxSizing) := rfl
theorem overflow_eq : Gen.Style.CoreStyle.overflow (α := α) = (·.overflow) := rfl
theorem scrollbar_width_eq : Gen.Style.CoreStyle.scrollbar_width (α := α) = (·.scrollbarWidth) := rfl
theorem position_eq : Gen.Style.CoreStyle.position (α := α) = (·.position) := rfl
theorem inset_eq : Gen.Style.CoreStyle.inset (α := α) = (·.inset) := rfl
theorem size_eq : Gen.Style.CoreStyle.size (α := α) = (·.size) := rfl
theorem min_size_eq : Gen.Style.CoreStyle.min_size (α := α) = (·.minSize) := rfl
theorem max_size_eq : Gen.Style.CoreStyle.max_size (α := α) = (·.maxSize) := rfl
theorem aspect_ratio_eq : Gen.Style.CoreStyle.aspect_ratio (α := α) = (·.aspectRatio) := rfl
theorem margin_eq : Gen.Style.CoreStyle.margin (α := α) = (·.margin) := rfl
theorem padding_eq : Gen.Style.CoreStyle.padding (α := α) = (·.padding) := rfl
theorem border_eq : Gen.Style.CoreStyle.border (α := α) = (·.border) := rfl
theorem text_align_eq : Gen.Style.BlockContainerStyle.text_align (α := α) = (·.textAlign) := rfl
theorem is_table_eq : Gen.Style.BlockItemStyle.is_table (α := α) = (·.itemIsTable) := rfl
theorem flex_direction_eq : Gen.Style.FlexboxContainerStyle.flex_direction (α := α) = (·.flexDirection) := rfl
theorem flex_wrap_eq : Gen.Style.FlexboxContainerStyle.flex_wrap (α := α) = (·.flexWrap) := rfl
theorem flex_gap_eq : Gen.Style.FlexboxContainerStyle.gap (α := α) = (·.gap) := rfl
theorem flex_align_content_eq : Gen.Style.FlexboxContainerStyle.align_content (α := α) = (·.alignContent) := rfl
theorem flex_align_items_eq : Gen.Style.FlexboxContainerStyle.align_items (α := α) = (·.alignItems) := rfl
theorem flex_justify_content_eq : Gen.Style.FlexboxContainerStyle.justify_content (α := α) = (·.justifyContent) := rfl
theorem flex_basis_eq : Gen.Style.FlexboxItemStyle.flex_basis (α := α) = (·.flexBasis) := rfl
theorem flex_grow_eq : Gen.Style.FlexboxItemStyle.flex_grow (α := α) = (·.flexGrow) := rfl
theorem flex_shrink_eq : Gen.Style.FlexboxItemStyle.flex_shrink (α := α) = (·.flexShrink) := rfl
theorem flex_align_self_eq : Gen.Style.FlexboxItemStyle.align_self (α := α) = (·.alignSelf) := rfl
theorem grid_gap_eq : Gen.Style.GridContainerStyle.gap (α := α) = (·.gap) := rfl
theorem grid_align_content_eq : Gen.Style.GridContainerStyle.align_content (α := α) = (·.alignContent) := rfl
theorem grid_justify_content_eq : Gen.Style.GridContainerStyle.justify_content (α := α) = (·.justifyContent) := rfl
theorem grid_align_items_eq : Gen.Style.GridContainerStyle.align_items (α := α) = (·.alignItems) := rfl
theorem grid_justify_items_eq : Gen.Style.GridContainerStyle.justify_items (α := α) = (·.justifyItems) := rfl
theorem grid_align_self_eq : Gen.Style.GridItemStyle.align_self (α := α) = (·.alignSelf) := rfl
theorem grid_justify_self_eq : Gen.Style.GridItemStyle.justify_self (α := α) = (·.justifySelf) := rfl

end TieStyle
