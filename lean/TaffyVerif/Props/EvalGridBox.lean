/-
  C12 for the grid algorithm: `BoxSizingModel.ContainerBlind` — the last named hypothesis of `C12.tree_equiv` —
  discharged for the whole of src/compute/grid (`GridModel.gridAlg` = `compute_grid_layout`, Model/Grid.lean,
  GridItem.lean, GridSizing.lean), at `Rat`; with block (Props/C12.lean) and flexbox (Props/EvalFlexBox.lean) the tree
  theorem now holds for ALL trees with no hypothesis left.

  A grid container or grid item with `box-sizing: content-box`, lengths (or `auto`) for size / min-size / max-size,
  length-valued padding and border and no aspect ratio (`Eligible`) gives the SAME interaction program — same child
  queries in the same order, same layouts set, same output for all child answers, same panics — as the node with
  `box-sizing: border-box` and each of those lengths increased by the node's padding+border on that axis.
  The conversion sites of the grid code, all inside the whole program:
      own style    compute_grid_layout (min/max/preferred size)       compute_explicit_grid_size_in_axis (only whether
                   `size`/`max_size` are definite: the auto-repeat count does not see the rewriting)
      child style  GridItem::new (raw copies)   →   GridItem::known_dimensions (size/min/max)
                   GridItem::minimum_contribution (size/min; the cap of compressible replaced items: size/max — the
                   site repaired by the fix commit, grid_item.rs l.517–522, now equivalent)
                   align_and_position_item (size/min/max) for in-flow AND absolutely positioned children
  The model carries the REPAIRED cap (`MaybeMath.of_add … (sget adj axis)` in `GItem.minimumContribution`);
  `C12.grid_compressible_cap_site_not_equiv` remains the witness against the unrepaired code.

  Method: Lemmas/GridBoxRel.lean (program relation `PRel`/`GRel`), GridBoxItem.lean (the item transformation `phi`),
  GridBoxItemProg.lean, GridBoxSizing1–5.lean (track sizing respects `phi`), GridBoxStages.lean (the program cut into
  stages, `rfl`), GridBoxTop1–2.lean (`computeGridLayoutE_rel`), GridBoxSites.lean (the sites at `Rat`).
-/
import TaffyVerif.Lemmas.GridBoxSites
import TaffyVerif.Lemmas.GridBoxKernel
import TaffyVerif.Props.EvalFlexBox

set_option linter.unusedSectionVars false

namespace C12Grid
open BoxSizingModel Eval C12L GridModel GridRel FlexModel

abbrev ContainerAlg := Style Rat → List (Style Rat) → LayoutInput Rat → ProgM Rat (LayoutOutput Rat)

/-! ### sites inside the whole program -/

/-- **grid_container_site_equiv** (`compute_grid_layout` step 1 + `compute_explicit_grid_size_in_axis`): the container's
own style switched gives the same interaction program -/
theorem grid_container_site_equiv (s : Style Rat) (h : Eligible s) (m : Bool) (cs : List (Style Rat))
    (inp : LayoutInput Rat) : gridAlg s cs inp = gridAlg (toBorderBox m s) cs inp :=
  gridContainer_site h m cs inp

/-- **grid_item_site_equiv** (`GridItem::new`, `known_dimensions`, `minimum_contribution`, `align_and_position_item`
for in-flow and absolutely positioned children, the hidden loop): any subset of eligible child styles switched gives
the same interaction program (the flex-basis axis `m` is immaterial: grid never reads `flex_basis`) -/
theorem grid_item_site_equiv (s : Style Rat) (m : Bool) (cs cs' : List (Style Rat)) (hr : StylesRel m cs cs')
    (inp : LayoutInput Rat) : gridAlg s cs inp = gridAlg s cs' inp :=
  gridItems_site s cs cs' hr inp

/-- the per-site facts, each for an arbitrary state of the algorithm: the item built from the border-box description
is `bumpItem` of the item built from the content-box style, and for every eligible item (whatever its caches, indexes,
baseline shims) the three reads agree — `known_dimensions`, the style-given minimum of `minimum_contribution`, and the
REPAIRED cap of compressible replaced items; the container's step 1 and the positioning of a child agree -/
theorem grid_sites (c : Style Rat) (h : Eligible c) (m : Bool) :
    (∀ i col row ai ji, GItem.new i col row (toBorderBox m c) ai ji i = bumpItem (GItem.new i col row c ai ji i)) ∧
    (∀ i col row ai ji, itemElig (GItem.new i col row c ai ji i) = true) ∧
    (∀ (it : GItem Rat), itemElig it = true →
      (∀ ins gas, (bumpItem it).knownDimensions ins gas = it.knownDimensions ins gas) ∧
      (∀ ax ins, mcFromStyle (bumpItem it) ax ins = mcFromStyle it ax ins) ∧
      (∀ ax ins mc, mcCap (bumpItem it).size (bumpItem it).maxSize (mcAdj (bumpItem it) ins) ax mc =
        mcCap it.size it.maxSize (mcAdj it ins) ax mc)) ∧
    (∀ inp, mkCtx (toBorderBox m c) inp = mkCtx c inp) ∧
    (∀ i order area ji ai shim, alignAndPositionItem i (toBorderBox m c) order area ji ai shim =
      alignAndPositionItem i c order area ji ai shim) :=
  ⟨fun i col row ai ji => itemNew_tbb h i col row ai ji, fun i col row ai ji => itemNew_elig h i col row ai ji,
   fun it he => ⟨fun ins gas => knownDimensions_bump he ins gas, fun ax ins => mcFromStyle_bump he ax ins,
     fun ax ins mc => mcCap_bump he (StaticEq.refl it) ax ins mc⟩,
   fun inp => mkCtx_tbb h inp, fun i order area ji ai shim => alignAndPositionItem_tbb h i order area ji ai shim⟩

/-- **grid_ContainerBlind**: `compute_grid_layout` is blind to the rewriting of its own style and of any subset of
child styles -/
theorem grid_ContainerBlind : ContainerBlind (gridAlg (α := Rat)) := grid_containerBlind

/-! ### the tree: no hypothesis left -/

/-- the evaluator's algorithms, all four modelled -/
abbrev allAlgs : Algs Rat := algsWith computeFlexboxLayout gridAlg

/-- **boxBlind_all**: `BoxBlind` for the modelled leaf, block, flexbox and grid algorithms -/
theorem boxBlind_all : BoxBlind allAlgs :=
  C12.boxBlind_modelled _ _ flex_containerBlind grid_containerBlind

/-- **tree_equiv_all_trees** (unconditional): two `BoxRel`-related trees — of leaves, block, flexbox and grid containers,
nested in any way — are evaluated identically (same output, same node states: caches and unrounded layouts of every
node), for every cache implementation, every dispatch, every fuel, every state and every input (so also for every
sequence of evaluations) -/
theorem tree_equiv_all_trees {C : Type} (ci : CacheImpl Rat C) (sel : Display → Bool → Option Gen.Facts.Callee)
    (fuel : Nat) (m : Bool) (tA tB : STree Rat) (hr : BoxRel m tA tB) (ns : NS Rat C) (inp : LayoutInput Rat) :
    evalNodeWith ci sel allAlgs fuel tA ns inp = evalNodeWith ci sel allAlgs fuel tB ns inp :=
  C12.tree_equiv ci sel _ boxBlind_all fuel m tA tB hr ns inp

/-- with `TaffyTree`'s own dispatch -/
theorem tree_equiv_all_trees_dispatch {C : Type} (ci : CacheImpl Rat C) (fuel : Nat) (m : Bool) (tA tB : STree Rat)
    (hr : BoxRel m tA tB) (ns : NS Rat C) (inp : LayoutInput Rat) :
    evalNode ci allAlgs fuel tA ns inp = evalNode ci allAlgs fuel tB ns inp :=
  tree_equiv_all_trees ci _ fuel m tA tB hr ns inp

/-- **tree_equiv_root_all_trees**: `compute_root_layout` on freshly built related trees with `TaffyTree`'s own
dispatch: the root is given the same input, the evaluation returns the same output and leaves the same states, and the
root's own `Layout` is the same -/
theorem tree_equiv_root_all_trees {C : Type} (ci : CacheImpl Rat C) (fuel : Nat) (m : Bool) (tA tB : STree Rat)
    (hr : BoxRel m tA tB) (av : Size (AvailableSpace Rat)) :
    evalNode ci allAlgs fuel tA (NS.init ci tA) (RootModel.rootInput tA.style av)
      = evalNode ci allAlgs fuel tB (NS.init ci tB) (RootModel.rootInput tB.style av)
    ∧ ∀ out, RootModel.rootLayout tA.style av out = RootModel.rootLayout tB.style av out :=
  C12.tree_equiv_root ci allAlgs boxBlind_all fuel m tA tB hr av

/-! ### non-vacuity -/

section examples

/-- a content-box grid container: `width: 200; min-height: 50`, padding 4/4/2/2, border 1, gap 5,
`grid-template-columns: 40px auto 1fr`, `grid-auto-rows: auto` -/
def exGrid : Style Rat :=
  { (Style.default : Style Rat) with
    display := .grid, boxSizing := .contentBox, size := ⟨.length 200, .auto⟩, minSize := ⟨.auto, .length 50⟩,
    padding := ⟨.length 4, .length 4, .length 2, .length 2⟩, border := ⟨.length 1, .length 1, .length 1, .length 1⟩,
    gap := ⟨.length 5, .length 5⟩,
    grid := { templateColumns := [.single ⟨.length 40, .length 40⟩, .single ⟨.auto, .auto⟩, .single ⟨.auto, .fr 1⟩],
              autoRows := [⟨.auto, .auto⟩] } }
/-- a content-box grid item: `width: 30; min-width: 10; max-height: 30`, padding 3/5/2/2, border 1 -/
def exItem : Style Rat :=
  { (Style.default : Style Rat) with
    display := .block, boxSizing := .contentBox, size := ⟨.length 30, .auto⟩, minSize := ⟨.length 10, .auto⟩,
    maxSize := ⟨.auto, .length 30⟩,
    padding := ⟨.length 3, .length 5, .length 2, .length 2⟩,
    border := ⟨.length 1, .length 1, .length 1, .length 1⟩ }
/-- a compressible replaced item with `max-width: 60` content-box, padding 5 + border 1 left and right: the repaired
site (its automatic minimum is capped at 60 + 12) -/
def exReplaced : Style Rat :=
  { (Style.default : Style Rat) with
    display := .block, boxSizing := .contentBox, itemIsReplaced := true, maxSize := ⟨.length 60, .auto⟩,
    padding := ⟨.length 5, .length 5, .length 0, .length 0⟩, border := ⟨.length 1, .length 1, .length 0, .length 0⟩ }
/-- an absolutely positioned content-box child with explicit grid lines -/
def exAbs : Style Rat :=
  { exItem with position := .absolute, inset := ⟨.length 1, .auto, .length 2, .auto⟩,
                grid := { row := ⟨.line 1, .line 2⟩, column := ⟨.line 2, .auto⟩ } }
def exPlain : Style Rat := { (Style.default : Style Rat) with display := .block }

example : Eligible exGrid ∧ Eligible exItem ∧ Eligible exReplaced ∧ Eligible exAbs := by decide

/-- the border-box descriptions: every length grows by the padding+border of its axis; the grid fields are untouched -/
example : (toBorderBox true exGrid).size = ⟨.length 210, .auto⟩ ∧ (toBorderBox true exGrid).minSize = ⟨.auto, .length 56⟩ ∧
    (toBorderBox true exGrid).grid = exGrid.grid ∧ (toBorderBox true exReplaced).maxSize = ⟨.length 72, .auto⟩ ∧
    (toBorderBox true exItem).size = ⟨.length 40, .auto⟩ ∧ (toBorderBox true exItem).maxSize = ⟨.auto, .length 36⟩ := by
  decide +kernel

/-- the container and three of its four children switched: the same program -/
example (inp : LayoutInput Rat) :
    gridAlg exGrid [exItem, exReplaced, exPlain, exAbs] inp =
      gridAlg (toBorderBox false exGrid)
        [toBorderBox true exItem, toBorderBox true exReplaced, exPlain, toBorderBox true exAbs] inp :=
  grid_containerBlind.both (m := false) (sA := exGrid) (sB := toBorderBox false exGrid)
    (cs := [exItem, exReplaced, exPlain, exAbs])
    (cs' := [toBorderBox true exItem, toBorderBox true exReplaced, exPlain, toBorderBox true exAbs])
    (Or.inr ⟨by decide, rfl⟩)
    ⟨Or.inr ⟨by decide, rfl⟩, Or.inr ⟨by decide, rfl⟩, Or.inl rfl, Or.inr ⟨by decide, rfl⟩, trivial⟩ inp

/-- trees: a grid root with a content-box leaf, a content-box replaced leaf, a nested content-box flex container with
a content-box leaf, and an absolutely positioned content-box leaf with explicit grid lines -/
def exFlex : Style Rat :=
  { exItem with display := .flex, size := ⟨.auto, .length 20⟩, maxSize := ⟨.auto, .auto⟩ }
def treeA : STree Rat :=
  .node exGrid none [.node exItem (some (.wrap 120 10)) [], .node exReplaced (some (.fixed 200 10)) [],
    .node exFlex none [.node exItem (some (.fixed 7 9)) []], .node exAbs none []]
def treeB : STree Rat :=
  .node (toBorderBox true exGrid) none
    [.node (toBorderBox true exItem) (some (.wrap 120 10)) [],
     .node (toBorderBox true exReplaced) (some (.fixed 200 10)) [],
     .node (toBorderBox true exFlex) none [.node (toBorderBox true exItem) (some (.fixed 7 9)) []],
     .node (toBorderBox true exAbs) none []]

theorem treeAB_rel : BoxRel true treeA treeB := by
  simp only [treeA, treeB, BoxRel, BoxRelList, and_true, true_and]
  refine ⟨Or.inr ⟨by decide, rfl⟩, Or.inr ⟨by decide, rfl⟩, Or.inr ⟨by decide, rfl⟩,
    ⟨Or.inr ⟨by decide, rfl⟩, ?_⟩, Or.inr ⟨by decide, rfl⟩⟩
  exact Or.inr ⟨by decide, rfl⟩

example (av : Size (AvailableSpace Rat)) :
    evalNode realCache allAlgs 4 treeA (NS.init realCache treeA) (RootModel.rootInput treeA.style av) =
      evalNode realCache allAlgs 4 treeB (NS.init realCache treeB) (RootModel.rootInput treeB.style av) :=
  (tree_equiv_root_all_trees realCache 4 true treeA treeB treeAB_rel av).1

/-- the same algorithms in kernel-evaluable form (`GridKernel.gridAlgK_eq`) -/
abbrev allAlgsK : Algs Rat := algsWith computeFlexboxLayout GridKernel.gridAlgK

theorem allAlgsK_eq : allAlgsK = allAlgs := by
  unfold allAlgsK allAlgs
  rw [GridKernel.gridAlgK_eq]

def kidBoxes (r : LayoutOutput Rat × NS Rat Unit) : Size Rat × List (Point Rat × Size Rat) :=
  (r.1.size, r.2.kids.map fun n => (n.layout.location, n.layout.size))

/-- what both evaluate to, under a 300-wide definite constraint: the content-box root `width: 200` + padding/border 10
is 210 wide; the first column 40; the replaced item capped at 60 + 12 = 72 (the repaired site); the flex container in
the `1fr` column; the absolutely positioned child in the area of column line 2 -/
example : kidBoxes (evalNode noCache allAlgs 4 treeA (NS.init noCache treeA)
      (RootModel.rootInput treeA.style ⟨.definite 300, .maxContent⟩)) =
    (⟨210, 62⟩, [(⟨5, 3⟩, ⟨40, 36⟩), (⟨50, 3⟩, ⟨72, 56⟩), (⟨127, 3⟩, ⟨78, 26⟩), (⟨46, 5⟩, ⟨40, 6⟩)]) := by
  rw [← allAlgsK_eq]
  decide +kernel
example : kidBoxes (evalNode noCache allAlgs 4 treeB (NS.init noCache treeB)
      (RootModel.rootInput treeB.style ⟨.definite 300, .maxContent⟩)) =
    (⟨210, 62⟩, [(⟨5, 3⟩, ⟨40, 36⟩), (⟨50, 3⟩, ⟨72, 56⟩), (⟨127, 3⟩, ⟨78, 26⟩), (⟨46, 5⟩, ⟨40, 6⟩)]) := by
  rw [← allAlgsK_eq]
  decide +kernel

end examples

end C12Grid

/-
  Obligations to audit (`#print axioms`; all depend on [propext, Classical.choice, Quot.sound] at most):
  EVALGRID_C12 = [
    "C12Grid.grid_container_site_equiv", "C12Grid.grid_item_site_equiv", "C12Grid.grid_sites",
    "C12Grid.grid_ContainerBlind", "C12Grid.boxBlind_all", "C12Grid.tree_equiv_all_trees",
    "C12Grid.tree_equiv_all_trees_dispatch", "C12Grid.tree_equiv_root_all_trees", "C12Grid.treeAB_rel",
    "C12Grid.allAlgsK_eq",
    "C12L.grid_containerBlind", "C12L.readers_rat", "C12L.mcCap_bump", "C12L.knownDimensions_bump", "C12L.mkCtx_tbb",
    "GridRel.computeGridLayoutE_rel", "GridStages.computeGridLayoutE_eq", "GridKernel.gridAlgK_eq",
  ]
-/
