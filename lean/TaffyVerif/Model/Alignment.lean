/-
  Track alignment (src/compute/grid/alignment.rs `align_tracks`, src/compute/common/alignment.rs
  `apply_alignment_fallback`, `compute_alignment_offset`).  No Mathlib.
-/
import TaffyVerif.Model.GridTracksInit

namespace GridTracks
variable {α : Type} [Num α]

/-- `apply_alignment_fallback` -/
def applyAlignmentFallback (freeSpace : α) (numItems : Nat) (mode : AlignContent) (isSafe : Bool) : AlignContent :=
  let (mode, isSafe) :=
    if numItems ≤ 1 || Num.fle freeSpace 0 then
      match mode with
      | .stretch => (AlignContent.flexStart, true)
      | .spaceBetween => (AlignContent.flexStart, true)
      | .spaceAround => (AlignContent.center, true)
      | .spaceEvenly => (AlignContent.center, true)
      | m => (m, isSafe)
    else (mode, isSafe)
  if Num.fle freeSpace 0 && isSafe then .start else mode

/-- `compute_alignment_offset` -/
def computeAlignmentOffset (freeSpace : α) (numItems : Nat) (gap : α) (mode : AlignContent) (reversed isFirst : Bool) :
    α :=
  if isFirst then
    match mode with
    | .start => 0
    | .flexStart => if reversed then freeSpace else 0
    | .end => freeSpace
    | .flexEnd => if reversed then 0 else freeSpace
    | .center => freeSpace / Num.two
    | .stretch => 0
    | .spaceBetween => 0
    | .spaceAround =>
      if Num.fge freeSpace 0 then (freeSpace / Num.ofNat numItems) / Num.two else freeSpace / Num.two
    | .spaceEvenly =>
      if Num.fge freeSpace 0 then freeSpace / Num.ofNat (numItems + 1) else freeSpace / Num.two
  else
    let freeSpace := Num.fmax freeSpace 0
    gap + (match mode with
      | .spaceBetween => freeSpace / Num.ofNat (numItems - 1)
      | .spaceAround => freeSpace / Num.ofNat numItems
      | .spaceEvenly => freeSpace / Num.ofNat (numItems + 1)
      | _ => 0)

/-- the `for_each` over the tracks: `(i, total_offset)` threaded through -/
def alignLoop (freeSpace : α) (numTracks : Nat) (mode : AlignContent) :
    List (GridTrack α) → Nat → α → List (GridTrack α)
  | [], _, _ => []
  | t :: rest, i, total =>
    let isGutter := i % 2 == 0
    let isFirst := i == 1
    let offset : α := if isGutter then 0 else computeAlignmentOffset freeSpace numTracks 0 mode false isFirst
    { t with offset := total + offset } :: alignLoop freeSpace numTracks mode rest (i + 1) (total + offset + t.baseSize)

/-- `align_tracks` (`origin = padding.start + border.start`) -/
def alignTracks (contentBoxSize paddingStart borderStart : α) (tracks : List (GridTrack α)) (style : AlignContent) :
    List (GridTrack α) :=
  let used : α := sumF (tracks.map (·.baseSize))
  let freeSpace := contentBoxSize - used
  let origin := paddingStart + borderStart
  -- non-collapsed tracks at the odd positions
  let numTracks := ((tracks.zipIdx.filter fun (t, i) => i % 2 == 1 && !t.isCollapsed)).length
  let mode := applyAlignmentFallback freeSpace numTracks style false
  alignLoop freeSpace numTracks mode tracks 0 origin

end GridTracks
