/-
  The tree-level evaluator (Model/Eval.lean) instantiated with the concrete, fully modelled algorithms:
    * leaf  := `LeafModel.computeLeafLayout`   (Model/Leaf.lean  = src/compute/leaf.rs)
    * block := `BlockModel.computeBlockLayout` (Model/Block.lean = src/compute/block.rs)
  Flexbox and grid are not modelled as complete interaction programs; they stay parameters.

  `compute_leaf_layout` panics (`unreachable!()`) only in `RunMode::PerformHiddenLayout`, which the evaluator never
  passes to an algorithm (`evalNodeWith` answers hidden-mode inputs itself); the `.error` arm of the wrapper is
  therefore never taken from the evaluator and is mapped to `LayoutOutput.hidden`.
-/
import TaffyVerif.Model.Eval
import TaffyVerif.Model.Leaf
import TaffyVerif.Model.Block

namespace EvalConcrete
variable {α : Type} [Num α]

/-- `compute_leaf_layout` as the evaluator's leaf algorithm (result only; the trace of measure calls is dropped) -/
def leafAlg (inp : LayoutInput α) (style : Style α)
    (measure : Size (Option α) → Size (AvailableSpace α) → Size α) : LayoutOutput α :=
  match LeafModel.computeLeafLayout inp style measure with
  | .ok (o, _) => o
  | .error _ => LayoutOutput.hidden

/-- the evaluator's algorithms with the concrete leaf and block models; flexbox and grid are parameters -/
def algs (flex grid : Style α → List (Style α) → LayoutInput α → ProgM α (LayoutOutput α)) : Eval.Algs α where
  leaf := leafAlg
  block := BlockModel.computeBlockLayout
  flex := flex
  grid := grid

/-- flexbox/grid stand-in that touches no child (used where a tree contains no flex/grid container with children) -/
def idle : Style α → List (Style α) → LayoutInput α → ProgM α (LayoutOutput α) :=
  fun _ _ _ => .pure LayoutOutput.hidden

end EvalConcrete
