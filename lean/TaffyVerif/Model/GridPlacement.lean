/-
  Model of taffy's grid item placement (CSS Grid §8.5), following the Rust line by line:

    src/compute/grid/placement.rs            place_grid_items and its phases, record_grid_placement
    src/compute/grid/implicit_grid.rs        compute_grid_size_estimate, get_known_child_positions,
                                             child_min_line_max_line_span
    src/compute/grid/types/cell_occupancy.rs CellOccupancyMatrix
    src/compute/grid/types/coordinates.rs    GridLine / OriginZeroLine conversions and arithmetic
    src/compute/grid/types/grid_track_counts.rs  TrackCounts
    src/style/grid.rs                        GridPlacement, Line<…> resolution functions, GridAutoFlow
    grid-0.16 `Grid`                         row-major vector, bounds-checked `get`/`get_mut`, `from_vec`, `iter_row/col`

  Numbers.  Every coordinate and count is an `Int`.  Each machine-integer operation of the Rust is a *checked*
  operation into `Outcome`:
    * i16/u16/usize arithmetic (`+ - * +=`) → `.overflow` when the exact result leaves the type.  A debug build (and the
      harness build, which switches overflow checks on for the taffy crate) panics there; a release build wraps.
    * `as` casts (`u16 as i16`, `i16 as u16`, `i16 as usize`, `usize as i16`, `usize as u16`) → `.overflow` when the cast
      would change the value.  Rust never panics on a cast — it wraps silently in *both* builds — so the model is
      deliberately stricter here: a run that ends in `.ok` performed no lossy cast at all.  The single exception is the
      cell lookup `inner.get(x as usize, y as usize)` of `track_area_is_unoccupied`, where a negative index wraps to a
      huge one and the bounds check of `Grid::get` turns it into `None` ("out of range counts as unoccupied"): that is
      modelled as exactly this `none`.
    * `panic!`, `unwrap()` on `None`, `assert!` (into_origin_zero_line on line 0, resolve_* on the wrong kind of
      placement, `get_mut(..).unwrap()`, `Grid::iter_row/iter_col`, `Grid::from_vec`) → `.panic msg`.
    * the three search loops take `fuel`; running out is `.outOfFuel` (Props/C03Grid proves a sufficient fuel).
  No Mathlib.
-/
import TaffyVerif.Model.GridTypes

namespace GridPlacement

/-! ### outcomes -/

inductive Outcome (α : Type) where
  | ok (a : α)
  | panic (msg : String)
  | overflow
  | outOfFuel
deriving Repr, BEq, DecidableEq

namespace Outcome
@[inline] def bind {α β : Type} (x : Outcome α) (f : α → Outcome β) : Outcome β :=
  match x with
  | .ok a => f a
  | .panic m => .panic m
  | .overflow => .overflow
  | .outOfFuel => .outOfFuel

instance : Monad Outcome where
  pure := .ok
  bind := Outcome.bind

def isOk {α : Type} : Outcome α → Bool
  | .ok _ => true
  | _ => false
end Outcome

open Outcome

/-! ### machine integers -/

def i16Min : Int := -32768
def i16Max : Int := 32767
def u16Max : Int := 65535
def usizeMax : Int := 18446744073709551615

/-- result of an i16 operation / target of a cast to i16 -/
def i16 (x : Int) : Outcome Int := if i16Min ≤ x ∧ x ≤ i16Max then .ok x else .overflow
/-- result of a u16 operation / target of a cast to u16 -/
def u16 (x : Int) : Outcome Int := if 0 ≤ x ∧ x ≤ u16Max then .ok x else .overflow
/-- result of a usize operation / target of a cast to usize -/
def usize (x : Int) : Outcome Int := if 0 ≤ x ∧ x ≤ usizeMax then .ok x else .overflow

/-! ### style/grid.rs -/

inductive Axis where
  | horizontal | vertical
deriving Repr, BEq, DecidableEq, Inhabited

def Axis.other : Axis → Axis
  | .horizontal => .vertical
  | .vertical => .horizontal

def AutoFlow.isDense : AutoFlow → Bool
  | .row | .column => false
  | .rowDense | .columnDense => true

def AutoFlow.primaryAxis : AutoFlow → Axis
  | .row | .rowDense => .horizontal
  | .column | .columnDense => .vertical

/-! ### coordinates.rs -/

/-- `GridLine::into_origin_zero_line` -/
def intoOriginZeroLine (line : Int) (explicitTrackCount : Int) : Outcome Int := do
  let explicitLineCount ← u16 (explicitTrackCount + 1)
  if line > 0 then i16 (line - 1)
  else if line < 0 then do
    let c ← i16 explicitLineCount      -- `explicit_line_count as i16`
    i16 (line + c)
  else .panic "Grid line of zero is invalid"

/-- `OriginZeroLine + u16` (`self.0 + rhs as i16`) -/
def ozAdd (l : Int) (n : Int) : Outcome Int := do
  let r ← i16 n
  i16 (l + r)

/-- `OriginZeroLine - u16` -/
def ozSub (l : Int) (n : Int) : Outcome Int := do
  let r ← i16 n
  i16 (l - r)

/-- `OriginZeroLine::implied_negative_implicit_tracks` (`unsigned_abs` cannot overflow) -/
def impliedNegativeImplicitTracks (l : Int) : Int := if l < 0 then -l else 0

/-- `OriginZeroLine::implied_positive_implicit_tracks` -/
def impliedPositiveImplicitTracks (l : Int) (explicitTrackCount : Int) : Outcome Int := do
  let e ← i16 explicitTrackCount       -- `explicit_track_count as i16`
  if l > e then do
    let lu ← u16 l                     -- `self.0 as u16`
    u16 (lu - explicitTrackCount)
  else pure 0

/-! ### style/grid.rs: placements -/

/-- `GridPlacement::into_origin_zero_placement` -/
def intoOriginZeroPlacement (p : Placement) (explicitTrackCount : Int) : Outcome Placement :=
  match p with
  | .auto => pure .auto
  | .span s => pure (.span (max s 1))
  | .line l => if l = 0 then pure .auto else do
      let oz ← intoOriginZeroLine l explicitTrackCount
      pure (.line oz)

/-- `Line<GridPlacement>::into_origin_zero` -/
def intoOriginZero (l : Line Placement) (explicitTrackCount : Int) : Outcome (Line Placement) := do
  let s ← intoOriginZeroPlacement l.start explicitTrackCount
  let e ← intoOriginZeroPlacement l.«end» explicitTrackCount
  pure ⟨s, e⟩

/-- `Line<GenericGridPlacement<T>>::indefinite_span` -/
def indefiniteSpan (l : Line Placement) : Outcome Int :=
  match l.start, l.«end» with
  | .line _, .auto => pure 1
  | .auto, .line _ => pure 1
  | .auto, .auto => pure 1
  | .line _, .span s => pure s
  | .span s, .line _ => pure s
  | .span s, .auto => pure s
  | .auto, .span s => pure s
  | .span s, .span _ => pure s
  | .line _, .line _ => .panic "indefinite_span should only be called on indefinite grid tracks"

def isNonzeroLine : Placement → Bool
  | .line n => n != 0
  | _ => false

/-- `Line<GridPlacement>::is_definite` (CSS coordinates: line 0 does not count) -/
def isDefiniteRaw (l : Line Placement) : Bool := isNonzeroLine l.start || isNonzeroLine l.«end»

/-- `Line<OriginZeroGridPlacement>::is_definite` -/
def isDefiniteOz (l : Line Placement) : Bool :=
  match l.start, l.«end» with
  | .line _, _ => true
  | _, .line _ => true
  | _, _ => false

/-- `Line<OriginZeroGridPlacement>::resolve_definite_grid_lines` -/
def resolveDefiniteGridLines (l : Line Placement) : Outcome (Line Int) :=
  match l.start, l.«end» with
  | .line l1, .line l2 =>
    if l1 = l2 then do let e ← ozAdd l1 1; pure ⟨l1, e⟩
    else pure ⟨min l1 l2, max l1 l2⟩
  | .line l1, .span s => do let e ← ozAdd l1 s; pure ⟨l1, e⟩
  | .line l1, .auto => do let e ← ozAdd l1 1; pure ⟨l1, e⟩
  | .span s, .line l2 => do let st ← ozSub l2 s; pure ⟨st, l2⟩
  | .auto, .line l2 => do let st ← ozSub l2 1; pure ⟨st, l2⟩
  | _, _ => .panic "resolve_definite_grid_tracks should only be called on definite grid tracks"

/-- `Line<OriginZeroGridPlacement>::resolve_indefinite_grid_tracks` -/
def resolveIndefiniteGridTracks (l : Line Placement) (start : Int) : Outcome (Line Int) :=
  match l.start, l.«end» with
  | .auto, .auto => do let e ← ozAdd start 1; pure ⟨start, e⟩
  | .span s, .auto => do let e ← ozAdd start s; pure ⟨start, e⟩
  | .auto, .span s => do let e ← ozAdd start s; pure ⟨start, e⟩
  | .span s, .span _ => do let e ← ozAdd start s; pure ⟨start, e⟩
  | _, _ => .panic "resolve_indefinite_grid_tracks should only be called on indefinite grid tracks"

/-! ### grid_track_counts.rs -/

structure TrackCounts where
  negativeImplicit : Int
  explicit : Int
  positiveImplicit : Int
deriving Repr, BEq, DecidableEq, Inhabited

namespace TrackCounts

/-- `len`: `(negative_implicit + explicit + positive_implicit) as usize` (u16 additions) -/
def len (t : TrackCounts) : Outcome Int := do
  let a ← u16 (t.negativeImplicit + t.explicit)
  u16 (a + t.positiveImplicit)

/-- `implicit_start_line`: `-(negative_implicit as i16)` -/
def implicitStartLine (t : TrackCounts) : Outcome Int := do
  let n ← i16 t.negativeImplicit
  i16 (-n)

/-- `implicit_end_line`: `(explicit + positive_implicit) as i16` -/
def implicitEndLine (t : TrackCounts) : Outcome Int := do
  let s ← u16 (t.explicit + t.positiveImplicit)
  i16 s

/-- `oz_line_to_next_track`: `index.0 + (negative_implicit as i16)` -/
def ozLineToNextTrack (t : TrackCounts) (index : Int) : Outcome Int := do
  let n ← i16 t.negativeImplicit
  i16 (index + n)

/-- `oz_line_range_to_track_range` -/
def ozLineRangeToTrackRange (t : TrackCounts) (input : Line Int) : Outcome (Line Int) := do
  let s ← t.ozLineToNextTrack input.start
  let e ← t.ozLineToNextTrack input.«end»
  pure ⟨s, e⟩

/-- `track_to_prev_oz_line`: `(index as i16) - (negative_implicit as i16)` -/
def trackToPrevOzLine (t : TrackCounts) (index : Int) : Outcome Int := do
  let i ← i16 index
  let n ← i16 t.negativeImplicit
  i16 (i - n)

end TrackCounts

/-! ### implicit_grid.rs -/

/-- `child_min_line_max_line_span` -/
def childMinLineMaxLineSpan (line : Line Placement) (explicitTrackCount : Int) : Outcome (Int × Int × Int) := do
  let oz ← intoOriginZero line explicitTrackCount
  let mn ← (match oz.start, oz.«end» with
    | .line t1, .line t2 => pure (if t1 = t2 then t1 else min t1 t2)
    | .line t, .auto => pure t
    | .line t, .span _ => pure t
    | .auto, .line t => ozSub t 1
    | .span s, .line t => ozSub t s
    | _, _ => pure 0 : Outcome Int)
  let mx ← (match oz.start, oz.«end» with
    | .line t1, .line t2 => if t1 = t2 then ozAdd t1 1 else pure (max t1 t2)
    | .line t, .auto => ozAdd t 1
    | .line t, .span s => ozAdd t s
    | .auto, .line t => pure t
    | .span _, .line t => pure t
    | _, _ => pure 0 : Outcome Int)
  let span ← (if isDefiniteOz oz then pure 1 else indefiniteSpan oz : Outcome Int)
  pure (mn, mx, span)

/-- one child: its `grid_row` and `grid_column` -/
structure Child where
  row : Line Placement
  column : Line Placement
deriving Repr, BEq, DecidableEq, Inhabited

structure KnownPositions where
  colMin : Int
  colMax : Int
  colMaxSpan : Int
  rowMin : Int
  rowMax : Int
  rowMaxSpan : Int
deriving Repr, BEq, DecidableEq

/-- body of the `for_each` in `get_known_child_positions` -/
def knownStep (explicitCols explicitRows : Int) (acc : KnownPositions) (c : Child) : Outcome KnownPositions := do
  let (cmin, cmax, cspan) ← childMinLineMaxLineSpan c.column explicitCols
  let (rmin, rmax, rspan) ← childMinLineMaxLineSpan c.row explicitRows
  pure { colMin := min acc.colMin cmin, colMax := max acc.colMax cmax, colMaxSpan := max acc.colMaxSpan cspan,
         rowMin := min acc.rowMin rmin, rowMax := max acc.rowMax rmax, rowMaxSpan := max acc.rowMaxSpan rspan }

def knownFold (explicitCols explicitRows : Int) : KnownPositions → List Child → Outcome KnownPositions
  | acc, [] => pure acc
  | acc, c :: cs => do
    let acc' ← knownStep explicitCols explicitRows acc c
    knownFold explicitCols explicitRows acc' cs

/-- `get_known_child_positions` -/
def getKnownChildPositions (children : List Child) (explicitCols explicitRows : Int) : Outcome KnownPositions :=
  knownFold explicitCols explicitRows ⟨0, 0, 0, 0, 0, 0⟩ children

/-- one axis of `compute_grid_size_estimate` -/
def estimateAxis (mn mx maxSpan explicit : Int) : Outcome TrackCounts := do
  let neg := impliedNegativeImplicitTracks mn
  let pos ← impliedPositiveImplicitTracks mx explicit
  let t0 ← u16 (neg + explicit)
  let tot ← u16 (t0 + pos)
  let pos' ← (if tot < maxSpan then do
      let a ← u16 (maxSpan - explicit)
      u16 (a - neg)
    else pure pos : Outcome Int)
  pure ⟨neg, explicit, pos'⟩

/-- `compute_grid_size_estimate` → (column counts, row counts) -/
def computeGridSizeEstimate (explicitCols explicitRows : Int) (children : List Child) :
    Outcome (TrackCounts × TrackCounts) := do
  let k ← getKnownChildPositions children explicitCols explicitRows
  -- Rust computes the four implied counts first and the two adjustments afterwards; all operations are
  -- independent per axis, and every failure is the same `overflow` outcome, so the order is not observable
  let cols ← estimateAxis k.colMin k.colMax k.colMaxSpan explicitCols
  let rows ← estimateAxis k.rowMin k.rowMax k.rowMaxSpan explicitRows
  pure (cols, rows)

/-! ### the `grid` crate's `Grid<CellOccupancyState>` -/

inductive Cell where
  | unoccupied | definitelyPlaced | autoPlaced
deriving Repr, BEq, DecidableEq, Inhabited

structure Grid where
  data : List Cell
  rows : Nat
  cols : Nat
deriving Repr, BEq, DecidableEq

namespace Grid

/-- `Grid::new` (a grid with a zero dimension is stored as 0 × 0) -/
def new (rows cols : Nat) : Grid :=
  if rows = 0 ∨ cols = 0 then ⟨[], 0, 0⟩ else ⟨List.replicate (rows * cols) .unoccupied, rows, cols⟩

/-- `Grid::from_vec` -/
def fromVec (v : List Cell) (cols : Nat) : Outcome Grid :=
  let rows := if cols = 0 then 0 else v.length / cols
  if rows * cols ≠ v.length then .panic "Vector length should be a multiple of cols"
  else if rows = 0 ∨ cols = 0 then .ok ⟨v, 0, 0⟩ else .ok ⟨v, rows, cols⟩

/-- `Grid::get` with (possibly negative) i16 indices cast `as usize`: out of bounds → `none` -/
def get (g : Grid) (r c : Int) : Option Cell :=
  if 0 ≤ r ∧ 0 ≤ c ∧ r.toNat < g.rows ∧ c.toNat < g.cols then g.data[r.toNat * g.cols + c.toNat]? else none

/-- `*get_mut(r, c).unwrap() = v` -/
def set (g : Grid) (r c : Int) (v : Cell) : Outcome Grid :=
  if 0 ≤ r ∧ 0 ≤ c ∧ r.toNat < g.rows ∧ c.toNat < g.cols then
    .ok { g with data := g.data.set (r.toNat * g.cols + c.toNat) v }
  else .panic "called `Option::unwrap()` on a `None` value (get_mut)"

/-- `iter_row(row)` collected -/
def iterRow (g : Grid) (row : Int) : Outcome (List Cell) :=
  if 0 ≤ row ∧ row.toNat < g.rows then
    .ok ((List.range g.cols).map fun c => (g.data[row.toNat * g.cols + c]?).getD .unoccupied)
  else .panic "out of bounds. Row must be less than rows"

/-- `iter_col(col)` collected -/
def iterCol (g : Grid) (col : Int) : Outcome (List Cell) :=
  if 0 ≤ col ∧ col.toNat < g.cols then
    .ok ((List.range g.rows).map fun r => (g.data[r * g.cols + col.toNat]?).getD .unoccupied)
  else .panic "out of bounds. Column must be less than cols"

end Grid

/-- `Iterator::rposition` -/
def rposition {α : Type} (p : α → Bool) : List α → Option Nat
  | [] => none
  | x :: xs =>
    match rposition p xs with
    | some i => some (i + 1)
    | none => if p x then some 0 else none

/-- the half-open i16 range `s..e` -/
def rangeI (s e : Int) : List Int := (List.range (e - s).toNat).map fun (i : Nat) => s + (i : Int)

/-! ### cell_occupancy.rs -/

structure Matrix where
  inner : Grid
  columns : TrackCounts
  rows : TrackCounts
deriving Repr, BEq, DecidableEq

namespace Matrix

/-- `with_track_counts` -/
def withTrackCounts (columns rows : TrackCounts) : Outcome Matrix := do
  let r ← rows.len
  let c ← columns.len
  pure { inner := Grid.new r.toNat c.toNat, columns, rows }

/-- `track_counts` -/
def trackCounts (m : Matrix) : Axis → TrackCounts
  | .horizontal => m.columns
  | .vertical => m.rows

/-- `is_area_in_range(AbsoluteAxis::Horizontal, col_range, row_range)` as called from `mark_area_as` -/
def isAreaInRange (m : Matrix) (primaryAxis : Axis) (primaryRange secondaryRange : Line Int) : Outcome Bool := do
  -- `a.start < 0 || a.end > len as i16 || b.start < 0 || b.end > len' as i16` short-circuits: a length is only computed
  -- (and cast) when the tests before it are false (found by Tier T: the model used to compute the first length up front)
  if primaryRange.start < 0 then pure false else do
    let pl ← (m.trackCounts primaryAxis).len
    let pl16 ← i16 pl
    if primaryRange.«end» > pl16 then pure false
    else if secondaryRange.start < 0 then pure false else do
      let sl ← (m.trackCounts primaryAxis.other).len
      let sl16 ← i16 sl
      if secondaryRange.«end» > sl16 then pure false else pure true

/-- `data.push(*self.inner.get(row, col).unwrap())` for one existing row -/
def copyRow (g : Grid) (row : Nat) : List Nat → Outcome (List Cell)
  | [] => pure []
  | col :: rest =>
    match g.get row col with
    | some v => do let tl ← copyRow g row rest; pure (v :: tl)
    | none => .panic "called `Option::unwrap()` on a `None` value (expand_to_fit_range)"

/-- the "push existing rows" loop of `expand_to_fit_range` -/
def copyRows (g : Grid) (oldCols : Nat) (negCols posCols : Int) : List Nat → Outcome (List Cell)
  | [] => pure []
  | row :: rest => do
    let existing ← copyRow g row (List.range oldCols)
    let tl ← copyRows g oldCols negCols posCols rest
    -- `for _ in 0..req_negative_cols` / `0..req_positive_cols` are i16 ranges: empty when the bound is ≤ 0
    pure (List.replicate negCols.toNat Cell.unoccupied ++ existing ++ List.replicate posCols.toNat Cell.unoccupied ++ tl)

/-- `expand_to_fit_range` — exactly as written, including `min(start, 0)` used as a *count* of rows to add -/
def expandToFitRange (m : Matrix) (rowRange colRange : Line Int) : Outcome Matrix := do
  let reqNegativeRows := min rowRange.start 0
  let rl ← m.rows.len
  let rl16 ← i16 rl
  let dr ← i16 (rowRange.«end» - rl16)
  let reqPositiveRows := max dr 0
  let reqNegativeCols := min colRange.start 0
  let cl ← m.columns.len
  let cl16 ← i16 cl
  let dc ← i16 (colRange.«end» - cl16)
  let reqPositiveCols := max dc 0
  let oldRowCount := rl
  let oldColCount := cl
  let sr ← i16 (reqNegativeRows + reqPositiveRows)
  let sru ← usize sr
  let newRowCount ← usize (oldRowCount + sru)
  let sc ← i16 (reqNegativeCols + reqPositiveCols)
  let scu ← usize sc
  let newColCount ← usize (oldColCount + scu)
  let _cap ← usize (newRowCount * newColCount)
  -- push new negative rows
  let nru ← usize reqNegativeRows
  let nneg ← usize (nru * newColCount)
  -- push existing rows
  let body ← copyRows m.inner oldColCount.toNat reqNegativeCols reqPositiveCols (List.range oldRowCount.toNat)
  -- push new positive rows
  let pru ← usize reqPositiveRows
  let npos ← usize (pru * newColCount)
  let data := List.replicate nneg.toNat Cell.unoccupied ++ body ++ List.replicate npos.toNat Cell.unoccupied
  let inner ← Grid.fromVec data newColCount.toNat
  let rneg ← u16 reqNegativeRows
  let rneg' ← u16 (m.rows.negativeImplicit + rneg)
  let rpos ← u16 reqPositiveRows
  let rpos' ← u16 (m.rows.positiveImplicit + rpos)
  let cneg ← u16 reqNegativeCols
  let cneg' ← u16 (m.columns.negativeImplicit + cneg)
  let cpos ← u16 reqPositiveCols
  let cpos' ← u16 (m.columns.positiveImplicit + cpos)
  pure { inner,
         rows := { m.rows with negativeImplicit := rneg', positiveImplicit := rpos' },
         columns := { m.columns with negativeImplicit := cneg', positiveImplicit := cpos' } }

/-- inner `for y in col_range` of `mark_area_as` -/
def markRow (g : Grid) (x : Int) (v : Cell) : List Int → Outcome Grid
  | [] => pure g
  | y :: ys => do
    let g' ← g.set x y v
    markRow g' x v ys

/-- outer `for x in row_range` of `mark_area_as` -/
def markRows (g : Grid) (cols : List Int) (v : Cell) : List Int → Outcome Grid
  | [] => pure g
  | x :: xs => do
    let g' ← markRow g x v cols
    markRows g' cols v xs

end Matrix

/-- `match primary_axis { Horizontal => secondary_span, Vertical => primary_span }`: the row span -/
def rowOf (primaryAxis : Axis) (primarySpan secondarySpan : Line Int) : Line Int :=
  match primaryAxis with
  | .horizontal => secondarySpan
  | .vertical => primarySpan

/-- the column span -/
def colOf (primaryAxis : Axis) (primarySpan secondarySpan : Line Int) : Line Int :=
  match primaryAxis with
  | .horizontal => primarySpan
  | .vertical => secondarySpan

namespace Matrix

/-- `mark_area_as` -/
def markAreaAs (m : Matrix) (primaryAxis : Axis) (primarySpan secondarySpan : Line Int) (value : Cell) :
    Outcome Matrix := do
  let rowSpan := rowOf primaryAxis primarySpan secondarySpan
  let columnSpan := colOf primaryAxis primarySpan secondarySpan
  let colRange ← m.columns.ozLineRangeToTrackRange columnSpan
  let rowRange ← m.rows.ozLineRangeToTrackRange rowSpan
  let inRange ← m.isAreaInRange .horizontal colRange rowRange
  let (m', colRange', rowRange') ← (if !inRange then do
      let m' ← m.expandToFitRange rowRange colRange
      let colRange' ← m'.columns.ozLineRangeToTrackRange columnSpan
      let rowRange' ← m'.rows.ozLineRangeToTrackRange rowSpan
      pure (m', colRange', rowRange')
    else pure (m, colRange, rowRange) : Outcome (Matrix × Line Int × Line Int))
  let inner ← markRows m'.inner (rangeI colRange'.start colRange'.«end») value (rangeI rowRange'.start rowRange'.«end»)
  pure { m' with inner }

/-- is the cell (row x, column y) free? "Out of bounds cells are considered unoccupied." -/
def cellFree (g : Grid) (x y : Int) : Bool :=
  match g.get x y with
  | none => true
  | some .unoccupied => true
  | some _ => false

/-- `track_area_is_unoccupied` -/
def trackAreaIsUnoccupied (m : Matrix) (primaryAxis : Axis) (primaryRange secondaryRange : Line Int) : Bool :=
  let rowRange := rowOf primaryAxis primaryRange secondaryRange
  let colRange := colOf primaryAxis primaryRange secondaryRange
  (rangeI rowRange.start rowRange.«end»).all fun x =>
    (rangeI colRange.start colRange.«end»).all fun y => cellFree m.inner x y

/-- `line_area_is_unoccupied` -/
def lineAreaIsUnoccupied (m : Matrix) (primaryAxis : Axis) (primarySpan secondarySpan : Line Int) : Outcome Bool := do
  let pr ← (m.trackCounts primaryAxis).ozLineRangeToTrackRange primarySpan
  let sr ← (m.trackCounts primaryAxis.other).ozLineRangeToTrackRange secondarySpan
  pure (m.trackAreaIsUnoccupied primaryAxis pr sr)

/-- `last_of_type` (after the fix of defect 4: the found index is converted with `track_type`'s own counts) -/
def lastOfType (m : Matrix) (trackType : Axis) (startAt : Int) (kind : Cell) : Outcome (Option Int) := do
  let trackComputedIndex ← (m.trackCounts trackType.other).ozLineToNextTrack startAt
  let cells ← (match trackType with
    | .horizontal => m.inner.iterRow trackComputedIndex
    | .vertical => m.inner.iterCol trackComputedIndex : Outcome (List Cell))
  match rposition (fun c => c == kind) cells with
  | none => pure none
  | some idx => do
    let iu ← u16 (idx : Int)            -- `idx as u16`
    let l ← (m.trackCounts trackType).trackToPrevOzLine iu
    pure (some l)

end Matrix

/-! ### placement.rs -/

/-- what `place_grid_items` pushes to `items`: the child's index and its area in origin-zero lines.
`auto` is model-only bookkeeping: `false` for phase 1 (`DefinitelyPlaced`), `true` for phases 2 and 4 (`AutoPlaced`). -/
structure Item where
  index : Nat
  row : Line Int
  column : Line Int
  auto : Bool
deriving Repr, BEq, DecidableEq, Inhabited

/-- a child with its origin-zero placement (`map_child_style_to_origin_zero_placement`) -/
structure OzChild where
  index : Nat
  horizontal : Line Placement
  vertical : Line Placement
deriving Repr, BEq, DecidableEq

def OzChild.get (c : OzChild) : Axis → Line Placement
  | .horizontal => c.horizontal
  | .vertical => c.vertical

def Child.gridPlacement (c : Child) : Axis → Line Placement
  | .horizontal => c.column
  | .vertical => c.row

def toOz (explicitCols explicitRows : Int) (ic : Nat × Child) : Outcome OzChild := do
  let h ← intoOriginZero ic.2.column explicitCols
  let v ← intoOriginZero ic.2.row explicitRows
  pure ⟨ic.1, h, v⟩

/-- `place_definite_grid_item` → (primary span, secondary span) -/
def placeDefiniteGridItem (c : OzChild) (primaryAxis : Axis) : Outcome (Line Int × Line Int) := do
  let p ← resolveDefiniteGridLines (c.get primaryAxis)
  let s ← resolveDefiniteGridLines (c.get primaryAxis.other)
  pure (p, s)

/-- the `loop` of `place_definite_secondary_axis_item` -/
def searchSecondary (m : Matrix) (primaryAxis : Axis) (primaryPlacement : Line Placement) (secondary : Line Int) :
    Nat → Int → Outcome (Line Int × Line Int)
  | 0, _ => .outOfFuel
  | fuel + 1, position => do
    let primary ← resolveIndefiniteGridTracks primaryPlacement position
    let fits ← m.lineAreaIsUnoccupied primaryAxis primary secondary
    if fits then pure (primary, secondary) else do
      let position' ← ozAdd position 1
      searchSecondary m primaryAxis primaryPlacement secondary fuel position'

/-- `place_definite_secondary_axis_item` -/
def placeDefiniteSecondaryAxisItem (fuel : Nat) (m : Matrix) (c : OzChild) (flow : AutoFlow) :
    Outcome (Line Int × Line Int) := do
  let primaryAxis := flow.primaryAxis
  let secondaryAxis := primaryAxis.other
  let secondary ← resolveDefiniteGridLines (c.get secondaryAxis)
  let startLine ← (m.trackCounts primaryAxis).implicitStartLine
  let starting ← (if flow.isDense then pure startLine else do
      let l ← m.lastOfType primaryAxis secondary.start .autoPlaced
      pure (l.getD startLine) : Outcome Int)
  searchSecondary m primaryAxis (c.get primaryAxis) secondary fuel starting

/-- first `loop` of `place_indefinitely_positioned_item` (definite primary axis position) -/
def searchFixedPrimary (m : Matrix) (primaryAxis : Axis) (primary : Line Int) (secondarySpan : Int) :
    Nat → Int → Outcome (Line Int × Line Int)
  | 0, _ => .outOfFuel
  | fuel + 1, secondaryIdx => do
    let e ← ozAdd secondaryIdx secondarySpan
    let secondary : Line Int := ⟨secondaryIdx, e⟩
    let free ← m.lineAreaIsUnoccupied primaryAxis primary secondary
    if !free then do
      let s' ← ozAdd secondaryIdx 1
      searchFixedPrimary m primaryAxis primary secondarySpan fuel s'
    else pure (primary, secondary)

/-- second `loop` of `place_indefinitely_positioned_item` (no fixed axis) -/
def searchBoth (m : Matrix) (primaryAxis : Axis) (primarySpan secondarySpan : Int) (startLine endLine : Int) :
    Nat → Int → Int → Outcome (Line Int × Line Int)
  | 0, _, _ => .outOfFuel
  | fuel + 1, primaryIdx, secondaryIdx => do
    let pe ← ozAdd primaryIdx primarySpan
    let primary : Line Int := ⟨primaryIdx, pe⟩
    let se ← ozAdd secondaryIdx secondarySpan
    let secondary : Line Int := ⟨secondaryIdx, se⟩
    if primary.«end» > endLine then do
      let s' ← ozAdd secondaryIdx 1
      searchBoth m primaryAxis primarySpan secondarySpan startLine endLine fuel startLine s'
    else do
      let free ← m.lineAreaIsUnoccupied primaryAxis primary secondary
      if !free then do
        let p' ← ozAdd primaryIdx 1
        searchBoth m primaryAxis primarySpan secondarySpan startLine endLine fuel p' secondaryIdx
      else pure (primary, secondary)

/-- `place_indefinitely_positioned_item` -/
def placeIndefinitelyPositionedItem (fuel : Nat) (m : Matrix) (c : OzChild) (flow : AutoFlow)
    (gridPosition : Int × Int) : Outcome (Line Int × Line Int) := do
  let primaryAxis := flow.primaryAxis
  let primaryStyle := c.get primaryAxis
  let secondaryStyle := c.get primaryAxis.other
  let secondarySpan ← indefiniteSpan secondaryStyle
  let hasDefinitePrimary := isDefiniteOz primaryStyle
  let startLine ← (m.trackCounts primaryAxis).implicitStartLine
  let endLine ← (m.trackCounts primaryAxis).implicitEndLine
  let secondaryStartLine ← (m.trackCounts primaryAxis.other).implicitStartLine
  let (primaryIdx, secondaryIdx) := gridPosition
  if hasDefinitePrimary then do
    let primary ← resolveDefiniteGridLines primaryStyle
    let secondaryIdx' ← (if flow.isDense then pure secondaryStartLine
      else if primary.start < primaryIdx then ozAdd secondaryIdx 1 else pure secondaryIdx : Outcome Int)
    searchFixedPrimary m primaryAxis primary secondarySpan fuel secondaryIdx'
  else do
    let primarySpan ← indefiniteSpan primaryStyle
    searchBoth m primaryAxis primarySpan secondarySpan startLine endLine fuel primaryIdx secondaryIdx

/-- placement state: the occupancy matrix and the items pushed so far (**newest first**; `run` reverses at the end) -/
structure State where
  matrix : Matrix
  items : List Item
deriving Repr, BEq, DecidableEq

/-- `record_grid_placement` -/
def recordGridPlacement (st : State) (index : Nat) (primaryAxis : Axis) (primarySpan secondarySpan : Line Int)
    (kind : Cell) : Outcome State := do
  let matrix ← st.matrix.markAreaAs primaryAxis primarySpan secondarySpan kind
  let colSpan := colOf primaryAxis primarySpan secondarySpan
  let rowSpan := rowOf primaryAxis primarySpan secondarySpan
  let _order ← u16 (index : Int)        -- `index as u16`
  pure { matrix, items := ⟨index, rowSpan, colSpan, kind == .autoPlaced⟩ :: st.items }

/-- phase 1 loop body and loop -/
def phase1 (primaryAxis : Axis) : State → List OzChild → Outcome State
  | st, [] => pure st
  | st, c :: cs => do
    let (p, s) ← placeDefiniteGridItem c primaryAxis
    let st' ← recordGridPlacement st c.index primaryAxis p s .definitelyPlaced
    phase1 primaryAxis st' cs

/-- phase 2 loop -/
def phase2 (fuel : Nat) (flow : AutoFlow) : State → List OzChild → Outcome State
  | st, [] => pure st
  | st, c :: cs => do
    let (p, s) ← placeDefiniteSecondaryAxisItem fuel st.matrix c flow
    let st' ← recordGridPlacement st c.index flow.primaryAxis p s .autoPlaced
    phase2 fuel flow st' cs

/-- phase 4 loop, threading `grid_position` -/
def phase4 (fuel : Nat) (flow : AutoFlow) (gridStart : Int × Int) : State → Int × Int → List OzChild → Outcome State
  | st, _, [] => pure st
  | st, pos, c :: cs => do
    let (p, s) ← placeIndefinitelyPositionedItem fuel st.matrix c flow pos
    let st' ← recordGridPlacement st c.index flow.primaryAxis p s .autoPlaced
    let pos' := if flow.isDense then gridStart else (p.«end», s.start)
    phase4 fuel flow gridStart st' pos' cs

/-- Outcome-valued `map` (the `.map(map_child_style_to_origin_zero_placement)` adaptor; laziness is not observable
because a failure is a failure of the whole call) -/
def mapO {α β : Type} (f : α → Outcome β) : List α → Outcome (List β)
  | [] => pure []
  | x :: xs => do
    let y ← f x
    let ys ← mapO f xs
    pure (y :: ys)

def isPhase1 (c : Child) : Bool := isDefiniteRaw c.row && isDefiniteRaw c.column
def isPhase2 (secondaryAxis : Axis) (c : Child) : Bool :=
  isDefiniteRaw (c.gridPlacement secondaryAxis) && !isDefiniteRaw (c.gridPlacement secondaryAxis.other)
def isPhase4 (secondaryAxis : Axis) (c : Child) : Bool := !isDefiniteRaw (c.gridPlacement secondaryAxis)

/-- `place_grid_items` on the in-flow children `(index, style)` -/
def placeGridItems (fuel : Nat) (m : Matrix) (children : List (Nat × Child)) (flow : AutoFlow) : Outcome State := do
  let primaryAxis := flow.primaryAxis
  let secondaryAxis := primaryAxis.other
  let explicitCols := m.columns.explicit
  let explicitRows := m.rows.explicit
  let st : State := ⟨m, []⟩
  -- 1. children with definite positions in both axes
  let cs1 ← mapO (toOz explicitCols explicitRows) (children.filter fun ic => isPhase1 ic.2)
  let st ← phase1 primaryAxis st cs1
  -- 2. remaining children with a definite secondary-axis position
  let cs2 ← mapO (toOz explicitCols explicitRows) (children.filter fun ic => isPhase2 secondaryAxis ic.2)
  let st ← phase2 fuel flow st cs2
  -- 4. everything else
  let pn ← i16 (st.matrix.trackCounts primaryAxis).negativeImplicit
  let sn ← i16 (st.matrix.trackCounts secondaryAxis).negativeImplicit
  let ps ← i16 (-pn)
  let ss ← i16 (-sn)
  let gridStart := (ps, ss)
  let cs4 ← mapO (toOz explicitCols explicitRows) (children.filter fun ic => isPhase4 secondaryAxis ic.2)
  phase4 fuel flow gridStart st gridStart cs4

structure Result where
  /-- in placement-record order -/
  items : List Item
  columns : TrackCounts
  rows : TrackCounts
deriving Repr, BEq, DecidableEq

/-- pair every child with its index -/
def enumFrom {α : Type} : Nat → List α → List (Nat × α)
  | _, [] => []
  | n, x :: xs => (n, x) :: enumFrom (n + 1) xs

/-- what `compute_grid_layout` does for placement (and the hook `verif_place_grid_items`):
estimate → `CellOccupancyMatrix::with_track_counts` → `place_grid_items` → final track counts -/
def run (fuel : Nat) (explicitCols explicitRows : Int) (flow : AutoFlow) (children : List Child) : Outcome Result := do
  let (estCols, estRows) ← computeGridSizeEstimate explicitCols explicitRows children
  let m ← Matrix.withTrackCounts estCols estRows
  let st ← placeGridItems fuel m (enumFrom 0 children) flow
  pure { items := st.items.reverse, columns := st.matrix.columns, rows := st.matrix.rows }

/-- the fuel the driver gives `run`; Props/C03Grid (`fuel_suffices`) proves that no input runs out of it: every search
step advances an i16 line by one — lexicographically (secondary, primary) in the third loop — and leaving the i16
range is an `overflow`, so 65536² + 2·65536 steps are never exhausted. (Fuel is only consumed by actual iterations,
so its size costs nothing at run time.) -/
def defaultFuel : Nat := 65536 * 65536 + 2 * 65536

/-! ### decidable form of the C08 conclusions (evaluated by the driver's monitor on the implementation's answers,
and the vocabulary of the theorems in Props/C08) -/

def Item.nonempty (it : Item) : Bool :=
  decide (it.row.start < it.row.«end») && decide (it.column.start < it.column.«end»)

/-- the item lies inside the reported track range of both axes -/
def Item.inRange (it : Item) (columns rows : TrackCounts) : Bool :=
  decide (-rows.negativeImplicit ≤ it.row.start) && decide (it.row.«end» ≤ rows.explicit + rows.positiveImplicit) &&
  decide (-columns.negativeImplicit ≤ it.column.start) &&
  decide (it.column.«end» ≤ columns.explicit + columns.positiveImplicit)

/-- the two areas share a cell -/
def Item.overlaps (a b : Item) : Bool :=
  decide (a.row.start < b.row.«end») && decide (b.row.start < a.row.«end») &&
  decide (a.column.start < b.column.«end») && decide (b.column.start < a.column.«end»)

/-- what the style asks of one axis: a definite placement fixes both lines (`resolve_definite_grid_lines` of the
origin-zero placement), an indefinite one fixes the number of tracks spanned -/
def axisHonoured (pl : Line Placement) (explicit : Int) (area : Line Int) : Bool :=
  match intoOriginZero pl explicit with
  | .ok oz =>
    if isDefiniteOz oz then decide (resolveDefiniteGridLines oz = .ok area)
    else decide (indefiniteSpan oz = .ok (area.«end» - area.start))
  | _ => false

def isAutoPlaced (c : Child) : Bool := !(isDefiniteRaw c.row && isDefiniteRaw c.column)

/-- first failing clause of the property on an answer, or `none` -/
def specFailure (explicitCols explicitRows : Int) (children : List Child) (r : Result) : Option String :=
  if r.items.length ≠ children.length then some "count"
  else if !((List.range children.length).all fun i => (r.items.filter fun it => it.index == i).length == 1) then
    some "count"
  else if !(r.items.all Item.nonempty) then some "empty"
  else if !(r.items.all fun it => it.inRange r.columns r.rows) then some "range"
  else if !(r.items.all fun it => match children[it.index]? with
      | some c => axisHonoured c.row explicitRows it.row && axisHonoured c.column explicitCols it.column
      | none => false) then some "explicit"
  else if !((List.range r.items.length).all fun i => (List.range r.items.length).all fun j =>
      match r.items[i]?, r.items[j]? with
      | some a, some b =>
        i == j || !(match children[a.index]? with | some c => isAutoPlaced c | none => true) || !a.overlaps b
      | _, _ => true) then some "overlap"
  else none

end GridPlacement
