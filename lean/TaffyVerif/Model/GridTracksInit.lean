/-
  Grid track initialisation (src/compute/grid/explicit_grid.rs, types/grid_track.rs, style/grid.rs).

  * `MinTrack` / `MaxTrack`     : the abstract values of `MinTrackSizingFunction` / `MaxTrackSizingFunction`
                                  (C18 proves that the packed `CompactLength` round-trips to these)
  * `computeExplicitGridSizeInAxis` : `compute_explicit_grid_size_in_axis` (u16 arithmetic checked: `overflow` where a
                                  debug build panics; the saturating `as u16` cast of a float is `NumCast.toU16Sat`)
  * `initializeGridTracks`      : `initialize_grid_tracks` + `create_implicit_tracks` + `GridTrack::{new,gutter,collapse}`

  No Mathlib.  calc() is not modelled (as in Model/Style.lean).
-/
import TaffyVerif.Model.Style
-- (the track-sizing-function types live in Model/GridTypes.lean, which Model/Style.lean imports)

namespace GridTracks

/-! ### numeric helpers that `Num` does not have (additions local to the grid-track models) -/

/-- float → integer casts used by the grid code -/
class NumCast (α : Type) where
  /-- Rust `x as u16` for a float: truncates toward zero, saturates, NaN ↦ 0 -/
  toU16Sat : α → Nat

instance : NumCast Float32 where
  toU16Sat x := x.toUInt16.toNat

instance : NumCast Rat where
  toU16Sat q := if q < 0 then 0 else if (65535 : Rat) ≤ q then 65535 else q.floor.toNat

/-- Rust `iter.sum::<f32>()`: folds from **−0.0** -/
def sumF {α : Type} [Num α] (l : List α) : α := l.foldl (· + ·) (-(0 : α))

def u16Max : Nat := 65535

/-! ### track sizing functions (style/grid.rs) -/

namespace MinTrack
variable {α : Type} [Num α]
/-- `MinTrackSizingFunction::definite_value` -/
def definiteValue (f : MinTrack α) (parent : Option α) : Option α :=
  match f with
  | .length v => some v
  | .percent v => parent.map fun size => v * size
  | _ => none
def isLengthOrPercentage : MinTrack α → Bool
  | .length _ | .percent _ => true
  | _ => false
def isIntrinsic : MinTrack α → Bool
  | .auto | .minContent | .maxContent => true
  | _ => false
def isMinOrMaxContent : MinTrack α → Bool
  | .minContent | .maxContent => true
  | _ => false
def isAuto : MinTrack α → Bool
  | .auto => true
  | _ => false
def isMaxContent : MinTrack α → Bool
  | .maxContent => true
  | _ => false
def usesPercentage : MinTrack α → Bool
  | .percent _ => true
  | _ => false
/-- `resolved_percentage_size` -/
def resolvedPercentageSize (f : MinTrack α) (parent : α) : Option α :=
  match f with
  | .percent v => some (v * parent)
  | _ => none
/-- `From<LengthPercentage>` -/
def ofLP : LP α → MinTrack α
  | .length v => .length v
  | .percent v => .percent v
end MinTrack

namespace MaxTrack
variable {α : Type} [Num α]
/-- `MaxTrackSizingFunction::definite_value` -/
def definiteValue (f : MaxTrack α) (parent : Option α) : Option α :=
  match f with
  | .length v => some v
  | .percent v => parent.map fun size => v * size
  | _ => none
/-- `has_definite_value` -/
def hasDefiniteValue (f : MaxTrack α) (parent : Option α) : Bool :=
  match f with
  | .length _ => true
  | .percent _ => parent.isSome
  | _ => false
/-- `definite_limit` -/
def definiteLimit (f : MaxTrack α) (parent : Option α) : Option α :=
  match f with
  | .fitContentPx v => some v
  | .fitContentPercent v => parent.map fun size => v * size
  | f => f.definiteValue parent
def isLengthOrPercentage : MaxTrack α → Bool
  | .length _ | .percent _ => true
  | _ => false
def isIntrinsic : MaxTrack α → Bool
  | .auto | .minContent | .maxContent | .fitContentPx _ | .fitContentPercent _ => true
  | _ => false
def isMaxContentAlike : MaxTrack α → Bool
  | .auto | .maxContent | .fitContentPx _ | .fitContentPercent _ => true
  | _ => false
def isFr : MaxTrack α → Bool
  | .fr _ => true
  | _ => false
def isAuto : MaxTrack α → Bool
  | .auto => true
  | _ => false
def isMinContent : MaxTrack α → Bool
  | .minContent => true
  | _ => false
def isFitContent : MaxTrack α → Bool
  | .fitContentPx _ | .fitContentPercent _ => true
  | _ => false
def isMaxOrFitContent : MaxTrack α → Bool
  | .maxContent | .fitContentPx _ | .fitContentPercent _ => true
  | _ => false
def usesPercentage : MaxTrack α → Bool
  | .percent _ | .fitContentPercent _ => true
  | _ => false
def resolvedPercentageSize (f : MaxTrack α) (parent : α) : Option α :=
  match f with
  | .percent v => some (v * parent)
  | _ => none
def ofLP : LP α → MaxTrack α
  | .length v => .length v
  | .percent v => .percent v
end MaxTrack

namespace TrackFn
variable {α : Type} [Num α]
/-- `NonRepeatedTrackSizingFunction::AUTO` -/
def auto : TrackFn α := ⟨.auto, .auto⟩
def hasFixedComponent (f : TrackFn α) : Bool := f.min.isLengthOrPercentage || f.max.isLengthOrPercentage
end TrackFn

namespace TrackDef
variable {α : Type}
def isAutoRepetition : TrackDef α → Bool
  | .rep .autoFill _ | .rep .autoFit _ => true
  | _ => false
end TrackDef

/-- outcomes that are panics in a debug build -/
inductive GErr where
  /-- u16 arithmetic overflow (`attempt to add/multiply/subtract with overflow`) -/
  | overflow
  /-- `Option::unwrap` on `None` -/
  | unwrapNone
deriving Repr, BEq, DecidableEq, Inhabited

/-! ### `compute_explicit_grid_size_in_axis` -/

section Explicit
variable {α : Type} [Num α] [NumCast α]

/-- one term of `non_auto_repeating_track_count`'s sum: `count * tracks.len() as u16` (u16 multiplication) -/
def nonAutoTerm : TrackDef α → Except GErr Nat
  | .single _ => .ok 1
  | .rep (.count c) fs =>
    let n := c * (fs.length % 65536)
    if n > u16Max then .error .overflow else .ok n
  | .rep _ _ => .ok 0

/-- `.sum::<u16>()` with the debug-build overflow check -/
def sumU16 : List (Except GErr Nat) → Nat → Except GErr Nat
  | [], acc => .ok acc
  | .error e :: _, _ => .error e
  | .ok n :: rest, acc => if acc + n > u16Max then .error .overflow else sumU16 rest (acc + n)

def nonAutoRepeatingTrackCount (template : List (TrackDef α)) : Except GErr Nat :=
  sumU16 (template.map nonAutoTerm) 0

/-- the nested `fn track_definite_value` (`unwrap` made explicit) -/
def trackDefiniteValue (f : TrackFn α) (parent : Option α) : Option α :=
  let maxSize := f.max.definiteValue parent
  let minSize := f.min.definiteValue parent
  (maxSize.map fun mx => MaybeMath.fo_min mx minSize).or minSize

/-- `Vec<Option<f32>>` → `Option<Vec<f32>>`; `none` = some `unwrap` panicked -/
def allSome {β : Type} : List (Option β) → Option (List β)
  | [] => some []
  | none :: _ => none
  | some x :: rest => (allSome rest).map (x :: ·)

/-- used space of one template entry in `non_repeating_track_used_space` -/
def nonRepeatingUsed (parent : Option α) : TrackDef α → Option α
  | .single f => trackDefiniteValue f parent
  | .rep (.count c) fs =>
    (allSome (fs.map fun f => trackDefiniteValue f parent)).map fun vs => sumF vs * Num.ofNat c
  | .rep _ _ => some 0

/-- `template.iter().find_map(auto-repeat ↦ tracks)` -/
def findAutoRepetition : List (TrackDef α) → Option (List (TrackFn α))
  | [] => none
  | .rep .autoFill fs :: _ => some fs
  | .rep .autoFit fs :: _ => some fs
  | _ :: rest => findAutoRepetition rest

def allTrackDefsHaveFixedComponent (template : List (TrackDef α)) : Bool :=
  template.all fun d => match d with
    | .single f => f.hasFixedComponent
    | .rep _ fs => fs.all fun f => f.hasFixedComponent

def hasZeroRep (template : List (TrackDef α)) : Bool :=
  template.any fun d => match d with
    | .single _ => false
    | .rep _ fs => fs.isEmpty

/-- the `let num_repetitions: u16 = match inner_container_size.get_abs(axis) { … }` block -/
def numRepetitions (size maxSize : Dimension α) (gap : LP α) (template : List (TrackDef α))
    (repDef : List (TrackFn α)) (nonAuto : Nat) (inner : Option α) : Except GErr Nat :=
  let repetitionTrackCount := repDef.length % 65536
  let styleSizeIsDefinite := (size.maybeResolve inner).isSome
  let styleMaxSizeIsDefinite := (maxSize.maybeResolve inner).isSome
  let sizeIsMaximum := styleSizeIsDefinite || styleMaxSizeIsDefinite
  match inner with
  | none => .ok 1
  | some innerSize =>
    let parent := some innerSize
    match allSome (template.map (nonRepeatingUsed parent)) with
    | none => .error .unwrapNone
    | some usedL =>
      let nonRepeatingTrackUsedSpace : α := sumF usedL
      let gapSize := gap.resolveOrZero (some innerSize)
      match allSome (repDef.map fun f => trackDefiniteValue f parent) with
      | none => .error .unwrapNone
      | some perRepL =>
        let perRepetitionTrackUsedSpace : α := sumF perRepL
        if nonAuto + repetitionTrackCount > u16Max then .error .overflow else
        let firstUsed := nonRepeatingTrackUsedSpace + perRepetitionTrackUsedSpace
          + (Num.ofNat (nonAuto + repetitionTrackCount - 1) * gapSize)
        if Num.flt innerSize firstUsed then .ok 1
        else
          let perRepetitionGapUsedSpace := Num.ofNat repDef.length * gapSize
          -- a repetition that takes no space is treated as 1px wide (no division by zero)
          let perRepetitionUsedSpace0 := perRepetitionTrackUsedSpace + perRepetitionGapUsedSpace
          let perRepetitionUsedSpace := if Num.fgt perRepetitionUsedSpace0 0 then perRepetitionUsedSpace0 else 1
          let numerator := innerSize - firstUsed
          let q := numerator / perRepetitionUsedSpace
          let fitU16 : Nat := NumCast.toU16Sat (if sizeIsMaximum then Num.floor q else Num.ceil q)
          -- `(… as u16).saturating_add(1)`
          .ok (if fitU16 + 1 > u16Max then u16Max else fitU16 + 1)

/-- `compute_explicit_grid_size_in_axis`.  `size`, `maxSize`, `gap` are the container style's values in this axis,
`inner` is `inner_container_size.get_abs(axis)`. -/
def computeExplicitGridSizeInAxis (size maxSize : Dimension α) (gap : LP α) (template : List (TrackDef α))
    (inner : Option α) : Except GErr Nat :=
  if template.isEmpty then .ok 0 else
  if hasZeroRep template then .ok 0 else
  match nonAutoRepeatingTrackCount template with
  | .error e => .error e
  | .ok nonAuto =>
    let autoRepetitionCount := (template.filter TrackDef.isAutoRepetition).length % 65536
    let templateIsValid := autoRepetitionCount == 0 ||
      (autoRepetitionCount == 1 && allTrackDefsHaveFixedComponent template)
    if !templateIsValid then .ok 0 else
    if autoRepetitionCount == 0 then .ok nonAuto else
    match findAutoRepetition template with
    | none => .error .unwrapNone
    | some repDef =>
      match numRepetitions size maxSize gap template repDef nonAuto inner with
      | .error e => .error e
      | .ok k =>
        let r := repDef.length % 65536
        if r * k > u16Max then .error .overflow else
        if nonAuto + r * k > u16Max then .error .overflow else .ok (nonAuto + r * k)

end Explicit

/-! ### `GridTrack` and `initialize_grid_tracks` -/

inductive TrackKind where
  | track
  | gutter
deriving Repr, BEq, DecidableEq, Inhabited

/-- growth limits can be `f32::INFINITY` -/
inductive Ext (α : Type) where
  | fin (x : α)
  | inf
deriving Repr, BEq, DecidableEq, Inhabited

/-- `GridTrack` (types/grid_track.rs) -/
structure GridTrack (α : Type) where
  kind : TrackKind
  isCollapsed : Bool
  minFn : MinTrack α
  maxFn : MaxTrack α
  offset : α
  baseSize : α
  growthLimit : Ext α
  contentAlignmentAdjustment : α
  itemIncurredIncrease : α
  baseSizePlannedIncrease : α
  growthLimitPlannedIncrease : α
  infinitelyGrowable : Bool
deriving Repr, BEq, DecidableEq, Inhabited

/-- `TrackCounts` -/
structure TrackCounts where
  negativeImplicit : Nat
  explicit : Nat
  positiveImplicit : Nat
deriving Repr, BEq, DecidableEq, Inhabited

namespace GridTrack
variable {α : Type} [Num α]

def newWithKind (kind : TrackKind) (mn : MinTrack α) (mx : MaxTrack α) : GridTrack α :=
  { kind, isCollapsed := false, minFn := mn, maxFn := mx, offset := 0, baseSize := 0, growthLimit := .fin 0,
    contentAlignmentAdjustment := 0, itemIncurredIncrease := 0, baseSizePlannedIncrease := 0,
    growthLimitPlannedIncrease := 0, infinitelyGrowable := false }

/-- `GridTrack::new` -/
def new (f : TrackFn α) : GridTrack α := newWithKind .track f.min f.max
/-- `GridTrack::gutter` -/
def gutter (gap : LP α) : GridTrack α := newWithKind .gutter (MinTrack.ofLP gap) (MaxTrack.ofLP gap)
/-- `GridTrack::collapse` -/
def collapse (t : GridTrack α) : GridTrack α :=
  { t with isCollapsed := true, minFn := .length 0, maxFn := .length 0 }

def isFlexible (t : GridTrack α) : Bool := t.maxFn.isFr
def usesPercentage (t : GridTrack α) : Bool := t.minFn.usesPercentage || t.maxFn.usesPercentage
def hasIntrinsicSizingFunction (t : GridTrack α) : Bool := t.minFn.isIntrinsic || t.maxFn.isIntrinsic
def flexFactor (t : GridTrack α) : α :=
  match t.maxFn with
  | .fr v => v
  | _ => 0
end GridTrack

section Init
variable {α : Type} [Num α]

/-- `create_implicit_tracks` with the iterator given as an index function -/
def createImplicitTracks (count : Nat) (nth : Nat → TrackFn α) (gap : LP α) : List (GridTrack α) :=
  (List.range count).flatMap fun i => [GridTrack.new (nth i), GridTrack.gutter gap]

/-- `auto_tracks.iter().copied().cycle().skip(offset)` (non-empty list) resp. `repeat(AUTO)` -/
def autoTrackAt (autoTracks : List (TrackFn α)) (offset : Nat) (i : Nat) : TrackFn α :=
  if autoTracks.isEmpty then TrackFn.auto
  else autoTracks.getD ((offset + i) % autoTracks.length) TrackFn.auto

/-- `repeated_tracks.iter().cycle().take(n)` (an empty list cycles to nothing) -/
def cycleTake (fs : List (TrackFn α)) (n : Nat) : List (TrackFn α) :=
  if fs.isEmpty then [] else (List.range n).map fun i => fs.getD (i % fs.length) TrackFn.auto

/-- the tracks (each followed by its gutter) of an auto-repetition, `idx` = `current_track_index` before it -/
def autoRepeatTracks (isAutoFit : Bool) (fs : List (TrackFn α)) (n : Nat) (gap : LP α)
    (trackHasItems : Nat → Bool) (idx : Nat) : List (GridTrack α) :=
  (cycleTake fs n).zipIdx.flatMap fun (f, i) =>
    let track := GridTrack.new f
    let gutter := GridTrack.gutter gap
    if isAutoFit && !trackHasItems (idx + i) then [track.collapse, gutter.collapse] else [track, gutter]

/-- the `track_template.iter().for_each(…)` loop; `autoN` = `counts.explicit − non_auto_repeating_track_count` -/
def explicitTracks (autoN : Nat) (gap : LP α) (trackHasItems : Nat → Bool) :
    List (TrackDef α) → Nat → List (GridTrack α)
  | [], _ => []
  | .single f :: rest, idx =>
    [GridTrack.new f, GridTrack.gutter gap] ++ explicitTracks autoN gap trackHasItems rest (idx + 1)
  | .rep (.count c) fs :: rest, idx =>
    let l := cycleTake fs (fs.length * c)
    (l.flatMap fun f => [GridTrack.new f, GridTrack.gutter gap])
      ++ explicitTracks autoN gap trackHasItems rest (idx + l.length)
  | .rep .autoFit fs :: rest, idx =>
    autoRepeatTracks true fs autoN gap trackHasItems idx
      ++ explicitTracks autoN gap trackHasItems rest (idx + (cycleTake fs autoN).length)
  | .rep .autoFill fs :: rest, idx =>
    autoRepeatTracks false fs autoN gap trackHasItems idx
      ++ explicitTracks autoN gap trackHasItems rest (idx + (cycleTake fs autoN).length)

/-- `tracks.first_mut().unwrap().collapse(); tracks.last_mut().unwrap().collapse()` (the vector is never empty) -/
def collapseFirstLast (l : List (GridTrack α)) : List (GridTrack α) :=
  (l.modify 0 GridTrack.collapse).modify (l.length - 1) GridTrack.collapse

/-- `counts.explicit − non_auto_repeating_track_count` (u16), evaluated only inside an auto-repetition arm -/
def autoRepeatedTrackCount (explicit : Nat) (template : List (TrackDef α)) : Except GErr Nat :=
  if template.any TrackDef.isAutoRepetition then
    match nonAutoRepeatingTrackCount template with
    | .error e => .error e
    | .ok nonAuto => if explicit < nonAuto then .error .overflow else .ok (explicit - nonAuto)
  else .ok 0

/-- everything between the first gutter and the final collapsing of the outer gutters -/
def bodyTracks (counts : TrackCounts) (template : List (TrackDef α)) (autoTracks : List (TrackFn α))
    (gap : LP α) (trackHasItems : Nat → Bool) (autoN : Nat) : List (GridTrack α) :=
  let neg :=
    if counts.negativeImplicit > 0 then
      let offset := if autoTracks.isEmpty then 0
        else autoTracks.length - (counts.negativeImplicit % autoTracks.length)
      createImplicitTracks counts.negativeImplicit (autoTrackAt autoTracks offset) gap
    else []
  let expl :=
    if counts.explicit > 0 then explicitTracks autoN gap trackHasItems template counts.negativeImplicit else []
  let pos := createImplicitTracks counts.positiveImplicit (autoTrackAt autoTracks 0) gap
  neg ++ expl ++ pos

/-- `initialize_grid_tracks`.  The u16 operations that can panic in a debug build are checked:
`counts.len()` (sum of the three counts), the non-auto count, and
`counts.explicit − non_auto_repeating_track_count` (only evaluated when the template has an auto-repetition). -/
def initializeGridTracks (counts : TrackCounts) (template : List (TrackDef α)) (autoTracks : List (TrackFn α))
    (gap : LP α) (trackHasItems : Nat → Bool) : Except GErr (List (GridTrack α)) :=
  if counts.negativeImplicit + counts.explicit > u16Max
      || counts.negativeImplicit + counts.explicit + counts.positiveImplicit > u16Max then .error .overflow else
  match (if counts.explicit > 0 then autoRepeatedTrackCount counts.explicit template else .ok 0) with
  | .error e => .error e
  | .ok autoN =>
    .ok (collapseFirstLast (GridTrack.gutter gap :: bodyTracks counts template autoTracks gap trackHasItems autoN))

end Init

end GridTracks
