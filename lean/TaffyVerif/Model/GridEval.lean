/-
  The whole-grid model as an `Eval.Algs.grid` (requires the generalisation `Style.grid : GridExt α`,
  eval_generalisation.patch): `Algs.grid` keeps its type `Style α → List (Style α) → LayoutInput α → ProgM α (LayoutOutput α)`;
  the grid fields are read from the extension record carried by the styles.
  No Mathlib.
-/
import TaffyVerif.Model.Grid

namespace GridStyle
variable {α : Type}
/-- the container view of a style: the grid fields are those carried in `Style.grid` -/
def ofStyle (s : Style α) : GridStyle α :=
  { base := s, gridTemplateRows := s.grid.templateRows, gridTemplateColumns := s.grid.templateColumns,
    gridAutoRows := s.grid.autoRows, gridAutoColumns := s.grid.autoColumns, gridAutoFlow := s.grid.autoFlow }
end GridStyle

namespace GridChildStyle
variable {α : Type}
/-- the item view of a style: the placement is the one carried in `Style.grid` -/
def ofStyle (s : Style α) : GridChildStyle α :=
  { base := s, gridRow := s.grid.row, gridColumn := s.grid.column }
end GridChildStyle

namespace GridModel
variable {α : Type} [Num α] [GridTracks.NumCast α]

/-- `compute_grid_layout` on the styles of a style tree -/
def gridAlg (s : Style α) (cs : List (Style α)) (inp : LayoutInput α) : ProgM α (LayoutOutput α) :=
  computeGridLayout (GridStyle.ofStyle s) (cs.map GridChildStyle.ofStyle) inp

end GridModel
