/-
  The meaning of the statement vocabulary that `Generated/TreeOps.lean` is written in.

  `tvextract` (extract/src/treeops.rs) regenerates the bodies of `TaffyTree`'s structural methods from
  src/tree/taffy_tree.rs on every run, statement by statement, into programs of the monad `TreeM` below; this file gives every
  statement form its meaning on `TreeModel.Tree` (the three slot maps + the context map of `Model/Tree.lean`), using
  `Model/SlotMap.lean` for the slot-map calls and plain list functions for the `Vec` methods, with every panic site as the
  explicit outcome `panic` and `TaffyError` as the outcome `err`. `Props/TieTree.lean` proves, for every method, that the generated
  program equals the hand-written model function of `Model/Tree.lean` on every state and every argument.

  Conventions shared with `Model/Tree.lean` (see its header):
    * `NodeId ↔ DefaultKey` conversions (`x.into()`, `NodeId::from(x)`) are the identity;
    * `NodeData` is reduced to `has_context`; the `Style` argument of the constructors is dropped;
    * `self.mark_dirty(n)` is its panic site `self.nodes[n]` (`TreeM.markDirty`); the text of `mark_dirty` itself is pinned by the
      extractor;
    * a method returning `TaffyResult<T>` is a `TreeM T`: `return Err(e)` is `TreeM.throw e`, `Ok(x)` is `pure x`, `e?` is plain
      sequencing, `e.unwrap()` is `TreeM.unwrapResult e`.
  No Mathlib.
-/
import TaffyVerif.Model.Tree

namespace TreeModel
open SlotMapModel

/-- outcome of a statement: a value, a `TaffyError` travelling to the caller, or a panic -/
inductive Res (α : Type) where
  | ok (a : α)
  | err (e : Err)
  | panic
deriving Repr

/-- a statement acting on `&mut self` (after a `panic` the state is the torn state at the panic site) -/
def TreeM (α : Type) : Type := Tree → Tree × Res α

namespace TreeM

@[inline] protected def pure {α : Type} (a : α) : TreeM α := fun t => (t, .ok a)

@[inline] protected def bind {α β : Type} (m : TreeM α) (f : α → TreeM β) : TreeM β := fun t =>
  match m t with
  | (t', .ok a) => f a t'
  | (t', .err e) => (t', .err e)
  | (t', .panic) => (t', .panic)

instance : Monad TreeM where
  pure := TreeM.pure
  bind := TreeM.bind

/-- `return Err(e)` -/
def throw {α : Type} (e : Err) : TreeM α := fun t => (t, .err e)

/-- a panic site that fired -/
def panic {α : Type} : TreeM α := fun t => (t, .panic)

/-- `Option::unwrap`, and the `Vec` methods that panic (`none` = the panic) -/
def ofOption {α : Type} : Option α → TreeM α
  | some a => pure a
  | none => panic

/-- `Result::unwrap` on a `TaffyResult` -/
def unwrapResult {α : Type} (m : TreeM α) : TreeM α := fun t =>
  match m t with
  | (t', .ok a) => (t', .ok a)
  | (t', .err _) => (t', .panic)
  | (t', .panic) => (t', .panic)

/-- `if let Some(x) = o { some_ x } else { none_ }` -/
def ifLetSome {α β : Type} (o : Option β) (some_ : β → TreeM α) (none_ : TreeM α) : TreeM α :=
  match o with
  | some x => some_ x
  | none => none_

/-- `for x in l { body }` / `l.iter().for_each(|x| body)` -/
def forEach {β : Type} : List β → (β → TreeM Unit) → TreeM Unit
  | [], _ => pure ()
  | x :: rest, f => bind (f x) (fun _ => forEach rest f)

/-! ### `self.nodes` -/

/-- `self.nodes.insert(d)` (`none` of the model = `panic!("SlotMap is full")`) -/
def nodesInsert (d : NodeData) : TreeM Id := fun t =>
  match t.nodes.insert d with
  | none => (t, .panic)
  | some (nodes, id) => ({ t with nodes }, .ok id)

/-- `self.nodes[k].has_context = b` (`IndexMut`) -/
def nodesAssignHasContext (k : Id) (b : Bool) : TreeM Unit := fun t =>
  match t.nodes.get k with
  | none => (t, .panic)
  | some d => ({ t with nodes := t.nodes.set k { d with hasContext := b } }, .ok ())

/-- `self.nodes.remove(k)` (the removed value is dropped by every caller) -/
def nodesRemove (k : Id) : TreeM Unit := fun t => ({ t with nodes := (t.nodes.remove k).1 }, .ok ())

/-- `self.nodes.clear()` -/
def nodesClear : TreeM Unit := fun t => ({ t with nodes := t.nodes.clear }, .ok ())

/-- `self.nodes.len()` -/
def nodesLen : TreeM Nat := fun t => (t, .ok t.nodes.len)

/-- `self.mark_dirty(n)` as far as the structural state sees it: the `Index` panic site `nodes[node_key]` -/
def markDirty (n : Id) : TreeM Unit := fun t => if TreeModel.markDirty t n then (t, .ok ()) else (t, .panic)

/-! ### `self.children` -/

/-- `self.children.insert(l)` -/
def childrenInsert (l : List Id) : TreeM Id := fun t =>
  match t.children.insert l with
  | none => (t, .panic)
  | some (children, id) => ({ t with children }, .ok id)

/-- a read of `self.children[k]` (`Index`/`IndexMut`: panics on a dead key); also the panic site of `&mut self.children[k]` -/
def childrenIdx (k : Id) : TreeM (List Id) := fun t =>
  match t.children.get k with
  | none => (t, .panic)
  | some l => (t, .ok l)

/-- `self.children.get(k)` / `self.children.get_mut(k)` -/
def childrenGet (k : Id) : TreeM (Option (List Id)) := fun t => (t, .ok (t.children.get k))

/-- a `Vec` method called on `self.children[k]` (or through a `&mut` to that slot): the `IndexMut` lookup (panics on a dead key),
    then the method `f` on the vector, which answers `none` when it panics (before touching the vector) and otherwise the
    method's result and the new contents -/
def childrenModify {β : Type} (k : Id) (f : List Id → Option (β × List Id)) : TreeM β := fun t =>
  match t.children.get k with
  | none => (t, .panic)
  | some l =>
    match f l with
    | none => (t, .panic)
    | some (b, l') => ({ t with children := t.children.set k l' }, .ok b)

/-- `self.children.remove(k)` -/
def childrenRemove (k : Id) : TreeM Unit := fun t => ({ t with children := (t.children.remove k).1 }, .ok ())

/-- `self.children.clear()` -/
def childrenClear : TreeM Unit := fun t => ({ t with children := t.children.clear }, .ok ())

/-! ### `self.parents` -/

/-- `self.parents.insert(v)` -/
def parentsInsert (v : Option Id) : TreeM Id := fun t =>
  match t.parents.insert v with
  | none => (t, .panic)
  | some (parents, id) => ({ t with parents }, .ok id)

/-- a read of `self.parents[k]` -/
def parentsIdx (k : Id) : TreeM (Option Id) := fun t =>
  match t.parents.get k with
  | none => (t, .panic)
  | some o => (t, .ok o)

/-- `self.parents[k] = v` (`IndexMut`) -/
def parentsAssign (k : Id) (v : Option Id) : TreeM Unit := fun t =>
  match t.parents.get k with
  | none => (t, .panic)
  | some _ => ({ t with parents := t.parents.set k v }, .ok ())

/-- `self.parents.remove(k)` -/
def parentsRemove (k : Id) : TreeM Unit := fun t => ({ t with parents := (t.parents.remove k).1 }, .ok ())

/-- `self.parents.clear()` -/
def parentsClear : TreeM Unit := fun t => ({ t with parents := t.parents.clear }, .ok ())

/-! ### `self.node_context_data` (a `SecondaryMap`: none of its methods panics on the keys `TaffyTree` passes) -/

/-- `self.node_context_data.insert(k, x)` (the previous value is dropped) -/
def ctxInsert (k : Id) (x : Nat) : TreeM Unit := fun t => ({ t with ctx := t.ctx.insert k x }, .ok ())

/-- `self.node_context_data.remove(k)` -/
def ctxRemove (k : Id) : TreeM Unit := fun t => ({ t with ctx := t.ctx.remove k }, .ok ())

/-- `self.node_context_data.get(k)` -/
def ctxGet (k : Id) : TreeM (Option Nat) := fun t => (t, .ok (t.ctx.get k))

/-- run a method and print its answer the way `Model/Tree.lean` does (`inj` = the `Val` constructor of the return type) -/
def out {α : Type} (inj : α → Val) (m : TreeM α) (t : Tree) : Tree × Out :=
  match m t with
  | (t', .ok a) => (t', .ok (inj a))
  | (t', .err e) => (t', .err e)
  | (t', .panic) => (t', .panic)

end TreeM

/-! ### the `Vec<NodeId>` methods `TaffyTree` calls, as list functions (`none` = the method panics, vector untouched) -/

namespace VecOps

/-- `v.push(c)` -/
def push (c : Id) (v : List Id) : Option (Unit × List Id) := some ((), v ++ [c])

/-- `v.insert(i, c)`: `assert!(index <= len)` -/
def insert (i : Nat) (c : Id) (v : List Id) : Option (Unit × List Id) :=
  if i > v.length then none else some ((), v.take i ++ c :: v.drop i)

/-- `v.remove(i)`: `assert!(index < len)`; answers the removed element -/
def remove (i : Nat) (v : List Id) : Option (Id × List Id) :=
  match v[i]? with
  | none => none
  | some c => some (c, v.take i ++ v.drop (i + 1))

/-- `core::mem::replace(&mut v[i], c)`: `IndexMut` on the vector; answers the old element -/
def replaceAt (i : Nat) (c : Id) (v : List Id) : Option (Id × List Id) :=
  match v[i]? with
  | none => none
  | some old => some (old, v.take i ++ c :: v.drop (i + 1))

/-- `v.retain(p)` -/
def retain (p : Id → Bool) (v : List Id) : Option (Unit × List Id) := some ((), v.filter p)

/-- `v.clear()` -/
def clear (_v : List Id) : Option (Unit × List Id) := some ((), [])

/-- `v.drain(a..b)` run to completion (the `Drain` guard removes the range even when the loop consuming it unwinds):
    `slice::range` panics unless `a ≤ b ≤ len`; answers the drained elements in order -/
def drain (a b : Nat) (v : List Id) : Option (List Id × List Id) :=
  if a > b ∨ b > v.length then none else some ((v.take b).drop a, v.take a ++ v.drop b)

/-- `v.iter().position(p)` -/
def position (p : Id → Bool) (v : List Id) : Option Nat := v.findIdx? p

/-- `v[i]` (`Index` on the vector) -/
def index (i : Nat) (v : List Id) : Option Id := v[i]?

end VecOps

/-- `NodeData::new(style)` with `NodeData` reduced to `has_context` (the extractor checks that the constructor sets
    `has_context: false`; `Gen.TreeOps.NodeData_new` is the regenerated value) -/
def NodeData.new : NodeData := ⟨false⟩

end TreeModel
