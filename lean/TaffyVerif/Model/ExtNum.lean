/-
  `ER` — the rationals extended by `+∞`, `−∞` and `NaN`, as a third instance of `Num` (beside `Rat` and `Float32`).

  Purpose (C03, "every number in every resulting Layout is finite"): at `Rat` nothing is ever non-finite, at `Float32`
  nothing can be proved.  `ER` keeps the exact arithmetic of `Rat` on finite values and follows IEEE-754 wherever an
  operation of the algorithm *itself* leaves the finite numbers:

    * `x / 0 = ±∞` for finite `x ≠ 0` (sign of `x`; zero is unsigned here, i.e. `+0`), `0 / 0 = NaN`, `±∞ / ±∞ = NaN`,
      `x / ±∞ = 0`;
    * `∞ − ∞ = NaN`, `0 · ±∞ = NaN`, every arithmetic operation with a `NaN` operand is `NaN`;
    * every comparison with a `NaN` operand is `false` (`feq`, `flt`, `fle`, and the `<`/`≤` relations);
    * `fmax`/`fmin` are Rust's `f32::max`/`f32::min`: the non-`NaN` operand if one operand is `NaN`;
    * `round`/`floor`/`ceil`/`abs`/negation propagate `±∞` and `NaN`.

  NOT modelled: **overflow and rounding of finite arithmetic** (finite ∘ finite = finite, exactly, except division by
  zero), and the sign of zero (`−0` is `+0`, so the *sign* of an infinity produced by `x / 0` can differ from f32 when the
  f32 divisor is `−0.0`; whether the result is finite does not).  So the theorems at this instance are about `∞`/`NaN`
  **created by the algorithm's own operations** — division by zero, `∞ − ∞`, `0 · ∞`, sentinels — which is what is left of
  the finiteness clause of C03 for "moderately sized" inputs (inputs whose finite arithmetic does not overflow f32).

  No Mathlib import (Model/ file).  The table at the end compares every operation with `Float32` on special values.
-/
import TaffyVerif.Num

inductive ER where
  | fin (q : Rat)
  | pinf
  | ninf
  | nan
deriving Repr, BEq, DecidableEq, Inhabited

namespace ER

def neg : ER → ER
  | fin q => fin (-q)
  | pinf => ninf
  | ninf => pinf
  | nan => nan

def add : ER → ER → ER
  | fin a, fin b => fin (a + b)
  | nan, _ => nan
  | _, nan => nan
  | pinf, ninf => nan
  | ninf, pinf => nan
  | pinf, _ => pinf
  | ninf, _ => ninf
  | _, pinf => pinf
  | _, ninf => ninf

def sub (a b : ER) : ER := add a (neg b)

/-- sign of a non-NaN value: `-1`, `0`, `1` -/
def sgn : ER → Int
  | fin q => if q < 0 then -1 else if q = 0 then 0 else 1
  | pinf => 1
  | ninf => -1
  | nan => 0

/-- `±∞` by sign (`0` ↦ NaN: `0 · ∞`) -/
def infOfSign (s : Int) : ER := if s < 0 then ninf else if s = 0 then nan else pinf

def mul : ER → ER → ER
  | fin a, fin b => fin (a * b)
  | nan, _ => nan
  | _, nan => nan
  | a, b => infOfSign (sgn a * sgn b)

def div : ER → ER → ER
  | nan, _ => nan
  | _, nan => nan
  | fin a, fin b =>
    if b = 0 then (if a = 0 then nan else if a < 0 then ninf else pinf)   -- `x / +0`
    else fin (a / b)
  | fin _, _ => fin 0                                                      -- `x / ±∞`
  | pinf, fin b => if b < 0 then ninf else pinf                            -- `∞ / +0 = ∞`
  | ninf, fin b => if b < 0 then pinf else ninf
  | _, _ => nan                                                            -- `±∞ / ±∞`

def isNaN : ER → Bool
  | nan => true
  | _ => false

def isFinite : ER → Bool
  | fin _ => true
  | _ => false

def flt : ER → ER → Bool
  | nan, _ => false
  | _, nan => false
  | fin a, fin b => decide (a < b)
  | ninf, ninf => false
  | ninf, _ => true
  | _, ninf => false
  | pinf, _ => false
  | _, pinf => true

def feq : ER → ER → Bool
  | fin a, fin b => decide (a = b)
  | pinf, pinf => true
  | ninf, ninf => true
  | _, _ => false

def fle (a b : ER) : Bool := flt a b || feq a b

/-- Rust `f32::max` -/
def fmax (a b : ER) : ER :=
  if a.isNaN then b else if b.isNaN then a else if flt a b then b else a

/-- Rust `f32::min` -/
def fmin (a b : ER) : ER :=
  if a.isNaN then b else if b.isNaN then a else if flt b a then b else a

def lift (f : Rat → Rat) : ER → ER
  | fin q => fin (f q)
  | x => x

def abs : ER → ER
  | fin q => fin (if q < 0 then -q else q)
  | nan => nan
  | _ => pinf

end ER

instance : Num ER where
  add := ER.add
  sub := ER.sub
  mul := ER.mul
  div := ER.div
  neg := ER.neg
  zero := .fin 0
  one := .fin 1
  lt a b := ER.flt a b = true
  le a b := ER.fle a b = true
  fmax := ER.fmax
  fmin := ER.fmin
  feq := ER.feq
  flt := ER.flt
  fle := ER.fle
  round := ER.lift RatNum.round
  floor := ER.lift fun q => (q.floor : Int)
  ceil := ER.lift fun q => (q.ceil : Int)
  abs := ER.abs
  ofNat n := .fin (n : Rat)
  eps := .fin RatNum.eps
  isNaN := ER.isNaN
  isFinite := ER.isFinite

/-! ### Sanity check against `Float32` on special values

`toF` maps the table values exactly (small dyadic rationals, `±∞`, `NaN`); `agree` compares an `ER` result with a
`Float32` result: both NaN, or equal as IEEE numbers (`+0 = −0`).  Every unary and binary operation of the class is
compared on the full table (9 resp. 81 argument tuples). -/
namespace ER.Sanity

def inf32 : Float32 := Float32.ofBits 0x7f800000

def toF : ER → Float32
  | .fin q => Float32.ofInt q.num / Float32.ofNat q.den
  | .pinf => inf32
  | .ninf => -inf32
  | .nan => Float32.ofBits 0x7fc00000

def agree (e : ER) (f : Float32) : Bool :=
  if f.isNaN then e.isNaN else (!e.isNaN && toF e == f)

def table : List ER :=
  [.fin 0, .fin 1, .fin (-1), .fin (5/2), .fin (-5/2), .fin (1/2), .pinf, .ninf, .nan]

def bin (f : ER → ER → ER) (g : Float32 → Float32 → Float32) : Bool :=
  table.all fun a => table.all fun b => agree (f a b) (g (toF a) (toF b))
def binB (f : ER → ER → Bool) (g : Float32 → Float32 → Bool) : Bool :=
  table.all fun a => table.all fun b => f a b == g (toF a) (toF b)
def un (f : ER → ER) (g : Float32 → Float32) : Bool := table.all fun a => agree (f a) (g (toF a))
def unB (f : ER → Bool) (g : Float32 → Bool) : Bool := table.all fun a => f a == g (toF a)

/-- all operations of `Num`, `ER` against `Float32` -/
def checks : List (String × Bool) :=
  [ ("add", bin (· + ·) (· + ·)), ("sub", bin (· - ·) (· - ·)), ("mul", bin (· * ·) (· * ·)),
    ("div", bin (· / ·) (· / ·)), ("neg", un (- ·) (- ·)),
    ("fmax", bin Num.fmax Num.fmax), ("fmin", bin Num.fmin Num.fmin),
    ("feq", binB Num.feq Num.feq), ("flt", binB Num.flt Num.flt), ("fle", binB Num.fle Num.fle),
    ("round", un Num.round Num.round), ("floor", un Num.floor Num.floor), ("ceil", un Num.ceil Num.ceil),
    ("abs", un Num.abs Num.abs), ("isNaN", unB Num.isNaN Num.isNaN), ("isFinite", unB Num.isFinite Num.isFinite),
    ("zero", agree (0 : ER) (0 : Float32)), ("one", agree (1 : ER) (1 : Float32)),
    ("ofNat", agree (Num.ofNat 7 : ER) (Num.ofNat 7 : Float32)), ("eps", agree (Num.eps : ER) (Num.eps : Float32)) ]

/-- the only deviation on the table, expected and stated in the header: the sign of zero.  `x / 0` with `x = −1·0`
etc. cannot be told apart here because the table's zero is `+0`; `(-1) * 0 = −0` in f32 and `1 / −0 = −∞`, in `ER`
`(-1) * 0 = 0` and `1 / 0 = +∞`: both non-finite. -/
def signOfZeroExample : Bool :=
  let z32 : Float32 := toF (.fin (-1)) * toF (.fin 0)
  let zE : ER := (ER.fin (-1)) * (ER.fin 0)
  (toF (.fin 1) / z32 == -inf32) && ((ER.fin 1 / zE) == ER.pinf)

#eval checks.filter (fun c => !c.2)   -- expected: []
#guard checks.all (·.2)
#guard signOfZeroExample

end ER.Sanity
