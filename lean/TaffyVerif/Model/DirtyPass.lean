/-
  C15 model, part B — a layout pass over the subtree of a root, as far as dirtiness is concerned.

  The tree is a rose tree of flags (so subtrees are disjoint by construction).  Whether a lookup hits, and which
  children a container measures how often and in which order, depends on numbers this layer does not model: every
  such decision is read from an arbitrary **choice stream**, and the theorems quantify over all streams.

  What is modelled (src/compute/mod.rs, src/tree/taffy_tree.rs `compute_child_layout`, and the child loops of the three
  container algorithms):
    * PerformLayout lookup hits only if a final entry is present; ComputeSize lookup only if a measure entry is present;
    * a miss on a `display:none` node runs `compute_hidden_layout` (clear itself, hidden-visit all children) and stores;
    * a miss on any other node visits children (any number of times, in ComputeSize or PerformLayout mode; a
      `display:none` child is never *measured*: all three algorithms filter hidden children out of their item lists and
      only `perform_child_layout` them), and — in PerformLayout mode — performs a PerformLayout visit of every child;
      then stores (final entry in PerformLayout mode, measure entry in ComputeSize mode).
-/

namespace DirtyPass

inductive FT where
  | node (hidden fin meas : Bool) (kids : List FT)
deriving Repr, Inhabited

inductive Mode where
  | L | S
deriving Repr, DecidableEq

inductive Choice where
  | hit
  | miss
  | step (i : Nat) (m : Mode)
  | done
deriving Repr, DecidableEq

namespace FT
def hidden : FT → Bool | .node h _ _ _ => h
def fin : FT → Bool | .node _ f _ _ => f
def meas : FT → Bool | .node _ _ m _ => m
def kids : FT → List FT | .node _ _ _ k => k
def dirty (t : FT) : Bool := !t.fin && !t.meas
end FT

mutual
/-- `compute_hidden_layout`: clear the node's cache, then every child in hidden mode -/
def hvisit : FT → FT
  | .node h _ _ kids => .node h false false (hvisitList kids)
def hvisitList : List FT → List FT
  | [] => []
  | t :: ts => hvisit t :: hvisitList ts
end

mutual
def depth : FT → Nat
  | .node _ _ _ kids => depthList kids + 1
def depthList : List FT → Nat
  | [] => 0
  | t :: ts => max (depth t) (depthList ts)
end

/-- `cache_store` in the given run mode -/
def store (m : Mode) : FT → FT
  | .node h f ms kids => match m with
    | .L => .node h true ms kids
    | .S => .node h f true kids

def canHit (m : Mode) (t : FT) : Bool :=
  match m with
  | .L => t.fin
  | .S => t.meas

/-- scripted child visits: consume `.step i m` choices (skipping measurement of hidden children) until anything else -/
def steps (visitF : Mode → FT → List Choice → FT × List Choice) : List FT → List Choice → List FT × List Choice
  | kids, .step i m :: cs =>
    match kids[i]? with
    | some k =>
      if m = .S ∧ k.hidden = true then steps visitF kids cs
      else
        let (k', cs') := visitF m k cs
        -- the stream can only get shorter; recursion is on the stream, so re-read it defensively
        if cs'.length ≤ cs.length then
          let (ks, cs'') := steps visitF (kids.set i k') cs'
          (ks, cs'')
        else (kids.set i k', cs')
    | none => steps visitF kids cs
  | kids, cs => (kids, cs)
termination_by _ cs => cs.length
decreasing_by all_goals simp_wf <;> omega

/-- the final-layout loop: a PerformLayout visit of every child in order -/
def visitAllL (visitF : Mode → FT → List Choice → FT × List Choice) : List FT → List Choice → List FT × List Choice
  | [], cs => ([], cs)
  | k :: ks, cs =>
    let (k', cs1) := visitF .L k cs
    let (ks', cs2) := visitAllL visitF ks cs1
    (k' :: ks', cs2)

/-- consume the hit/miss decision at the head of the stream, if any -/
def dropDecision : List Choice → List Choice
  | .hit :: r => r
  | .miss :: r => r
  | r => r

/-- consume a `done` marker (end of the scripted prefix), if any -/
def dropDone : List Choice → List Choice
  | .done :: r => r
  | r => r

/-- the final-layout phase exists only in PerformLayout mode -/
def finalPhase (visitF : Mode → FT → List Choice → FT × List Choice) (m : Mode) (kids : List FT) (cs : List Choice) :
    List FT × List Choice :=
  match m with
  | .L => visitAllL visitF kids cs
  | .S => (kids, cs)

/-- a miss on a box-generating node: scripted visits, final-layout phase, scripted visits.
The second scripted phase is closed by its own `done` marker (consumed here), so that the part of the stream a
recomputed node reads is self-delimiting: without it a recomputed child hands its parent a stream whose head is not a
`step`, which ends the parent's scripted phase, and a parent could recompute at most one child per scripted phase
(`C15Refine.old_recompute_too_rigid`; a flex container measuring three leaves is not such a resolution). -/
def recompute (visitF : Mode → FT → List Choice → FT × List Choice) (m : Mode) (kids : List FT) (cs : List Choice) :
    List FT × List Choice :=
  let r1 := steps visitF kids cs
  let r2 := finalPhase visitF m r1.1 r1.2
  let r3 := steps visitF r2.1 (dropDone r2.2)
  (r3.1, dropDone r3.2)

/-- a lookup reaching node `t` in run mode `m` -/
def visit : Nat → Mode → FT → List Choice → FT × List Choice
  | 0, _, t, cs => (t, cs)
  | fuel + 1, m, t, cs =>
    -- hit only when the stream says so *and* an entry of the right kind exists
    if canHit m t ∧ cs.head? = some .hit then (t, cs.tail)
    else
      match t with
      | .node true _ _ kids =>
        -- Display::None arm
        (store m (.node true false false (hvisitList kids)), dropDecision cs)
      | .node false f ms kids =>
        let r := recompute (visit fuel) m kids (dropDecision cs)
        (store m (.node false f ms r.1), r.2)

/-- a whole pass from the root: `compute_root_layout` → `perform_child_layout(root)` -/
def pass (t : FT) (cs : List Choice) : FT := (visit (depth t) .L t cs).1

end DirtyPass
