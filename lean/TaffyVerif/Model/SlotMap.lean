/-
  Model of the `slotmap` crate (1.1.x) as far as `TaffyTree` uses it:
    basic.rs     SlotMap   : with_capacity_and_key, insert (= try_insert_with_key), remove (+ remove_from_slot),
                             get / get_mut / Index / IndexMut, clear (= drain, dropped), len
    secondary.rs SecondaryMap : insert, remove, get
    lib.rs       KeyData   : idx : u32, version : NonZeroU32 (always odd: `KeyData::new` does `version | 1`)
    util.rs      is_older_version
  Hand-written, line by line; tied to the crate by the C14 correspondence run (ids printed as `idx.version`
  must come out identical, including after slot reuse and `clear`).

  A slot is `union { value, next_free }` + `version` (even = vacant, odd = occupied). The model uses a sum type;
  the two places where Rust would read the union through the wrong arm (undefined behaviour, reachable only if the
  crate's own invariant were broken) are marked `unreachable` below and proved unreachable in
  `Lemmas/SlotMap.lean` (`WF`: the free list is a duplicate-free chain of vacant slots; parity of versions).
  No Mathlib.
-/

namespace SlotMapModel

/-- `u32::MAX` -/
def u32Max : Nat := 4294967295

/-- `v | 1` on a version number -/
def orOne (v : Nat) : Nat := if v % 2 = 0 then v + 1 else v

/-- `u32::wrapping_add(v, 1)` -/
def wrapSucc (v : Nat) : Nat := if v = u32Max then 0 else v + 1

/-- `KeyData { idx, version }`; `NodeId` is `as_ffi()` = `version << 32 | idx`, printed `idx.version` -/
structure Key where
  idx : Nat
  version : Nat
deriving Repr, DecidableEq

inductive Slot (V : Type) where
  /-- odd version, `u.value` -/
  | occ (version : Nat) (value : V)
  /-- even version, `u.next_free` -/
  | vac (version : Nat) (nextFree : Nat)
deriving Repr

def Slot.version {V : Type} : Slot V → Nat
  | .occ ver _ => ver
  | .vac ver _ => ver

structure SlotMap (V : Type) where
  slots : List (Slot V)
  freeHead : Nat
  numElems : Nat
deriving Repr

variable {V : Type}

/-- `with_capacity_and_key`: a sentinel at index 0, `free_head = 1` -/
def SlotMap.new : SlotMap V := { slots := [.vac 0 0], freeHead := 1, numElems := 0 }

/-- `get` / `get_mut`: `slots.get(idx).filter(|s| s.version == kd.version).map(|s| s.u.value)`.
    A vacant slot has an even version and key versions are odd, so the filter never passes a vacant slot. -/
def SlotMap.get (m : SlotMap V) (k : Key) : Option V :=
  match m.slots[k.idx]? with
  | some (.occ ver v) => if ver = k.version then some v else none
  | _ => none

def SlotMap.containsKey (m : SlotMap V) (k : Key) : Bool := (m.get k).isSome

/-- `sm[key] = v` after the `IndexMut` lookup succeeded (callers test `get` first; a failed lookup is their `panic`) -/
def SlotMap.set (m : SlotMap V) (k : Key) (v : V) : SlotMap V :=
  match m.slots[k.idx]? with
  | some (.occ ver _) => if ver = k.version then { m with slots := m.slots.set k.idx (.occ ver v) } else m
  | _ => m

/-- `insert` = `try_insert_with_key`. `none` = `panic!("SlotMap is full")` (or the unreachable case). -/
def SlotMap.insert (m : SlotMap V) (v : V) : Option (SlotMap V × Key) :=
  match m.slots[m.freeHead]? with
  | some (.vac ver next) =>
    let occupiedVersion := orOne ver
    some ({ slots := m.slots.set m.freeHead (.occ occupiedVersion v), freeHead := next, numElems := m.numElems + 1 },
          ⟨m.freeHead, occupiedVersion⟩)
  | some (.occ _ _) => none -- unreachable: the free head is always vacant (`WF.insert_reach`)
  | none =>
    if m.slots.length ≥ u32Max then none
    else some ({ slots := m.slots ++ [.occ 1 v], freeHead := m.slots.length + 1, numElems := m.numElems + 1 },
               ⟨m.slots.length, 1⟩)

/-- `remove_from_slot(idx)` on an occupied slot -/
def SlotMap.removeFromSlot (m : SlotMap V) (idx : Nat) (ver : Nat) : SlotMap V :=
  { slots := m.slots.set idx (.vac (wrapSucc ver) m.freeHead), freeHead := idx, numElems := m.numElems - 1 }

/-- `remove`: `if self.contains_key(key) { Some(remove_from_slot(idx)) } else { None }` -/
def SlotMap.remove (m : SlotMap V) (k : Key) : SlotMap V × Option V :=
  match m.slots[k.idx]? with
  | some (.occ ver v) => if ver = k.version then (m.removeFromSlot k.idx ver, some v) else (m, none)
  | _ => (m, none)

/-- the `Drain` iterator run to completion: `cur` from 1 to `slots.len()`, every occupied slot removed in index order -/
def SlotMap.drainFrom (m : SlotMap V) : Nat → Nat → SlotMap V
  | _, 0 => m
  | cur, n + 1 =>
    match m.slots[cur]? with
    | some (.occ ver _) => (m.removeFromSlot cur ver).drainFrom (cur + 1) n
    | _ => m.drainFrom (cur + 1) n

/-- `clear` = `drain()` dropped -/
def SlotMap.clear (m : SlotMap V) : SlotMap V := m.drainFrom 1 (m.slots.length - 1)

def SlotMap.len (m : SlotMap V) : Nat := m.numElems

def keysFrom : List (Slot V) → Nat → List Key
  | [], _ => []
  | .occ ver _ :: rest, i => ⟨i, ver⟩ :: keysFrom rest (i + 1)
  | .vac _ _ :: rest, i => keysFrom rest (i + 1)

/-- all live keys, in slot order -/
def SlotMap.keys (m : SlotMap V) : List Key := keysFrom m.slots 0

/-- forget the stored values: two maps with the same shape hand out the same keys forever -/
def Slot.shape : Slot V → Slot Unit
  | .occ ver _ => .occ ver ()
  | .vac ver next => .vac ver next

def SlotMap.shape (m : SlotMap V) : SlotMap Unit :=
  { slots := m.slots.map Slot.shape, freeHead := m.freeHead, numElems := m.numElems }

/-! ### SecondaryMap -/

/-- `is_older_version(a, b)`: `a.wrapping_sub(b) >= 1 << 31` -/
def isOlderVersion (a b : Nat) : Bool := (a + 4294967296 - b) % 4294967296 ≥ 2147483648

/-- slot = `Occupied { value, version } | Vacant` (a vacant slot reports version 0) -/
structure SecMap (V : Type) where
  slots : List (Option (Nat × V))
  numElems : Nat
deriving Repr

def SecMap.new : SecMap V := { slots := [], numElems := 0 }

def SecMap.get (m : SecMap V) (k : Key) : Option V :=
  match m.slots[k.idx]? with
  | some (some (ver, v)) => if ver = k.version then some v else none
  | _ => none

def SecMap.insert (m : SecMap V) (k : Key) (v : V) : SecMap V :=
  if k.idx = u32Max then m -- `key.is_null()`
  else
    let slots := m.slots ++ List.replicate (k.idx + 1 - m.slots.length) none
    match slots[k.idx]? with
    | some (some (ver, _)) =>
      if ver = k.version then { m with slots := slots.set k.idx (some (ver, v)) }
      else if isOlderVersion k.version ver then { m with slots := slots }
      else { m with slots := slots.set k.idx (some (orOne k.version, v)) }
    | _ => { slots := slots.set k.idx (some (orOne k.version, v)), numElems := m.numElems + 1 }

def SecMap.remove (m : SecMap V) (k : Key) : SecMap V :=
  match m.slots[k.idx]? with
  | some (some (ver, _)) =>
    if ver = k.version then { slots := m.slots.set k.idx none, numElems := m.numElems - 1 } else m
  | _ => m

end SlotMapModel
