/-
  C15 model — dirtiness bookkeeping of `TaffyTree` (src/tree/taffy_tree.rs), flat representation.

  Nodes are natural numbers in creation order.  Per node: `parent`, `children`, `hidden` (display: none) and the two
  facts about its cache that dirtiness depends on: `fin` (a final-layout entry is present) and `meas` (some measure
  entry is present).  `TaffyTree::dirty(n)` = `cache.is_empty()` = `!fin && !meas` (C02.flag_agrees).

  Which mutator calls `mark_dirty` on which node is **not** written here: it is read from
  `Gen.Facts` (regenerated from the Rust source on every run).
-/
import TaffyVerif.Generated.Facts

namespace Dirty

structure St where
  /-- ids `0 … next-1` have been allocated -/
  next : Nat
  live : Nat → Bool
  parent : Nat → Option Nat
  children : Nat → List Nat
  hidden : Nat → Bool
  fin : Nat → Bool
  meas : Nat → Bool

def St.dirty (s : St) (n : Nat) : Bool := !s.fin n && !s.meas n

def upd {β : Type} (f : Nat → β) (n : Nat) (v : β) : Nat → β := fun i => if i = n then v else f i

def init : St :=
  { next := 0, live := fun _ => false, parent := fun _ => none, children := fun _ => [],
    hidden := fun _ => false, fin := fun _ => false, meas := fun _ => false }

/-- `NodeData::mark_dirty` = `Cache::clear` : `Cleared` iff something was there -/
def clearNode (s : St) (n : Nat) : St := { s with fin := upd s.fin n false, meas := upd s.meas n false }

/-- `TaffyTree::mark_dirty` → `mark_dirty_recursive`; `none` = the fuel ran out (never happens in a forest with
at most `fuel` nodes on any ancestor chain — kept as an explicit outcome rather than assumed) -/
def markDirty : Nat → St → Nat → Option St
  | 0, _, _ => none
  | fuel + 1, s, n =>
    if s.dirty n then some s            -- ClearState::AlreadyEmpty: stop
    else
      let s1 := clearNode s n           -- ClearState::Cleared: continue with the parent
      match s.parent n with
      | some p => markDirty fuel s1 p
      | none => some s1

/-- the chain `markDirty` may touch: `n`, its parent, … (at most `fuel` nodes) -/
def chain : Nat → St → Nat → List Nat
  | 0, _, _ => []
  | fuel + 1, s, n => n :: (match s.parent n with | some p => chain fuel s p | none => [])

/-- which node a mutator hands to `mark_dirty`, as extracted from the source -/
def dirtyTarget (t : Gen.Facts.DirtyTarget) (node parent : Nat) : Option Nat :=
  match t with
  | .none => none
  | .node => some node
  | .parent => some parent

def applyDirty (s : St) (t : Gen.Facts.DirtyTarget) (node parent : Nat) : Option St :=
  match dirtyTarget t node parent with
  | some x => markDirty (s.next + 1) s x
  | none => some s

inductive Op where
  | newLeaf (hidden : Bool)
  | setStyle (n : Nat) (hidden : Bool)
  | setContext (n : Nat)
  | addChild (p c : Nat)
  | insertChild (p i c : Nat)
  | removeChildAt (p i : Nat)
  | replaceChildAt (p i c : Nat)
  | removeRange (p a b : Nat)
  | setChildren (p : Nat) (cs : List Nat)
  | remove (n : Nat)
  | markDirty (n : Nat)
deriving Repr, DecidableEq

def insertAt {β : Type} (l : List β) (i : Nat) (x : β) : List β := l.take i ++ x :: l.drop i

/-- `remove_child(parent, child)` = position + `remove_child_at_index` -/
def removeChild (s : St) (p c : Nat) : Option St :=
  let s1 := { s with children := upd s.children p ((s.children p).erase c), parent := upd s.parent c none }
  applyDirty s1 Gen.Facts.dirty_remove_child_at_index c p

/-- one mutator; `none` = the real code would panic / return an error (the harness never issues those here:
error paths are C14's subject) or `markDirty` ran out of fuel -/
def step (s : St) : Op → Option St
  | .newLeaf h =>
    let n := s.next
    some { s with next := n + 1, live := upd s.live n true, parent := upd s.parent n none,
                  children := upd s.children n [], hidden := upd s.hidden n h,
                  fin := upd s.fin n false, meas := upd s.meas n false }
  | .setStyle n h => applyDirty { s with hidden := upd s.hidden n h } Gen.Facts.dirty_set_style n n
  | .setContext n => applyDirty s Gen.Facts.dirty_set_node_context n n
  | .addChild p c =>
    applyDirty { s with parent := upd s.parent c (some p), children := upd s.children p (s.children p ++ [c]) }
      Gen.Facts.dirty_add_child c p
  | .insertChild p i c =>
    if i > (s.children p).length then none else
    applyDirty { s with parent := upd s.parent c (some p), children := upd s.children p (insertAt (s.children p) i c) }
      Gen.Facts.dirty_insert_child_at_index c p
  | .removeChildAt p i =>
    match (s.children p)[i]? with
    | none => none
    | some c =>
      applyDirty { s with children := upd s.children p ((s.children p).eraseIdx i), parent := upd s.parent c none }
        Gen.Facts.dirty_remove_child_at_index c p
  | .replaceChildAt p i c =>
    match (s.children p)[i]? with
    | none => none
    | some old =>
      let par := upd (upd s.parent c (some p)) old none
      applyDirty { s with children := upd s.children p ((s.children p).set i c), parent := par }
        Gen.Facts.dirty_replace_child_at_index c p
  | .removeRange p a b =>
    if a > b ∨ b > (s.children p).length then none else
    let removed := ((s.children p).drop a).take (b - a)
    let par := removed.foldl (fun f c => upd f c none) s.parent
    applyDirty { s with children := upd s.children p ((s.children p).take a ++ (s.children p).drop b), parent := par }
      Gen.Facts.dirty_remove_children_range p p
  | .setChildren p cs =>
    -- "Remove node as parent from all its current children"
    let par0 := (s.children p).foldl (fun f c => upd f c none) s.parent
    let s0 := { s with parent := par0 }
    -- "Remove child from previous parent" (via remove_child, which marks that parent dirty), then set the new parent
    let s1 := cs.foldl (fun (acc : Option St) c =>
      match acc with
      | none => none
      | some st =>
        let st' := match st.parent c with
          | some prev => removeChild st prev c
          | none => some st
        st'.map fun st2 => { st2 with parent := upd st2.parent c (some p) }) (some s0)
    match s1 with
    | none => none
    | some st => applyDirty { st with children := upd st.children p cs } Gen.Facts.dirty_set_children p p
  | .remove n =>
    let s1 : Option St := match s.parent n with
      | some p =>
        applyDirty { s with children := upd s.children p ((s.children p).filter (· ≠ n)) } Gen.Facts.dirty_remove n p
      | none => some s
    s1.map fun st =>
      let par := (st.children n).foldl (fun f c => upd f c none) st.parent
      { st with parent := upd par n none, children := upd st.children n [], live := upd st.live n false,
                fin := upd st.fin n false, meas := upd st.meas n false }
  | .markDirty n => markDirty (s.next + 1) s n

/-! ### a layout pass, deterministic resolution used by the driver

`hiddenVisit` is used by the driver's executable resolution of a pass (Drv/C15.lean `visitK`); the pass the
theorems are about — with every hit/miss and child-visit decision left open — is Model/DirtyPass.lean (rose trees). -/

/-- `compute_hidden_layout` recursion -/
def hiddenVisit : Nat → St → Nat → St
  | 0, s, _ => s
  | fuel + 1, s, n =>
    let s1 := clearNode s n
    (s.children n).foldl (fun acc c => hiddenVisit fuel acc c) s1

end Dirty
