/-
  Vocabulary added for src/compute/grid/types/grid_item.rs (`extract/src/griditem.rs` → Generated/GridItem.lean). Hand-written, no Mathlib.

    * `sumOptF32 l`: `l.into_iter().sum::<Option<f32>>()` — std `impl<T, U> Sum<Option<U>> for Option<T> where T: Sum<U>`: the items are
      taken front to back until the first `None` (the answer is then `None`); otherwise `Some` of the `f32` sum of the payloads
      (`impl Sum for f32` starts from −0.0: `Slice.sumF32`).
-/
import TaffyVerif.Model.SliceOps3

namespace Slice

def sumOptF32 {α : Type} [Num α] : List (Option α) → Option α :=
  fun l => (GridTracks.allSome l).map sumF32


/-! ### the `GridItem` methods that call the tree (interaction form)

  `TreeProg χ α β`: programs whose only interaction is `tree.measure_child_size(node, known_dimensions, parent_size, available_space,
  sizing_mode, axis, vertical_margins_are_collapsible)` (`χ` = the type of the `axis` argument, `AbsoluteAxis`), one node per call in the
  Rust order; `fail e` is a panic of the surrounding code. `toGM`: the meaning of a program as an interaction program of the model
  (`GridModel.GM`): the node is `ProgM.measureChildSize` of Model/Prog.lean (the provided method of `LayoutPartialTreeExt`:
  `compute_child_layout` with `RunMode::ComputeSize` and the requested axis, then `.size.get_abs(axis)`). -/

inductive TreeProg (χ α β : Type) where
  | ret (b : β)
  | fail (e : GridTracks.GErr)
  | measureChildSize (node : Nat) (knownDimensions parentSize : Size (Option α)) (availableSpace : Size (AvailableSpace α))
      (sizingMode : SizingMode) (axis : χ) (verticalMarginsAreCollapsible : Line Bool) (k : α → TreeProg χ α β)

namespace TreeProg
variable {χ α β γ : Type}

def bind : TreeProg χ α β → (β → TreeProg χ α γ) → TreeProg χ α γ
  | .ret b, f => f b
  | .fail e, _ => .fail e
  | .measureChildSize n kd ps av sm ax vm k, f => .measureChildSize n kd ps av sm ax vm (fun r => bind (k r) f)

instance : Monad (TreeProg χ α) where
  pure := .ret
  bind := bind

/-- an outcome of `Except GErr` inside a program -/
def ofExcept : Except GridTracks.GErr β → TreeProg χ α β
  | .ok b => .ret b
  | .error e => .fail e

/-- `tree.measure_child_size(node, known_dimensions, parent_size, available_space, sizing_mode, axis, vertical_margins_are_collapsible)` -/
def measure_child_size (node : Nat) (knownDimensions parentSize : Size (Option α)) (availableSpace : Size (AvailableSpace α))
    (sizingMode : SizingMode) (axis : χ) (verticalMarginsAreCollapsible : Line Bool) : TreeProg χ α α :=
  .measureChildSize node knownDimensions parentSize availableSpace sizingMode axis verticalMarginsAreCollapsible .ret

/-- the program as an interaction program of the model; `horizontal` tells which `AbsoluteAxis` is `Horizontal` -/
def toGM (horizontal : χ → Bool) : TreeProg χ α β → GridModel.GM α β
  | .ret b => pure b
  | .fail e => GridModel.GM.ofExcept (.error e)
  | .measureChildSize n kd ps av sm ax vm k => do
    let v ← (ExceptT.lift (ProgM.measureChildSize n kd ps av sm (horizontal ax) vm) : GridModel.GM α α)
    toGM horizontal (k v)

end TreeProg

end Slice

/-! ### indexing, `(a..b).any(p)` -/

namespace Slice

/-- `l[i]` as a value (panics out of range: `GErr.overflow` stands for the index panic, as for `indexRange`) -/
def index {β : Type} (l : List β) (i : Nat) : Except GridTracks.GErr β :=
  match l[i]? with
  | some x => .ok x
  | none => .error .overflow

/-- `(a..b).any(|i| p(i))` for a `Range<usize>` held as the pair of its bounds: `p` is applied to `a, a+1, …` and the iteration stops at the
first `true` (a panic of `p` at a later index does not happen); an empty or reversed range answers `false` -/
def rangeAnyM (r : Nat × Nat) (p : Nat → Except GridTracks.GErr Bool) : Except GridTracks.GErr Bool :=
  go (r.2 - r.1) r.1
where
  go : Nat → Nat → Except GridTracks.GErr Bool
    | 0, _ => pure false
    | n + 1, i => do
      let b ← p i
      if b then pure true else go n (i + 1)

end Slice
