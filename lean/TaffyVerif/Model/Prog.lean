/-
  Interaction programs: how a container layout algorithm talks to the tree (src/tree/traits.rs).

  A layout algorithm for one node is a pure function of the node's own data, its children's *styles*
  (`get_*_child_style`, `child_count` are pure reads) and the `LayoutInput`; the only effects it has on the tree are
    * `compute_child_layout(child, input)`   (via `measure_child_size` / `perform_child_layout`)  → `call`
    * `set_unrounded_layout(child, layout)`                                                   → `setLayout`
  Children are addressed by their index in the node's child list.  `ProgM α β` is the free monad over these two
  effects, so algorithms can be written in `do` notation exactly in the order the Rust performs the calls.
-/
import TaffyVerif.Model.Style

inductive ProgM (α : Type) (β : Type) where
  | pure (b : β)
  | call (child : Nat) (input : LayoutInput α) (k : LayoutOutput α → ProgM α β)
  | setLayout (child : Nat) (layout : Layout α) (k : Unit → ProgM α β)

namespace ProgM
variable {α β γ : Type}

def bind : ProgM α β → (β → ProgM α γ) → ProgM α γ
  | .pure b, f => f b
  | .call c i k, f => .call c i (fun o => bind (k o) f)
  | .setLayout c l k, f => .setLayout c l (fun u => bind (k u) f)

instance : Monad (ProgM α) where
  pure := ProgM.pure
  bind := ProgM.bind

/-- `tree.compute_child_layout(child, input)` -/
def computeChildLayout (child : Nat) (input : LayoutInput α) : ProgM α (LayoutOutput α) :=
  .call child input .pure

/-- `tree.set_unrounded_layout(child, &layout)` -/
def setUnroundedLayout (child : Nat) (layout : Layout α) : ProgM α Unit :=
  .setLayout child layout .pure

/-- `LayoutPartialTreeExt::perform_child_layout` -/
def performChildLayout (child : Nat) (knownDimensions parentSize : Size (Option α))
    (availableSpace : Size (AvailableSpace α)) (sizingMode : SizingMode)
    (verticalMarginsAreCollapsible : Line Bool) : ProgM α (LayoutOutput α) :=
  computeChildLayout child
    { runMode := .performLayout, sizingMode, axis := .both, knownDimensions, parentSize, availableSpace,
      verticalMarginsAreCollapsible }

/-- `LayoutPartialTreeExt::measure_child_size` for the horizontal axis (`.size.width`) or vertical (`.size.height`) -/
def measureChildSize (child : Nat) (knownDimensions parentSize : Size (Option α))
    (availableSpace : Size (AvailableSpace α)) (sizingMode : SizingMode) (horizontal : Bool)
    (verticalMarginsAreCollapsible : Line Bool) : ProgM α α := do
  let out ← computeChildLayout child
    { runMode := .computeSize, sizingMode, axis := if horizontal then .horizontal else .vertical,
      knownDimensions, parentSize, availableSpace, verticalMarginsAreCollapsible }
  return if horizontal then out.size.width else out.size.height

end ProgM

/-- `LayoutInput::HIDDEN` -/
def LayoutInput.hidden {α : Type} : LayoutInput α :=
  { runMode := .performHiddenLayout, sizingMode := .inherentSize, axis := .both,
    knownDimensions := ⟨none, none⟩, parentSize := ⟨none, none⟩,
    availableSpace := ⟨.maxContent, .maxContent⟩, verticalMarginsAreCollapsible := ⟨false, false⟩ }

/-- The content of a leaf, i.e. what the user's measure function computes (the harness uses exactly these two
families; the measure function is a pure function of its arguments). -/
inductive MeasureSpec (α : Type) where
  /-- returns `(known.width.unwrap_or(w), known.height.unwrap_or(h))` -/
  | fixed (w h : α)
  /-- text-like: intrinsic width `w`, line height `h`; narrower available width wraps onto 2 or 4 lines -/
  | wrap (w h : α)
deriving Repr, BEq, DecidableEq, Inhabited

namespace MeasureSpec
variable {α : Type} [Num α]

/-- the harness' measure function (harness/src/treegen.rs `measure`) -/
def measure (m : MeasureSpec α) (known : Size (Option α)) (avail : Size (AvailableSpace α)) : Size α :=
  match m with
  | .fixed w h => ⟨known.width.getD w, known.height.getD h⟩
  | .wrap w h =>
    let width := match known.width with
      | some kw => kw
      | none => match avail.width with
        | .minContent => w / (Num.two + Num.two)
        | .maxContent => w
        | .definite a => Num.fmax (Num.fmin a w) (w / (Num.two + Num.two))
    let lines : α :=
      if Num.fge width w then 1 else if Num.fge width (w / Num.two) then Num.two else Num.two + Num.two
    ⟨width, known.height.getD (h * lines)⟩
end MeasureSpec

/-- a node of the style tree: style, optional leaf content (node context), children in order -/
inductive STree (α : Type) where
  | node (style : Style α) (ctx : Option (MeasureSpec α)) (children : List (STree α))
deriving Inhabited

namespace STree
variable {α : Type}
def style : STree α → Style α | .node s _ _ => s
def ctx : STree α → Option (MeasureSpec α) | .node _ c _ => c
def children : STree α → List (STree α) | .node _ _ cs => cs
end STree
