/-
  Typed length wrappers and resolvers on top of the *generated* CompactLength bit model
  (Generated/CompactLength.lean, regenerated from src/style/compact_length.rs on every run).

  Hand-written from src/style/dimension.rs, src/style/grid.rs (Min/MaxTrackSizingFunction) and
  src/util/resolve.rs; f32 values are their 32-bit patterns, f32 multiplication and the user calc
  resolver are parameters (`Ops`).  `LengthPercentage`, `LengthPercentageAuto`, `Dimension`,
  `MinTrackSizingFunction`, `MaxTrackSizingFunction` are `pub(crate)` newtypes of `CompactLength`
  whose constructors forward unchanged, so they are all `BitVec 64` here.
-/
import TaffyVerif.Generated.CompactLength

namespace LenModel
open Gen.CL

abbrev V := BitVec 32

structure Ops where
  mul : V → V → V
  calcFn : BitVec 64 → V → V

/-- outcome of a resolver: a value, or the `unreachable!()` arm -/
inductive Res (β : Type) where
  | ok (v : β)
  | unreachable
deriving Repr, DecidableEq

/-- `impl MaybeResolve<Option<f32>, Option<f32>> for LengthPercentage` -/
def maybeResolveLP (o : Ops) (x : BitVec 64) (ctx : Option V) : Res (Option V) :=
  if tag x == LENGTH_TAG then .ok (some (value x))
  else if tag x == PERCENT_TAG then .ok (ctx.map fun dim => o.mul dim (value x))
  else if is_calc x then .ok (ctx.map fun dim => o.calcFn (calc_value x) dim)
  else .unreachable

/-- `impl MaybeResolve<Option<f32>, Option<f32>> for LengthPercentageAuto` and `for Dimension` (same body) -/
def maybeResolveLPA (o : Ops) (x : BitVec 64) (ctx : Option V) : Res (Option V) :=
  if tag x == AUTO_TAG then .ok none
  else if tag x == LENGTH_TAG then .ok (some (value x))
  else if tag x == PERCENT_TAG then .ok (ctx.map fun dim => o.mul dim (value x))
  else if is_calc x then .ok (ctx.map fun dim => o.calcFn (calc_value x) dim)
  else .unreachable

/-- `resolve_or_zero` = `maybe_resolve(..).unwrap_or(0.0)` -/
def resolveOrZero (r : Res (Option V)) : Res V :=
  match r with
  | .ok (some v) => .ok v
  | .ok none => .ok 0#32
  | .unreachable => .unreachable

/-- `LengthPercentageAuto::resolve_to_option` (f32 context) -/
def resolveToOption (o : Ops) (x : BitVec 64) (ctx : V) : Res (Option V) :=
  if tag x == LENGTH_TAG then .ok (some (value x))
  else if tag x == PERCENT_TAG then .ok (some (o.mul ctx (value x)))
  else if tag x == AUTO_TAG then .ok none
  else if is_calc x then .ok (some (o.calcFn (calc_value x) ctx))
  else .unreachable

/-- `Dimension::into_option` -/
def intoOption (x : BitVec 64) : Option V :=
  if tag x == LENGTH_TAG then some (value x) else none

/-- `Min/MaxTrackSizingFunction::definite_value` (note the operand order `value * size`) -/
def definiteValue (o : Ops) (x : BitVec 64) (parent : Option V) : Option V :=
  if tag x == LENGTH_TAG then some (value x)
  else if tag x == PERCENT_TAG then parent.map fun size => o.mul (value x) size
  else if is_calc x then parent.map fun size => o.calcFn (calc_value x) size
  else none

/-- `MaxTrackSizingFunction::has_definite_value` -/
def hasDefiniteValue (x : BitVec 64) (parent : Option V) : Bool :=
  if tag x == LENGTH_TAG then true
  else if tag x == PERCENT_TAG then parent.isSome
  else if is_calc x then parent.isSome
  else false

/-- `MaxTrackSizingFunction::definite_limit` -/
def definiteLimit (o : Ops) (x : BitVec 64) (parent : Option V) : Option V :=
  if tag x == FIT_CONTENT_PX_TAG then some (value x)
  else if tag x == FIT_CONTENT_PERCENT_TAG then parent.map fun size => o.mul (value x) size
  else definiteValue o x parent

/-- `CompactLength::resolved_percentage_size` -/
def resolvedPercentageSize (o : Ops) (x : BitVec 64) (parent : V) : Option V :=
  if tag x == PERCENT_TAG then some (o.mul (value x) parent)
  else if is_calc x then some (o.calcFn (calc_value x) parent)
  else none

end LenModel
