/-
  Style model shared by the layout-algorithm models (src/style/mod.rs, dimension.rs, alignment.rs, flex.rs, block.rs)
  and the numeric helpers they all use (src/util/math.rs `MaybeMath`, src/util/resolve.rs, geometry.rs helpers).

  Lengths are the *abstract* values that C18 proves the packed representation round-trips to:
  `length v | percent v | auto`.  calc() is not modelled (TaffyTree resolves calc to 0 and the generators never
  produce it).  Grid-specific style (templates, placements) lives with the grid models.
-/
import TaffyVerif.Model.Geometry
import TaffyVerif.Model.GridTypes

inductive Display where
  | block | flex | grid | none
deriving Repr, BEq, DecidableEq, Inhabited

inductive Position where
  | relative | absolute
deriving Repr, BEq, DecidableEq, Inhabited

inductive BoxSizing where
  | borderBox | contentBox
deriving Repr, BEq, DecidableEq, Inhabited

inductive Overflow where
  | visible | clip | hidden | scroll
deriving Repr, BEq, DecidableEq, Inhabited

inductive TextAlign where
  | auto | legacyLeft | legacyRight | legacyCenter
deriving Repr, BEq, DecidableEq, Inhabited

inductive FlexDirection where
  | row | column | rowReverse | columnReverse
deriving Repr, BEq, DecidableEq, Inhabited

inductive FlexWrap where
  | noWrap | wrap | wrapReverse
deriving Repr, BEq, DecidableEq, Inhabited

/-- `AlignItems` = `AlignSelf` = `JustifyItems` = `JustifySelf` -/
inductive AlignItems where
  | start | «end» | flexStart | flexEnd | center | baseline | stretch
deriving Repr, BEq, DecidableEq, Inhabited

/-- `AlignContent` = `JustifyContent` -/
inductive AlignContent where
  | start | «end» | flexStart | flexEnd | center | stretch | spaceBetween | spaceEvenly | spaceAround
deriving Repr, BEq, DecidableEq, Inhabited

/-- `LengthPercentage` -/
inductive LP (α : Type) where
  | length (v : α)
  | percent (v : α)
deriving Repr, BEq, DecidableEq, Inhabited

/-- `LengthPercentageAuto` and `Dimension` (same three variants, same resolution) -/
inductive LPA (α : Type) where
  | length (v : α)
  | percent (v : α)
  | auto
deriving Repr, BEq, DecidableEq, Inhabited

abbrev Dimension := LPA

structure Style (α : Type) where
  display : Display
  itemIsTable : Bool
  itemIsReplaced : Bool
  boxSizing : BoxSizing
  overflow : Point Overflow
  scrollbarWidth : α
  position : Position
  inset : Rect (LPA α)
  size : Size (Dimension α)
  minSize : Size (Dimension α)
  maxSize : Size (Dimension α)
  aspectRatio : Option α
  margin : Rect (LPA α)
  padding : Rect (LP α)
  border : Rect (LP α)
  alignItems : Option AlignItems
  alignSelf : Option AlignItems
  justifyItems : Option AlignItems
  justifySelf : Option AlignItems
  alignContent : Option AlignContent
  justifyContent : Option AlignContent
  gap : Size (LP α)
  textAlign : TextAlign
  flexDirection : FlexDirection
  flexWrap : FlexWrap
  flexBasis : Dimension α
  flexGrow : α
  flexShrink : α
  /-- the grid fields (templates, auto tracks, auto flow, the child's placement); `Style::DEFAULT`'s values unless given -/
  grid : GridExt α := {}
deriving Repr, BEq, DecidableEq, Inhabited

namespace Overflow
def isScrollContainer : Overflow → Bool
  | .visible | .clip => false
  | .hidden | .scroll => true
def maybeIntoAutomaticMinSize {α : Type} [Num α] (o : Overflow) : Option α :=
  if o.isScrollContainer then some 0 else none
end Overflow

namespace FlexDirection
def isRow : FlexDirection → Bool
  | .row | .rowReverse => true
  | _ => false
def isColumn : FlexDirection → Bool
  | .column | .columnReverse => true
  | _ => false
def isReverse : FlexDirection → Bool
  | .rowReverse | .columnReverse => true
  | _ => false
end FlexDirection

namespace Style
variable {α : Type} [Num α]

/-- `Style::DEFAULT` -/
def default : Style α :=
  { display := .flex, itemIsTable := false, itemIsReplaced := false, boxSizing := .borderBox,
    overflow := ⟨.visible, .visible⟩, scrollbarWidth := 0, position := .relative,
    inset := ⟨.auto, .auto, .auto, .auto⟩, size := ⟨.auto, .auto⟩, minSize := ⟨.auto, .auto⟩,
    maxSize := ⟨.auto, .auto⟩, aspectRatio := none,
    margin := ⟨.length 0, .length 0, .length 0, .length 0⟩,
    padding := ⟨.length 0, .length 0, .length 0, .length 0⟩,
    border := ⟨.length 0, .length 0, .length 0, .length 0⟩,
    alignItems := none, alignSelf := none, justifyItems := none, justifySelf := none,
    alignContent := none, justifyContent := none, gap := ⟨.length 0, .length 0⟩,
    textAlign := .auto, flexDirection := .row, flexWrap := .noWrap, flexBasis := .auto,
    flexGrow := 0, flexShrink := 1 }

/-- `CoreStyle::box_generation_mode() == BoxGenerationMode::None` -/
def isHidden (s : Style α) : Bool := s.display == .none
def isBlock (s : Style α) : Bool := s.display == .block

end Style

/-! ### resolution (util/resolve.rs on the abstract values) -/

namespace LP
variable {α : Type} [Num α]
/-- `MaybeResolve<Option<f32>, Option<f32>> for LengthPercentage` -/
def maybeResolve (x : LP α) (ctx : Option α) : Option α :=
  match x with
  | .length v => some v
  | .percent f => ctx.map fun dim => dim * f
def resolveOrZero (x : LP α) (ctx : Option α) : α := (x.maybeResolve ctx).getD 0
end LP

namespace LPA
variable {α : Type} [Num α]
/-- `MaybeResolve<Option<f32>, Option<f32>> for LengthPercentageAuto` / `Dimension` -/
def maybeResolve (x : LPA α) (ctx : Option α) : Option α :=
  match x with
  | .auto => none
  | .length v => some v
  | .percent f => ctx.map fun dim => dim * f
def resolveOrZero (x : LPA α) (ctx : Option α) : α := (x.maybeResolve ctx).getD 0
/-- `LengthPercentageAuto::resolve_to_option` -/
def resolveToOption (x : LPA α) (ctx : α) : Option α :=
  match x with
  | .length v => some v
  | .percent f => some (ctx * f)
  | .auto => none
def isAuto : LPA α → Bool
  | .auto => true
  | _ => false
end LPA

namespace Resolve
variable {α : Type} [Num α]
/-- `Size<Dimension>::maybe_resolve(Size<Option<f32>>)` -/
def sizeMaybe (s : Size (LPA α)) (ctx : Size (Option α)) : Size (Option α) :=
  ⟨s.width.maybeResolve ctx.width, s.height.maybeResolve ctx.height⟩
/-- `Rect<LengthPercentage>::resolve_or_zero(Option<f32>)` : all four sides against the same context -/
def rectLPOrZero (r : Rect (LP α)) (ctx : Option α) : Rect α :=
  ⟨r.left.resolveOrZero ctx, r.right.resolveOrZero ctx, r.top.resolveOrZero ctx, r.bottom.resolveOrZero ctx⟩
def rectLPAOrZero (r : Rect (LPA α)) (ctx : Option α) : Rect α :=
  ⟨r.left.resolveOrZero ctx, r.right.resolveOrZero ctx, r.top.resolveOrZero ctx, r.bottom.resolveOrZero ctx⟩
/-- `Rect<T>::resolve_or_zero(Size<Option<f32>>)` : left/right against width, top/bottom against height -/
def rectLPOrZeroSize (r : Rect (LP α)) (ctx : Size (Option α)) : Rect α :=
  ⟨r.left.resolveOrZero ctx.width, r.right.resolveOrZero ctx.width, r.top.resolveOrZero ctx.height,
   r.bottom.resolveOrZero ctx.height⟩
def rectLPAOrZeroSize (r : Rect (LPA α)) (ctx : Size (Option α)) : Rect α :=
  ⟨r.left.resolveOrZero ctx.width, r.right.resolveOrZero ctx.width, r.top.resolveOrZero ctx.height,
   r.bottom.resolveOrZero ctx.height⟩
/-- `Rect<LengthPercentageAuto>.map(|m| m.maybe_resolve(ctx))` -/
def rectLPAMaybe (r : Rect (LPA α)) (ctx : Option α) : Rect (Option α) :=
  ⟨r.left.maybeResolve ctx, r.right.maybeResolve ctx, r.top.maybeResolve ctx, r.bottom.maybeResolve ctx⟩
def sizeLPOrZero (s : Size (LP α)) (ctx : Size (Option α)) : Size α :=
  ⟨s.width.resolveOrZero ctx.width, s.height.resolveOrZero ctx.height⟩
end Resolve

/-! ### `MaybeMath` (util/math.rs) -/

namespace MaybeMath
variable {α : Type} [Num α]

-- Option<f32> ∘ Option<f32>
def oo_min (l r : Option α) : Option α :=
  match l, r with
  | some a, some b => some (Num.fmin a b)
  | some a, none => some a
  | none, _ => none
def oo_max (l r : Option α) : Option α :=
  match l, r with
  | some a, some b => some (Num.fmax a b)
  | some a, none => some a
  | none, _ => none
def oo_clamp (x mn mx : Option α) : Option α :=
  match x, mn, mx with
  | some b, some mn, some mx => some (Num.fmax (Num.fmin b mx) mn)
  | some b, none, some mx => some (Num.fmin b mx)
  | some b, some mn, none => some (Num.fmax b mn)
  | some b, none, none => some b
  | none, _, _ => none
def oo_add (l r : Option α) : Option α :=
  match l, r with
  | some a, some b => some (a + b)
  | some a, none => some a
  | none, _ => none
def oo_sub (l r : Option α) : Option α :=
  match l, r with
  | some a, some b => some (a - b)
  | some a, none => some a
  | none, _ => none

-- Option<f32> ∘ f32
def of_min (l : Option α) (r : α) : Option α := l.map fun v => Num.fmin v r
def of_max (l : Option α) (r : α) : Option α := l.map fun v => Num.fmax v r
def of_clamp (l : Option α) (mn mx : α) : Option α := l.map fun v => Num.fmax (Num.fmin v mx) mn
def of_add (l : Option α) (r : α) : Option α := l.map fun v => v + r
def of_sub (l : Option α) (r : α) : Option α := l.map fun v => v - r

-- f32 ∘ Option<f32>
def fo_min (l : α) (r : Option α) : α := match r with | some v => Num.fmin l v | none => l
def fo_max (l : α) (r : Option α) : α := match r with | some v => Num.fmax l v | none => l
def fo_clamp (x : α) (mn mx : Option α) : α :=
  match mn, mx with
  | some mn, some mx => Num.fmax (Num.fmin x mx) mn
  | none, some mx => Num.fmin x mx
  | some mn, none => Num.fmax x mn
  | none, none => x
def fo_add (l : α) (r : Option α) : α := match r with | some v => l + v | none => l
def fo_sub (l : α) (r : Option α) : α := match r with | some v => l - v | none => l

-- AvailableSpace ∘ f32
def af_min (a : AvailableSpace α) (r : α) : AvailableSpace α :=
  match a with
  | .definite v => .definite (Num.fmin v r)
  | .minContent => .definite r
  | .maxContent => .definite r
def af_max (a : AvailableSpace α) (r : α) : AvailableSpace α :=
  match a with
  | .definite v => .definite (Num.fmax v r)
  | x => x
def af_clamp (a : AvailableSpace α) (mn mx : α) : AvailableSpace α :=
  match a with
  | .definite v => .definite (Num.fmax (Num.fmin v mx) mn)
  | x => x
def af_add (a : AvailableSpace α) (r : α) : AvailableSpace α :=
  match a with
  | .definite v => .definite (v + r)
  | x => x
def af_sub (a : AvailableSpace α) (r : α) : AvailableSpace α :=
  match a with
  | .definite v => .definite (v - r)
  | x => x

-- AvailableSpace ∘ Option<f32>
def ao_min (a : AvailableSpace α) (r : Option α) : AvailableSpace α :=
  match a, r with
  | .definite v, some r => .definite (Num.fmin v r)
  | .definite v, none => .definite v
  | .minContent, some r => .definite r
  | .minContent, none => .minContent
  | .maxContent, some r => .definite r
  | .maxContent, none => .maxContent
def ao_max (a : AvailableSpace α) (r : Option α) : AvailableSpace α :=
  match a, r with
  | .definite v, some r => .definite (Num.fmax v r)
  | x, _ => x
def ao_clamp (a : AvailableSpace α) (mn mx : Option α) : AvailableSpace α :=
  match a, mn, mx with
  | .definite v, some mn, some mx => .definite (Num.fmax (Num.fmin v mx) mn)
  | .definite v, none, some mx => .definite (Num.fmin v mx)
  | .definite v, some mn, none => .definite (Num.fmax v mn)
  | x, _, _ => x
def ao_add (a : AvailableSpace α) (r : Option α) : AvailableSpace α :=
  match a, r with
  | .definite v, some r => .definite (v + r)
  | x, _ => x
def ao_sub (a : AvailableSpace α) (r : Option α) : AvailableSpace α :=
  match a, r with
  | .definite v, some r => .definite (v - r)
  | x, _ => x

end MaybeMath

/-! ### geometry helpers -/

namespace Rect
variable {α : Type} [Num α]
def horizontalAxisSum (r : Rect α) : α := r.left + r.right
def verticalAxisSum (r : Rect α) : α := r.top + r.bottom
def sumAxes (r : Rect α) : Size α := ⟨r.horizontalAxisSum, r.verticalAxisSum⟩
def zero : Rect α := ⟨0, 0, 0, 0⟩
def mainAxisSum (r : Rect α) (d : FlexDirection) : α :=
  if d.isRow then r.horizontalAxisSum else r.verticalAxisSum
def crossAxisSum (r : Rect α) (d : FlexDirection) : α :=
  if d.isRow then r.verticalAxisSum else r.horizontalAxisSum
def add (a b : Rect α) : Rect α := ⟨a.left + b.left, a.right + b.right, a.top + b.top, a.bottom + b.bottom⟩
end Rect

namespace Size
variable {α : Type} [Num α]
def zero : Size α := ⟨0, 0⟩
def none {β : Type} : Size (Option β) := ⟨Option.none, Option.none⟩
def map {β γ : Type} (s : Size β) (f : β → γ) : Size γ := ⟨f s.width, f s.height⟩
def zipMap {β γ δ : Type} (a : Size β) (b : Size γ) (f : β → γ → δ) : Size δ := ⟨f a.width b.width, f a.height b.height⟩
def orOpt {β : Type} (a b : Size (Option β)) : Size (Option β) := ⟨a.width.or b.width, a.height.or b.height⟩
def unwrapOr {β : Type} (a : Size (Option β)) (b : Size β) : Size β := ⟨a.width.getD b.width, a.height.getD b.height⟩
def bothAxisDefined {β : Type} (a : Size (Option β)) : Bool := a.width.isSome && a.height.isSome
def main {β : Type} (s : Size β) (d : FlexDirection) : β := if d.isRow then s.width else s.height
def cross {β : Type} (s : Size β) (d : FlexDirection) : β := if d.isRow then s.height else s.width
def f32Max (a b : Size α) : Size α := ⟨Num.fmax a.width b.width, Num.fmax a.height b.height⟩
def f32Min (a b : Size α) : Size α := ⟨Num.fmin a.width b.width, Num.fmin a.height b.height⟩
def add (a b : Size α) : Size α := ⟨a.width + b.width, a.height + b.height⟩
def sub (a b : Size α) : Size α := ⟨a.width - b.width, a.height - b.height⟩
/-- `Size<Option<f32>>::maybe_apply_aspect_ratio` -/
def maybeApplyAspectRatio (s : Size (Option α)) (ratio : Option α) : Size (Option α) :=
  match ratio with
  | some r =>
    match s.width, s.height with
    | some w, Option.none => ⟨some w, some (w / r)⟩
    | Option.none, some h => ⟨some (h * r), some h⟩
    | _, _ => s
  | Option.none => s
-- Size-lifted MaybeMath
def oo_add (a b : Size (Option α)) : Size (Option α) := ⟨MaybeMath.oo_add a.width b.width, MaybeMath.oo_add a.height b.height⟩
def oo_sub (a b : Size (Option α)) : Size (Option α) := ⟨MaybeMath.oo_sub a.width b.width, MaybeMath.oo_sub a.height b.height⟩
def oo_max (a b : Size (Option α)) : Size (Option α) := ⟨MaybeMath.oo_max a.width b.width, MaybeMath.oo_max a.height b.height⟩
def oo_min (a b : Size (Option α)) : Size (Option α) := ⟨MaybeMath.oo_min a.width b.width, MaybeMath.oo_min a.height b.height⟩
def oo_clamp (a mn mx : Size (Option α)) : Size (Option α) :=
  ⟨MaybeMath.oo_clamp a.width mn.width mx.width, MaybeMath.oo_clamp a.height mn.height mx.height⟩
def of_add (a : Size (Option α)) (b : Size α) : Size (Option α) := ⟨MaybeMath.of_add a.width b.width, MaybeMath.of_add a.height b.height⟩
def of_sub (a : Size (Option α)) (b : Size α) : Size (Option α) := ⟨MaybeMath.of_sub a.width b.width, MaybeMath.of_sub a.height b.height⟩
def of_max (a : Size (Option α)) (b : Size α) : Size (Option α) := ⟨MaybeMath.of_max a.width b.width, MaybeMath.of_max a.height b.height⟩
def fo_clamp (a : Size α) (mn mx : Size (Option α)) : Size α :=
  ⟨MaybeMath.fo_clamp a.width mn.width mx.width, MaybeMath.fo_clamp a.height mn.height mx.height⟩
def fo_max (a : Size α) (b : Size (Option α)) : Size α := ⟨MaybeMath.fo_max a.width b.width, MaybeMath.fo_max a.height b.height⟩
def fo_min (a : Size α) (b : Size (Option α)) : Size α := ⟨MaybeMath.fo_min a.width b.width, MaybeMath.fo_min a.height b.height⟩
def ao_sub (a : Size (AvailableSpace α)) (b : Size (Option α)) : Size (AvailableSpace α) :=
  ⟨MaybeMath.ao_sub a.width b.width, MaybeMath.ao_sub a.height b.height⟩
def af_sub (a : Size (AvailableSpace α)) (b : Size α) : Size (AvailableSpace α) :=
  ⟨MaybeMath.af_sub a.width b.width, MaybeMath.af_sub a.height b.height⟩
end Size

namespace AvailableSpace
variable {α : Type} [Num α]
def intoOption : AvailableSpace α → Option α
  | .definite v => some v
  | _ => none
def isDefinite : AvailableSpace α → Bool
  | .definite _ => true
  | _ => false
/-- `AvailableSpace::maybe_set(Option<f32>)` -/
def maybeSet (a : AvailableSpace α) (v : Option α) : AvailableSpace α :=
  match v with
  | some x => .definite x
  | none => a
def unwrapOr (a : AvailableSpace α) (d : α) : α := (intoOption a).getD d
/-- `From<Option<f32>>`: `Some(v) → Definite(v)`, `None → MaxContent` -/
def ofOption : Option α → AvailableSpace α
  | some v => .definite v
  | none => .maxContent
end AvailableSpace

namespace Point
def transpose {β : Type} (p : Point β) : Point β := ⟨p.y, p.x⟩
end Point
