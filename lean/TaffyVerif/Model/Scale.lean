/-
  C04 — uniform scaling of all lengths (definitions only; no Mathlib).

  `Scalable.scale k x` multiplies every *absolute length* inside `x` by `k` and leaves everything dimensionless
  (percentages, flex factors, `fr` factors, aspect ratios, enums, flags, paint order, child indices, grid placements)
  unchanged.  All instances are
  at `Rat` (the instance at which theorems are stated).

  `scaleProg k p` is the image of an interaction program under scaling: every `call` input and every layout that is
  set is scaled, the final result is scaled, and the answers the continuation receives are un-scaled first
  (`scale k⁻¹`), so that `scaleProg k p` run against children that answer `scale k o` behaves as `p` run against
  children that answer `o`.
-/
import TaffyVerif.Model.Prog
import TaffyVerif.Model.Leaf
import TaffyVerif.Model.Eval

class Scalable (β : Type) where
  scale : Rat → β → β

namespace Scalable

instance : Scalable Rat := ⟨fun k x => k * x⟩
instance : Scalable Bool := ⟨fun _ b => b⟩
instance : Scalable Nat := ⟨fun _ n => n⟩
instance : Scalable Unit := ⟨fun _ u => u⟩

instance {β : Type} [Scalable β] : Scalable (Option β) := ⟨fun k o => o.map (scale k)⟩
instance {β : Type} [Scalable β] : Scalable (List β) := ⟨fun k l => l.map (scale k)⟩
instance {β γ : Type} [Scalable β] [Scalable γ] : Scalable (β × γ) := ⟨fun k p => (scale k p.1, scale k p.2)⟩

instance {β : Type} [Scalable β] : Scalable (Size β) := ⟨fun k s => ⟨scale k s.width, scale k s.height⟩⟩
instance {β : Type} [Scalable β] : Scalable (Point β) := ⟨fun k p => ⟨scale k p.x, scale k p.y⟩⟩
instance {β : Type} [Scalable β] : Scalable (Rect β) :=
  ⟨fun k r => ⟨scale k r.left, scale k r.right, scale k r.top, scale k r.bottom⟩⟩
instance {β : Type} [Scalable β] : Scalable (Line β) := ⟨fun k l => ⟨scale k l.start, scale k l.«end»⟩⟩

/-- definite values only -/
instance {β : Type} [Scalable β] : Scalable (AvailableSpace β) :=
  ⟨fun k a => match a with
    | .definite v => .definite (scale k v)
    | .minContent => .minContent
    | .maxContent => .maxContent⟩

/-- lengths only; percentages are untouched -/
instance {β : Type} [Scalable β] : Scalable (LP β) :=
  ⟨fun k x => match x with
    | .length v => .length (scale k v)
    | .percent f => .percent f⟩

instance {β : Type} [Scalable β] : Scalable (LPA β) :=
  ⟨fun k x => match x with
    | .length v => .length (scale k v)
    | .percent f => .percent f
    | .auto => .auto⟩

instance {β : Type} [Scalable β] : Scalable (MarginSet β) := ⟨fun k m => ⟨scale k m.positive, scale k m.negative⟩⟩

/-! grid track sizing functions (`Model/GridTypes.lean`): `length` and `fit-content(px)` are scaled; percentages,
`fr` factors, keywords, repetition counts and placements are not -/

instance : Scalable (GridTracks.MinTrack Rat) :=
  ⟨fun k f => match f with
    | .length v => .length (scale k v)
    | .percent v => .percent v
    | .auto => .auto
    | .minContent => .minContent
    | .maxContent => .maxContent⟩

instance : Scalable (GridTracks.MaxTrack Rat) :=
  ⟨fun k f => match f with
    | .length v => .length (scale k v)
    | .percent v => .percent v
    | .auto => .auto
    | .minContent => .minContent
    | .maxContent => .maxContent
    | .fitContentPx v => .fitContentPx (scale k v)
    | .fitContentPercent v => .fitContentPercent v
    | .fr v => .fr v⟩

instance : Scalable (GridTracks.TrackFn Rat) := ⟨fun k f => ⟨scale k f.min, scale k f.max⟩⟩

instance : Scalable (GridTracks.TrackDef Rat) :=
  ⟨fun k d => match d with
    | .single f => .single (scale k f)
    | .rep r fs => .rep r (scale k fs)⟩

/-- the grid fields of a style: the lengths inside `grid_template_rows/columns` and `grid_auto_rows/columns` -/
instance : Scalable (GridExt Rat) :=
  ⟨fun k g =>
    { g with templateRows := scale k g.templateRows, templateColumns := scale k g.templateColumns,
             autoRows := scale k g.autoRows, autoColumns := scale k g.autoColumns }⟩

/-- every length of a style, the grid track lists included; NOT `aspectRatio`, `flexGrow`, `flexShrink`, percentages,
`fr` factors, enums -/
instance : Scalable (Style Rat) :=
  ⟨fun k s =>
    { s with
      scrollbarWidth := scale k s.scrollbarWidth
      inset := scale k s.inset
      size := scale k s.size
      minSize := scale k s.minSize
      maxSize := scale k s.maxSize
      margin := scale k s.margin
      padding := scale k s.padding
      border := scale k s.border
      gap := scale k s.gap
      flexBasis := scale k s.flexBasis
      grid := scale k s.grid }⟩

instance : Scalable (MeasureSpec Rat) :=
  ⟨fun k m => match m with
    | .fixed w h => .fixed (scale k w) (scale k h)
    | .wrap w h => .wrap (scale k w) (scale k h)⟩

instance : Scalable (LayoutInput Rat) :=
  ⟨fun k i =>
    { i with
      knownDimensions := scale k i.knownDimensions
      parentSize := scale k i.parentSize
      availableSpace := scale k i.availableSpace }⟩

instance : Scalable (LayoutOutput Rat) :=
  ⟨fun k o =>
    { o with
      size := scale k o.size
      contentSize := scale k o.contentSize
      firstBaselines := scale k o.firstBaselines
      topMargin := scale k o.topMargin
      bottomMargin := scale k o.bottomMargin }⟩

/-- all numeric fields; `order` unchanged -/
instance : Scalable (Layout Rat) :=
  ⟨fun k l =>
    { order := l.order
      location := scale k l.location
      size := scale k l.size
      contentSize := scale k l.contentSize
      scrollbarSize := scale k l.scrollbarSize
      border := scale k l.border
      padding := scale k l.padding
      margin := scale k l.margin }⟩

instance : Scalable (LeafModel.MeasureCall Rat) :=
  ⟨fun k c => ⟨scale k c.knownDimensions, scale k c.availableSpace⟩⟩

/-- a measure function whose arguments and result are scaled -/
def scaleMeasure (k : Rat) (m : Size (Option Rat) → Size (AvailableSpace Rat) → Size Rat) :
    Size (Option Rat) → Size (AvailableSpace Rat) → Size Rat :=
  fun kd av => scale k (m (scale k⁻¹ kd) (scale k⁻¹ av))

/-- the scaled interaction program -/
def scaleProg {β : Type} [Scalable β] (k : Rat) : ProgM Rat β → ProgM Rat β
  | .pure b => .pure (scale k b)
  | .call i inp c => .call i (scale k inp) (fun o => scaleProg k (c (scale k⁻¹ o)))
  | .setLayout i l c => .setLayout i (scale k l) (fun u => scaleProg k (c u))

instance {β : Type} [Scalable β] : Scalable (ProgM Rat β) := ⟨scaleProg⟩

/-- traced results of the leaf model: the output and the recorded measure-call arguments are scaled; a panic stays -/
instance {β : Type} [Scalable β] : Scalable (LeafModel.Traced Rat β) :=
  ⟨fun k r => match r with
    | .ok (b, calls) => .ok (scale k b, scale k calls)
    | .error e => .error e⟩

mutual
def scaleTree (k : Rat) : STree Rat → STree Rat
  | .node s c kids => .node (scale k s) (scale k c) (scaleTrees k kids)
def scaleTrees (k : Rat) : List (STree Rat) → List (STree Rat)
  | [] => []
  | t :: ts => scaleTree k t :: scaleTrees k ts
end

instance : Scalable (STree Rat) := ⟨scaleTree⟩

mutual
/-- per-node mutable data: every stored layout is scaled, the cache component is left alone (the theorems are about
the cache-free evaluator, where it is `Unit`) -/
def scaleNS {C : Type} (k : Rat) : Eval.NS Rat C → Eval.NS Rat C
  | .mk c l kids => .mk c (scale k l) (scaleNSs k kids)
def scaleNSs {C : Type} (k : Rat) : List (Eval.NS Rat C) → List (Eval.NS Rat C)
  | [] => []
  | n :: ns => scaleNS k n :: scaleNSs k ns
end

instance {C : Type} : Scalable (Eval.NS Rat C) := ⟨scaleNS⟩

end Scalable
