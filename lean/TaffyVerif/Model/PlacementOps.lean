/-
  Vocabulary of the generated translation of the grid placement code (Generated/Placement.lean, extract/src/placement.rs).
  Hand-written, no Mathlib.  It gives a meaning to what the translator does not translate:

    * the `grid` crate's `Grid<CellOccupancyState>`: `GridPlacement.Grid` (row-major list, bounds-checked access).  The generated code
      works with `Int`s; `gridNew` / `gridFromVec` / `gridRows` / `gridCols` convert to the model's `Nat` dimensions.  `Grid.get`,
      `Grid.set` (= `*get_mut(r, c).unwrap() = v`), `Grid.iterRow`, `Grid.iterCol` take `Int` indices and answer "out of bounds" for a
      negative one — in the source the index is an i16 cast `as usize`, a negative value wraps to ≥ 2^63 and is out of bounds;
    * `Option::unwrap` (panic message = the model's, which names the enclosing function), `Iterator::rposition`;
    * `for` loops with effects (`forM`) and `loop` under fuel (`loop`: the step answers `Sum.inl state` to go on, `Sum.inr r` to return);
    * `InBothAbsAxis<Line<OriginZeroGridPlacement>>` and the part of a `GridItem` that placement determines.
-/
import TaffyVerif.Model.GridPlacement

namespace Occ
open GridPlacement

/-- `InBothAbsAxis<Line<OriginZeroGridPlacement>>` -/
structure InBoth where
  horizontal : Line Placement
  vertical : Line Placement
deriving Repr, BEq, DecidableEq, Inhabited

/-- what `GridItem::new_with_placement_style_and_order(node, col_span, row_span, style, align, justify, source_order)` records of a
placement: the source order and the two spans (node, style and the alignments are not modelled) -/
structure PlacedItem where
  order : Int
  row : Line Int
  column : Line Int
deriving Repr, BEq, DecidableEq, Inhabited

/-- `Grid::new(rows, cols)` -/
def gridNew (rows cols : Int) : Grid := Grid.new rows.toNat cols.toNat
/-- `Grid::from_vec(data, cols)` -/
def gridFromVec (v : List Cell) (cols : Int) : Outcome Grid := Grid.fromVec v cols.toNat
/-- `Grid::rows()` -/
def gridRows (g : Grid) : Int := g.rows
/-- `Grid::cols()` -/
def gridCols (g : Grid) : Int := g.cols

/-- `Option::unwrap` inside the function `fn` -/
def unwrap {α : Type} (fn : String) : Option α → Outcome α
  | some a => .ok a
  | none => .panic ("called `Option::unwrap()` on a `None` value (" ++ fn ++ ")")

/-- `Iterator::rposition` (the index as an integer) -/
def rposition {α : Type} (p : α → Bool) (l : List α) : Option Int := (GridPlacement.rposition p l).map Int.ofNat

/-- `for x in l { state = body(x, state) }` with checked operations in the body -/
def forM {α σ : Type} : List α → σ → (α → σ → Outcome σ) → Outcome σ
  | [], s, _ => pure s
  | x :: xs, s, f => do
    let s' ← f x s
    forM xs s' f

/-- `loop { … }` under fuel: `Sum.inl s` = next iteration with state `s`, `Sum.inr r` = `return r` -/
def loop {σ ρ : Type} : Nat → σ → (σ → Outcome (σ ⊕ ρ)) → Outcome ρ
  | 0, _, _ => .outOfFuel
  | fuel + 1, s, step => do
    match ← step s with
    | .inl s' => loop fuel s' step
    | .inr r => pure r

end Occ
