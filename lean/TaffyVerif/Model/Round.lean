/-
  Pixel rounding (src/compute/mod.rs `round_layout` / `round_layout_inner` / `round_content_size`, default feature set,
  so `content_size` is on) and the part of `TaffyTree` that decides which layout `layout()` reports
  (src/tree/taffy_tree.rs: `NodeData.{unrounded_layout, final_layout}`, `TaffyConfig.use_rounding`,
  `layout`, `unrounded_layout`, `enable_rounding`, `disable_rounding`, `compute_layout_with_measure`).

  No Mathlib import (the driver links this file).
-/
import TaffyVerif.Num
import TaffyVerif.Model.Geometry

/-- a tree of layouts: what `round_layout` sees through `RoundTree` (`get_unrounded_layout`, `child_count`, `get_child_id`) -/
inductive LTree (α : Type) where
  | node (layout : Layout α) (children : List (LTree α))
deriving Repr, Inhabited

namespace LTree
variable {α : Type}

def layout : LTree α → Layout α
  | .node l _ => l

def children : LTree α → List (LTree α)
  | .node _ cs => cs

/-- subtree at a path of child indices (root = `[]`) -/
def get? : LTree α → List Nat → Option (LTree α)
  | t, [] => some t
  | .node _ cs, i :: p =>
    match cs[i]? with
    | some c => c.get? p
    | none => none

mutual
/-- all layouts in preorder (the order in which `round_layout_inner` visits the nodes) -/
def flatten : LTree α → List (Layout α)
  | .node l cs => l :: flattenForest cs
def flattenForest : List (LTree α) → List (Layout α)
  | [] => []
  | c :: cs => flatten c ++ flattenForest cs
end

mutual
/-- same shape, every layout replaced by `f layout` -/
def mapLayout (f : Layout α → Layout α) : LTree α → LTree α
  | .node l cs => .node (f l) (mapForest f cs)
def mapForest (f : Layout α → Layout α) : List (LTree α) → List (LTree α)
  | [] => []
  | c :: cs => mapLayout f c :: mapForest f cs
end

mutual
def size : LTree α → Nat
  | .node _ cs => 1 + sizeForest cs
def sizeForest : List (LTree α) → Nat
  | [] => 0
  | c :: cs => size c + sizeForest cs
end

end LTree

/-- the two axes, so that theorems about x/width and y/height are stated once -/
inductive Axis where
  | x
  | y
deriving Repr, BEq, DecidableEq, Inhabited

namespace Layout
variable {α : Type}
/-- `location.x` / `location.y` -/
def loc (ax : Axis) (l : Layout α) : α := match ax with | .x => l.location.x | .y => l.location.y
/-- `size.width` / `size.height` -/
def ext (ax : Axis) (l : Layout α) : α := match ax with | .x => l.size.width | .y => l.size.height
/-- `content_size.width` / `.height` -/
def cext (ax : Axis) (l : Layout α) : α := match ax with | .x => l.contentSize.width | .y => l.contentSize.height
/-- `scrollbar_size.width` / `.height` -/
def sbext (ax : Axis) (l : Layout α) : α := match ax with | .x => l.scrollbarSize.width | .y => l.scrollbarSize.height
/-- start side of a rect along the axis: left / top -/
def rstart (ax : Axis) (r : Rect α) : α := match ax with | .x => r.left | .y => r.top
/-- end side of a rect along the axis: right / bottom -/
def rend (ax : Axis) (r : Rect α) : α := match ax with | .x => r.right | .y => r.bottom
end Layout

namespace RoundModel
variable {α : Type} [Num α]

/--
  Body of `round_layout_inner` for one node. `cx`, `cy` are the *updated* cumulative coordinates
  (`cumulative_x + unrounded_layout.location.x`). Field by field as in the source, `round_content_size` included;
  `order` and `margin` are copied (`let mut layout = unrounded_layout`).
-/
def roundNode (u : Layout α) (cx cy : α) : Layout α :=
  { order := u.order
    location := ⟨Num.round u.location.x, Num.round u.location.y⟩
    size := ⟨Num.round (cx + u.size.width) - Num.round cx, Num.round (cy + u.size.height) - Num.round cy⟩
    scrollbarSize := ⟨Num.round u.scrollbarSize.width, Num.round u.scrollbarSize.height⟩
    border :=
      { left := Num.round (cx + u.border.left) - Num.round cx
        right := Num.round (cx + u.size.width) - Num.round (cx + u.size.width - u.border.right)
        top := Num.round (cy + u.border.top) - Num.round cy
        bottom := Num.round (cy + u.size.height) - Num.round (cy + u.size.height - u.border.bottom) }
    padding :=
      { left := Num.round (cx + u.padding.left) - Num.round cx
        right := Num.round (cx + u.size.width) - Num.round (cx + u.size.width - u.padding.right)
        top := Num.round (cy + u.padding.top) - Num.round cy
        bottom := Num.round (cy + u.size.height) - Num.round (cy + u.size.height - u.padding.bottom) }
    contentSize := ⟨Num.round (cx + u.contentSize.width) - Num.round cx, Num.round (cy + u.contentSize.height) - Num.round cy⟩
    margin := u.margin }

mutual
/-- `round_layout_inner(tree, node, cumulative_x, cumulative_y)`; the result is the tree of `final_layout`s it writes -/
def roundInner : LTree α → α → α → LTree α
  | .node u cs, cumX, cumY =>
    let cx := cumX + u.location.x
    let cy := cumY + u.location.y
    .node (roundNode u cx cy) (roundForest cs cx cy)
/-- the `for index in 0..child_count` loop -/
def roundForest : List (LTree α) → α → α → List (LTree α)
  | [], _, _ => []
  | c :: cs, cx, cy => roundInner c cx cy :: roundForest cs cx cy
end

/-- `round_layout(tree, root)` -/
def roundLayout (t : LTree α) : LTree α := roundInner t 0 0

/-! ### The rounding-relevant state of a `TaffyTree` -/

/-- `config.use_rounding`, every node's `unrounded_layout`, every node's `final_layout` -/
structure TreeState (α : Type) where
  useRounding : Bool
  unrounded : LTree α
  final : LTree α

inductive Op (α : Type) where
  /-- `compute_layout*`: `compute_root_layout` stores the unrounded tree `u` (through `set_unrounded_layout` only), then
      `round_layout` runs iff `use_rounding` -/
  | compute (u : LTree α)
  | enableRounding
  | disableRounding

/-- a fresh tree of the given shape: `TaffyConfig::default()` has `use_rounding = true`, `NodeData::new` puts `Layout::new()` in both slots -/
def TreeState.fresh (shape : LTree α) : TreeState α :=
  { useRounding := true, unrounded := shape.mapLayout (fun _ => Layout.new), final := shape.mapLayout (fun _ => Layout.new) }

def step (s : TreeState α) : Op α → TreeState α
  | .compute u => { s with unrounded := u, final := if s.useRounding then roundLayout u else s.final }
  | .enableRounding => { s with useRounding := true }
  | .disableRounding => { s with useRounding := false }

def run (s : TreeState α) : List (Op α) → TreeState α
  | [] => s
  | op :: ops => run (step s op) ops

/-- `TaffyTree::layout` for every node at once -/
def TreeState.layout (s : TreeState α) : LTree α := if s.useRounding then s.final else s.unrounded

end RoundModel
