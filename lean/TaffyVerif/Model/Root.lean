/-
  `compute_root_layout` (src/compute/mod.rs l.58–153), the dispatch of `TaffyView::compute_child_layout`
  (src/tree/taffy_tree.rs l.346–394) and `compute_hidden_layout` (mod.rs l.264–276), composed for a tree that
  consists of one childless node on a fresh `TaffyTree` (empty cache: `compute_cached_layout` runs the closure).
-/
import TaffyVerif.Model.Leaf
import TaffyVerif.Model.Prog

namespace RootModel
open LeafModel

variable {α : Type} [Num α]

/-- mod.rs l.59–113: the `known_dimensions` that the root is laid out with -/
def rootKnownDimensions (style : Style α) (availableSpace : Size (AvailableSpace α)) : Size (Option α) :=
  -- l.59
  let knownDimensions : Size (Option α) := Size.none
  -- l.63
  let parentSize : Size (Option α) := availableSpace.map AvailableSpace.intoOption
  -- l.66
  if style.isBlock then
    -- l.68–74
    let aspectRatio := style.aspectRatio
    let margin := Resolve.rectLPAOrZero style.margin parentSize.width
    let padding := Resolve.rectLPOrZero style.padding parentSize.width
    let border := Resolve.rectLPOrZero style.border parentSize.width
    let paddingBorderSize := (padding.add border).sumAxes
    let boxSizingAdjustment := if style.boxSizing == .contentBox then paddingBorderSize else Size.zero
    -- l.76–91
    let minSize :=
      ((Resolve.sizeMaybe style.minSize parentSize).maybeApplyAspectRatio aspectRatio).of_add boxSizingAdjustment
    let maxSize :=
      ((Resolve.sizeMaybe style.maxSize parentSize).maybeApplyAspectRatio aspectRatio).of_add boxSizingAdjustment
    let clampedStyleSize :=
      (((Resolve.sizeMaybe style.size parentSize).maybeApplyAspectRatio aspectRatio).of_add boxSizingAdjustment).oo_clamp
        minSize maxSize
    -- l.94–97
    let minMaxDefiniteSize : Size (Option α) := minSize.zipMap maxSize fun mn mx =>
      match mn, mx with
      | some mn, some mx => if Num.fle mx mn then some mn else none
      | _, _ => none
    -- l.100–103
    let availableSpaceBasedSize : Size (Option α) :=
      { width := MaybeMath.of_sub availableSpace.width.intoOption margin.horizontalAxisSum
        height := none }
    -- l.105–111
    (((knownDimensions.orOpt minMaxDefiniteSize).orOpt clampedStyleSize).orOpt availableSpaceBasedSize).of_max
      paddingBorderSize
  else knownDimensions

/-- mod.rs l.116–123: the `LayoutInput` of the root's `perform_child_layout` -/
def rootInput (style : Style α) (availableSpace : Size (AvailableSpace α)) : LayoutInput α :=
  { runMode := .performLayout, sizingMode := .inherentSize, axis := .both,
    knownDimensions := rootKnownDimensions style availableSpace,
    parentSize := availableSpace.map AvailableSpace.intoOption,
    availableSpace, verticalMarginsAreCollapsible := ⟨false, false⟩ }

/-- mod.rs l.125–152: the layout written for the root -/
def rootLayout (style : Style α) (availableSpace : Size (AvailableSpace α)) (out : LayoutOutput α) : Layout α :=
  let padding := Resolve.rectLPOrZero style.padding availableSpace.width.intoOption
  let border := Resolve.rectLPOrZero style.border availableSpace.width.intoOption
  let margin := Resolve.rectLPAOrZero style.margin availableSpace.width.intoOption
  let scrollbarSize : Size α :=
    { width := if style.overflow.y == .scroll then style.scrollbarWidth else 0
      height := if style.overflow.x == .scroll then style.scrollbarWidth else 0 }
  { order := 0, location := ⟨0, 0⟩, size := out.size, contentSize := out.contentSize, scrollbarSize,
    padding, border, margin }

/-! ### dispatch (taffy_tree.rs l.346–394) -/

/-- which body `TaffyView::compute_child_layout` runs for a node (on a cache miss) -/
inductive Arm where
  /-- l.349–352: hidden run mode, before the cache and before looking at the style -/
  | hiddenMode
  /-- l.374 `(Display::None, _)` -/
  | displayNone
  | block | flex | grid
  /-- l.381 `(_, false)`: the only arm that builds and passes the measure closure -/
  | leaf
deriving Repr, BEq, DecidableEq, Inhabited

def dispatchArm (runMode : RunMode) (display : Display) (hasChildren : Bool) : Arm :=
  if runMode == .performHiddenLayout then .hiddenMode
  else match display, hasChildren with
    | .none, _ => .displayNone
    | .block, true => .block
    | .flex, true => .flex
    | .grid, true => .grid
    | _, false => .leaf

/-- the measure closure of l.386–388 for the harness' measure function: a node without context measures as zero -/
def ctxMeasure (ctx : Option (MeasureSpec α)) (known : Size (Option α)) (avail : Size (AvailableSpace α)) : Size α :=
  match ctx with
  | some c => c.measure known avail
  | none => Size.zero

/-- `compute_child_layout` for a *childless* node with an empty cache: output, the unrounded layout that
`compute_hidden_layout` stores for the node (if that arm runs), and the measure calls.  `measure` is the closure of
l.386–388 (the user's measure function applied to this node). -/
def computeChildLayoutChildless (style : Style α) (measure : Size (Option α) → Size (AvailableSpace α) → Size α)
    (input : LayoutInput α) : Traced α (LayoutOutput α × Option (Layout α)) :=
  match dispatchArm input.runMode style.display false with
  | .hiddenMode | .displayNone =>
    -- compute_hidden_layout: cache cleared, `Layout::with_order(0)` stored, no children to visit
    .ok ((LayoutOutput.hidden, some (Layout.withOrder 0)), [])
  | .leaf =>
    match computeLeafLayout input style measure with
    | .ok (out, calls) => .ok ((out, none), calls)
    | .error e => .error e
  | .block | .flex | .grid =>
    -- unreachable for hasChildren = false (`C19.dispatch_childless`); kept total
    .ok ((LayoutOutput.hidden, none), [])

/-- `TaffyTree::compute_layout_with_measure(root, available_space, measure)` with rounding disabled, for a tree that
is one childless node: the root's unrounded layout and the measure calls, in order. -/
def layoutSingleLeafWith (style : Style α) (measure : Size (Option α) → Size (AvailableSpace α) → Size α)
    (availableSpace : Size (AvailableSpace α)) : Traced α (Layout α) :=
  match computeChildLayoutChildless style measure (rootInput style availableSpace) with
  | .ok ((out, _), calls) =>
    -- the root's layout is written last (l.138), overwriting what the hidden arm stored
    .ok (rootLayout style availableSpace out, calls)
  | .error e => .error e

/-- the same with the harness' measure function (node context `ctx`) -/
def layoutSingleLeaf (style : Style α) (ctx : Option (MeasureSpec α)) (availableSpace : Size (AvailableSpace α)) :
    Traced α (Layout α) :=
  layoutSingleLeafWith style (ctxMeasure ctx) availableSpace

end RootModel
