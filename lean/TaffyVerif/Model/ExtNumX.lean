/-
  `f32::is_normal` at the extended numbers `ER` (the `NumX` extension of Model/FlexLine.lean): neither zero, subnormal,
  infinite nor NaN — over `ER` (no subnormals: finite arithmetic is exact): a finite non-zero number.
-/
import TaffyVerif.Model.ExtNum
import TaffyVerif.Model.FlexLine

instance : FlexLine.NumX ER := ⟨fun x => match x with | .fin q => decide (q ≠ 0) | _ => false⟩

/-- agrees with `Float32` on the special values of Model/ExtNum.lean's table -/
def ER.Sanity.isNormalCheck : Bool :=
  ER.Sanity.table.all fun a => FlexLine.NumX.isNormal a == FlexLine.NumX.isNormal (ER.Sanity.toF a)

#guard ER.Sanity.isNormalCheck
